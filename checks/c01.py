"""C01 - distributed lock: at most one holder at any instant."""
from vcheck import Check, parallel
import lock_common as lk

FLAGS = {"CheckMutex": True, "CheckResidue": False}


def run(tier):
    c = Check("C01", tier)
    c.build()
    if c.quick():
        emits = [("lockA", lk.consts("two")), ("lockB", lk.consts("shared"))]
        checks = [("lock-2p-2calls", lk.consts("two", calls=2)), ("lock-3p", lk.consts("three"))]
        nrand, nstress, nstress_redis = 300, 20, 4
    else:
        emits = [("lockA", lk.consts("two")), ("lockB", lk.consts("shared")),
                 ("lockC", lk.consts("three", kinds=("lock", "try"), cancels=0, shutdown=False)),
                 ("lockD", lk.consts("two", kinds=("lock", "try"), calls=2, faults=2, cancels=0, shutdown=False))]
        checks = [("lock-2p-2calls", lk.consts("two", calls=2, faults=2)), ("lock-shared-2calls", lk.consts("shared", calls=2, faults=2)),
                  ("lock-3p-2calls", lk.consts("three", kinds=("lock", "try"), calls=2, cancels=0, shutdown=False))]
        nrand, nstress, nstress_redis = 3000, 200, 30
    jobs = [lambda n=n, cs=cs: lk.model_emit(c, n, cs) for n, cs in emits] + \
           [lambda n=n, cs=cs: lk.model_check(c, n, cs) for n, cs in checks] + [lambda: lk.model_late_delete(c)]
    res = parallel(jobs, max_workers=3)
    for (n, _), e in zip(emits, res):
        out, st = lk.drive(c, "schedules", n, infile=e)
        lk.validate(c, out, FLAGS, n)
        if n == "lockB":
            # the same schedules with the Redis backend (polling waiters, non-atomic Create) behind the gates
            out, st = lk.drive(c, "schedules", n + "-redis", infile=e, variant="redis", workers=64)
            lk.validate(c, out, FLAGS, n + "-redis")
    out, _ = lk.drive(c, "random", "random", n=nrand)
    lk.validate(c, out, FLAGS, "random")
    out, _ = lk.drive(c, "stress", "stress-inmem", n=nstress)
    lk.validate(c, out, FLAGS, "stress-inmem", chunks=1)
    out, _ = lk.drive(c, "stress", "stress-redis", variant="redis", n=nstress_redis)
    lk.validate(c, out, FLAGS, "stress-redis", chunks=1)
    out, _ = lk.drive(c, "rawstress", "rawstress", n=8 if c.quick() else 80)
    lk.validate(c, out, FLAGS, "rawstress", chunks=1)
    # a record left behind by a lost Delete request, found again by the same Locker; a take-over write is held back
    out, _ = lk.drive(c, "orphan", "orphan")
    lk.validate(c, out, FLAGS, "orphan", chunks=1)
    # the recorded finding: a release that reaches the store after the lease ran out
    out, _ = lk.drive(c, "latedelete", "latedelete")
    lk.validate(c, out, FLAGS, "latedelete", chunks=1)
    lease_handoff(c)
    c.assumptions += ["leases of live holders are renewed before they run out (lease set to 1 h; time plays no role) - except in the real-time "
                      "hand-off scenarios (leases 200-400 ms), where the library's own renewal has to keep the new holder's record alive",
                      "a release reaches the store within the remaining lease, except in the directed late-delete history (known finding)",
                      "acq is logged after the acquiring call returned and rel before Unlock is invoked: a logged overlap is a real one"]
    return c.finish(rule="schedules = command histories of every transition of KvLock.tla (2 callers on 2 lockers, 2 callers sharing a locker"
                         "%s; Lock/TryLock/LockWithCtx, cancellation, shutdown, request-lost and reply-lost faults on Create/Delete/Wait, lease "
                         "expiry of unowned records) played on real kvsLock objects over a gated facade of a real in-memory store, plus seeded "
                         "random schedules on 2-4 callers, ungated stress on the in-memory and Redis(miniredis) backends and 2-6 callers spinning on "
                         "TryLock/Unlock of providers that sit directly on the store (real parallelism inside the storage calls); every recorded "
                         "history validated by TLC against LockTrace.tla with mutual exclusion enforced"
                         % ("" if c.quick() else ", 3 callers"))


def lease_handoff(c):
    """Mutual exclusion under REAL leases: a caller that waited most of a lease period for the lock acquires it and holds for two
    periods while a contender polls TryLock (timed events validated by LeaseTrace.tla; stalled runs are repeated, never judged)."""
    import json
    import c05
    out = c.path("trace", "lease-handoff.ndjson")
    c.run_vh(["drive", "lease", "-seed", c.seed, "-out", out, "-x", "mode=handoff", "-x", "tier=" + c.tier], timeout=900)
    c.extra["lease_handoff_runs"] = json.load(open(out + ".stats"))
    before = len(c.violations)
    c05.validate(c, out, "handoff")
    for v in c.violations[before:]:
        v["sig"] = "lock: the lease of a holder that had waited for the lock lapsed while it held it / another caller acquired (real-time hand-off)"
