"""C02 - KV storage: atomic operations, single CAS winner, fresh versions.

code -> spec: `vh drive kvlin` records concurrent histories (2..4 goroutines, real
concurrency, plus "all fire at once" Create/Create, CAS/CAS, Delete/CAS and Put/CAS
races) of the in-memory store and of the Redis client over an in-process miniredis;
TLC decides for every history whether it is linearizable with respect to the
sequential contract KvStore!Apply (spec/kv/KvLinTrace.tla).  A history TLC cannot
linearize is the verdict.
design level: spec/kv/RedisImpl.tla models the Redis backend as the server
round-trips it performs; TLC checks for 2..3 clients that every interleaving is
linearizable (refinement with fixed linearization points) and that the defects
repaired in /repo are found when re-introduced into the model (negative controls).
"""
import json
import os

import vcheck
from vcheck import Check, parallel

ALL_OPS = ("Create", "Get", "Put", "Delete", "Cas", "GetMany", "PutMany")
IMPL_INVS = ["RefMap", "LinOK", "AtMostOneCreator", "ExactlyOneCreator", "CasOncePerVer", "FreshVersions",
             "DocumentedOutcome"]


def sset(xs):
    return "{" + ", ".join('"%s"' % x for x in xs) + "}"


def impl_consts(clients, keys, maxops, ops=ALL_OPS, bug="none"):
    return {"Clients": "{" + ", ".join("c%d" % i for i in range(1, clients + 1)) + "}",
            "RKeys": sset(keys), "MaxOps": maxops, "Ops": sset(ops), "Bug": '"%s"' % bug}


def model_jobs(c):
    """(name, constants, workers) of the RedisImpl model-checking runs of this tier."""
    if c.quick():
        return [("redisimpl-2c-1key-2ops", impl_consts(2, ["a"], 2), 4),
                ("redisimpl-3c-1key-1op-races", impl_consts(3, ["a"], 1, ("Create", "Put", "Delete", "Cas")), 2),
                ("redisimpl-2c-2keys-many", impl_consts(2, ["a", "b"], 2, ("Get", "Cas", "GetMany", "PutMany")), 4)]
    return [("redisimpl-2c-2keys-2ops", impl_consts(2, ["a", "b"], 2), 4),
            ("redisimpl-3c-2keys-1op", impl_consts(3, ["a", "b"], 1), 3),
            ("redisimpl-3c-1key-2ops-races", impl_consts(3, ["a"], 2, ("Create", "Delete", "Cas")), 6)]


def run_model(c, name, cs, workers):
    cfg = c.write_cfg("kv", name, constants=cs, invariants=IMPL_INVS, symmetry="Symm")
    return c.tlc("kv", "RedisImpl", cfg, workers=workers, timeout=1500, label=name)


def negative_controls(c):
    """The model must be able to fail: each re-introduced defect has to violate an invariant."""
    out = {}

    def one(bug):
        cfg = c.write_cfg("kv", "redisimpl-bug-" + bug, constants=impl_consts(2, ["a"], 2, bug=bug),
                          invariants=IMPL_INVS, symmetry="Symm")
        r = c.tlc("kv", "RedisImpl", cfg, workers=2, timeout=600, label="negctl-" + bug, count=False, expect_ok=False)
        if r["ok"] or "is violated" not in (r["error"] or ""):
            raise vcheck.Broken("SPEC-ERROR: RedisImpl with Bug=%s was not rejected by TLC (%s)" % (bug, r["error"]))
        out[bug] = r["error"].split(";")[0].replace("Error: ", "")
    parallel([lambda b=b: one(b) for b in ("cas_no_retry", "mset_keeps_version", "create_set", "cas_no_watch")],
             max_workers=4)
    return out


# ------------------------------------------------------------------ code -> spec
def lin_cfg(c):
    """The one configuration of the trace spec (written once: validations run in parallel)."""
    with c._lock:
        if not getattr(c, "_lin_cfg", None):
            c._lin_cfg = c.write_cfg("kv", "KvLinTrace", constants={"LinKeys": sset(["a", "b"]), "MaxT": 4},
                                     constraints=["Explore"], postcondition="Accepted")
        return c._lin_cfg


def split_histories(path):
    """-> list of histories, each a list of ndjson lines starting with its reset line."""
    hs = []
    for ln in open(path).read().splitlines():
        if not ln:
            continue
        if '"e":"reset"' in ln or not hs:
            hs.append([])
        hs[-1].append(ln)
    return hs


def describe(hist, idx):
    """Stable signature of the event a history was rejected at (idx: 0-based index into hist)."""
    idx = min(idx, len(hist) - 1)
    ev = json.loads(hist[idx])
    op = "?"
    if ev.get("e") == "ret":
        for j in range(idx - 1, -1, -1):
            e2 = json.loads(hist[j])
            if e2.get("e") == "inv" and e2.get("t") == ev.get("t"):
                op = e2.get("op")
                break
        err = str(ev.get("err"))
        if err.startswith("other"):
            return "%s returned an undocumented outcome (%s)" % (op, err[:80])
        return "history not linearizable at the reply of %s (err=%s)" % (op, err)
    return "history not linearizable at %s %s" % (ev.get("e"), ev.get("op", ""))


def validate_chunk(c, variant, name, hists):
    """Validate a list of histories with one TLC run; on a rejection record the offending history and
    go on with the ones after it (a few times).  Returns the number of histories accepted."""
    accepted = 0
    rounds = 0
    while hists:
        p = c.path("trace", "%s-%d.ndjson" % (name, rounds))
        with open(p, "w") as f:
            for h in hists:
                f.write("\n".join(h) + "\n")
        cfg = lin_cfg(c)
        ok, at, res = c.validate_trace("kv", "KvLinTrace", cfg, p, workers=1, deque=True, timeout=1500,
                                       label="%s-r%d" % (name, rounds))
        if ok:
            accepted += len(hists)
            break
        n = 0
        for i, h in enumerate(hists):
            if at <= n + len(h):
                sig = "kvlin %s: %s" % (variant, describe(h, at - n - 1))
                c.report_failure(sig, {"variant": variant, "rejected_at_event": at - n, "history": h})
                accepted += i
                hists = hists[i + 1:]
                break
            n += len(h)
        else:
            raise vcheck.Broken("trace validation rejected line %d beyond the trace" % at)
        rounds += 1
        if rounds >= 4:
            break
    return accepted


def drive(c, variant, n, seed):
    out = c.path("trace", "kvlin-%s-%d.ndjson" % (variant, seed))
    p = c.run_vh(["drive", "kvlin", "-variant", variant, "-seed", seed, "-n", n, "-out", out], timeout=900)
    stats = json.loads(p.stdout.strip().splitlines()[-1])
    return out, stats


def drive_and_validate(c, variant, n, chunks):
    trace, stats = drive(c, variant, n, c.seed)
    hists = split_histories(trace)
    per = (len(hists) + chunks - 1) // chunks
    parts = [hists[i:i + per] for i in range(0, len(hists), per)]
    acc = parallel([lambda i=i, part=part: validate_chunk(c, variant, "kvlin-%s-c%d" % (variant, i), part)
                    for i, part in enumerate(parts)], max_workers=chunks)
    with c._lock:
        c.traces_validated += sum(acc)
        c.extra.setdefault("histories", {})[variant] = stats
        if len(c.samples) < 4:
            c.samples.append({"kind": "recorded concurrent history (%s) accepted as linearizable by KvLinTrace.tla" % variant,
                              "events": hists[len(hists) // 2][:40]})
    return hists


# --------------------------------------------------------------------- selftest
def selftest(c, hists):
    """Binding demonstration on a good recorded history: (1) turn a CAS loser into a second winner of the
    same version, (2) let a CAS winner report the old version as the new one.  TLC must reject at that reply."""
    res = {"ran": False}
    flips = []
    for h in hists:
        evs = [json.loads(x) for x in h]
        pend, win = {}, {}
        for i, e in enumerate(evs):
            if e["e"] == "inv":
                pend[e["t"]] = (i, e)
            elif e["e"] == "ret":
                ii, cc = pend[e["t"]]
                if cc["op"] != "Cas":
                    continue
                if e["err"] == "nil":
                    win[(cc["k"], cc["arg"])] = i
                    if len(flips) == 1 and flips[0][0] == "second-winner" and cc["arg"] > 0:
                        e2 = dict(e, ver=cc["arg"])
                        flips.append(("version-unchanged", h, i, ii, e2))
                elif e["err"] == "conflict" and (cc["k"], cc["arg"]) in win and not flips:
                    e2 = dict(e, err="nil", ver=9999, val="" if cc["val"] in ("nil", "empty") else cc["val"])
                    flips.append(("second-winner", h, i, ii, e2))
        if len(flips) == 2:
            break
    if len(flips) < 2:
        c.selftest = res
        return
    res = {"ran": True, "cases": []}

    def one(what, h, i, ii, e2):
        h2 = list(h)
        h2[i] = json.dumps(e2, separators=(",", ":"))
        p = c.path("trace", "selftest-%s.ndjson" % what)
        open(p, "w").write("\n".join(h2) + "\n")
        cfg = lin_cfg(c)
        ok, at, _ = c.validate_trace("kv", "KvLinTrace", cfg, p, workers=1, deque=True, label="selftest-" + what)
        good = (not ok) and (at == i + 1 if what == "second-winner" else ii + 1 < at <= i + 1)
        return {"corruption": what, "corrupted_line": i + 1, "rejected_at_line": at, "detected": good}

    res["cases"] = parallel([lambda f=f: one(*f) for f in flips], max_workers=2)
    c.selftest = res
    bad = [x for x in res["cases"] if not x["detected"]]
    if bad:
        raise vcheck.Broken("selftest: corrupted history was not rejected at the corrupted reply: %s" % bad)
    res["detected"] = True
    c.selftest = res


def run(tier):
    c = Check("C02", tier)
    c.build()
    # histories per backend / TLC validation runs per backend (in-memory histories are cheap on both sides and
    # its races have windows of nanoseconds: more of them)
    n = {"inmem": 1200, "redis": 500} if c.quick() else {"inmem": 6000, "redis": 3000}
    chunks = {"inmem": 4, "redis": 3} if c.quick() else {"inmem": 5, "redis": 5}
    results = {}

    def models():
        jobs = model_jobs(c)
        parallel([lambda j=j: run_model(c, *j) for j in jobs], max_workers=len(jobs))
        results["negctl"] = negative_controls(c)

    def traces(variant):
        results[variant] = drive_and_validate(c, variant, n[variant], chunks[variant])

    parallel([models, lambda: traces("inmem"), lambda: traces("redis")], max_workers=3)
    c.exhaustive = False
    c.extra["redisimpl_negative_controls"] = results["negctl"]
    if not c.violations:
        selftest(c, results["redis"] + results["inmem"])
    c.assumptions += [
        "a thread draws a global sequence number (atomic counter) immediately before the call and another one immediately "
        "after it returned; events are ordered by these numbers: the logged interval contains the real one, so a history "
        "TLC cannot linearize is not linearizable",
        "version strings are opaque: compared only for identity and freshness (ids by first appearance in the log)",
        "GetMany/PutMany: one linearization point per entry, in any order inside the call (no PutMany with a repeated key)",
        "expirations are absent or one hour away (expiry is C06); value nil == empty",
        "Redis = in-process miniredis; RedisImpl.tla assumes ULIDs of different clients never collide",
    ]
    # many concurrent readers on records that expire under their hands (own process: the failure mode is a Go runtime
    # fatal error - a map written under a read lock -, which nothing can recover)
    rt = c.path("trace", "kvreaders.ndjson")
    if c.run_vh_crashcheck(["drive", "kvreaders", "-seed", c.seed, "-out", rt],
                           "kvlin: concurrent readers on expiring records / sixteen concurrent writers took the process down",
                           timeout=300) is not None:
        cfg = c.write_cfg("kv", "WideTrace", postcondition="Accepted")
        ok, at, _ = c.validate_trace("kv", "WideTrace", cfg, rt, label="WideTrace-fresh")
        if ok:
            c.traces_validated += 1
        else:
            ev = json.loads(open(rt).read().splitlines()[at - 1])
            if ev.get("op") == "OverDead":
                c.report_failure("kv: a successful Put was lost when a read of the dead record it replaced ran at the same instant (in-memory)",
                                 {"rejected_at_line": at, "event": ev})
                return c.finish(rule="see DESIGN.md C02")
            c.report_failure("kv: a version was handed out twice (or a write failed) under sixteen concurrent writers (%s)" % ev.get("backend"),
                             {"rejected_at_line": at, "event": ev})
    return c.finish(rule="every recorded concurrent history (%d in-memory, %d Redis: 2-4 goroutines x 3-6 calls (read-CAS chains: "
                         "up to 6 rounds) over 2 keys, random mixes of Create/Get/Put/CasByVersion/Delete/GetMany/PutMany, unsynchronised "
                         "read-CAS / Put / Delete-Create chains and all-fire-at-once Create/Create, CAS/CAS, Delete/CAS, Put/CAS races "
                         "with CAS arguments the thread really observed; in-memory store and Redis client(s), shared or one per "
                         "goroutine, over miniredis) must be accepted by KvLinTrace.tla, i.e. TLC must find linearization points inside the call "
                         "intervals under which KvStore!Apply gives exactly the logged replies (error class, value, version identity, "
                         "fresh version on every successful write); RedisImpl.tla (round-trip model of redis.go) model-checked for "
                         "2-3 clients with 4 negative controls" % (n["inmem"], n["redis"]))
