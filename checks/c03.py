"""C03 - KV backends implement one and the same sequential contract."""
from vcheck import Check, parallel
import kv_common as kv


def run(tier):
    c = Check("C03", tier)
    c.build()
    if c.quick():
        jobs = [("kv-q-2keys", kv.consts())]
    else:
        jobs = [("kv-t-2keys", kv.consts(invals=("nil", "empty", "x", "y"), exps=("none", "s1", "long"))),
                ("kv-t-3keys", kv.consts(keys="Keys3", invals=("empty", "x"), exps=("none", "long"), many=3, pats="Pats5"))]
    emits = parallel([lambda n=n, cs=cs: kv.emit(c, n, cs, workers=6, timeout=1500) for n, cs in jobs], max_workers=3)
    c.exhaustive = True
    sims = []
    n, d = (25, 25) if c.quick() else (120, 40)
    sims.append(kv.simulate(c, "kv-sim", kv.consts(keys="Keys3", invals=("nil", "empty", "x", "y"), exps=("none", "long"), many=2), n, d))
    kv.replay_both(c, emits + sims)
    # keys that differ only by a trailing '/', patterns ending in '/', records that never expire (year 9999) or are
    # already expired when written
    es = kv.emit(c, "kv-slash", kv.consts(keys="KeysT", pats="PatsT", invals=("x",), exps=("none", "far", "past"), many=2), workers=6)
    kv.replay_both(c, [es])
    # the rest of the documented pattern syntax: alternatives and negated classes (gobwas only: in-memory backend),
    # plain classes (both backends)
    eg = kv.emit(c, "kv-glob", kv.consts(keys="Keys3", pats="PatsG", invals=("x",), exps=("none",), many=1), workers=6)
    c.replay("kv", eg, variant="inmem", extra={"tick_ms": 30})
    ec = kv.emit(c, "kv-class", kv.consts(keys="Keys3", pats="PatsC", invals=("x",), exps=("none",), many=1), workers=6)
    kv.replay_both(c, [ec])
    # a key that contains '*', escaped metacharacters in patterns, and the empty key (both backends)
    ee = kv.emit(c, "kv-escape", kv.consts(keys="KeysS", pats="PatsS", invals=("x",), exps=("none",), many=1), workers=6)
    kv.replay_both(c, [ee])
    # the same contract with time, on the Redis backend only (virtual clock, so it is cheap): what a write
    # stored - including the TTL the server keeps for it - is observed after time has passed
    et = kv.emit(c, "kv-time-redis", kv.consts(pats="Pats2", invals=("x",), exps=("none", "s1", "s3"), maxnow=4), workers=6)
    c.replay("kv", et, variant="redis", timeout=2400)
    wide(c)
    if not c.quick():
        selftest(c, emits[0])
    c.assumptions += ["keys without a leading '/' (the Redis client strips leading slashes; not part of the stated contract)",
                      "value bytes nil == empty; expiry compared with time.Equal; ListKeys order unspecified (compared as sets)",
                      "version strings are only required to be fresh and to identify the stored record",
                      "patterns with {alternatives} or [!negated] classes (gobwas syntax, which kvs.go refers to) are replayed on the in-memory "
                      "backend only: the Redis client hands the pattern to the server's own matcher, which has no alternatives and spells "
                      "negation differently"]
    return c.finish(rule="one behaviour per edge of the KvStore.tla state graph (2-3 keys incl. one with '/', nil/empty/non-empty values, "
                         "records with and without expiry, GetMany/PutMany with repeated keys, CAS with current/stale/unknown version, "
                         "ListKeys over 6 glob patterns + alternatives and character classes, non-blocking WaitForVersionChange) plus TLC-simulated long behaviours, each "
                         "replayed on a fresh inmem.New() and on the Redis client over a fresh in-process miniredis; every reply "
                         "compared with the contract's (error class via errors.Is, record fields, version identity/freshness, key set)")


def selftest(c, emitted):
    """Binding demonstration: flip one prescribed reply of a good behaviour; the replay must fail on it."""
    import json
    import vcheck
    lines = open(emitted).read().splitlines()
    for ln in lines:
        b = json.loads(json.loads(ln)) if ln.startswith('"') else json.loads(ln)
        if len(b) >= 3 and b[-1].get("op") == "Delete" and b[-1].get("err") == "nil":
            b[-1]["err"] = "notexist"
            p = c.path("emit", "selftest.ndjson")
            open(p, "w").write(json.dumps(b) + "\n")
            before = len(c.violations)
            c.replay("kv", p, variant="inmem")
            hit = len(c.violations) > before
            del c.violations[before:]
            c.behaviours_replayed -= 1
            c.selftest = {"ran": True, "corrupted": "Delete reply nil -> notexist", "detected": hit}
            if not hit:
                raise vcheck.Broken("selftest: corrupted behaviour was not rejected by the replay")
            return
    c.selftest = {"ran": False}


def wide(c):
    """GetMany / PutMany with up to 1000 keys in one call, on both backends (validated by WideTrace.tla)."""
    import json
    for variant in ("inmem", "redis"):
        trace = c.path("trace", "kvwide-%s.ndjson" % variant)
        c.run_vh(["drive", "kvwide", "-seed", c.seed, "-out", trace, "-variant", variant], timeout=600)
        cfg = c.write_cfg("kv", "WideTrace", postcondition="Accepted")
        ok, at, _ = c.validate_trace("kv", "WideTrace", cfg, trace, label="WideTrace-" + variant)
        if ok:
            c.traces_validated += 1
            continue
        ev = json.loads(open(trace).read().splitlines()[at - 1])
        if ev.get("op") == "ManyPatterns":
            c.report_failure("kv: ListKeys answered wrongly after one storage had served hundreds of distinct patterns (%s%s)" % (variant, ", SCAN answered a few keys at a time" if variant == "redis" else ""),
                             {"rejected_at_line": at, "event": ev})
            continue
        bad = [s for s in ev.get("slots", []) if s[0] != s[1] or (s[0] == 1 and s[2] != s[3])][:5]
        c.report_failure("kv: GetMany with %s keys after one PutMany (%s): a slot does not hold the record of the requested key" % (
                         "more than 64" if ev.get("n", 0) > 64 else "few", variant),
                         {"rejected_at_line": at, "n": ev.get("n"), "putmany_records": ev.get("batch"), "first_expiration_at_index": ev.get("exp_from"), "err": ev.get("err"), "len": ev.get("len"), "first_bad_slots": bad})
