"""C04 - distributed lock: hand-off, cancellation and shutdown leave no residue."""
from vcheck import Check, parallel
import lock_common as lk

FLAGS = {"CheckMutex": False, "CheckResidue": True}


def run(tier):
    c = Check("C04", tier)
    c.build()
    if c.quick():
        emits = [("lockA", lk.consts("two")), ("lockB", lk.consts("shared"))]
        checks = [("lock-3p", lk.consts("three"))]
        live = [("live-two", lk.consts("two", kinds=("lock", "ctx"), shutdown=False)),
                ("live-shared", lk.consts("shared", kinds=("lock", "ctx"), shutdown=False))]
        nrand = 300
    else:
        emits = [("lockA", lk.consts("two")), ("lockB", lk.consts("shared")),
                 ("lockC", lk.consts("three", kinds=("lock", "ctx"), faults=0)),
                 ("lockE", lk.consts("shared", kinds=("lock", "ctx", "try"), calls=2, faults=0, cancels=1, shutdown=False))]
        checks = [("lock-2p-2calls", lk.consts("two", calls=2, faults=2, cancels=2)),
                  ("lock-shared-2calls", lk.consts("shared", calls=2, faults=2, cancels=2))]
        live = [("live-two", lk.consts("two", kinds=("lock", "ctx"), calls=2, shutdown=False)),
                ("live-shared", lk.consts("shared", kinds=("lock", "ctx"), calls=2, shutdown=False)),
                ("live-three", lk.consts("three", kinds=("lock", "ctx"), shutdown=False))]
        nrand = 3000
    jobs = [lambda n=n, cs=cs: lk.model_emit(c, n, cs) for n, cs in emits] + \
           [lambda n=n, cs=cs: lk.model_check(c, n, cs) for n, cs in checks] + \
           [lambda n=n, cs=cs: lk.model_liveness(c, n, cs) for n, cs in live]
    res = parallel(jobs, max_workers=3)
    for (n, _), e in zip(emits, res):
        out, st = lk.drive(c, "schedules", n, infile=e)
        lk.validate(c, out, FLAGS, n)
        if n == "lockB":
            # the same schedules with the Redis backend (polling waiters, non-atomic Create) behind the gates
            out, st = lk.drive(c, "schedules", n + "-redis", infile=e, variant="redis", workers=64)
            lk.validate(c, out, FLAGS, n + "-redis")
    out, _ = lk.drive(c, "random", "random", n=nrand)
    lk.validate(c, out, FLAGS, "random")
    out, _ = lk.drive(c, "stress", "stress-inmem", n=10 if c.quick() else 100)
    lk.validate(c, out, FLAGS, "stress-inmem", chunks=1)
    lease_stale(c)
    c.assumptions += ["'after Shutdown' applies to calls invoked after Shutdown returned; calls already parked in the storage wait are not constrained",
                      "a stuck verdict needs 4 s without any progress while nothing is held, pending or expirable",
                      "a record may remain after a lost request/reply (it expires with its lease); without faults none may remain"]
    return c.finish(rule="same schedules as C01 (every transition of KvLock.tla incl. cancellation before / during the token wait / during the "
                         "storage wait, shutdown, faults) played on real kvsLock objects; after each schedule the harness drains (holders unlock, "
                         "pending calls granted, unowned records expire), requires every blocked caller to finish, reads the record from the "
                         "backing store and probes every locker with TryLock/Unlock; LockTrace.tla enforces return values, no acquisition after "
                         "cancellation/Shutdown, no residue, no stuck caller; TLC also checks Progress (blocked ~> holding or left) under fairness")


def lease_stale(c):
    """No residue under REAL leases: a renewal of a finished tenure that is still in flight (or fails) while the same Locker is
    used again must leave nothing behind - the re-acquisition succeeds, and in the end the lock is free (timed events validated
    by LeaseTrace.tla; stalled runs are repeated, never judged)."""
    import json
    import c05
    out = c.path("trace", "lease-stale.ndjson")
    c.run_vh(["drive", "lease", "-seed", c.seed, "-out", out, "-x", "mode=stale", "-x", "tier=" + c.tier], timeout=900)
    c.extra["lease_stale_runs"] = json.load(open(out + ".stats"))
    before = len(c.violations)
    c05.validate(c, out, "stale", gone=True)
    for v in c.violations[before:]:
        v["sig"] = "lock: a renewal of a finished tenure left something behind (re-acquisition through the same Locker failed, the lock " \
                   "is not free in the end, the record outlived Unlock, or the next holder's record was disturbed) [real-time]"
