"""C05 - distributed lock: the lease is kept while held and lapses after holder death."""
import json
import os
import vcheck
from vcheck import Check, parallel
import lock_common as lk

SLACK_US = 1500000


def run(tier):
    c = Check("C05", tier)
    c.build()
    model(c)
    out = c.path("trace", "lease.ndjson")
    c.run_vh(["drive", "lease", "-seed", c.seed, "-out", out, "-x", "tier=" + tier], timeout=1500)
    st = json.load(open(out + ".stats"))
    c.extra["lease_runs"] = st
    validate(c, out, "lease")
    # the recorded finding: a renewal whose reply is lost
    out2 = c.path("trace", "lease-replylost.ndjson")
    c.run_vh(["drive", "lease", "-seed", c.seed, "-out", out2, "-x", "mode=replylost"], timeout=600)
    validate(c, out2, "replylost")
    if not c.quick():
        selftest(c, out)
    c.assumptions += ["real clock; leases 200-400 ms (thorough 150 ms - 1.5 s); a scenario during which the stall detector (2 ms loop) saw an "
                      "overshoot above lease/8 is repeated and, after 3 attempts, not judged",
                      "'by then' bounds are one-sided with a slack of 1.5 s",
                      "holder death = from the death instant every storage call of that caller is lost and Unlock is never called",
                      "a renewal whose reply is lost is outside what the protocol can recover (known finding F-C05-reply-lost)"]
    return c.finish(rule="timed scenarios on real kvsLock objects over a recording facade of a real in-memory store: hold for 5-11 lease "
                         "periods with a polling contender and store probes; a request-lost error on the k-th renewal for k=1..5; holder "
                         "death at 8 phases of the renewal cycle with a waiter blocked in LockWithCtx; Unlock landing around the instant a "
                         "renewal fires (8 offsets); each timed event log validated by TLC against LeaseTrace.tla; the renewal chain itself "
                         "(arm at TTL/2, CAS, re-arm, retry after a transient error, Unlock racing a renewal in flight) is model-checked in "
                         "KvLease.tla")


def model(c):
    """Design level: the renewal chain with a discrete clock."""
    if not os.path.exists(os.path.join(vcheck.VERIF, "spec", "lock", "KvLease.tla")):
        return
    jobs = []
    for name, cs in (("lease-faults1", dict(MaxFaults=1, MaxTenures=2, FaultKinds='{"lost"}', WithDeath=True)),
                     ("lease-faults3", dict(MaxFaults=3, MaxTenures=2, FaultKinds='{"lost"}', WithDeath=False)),
                     ("lease-3tenures", dict(MaxFaults=1, MaxTenures=3, FaultKinds='{"lost"}', WithDeath=False))):
        def job(name=name, cs=cs):
            cfg = c.write_cfg("lock", name, constants=cs, invariants=["NeverExpiresWhileHeld", "DeadRecordGone", "RenewalDiesOut", "TypeOK"],
                              view="View")
            c.tlc("lock", "KvLease", cfg, workers=6, timeout=1500, label=name)
        jobs.append(job)

    def replylost():
        cfg = c.write_cfg("lock", "lease-replylost", constants=dict(MaxFaults=1, MaxTenures=1, FaultKinds='{"replylost"}', WithDeath=False),
                          invariants=["NeverExpiresStrict"], view="View")
        r = c.tlc("lock", "KvLease", cfg, workers=4, timeout=600, label="lease-replylost", expect_ok=False, count=False)
        c.extra["reply_lost_model"] = ("TLC finds the expiry under a live holder after a reply-lost renewal" if not r["ok"]
                                       else "no counterexample (unexpected)")
    jobs.append(replylost)
    parallel(jobs, max_workers=3)


def validate(c, path, name, gone=False):
    """gone: also enforce (d) of LeaseTrace.tla - the record is gone once the holder's Unlock returned (property C04)."""
    blocks = lk.split_blocks(path)
    cfg = c.write_cfg("lock", "LeaseTrace" + ("_gone" if gone else ""), constants={"Slack": SLACK_US, "CheckGone": gone}, postcondition="Accepted")
    part = blocks
    for attempt in range(10):
        if not part:
            break
        p = c.path("trace", "%s-%d.ndjson" % (name, attempt))
        with open(p, "w") as f:
            for b in part:
                f.write("\n".join(b) + "\n")
        ok, at, _ = c.validate_trace("lock", "LeaseTrace", cfg, p, timeout=900, label="LeaseTrace-" + name)
        if ok:
            break
        acc = 0
        for bi, b in enumerate(part):
            if acc + len(b) >= at:
                report(c, b, at - acc, gone)
                part = part[:bi] + part[bi + 1:]
                break
            acc += len(b)
    c.traces_validated += len(part)
    if blocks and len(c.samples) < 4:
        c.samples.append({"kind": "timed lease history (%s) validated by LeaseTrace.tla" % name, "events": blocks[0][:16]})


def report(c, block, idx, gone=False):
    ev = json.loads(block[idx - 1])
    head = json.loads(block[0])
    replylost = any('"res":"replylost"' in ln for ln in block[:idx])
    died = any('"e":"die"' in ln for ln in block[:idx])
    unlocked = any('"e":"unlocked","p":1' in ln.replace(" ", "") for ln in block[:idx])
    e = ev.get("e")
    if died:
        sig = "lease: after the holder died the record did not lapse / the waiter did not acquire within a lease period (+slack) [%s]" % e
    elif unlocked and e == "cas":
        sig = "lease: renewal did not die out after Unlock (a second renewal call reached the store, or one succeeded)"
    elif e in ("cas", "probe", "try", "wacq", "create"):
        sig = "lease: the record of a live holder was lost or another caller acquired while it was held [%s]" % e
    else:
        sig = "lease: event %s not allowed by the contract" % e
    if replylost:
        sig = "lease: the record of a live holder expired after the REPLY of a renewal was lost (the holder cannot learn the new version)"
    c.report_failure(sig, {"scenario": head, "rejected_event": ev, "history": block[:idx + 1],
                           "trace": {"comp": "lock", "module": "LeaseTrace", "constants": {"Slack": SLACK_US, "CheckGone": gone}}})


def selftest(c, path):
    blocks = lk.split_blocks(path)
    for b in blocks:
        for i, ln in enumerate(b):
            e = json.loads(ln)
            if e.get("e") == "probe" and e.get("present") and i > 5 and not any('"rel"' in x for x in b[:i]):
                e["present"] = False
                b2 = list(b)
                b2[i] = json.dumps(e, separators=(",", ":"))
                p = c.path("trace", "lease-selftest.ndjson")
                open(p, "w").write("\n".join(b2) + "\n")
                cfg = c.write_cfg("lock", "LeaseTrace", constants={"Slack": SLACK_US, "CheckGone": False}, postcondition="Accepted")
                ok, at, _ = c.validate_trace("lock", "LeaseTrace", cfg, p, label="selftest")
                c.selftest = {"ran": True, "corrupted_line": i + 1, "rejected_at_line": at, "detected": (not ok) and at == i + 1}
                if ok or at != i + 1:
                    raise vcheck.Broken("selftest: corrupted lease trace not rejected at the corrupted line")
                return
    c.selftest = {"ran": False}
