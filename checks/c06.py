"""C06 - an expired record is indistinguishable from a deleted one."""
from vcheck import Check, parallel
import kv_common as kv


def run(tier):
    c = Check("C06", tier)
    c.build()
    if c.quick():
        jobs = [("kv6-q", kv.consts(pats="Pats2", invals=("x",), exps=("none", "s1", "s3"), maxnow=4))]
    else:
        jobs = [("kv6-t", kv.consts(pats="Pats5", invals=("empty", "x"), exps=("none", "s1", "s3", "long"), maxnow=4)),
                ("kv6-t3", kv.consts(keys="Keys3", pats="Pats2", invals=("x",), exps=("none", "s1", "s3"), maxnow=4, many=2))]
    emits = parallel([lambda n=n, cs=cs: kv.emit(c, n, cs, workers=6, timeout=1500) for n, cs in jobs], max_workers=3)
    c.exhaustive = True
    for e in emits:
        c.replay("kv", e, variant="inmem", extra={"tick_ms": 30}, timeout=2400, workers=400)
        c.replay("kv", e, variant="redis", timeout=2400)
    c.assumptions += ["in-memory backend: real clock, 30 ms ticks; calls run at even ticks, expirations sit at odd ticks; a behaviour during "
                      "which the host stalled past its window is re-run with a doubled tick and, after 3 attempts, not judged",
                      "Redis backend: miniredis virtual clock (FastForward), 1 s ticks",
                      "records are written with an expiration in the future (the model never writes an already expired record)"]
    return c.finish(rule="one behaviour per edge of KvStore.tla with Advance enabled (records with no / short / longer expiry written, "
                         "time advanced past some expirations up to twice, every operation kind as the first to touch the expired key) "
                         "replayed on both backends; the contract drops expired records at Advance, so any reply that differs between "
                         "'expired' and 'deleted' is a mismatch")
