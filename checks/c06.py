"""C06 - an expired record is indistinguishable from a deleted one."""
from vcheck import Check, parallel
import kv_common as kv


def run(tier):
    c = Check("C06", tier)
    c.build()
    if c.quick():
        jobs = [("kv6-q", kv.consts(pats="Pats3", invals=("x",), exps=("none", "s1", "s3"), maxnow=4))]
    else:
        jobs = [("kv6-t", kv.consts(pats="Pats5", invals=("empty", "x"), exps=("none", "s1", "s3", "far", "past"), maxnow=4)),
                ("kv6-t3", kv.consts(keys="Keys3", pats="Pats3", invals=("x",), exps=("none", "s1", "s3"), maxnow=4, many=2))]
    emits = parallel([lambda n=n, cs=cs: kv.emit(c, n, cs, workers=6, timeout=1500) for n, cs in jobs], max_workers=3)
    c.exhaustive = True
    for e in emits:
        c.replay("kv", e, variant="inmem", extra={"tick_ms": 30}, timeout=2400, workers=400)
        c.replay("kv", e, variant="redis", timeout=2400)
    # records that "never" expire (year 9999, beyond a 64-bit nanosecond count) must survive time passing
    efar = kv.emit(c, "kv6-far", kv.consts(pats="Pats2", invals=("x",), exps=("none", "far", "past"), maxnow=2), workers=6)
    c.replay("kv", efar, variant="inmem", extra={"tick_ms": 30}, timeout=2400, workers=400)
    c.replay("kv", efar, variant="redis", timeout=2400)
    # fine-grained time on Redis (virtual clock, 100 ms ticks): a record due in 2.3 s must be readable at 2.2 s and gone at
    # 2.4 s, one due in 2.7 s readable at 2.6 s and gone at 2.8 s, whoever wrote it
    ef = kv.emit(c, "kv6-fine", kv.consts(keys="Keys1", pats="Pats2", invals=("x",), exps=("f23", "f27"), maxnow=30, many=1), workers=6)
    c.replay("kv", ef, variant="redis", extra={"redis_tick_ms": 100}, timeout=2400)
    expiry_race(c)
    brief_records(c)
    far_ttl(c)
    over_dead(c)
    c.assumptions += ["in-memory backend: real clock, 30 ms ticks; calls run at even ticks, expirations sit at odd ticks; a behaviour during "
                      "which the host stalled past its window is re-run with a doubled tick and, after 3 attempts, not judged",
                      "Redis backend: miniredis virtual clock (FastForward), 1 s ticks",
                      "records are written with an expiration in the future (the model never writes an already expired record)"]
    return c.finish(rule="one behaviour per edge of KvStore.tla with Advance enabled (records with no / short / longer expiry written, "
                         "time advanced past some expirations up to twice, every operation kind as the first to touch the expired key) "
                         "replayed on both backends; the contract drops expired records at Advance, so any reply that differs between "
                         "'expired' and 'deleted' is a mismatch")


def over_dead(c):
    """A dead record (written already expired, not looked at yet) read - by Get, GetMany, or a ListKeys walking a big store -
    and overwritten with a live record at the same instant: the live record is never dropped (WideTrace OverDead lines)."""
    import json
    trace = c.path("trace", "kvoverdead.ndjson")
    if c.run_vh_crashcheck(["drive", "kvreaders", "-seed", c.seed, "-out", trace, "-x", "only=overdead"],
                           "kv: reads racing writes over dead records took the process down", timeout=300) is None:
        return
    cfg = c.write_cfg("kv", "WideTrace", postcondition="Accepted")
    ok, at, _ = c.validate_trace("kv", "WideTrace", cfg, trace, label="WideTrace-overdead")
    if ok:
        c.traces_validated += 2
        return
    ev = json.loads(open(trace).read().splitlines()[at - 1])
    c.report_failure("kv: a live record written over a dead one was dropped by a read that ran at the same instant (in-memory)",
                     {"rejected_at_line": at, "event": ev})


def far_ttl(c):
    """Expirations days, weeks, years and a century ahead on the Redis backend, the server's clock moved by whole days
    (FarTrace.tla): a record is held exactly while its expiration lies ahead."""
    import json
    trace = c.path("trace", "kvfar.ndjson")
    c.run_vh(["drive", "kvfar", "-seed", c.seed, "-n", 6 if c.quick() else 60, "-out", trace], timeout=600)
    cfg = c.write_cfg("kv", "FarTrace", postcondition="Accepted")
    ok, at, _ = c.validate_trace("kv", "FarTrace", cfg, trace, label="FarTrace")
    lines = open(trace).read().splitlines()
    if ok:
        c.traces_validated += sum(1 for x in lines if "FarBegin" in x)
        return
    start = max(i for i in range(at) if "FarBegin" in lines[i])
    c.report_failure("kv: a record whose expiration lies ahead is gone / an expired one is still there (Redis, clock moved by days)",
                     {"rejected_at_line": at, "history": lines[start:at], "trace": {"comp": "kv", "module": "FarTrace"}})


def brief_records(c):
    """Records that live for microseconds, each with a waiter arriving in its last instants (in-memory backend): an expired record
    is a deleted one for the waiter too - ErrNotExist, not a call that never returns (PromptTrace.tla, `brief` line)."""
    import json
    trace = c.path("trace", "kvbrief.ndjson")
    c.run_vh(["drive", "kvwait-prompt", "-seed", c.seed, "-out", trace, "-x", "only=brief"], timeout=300)
    cfg = c.write_cfg("kv", "PromptTrace", constants={"Bound": 1000}, postcondition="Accepted")
    ok, at, _ = c.validate_trace("kv", "PromptTrace", cfg, trace, label="PromptTrace-brief")
    lines = open(trace).read().splitlines()
    if ok:
        c.traces_validated += len(lines)
        return
    ev = json.loads(lines[at - 1])
    if ev.get("e") == "deadline":
        c.report_failure("kv: %s waiter (%s) on a record that ran out: returned %s%s" % (
                         ev.get("backend"), ev.get("change"), ev.get("res"), " late" if ev.get("late_ms", 0) > 1000 else ""),
                         {"rejected_at_line": at, "history": lines[:at], "trace": {"comp": "kv", "module": "PromptTrace", "constants": {"Bound": 1000}}})
        return
    c.report_failure("kv: waiters on records that ran out within microseconds never returned / returned something else than ErrNotExist",
                     {"rejected_at_line": at, "history": lines[:at], "trace": {"comp": "kv", "module": "PromptTrace", "constants": {"Bound": 1000}}})


def expiry_race(c):
    """code -> spec: a write of a record without expiration racing the expiry of the record it replaces, with waiters
    parked on it and the store kept busy across the expiry instant (in-memory backend, real time, outcome-based: no timing
    assertion is made, only 'what was written without expiration is still there')."""
    import json
    n = 60 if c.quick() else 600
    trace = c.path("trace", "kvexpiry.ndjson")
    c.run_vh(["drive", "kvexpiry", "-seed", c.seed, "-n", n, "-out", trace], timeout=900)
    cfg = c.write_cfg("kv", "ExpiryRaceTrace", postcondition="Accepted")
    ok, at, _ = c.validate_trace("kv", "ExpiryRaceTrace", cfg, trace, label="ExpiryRaceTrace")
    lines = open(trace).read().splitlines()
    if ok:
        c.traces_validated += n
        c.samples.append({"kind": "expiry-race round accepted by ExpiryRaceTrace.tla", "events": lines[:6]})
        return
    start = max(i for i in range(at) if '"e":"round"' in lines[i])
    ev = json.loads(lines[at - 1])
    if ev.get("e") == "final":
        sig = "kv: a record written without expiration was dropped (write racing the expiry of the record it replaced, waiters parked)"
    elif ev.get("e") == "waitret":
        sig = "kv: WaitForVersionChange returned %s in the expiry race" % ev.get("res")
    else:
        sig = "kv: %s not allowed in the expiry race (%s)" % (ev.get("e"), ev.get("res"))
    c.report_failure(sig, {"rejected_at_line": at, "history": lines[start:at], "trace": {"comp": "kv", "module": "ExpiryRaceTrace"}})
