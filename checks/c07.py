"""C07 - KV storage: WaitForVersionChange never misses or invents a change.

Specs (spec/kv): KvWait.tla (contract: `may` sets, Overdue, the script machine and FineSpec),
InmemWaitImpl.tla (the waiters-group table of kvs/inmem, every interleaving; refines
KvWait!FineSpec), KvWaitTrace.tla (recorded executions against FineSpec).

spec -> code: every edge of the script graph (start waiter with current / stale / unknown
version and live / done context, cancel, Put, Put with expiry, PutMany, CasByVersion
ok/conflict/notexist, Delete, Create, time passing) is replayed on a fresh inmem.New() and on
the Redis client over miniredis; after each command every overdue waiter must return within a
generous bound with an explainable reply, everybody else must stay blocked; the in-memory
waiter table (accessor, build tag verif) must be empty whenever no call is in progress.
code -> spec: free-running rounds of 32 waiters x 8 writers with random cancels, validated by
TLC against KvWait!FineSpec (linearization search, high-water acceptance).

NEEDS the accessor kvs/inmem/verif_hooks.go (VerifWaiterTable) in the repo under test.
"""
import json
import os
import vcheck
from vcheck import Check, Subst, parallel

SCRIPT_INVS = ["SettledQuiet", "BlockedMeansCurrent", "StoreOK"]
IMPL_INVS = ["NoPanic", "NoLostWakeup", "NeverStranded", "NoResidue", "ZombieAbsent"]
BUGS = ["regAfterUnlock", "deleteNoNotify", "casNoNotify", "putNoNotify", "leaveNoCompare",
        "leaveNoDelete", "leaveNoCount", "invertedCompare"]


def script_cfg(c, name, keys, waiters, calls, maxnow, exp, many):
    cfg = c.write_cfg("kv", name,
                      constants={"Keys": Subst(keys), "Waiters": set(range(1, waiters + 1)), "MaxCalls": calls,
                                 "MaxNow": maxnow, "WithExp": exp, "WithMany": many},
                      invariants=SCRIPT_INVS, view="View", action_constraints=["Emit"])
    e = c.path("emit", name + ".ndjson")
    c.tlc("kv", "KvWaitMC", cfg, emit=e, workers=4, timeout=900, label=name)
    return e


def fine_cfg(c, name, keys, waiters):
    cfg = c.write_cfg("kv", name, init="FineInitMC", next_="FineNextMC",
                      constants={"Keys": Subst(keys), "Waiters": set(range(1, waiters + 1)), "MaxCalls": 0,
                                 "MaxNow": 2, "WithExp": True, "WithMany": True},
                      invariants=["DueMonotone", "StoreOK"], constraints=["FineBound"])
    c.tlc("kv", "KvWaitMC", cfg, workers=4, timeout=900, label=name)


def impl_consts(keys, waiters, calls, muts, maxnow, bug="none"):
    return {"Keys": Subst(keys), "Waiters": set(range(1, waiters + 1)), "MaxCalls": calls, "MaxMuts": muts,
            "MaxNow": maxnow, "Bug": '"%s"' % bug}


def impl_cfg(c, name, keys, waiters, calls, muts, maxnow, workers=6, timeout=1500, coverage=False):
    cfg = c.write_cfg("kv", name, constants=impl_consts(keys, waiters, calls, muts, maxnow),
                      invariants=IMPL_INVS, properties=["Refines", "GiveUpQuiet"], view="View")
    return c.tlc("kv", "InmemWaitMC", cfg, workers=workers, timeout=timeout, label=name, coverage=coverage)


def impl_live(c, name, keys, waiters, calls, muts, maxnow, workers=4, timeout=1500):
    cfg = c.write_cfg("kv", name, spec="FairSpec", constants=impl_consts(keys, waiters, calls, muts, maxnow),
                      properties=["Prompt"])
    c.tlc("kv", "InmemWaitMC", cfg, workers=workers, timeout=timeout, label=name)


def drive_and_validate(c, variant, rounds, hunt, mode="free"):
    """mode free: goroutines race freely; mode gated: a seeded scheduler holds calls at the gate of their context."""
    backend = variant
    variant = variant + ("-gated" if mode == "gated" else "")
    trace = c.path("trace", "kvwait-%s.ndjson" % variant)
    args = ["drive", "kvwait", "-seed", c.seed, "-n", rounds, "-out", trace, "-variant", backend,
            "-x", "hunt=%d" % hunt, "-x", "mode=" + mode]
    p = c.run_vh(args, timeout=1500)
    stats = json.loads(p.stdout.strip().splitlines()[-1])
    c.extra.setdefault("stress", {})[variant] = stats
    cfg = c.write_cfg("kv", "KvWaitTrace-" + variant, constraints=["Progress"], postcondition="Accepted")
    ok, at, res = c.validate_trace("kv", "KvWaitTrace", cfg, trace, workers=1, deque=True, timeout=1500,
                                   label="KvWaitTrace-" + variant)
    lines = open(trace).read().splitlines()
    if ok:
        c.traces_validated += stats["recorded"]
        if len(c.samples) < 6:
            c.samples.append({"kind": "recorded stress round prefix (%s) accepted by KvWaitTrace.tla" % variant, "events": lines[:10]})
    else:
        ev = json.loads(lines[at - 1]) if 0 < at <= len(lines) else {}
        if ev.get("op") in ("mret", "minv") and ev.get("err") != "panic":
            # the store calls themselves are not linearizable w.r.t. KvStore.tla: that is C02's verdict, and without
            # a store history the waiters of this trace cannot be judged
            vcheck.log("NOT-JUDGED: stress trace (%s) line %d: store reply not linearizable (C02's business): %s" % (variant, at, ev))
            c.extra.setdefault("not_judged", []).append({"variant": variant, "line": at, "event": ev})
            return trace, lines
        c.report_failure("kvwait stress (%s): %s" % (variant, describe(ev)),
                         {"variant": variant, "rejected_at_line": at, "event": ev, "context": round_context(lines, at)})
    return trace, lines


def describe(ev):
    op = ev.get("op")
    if op == "ret":
        return "a call returned %s although that condition held at no point of its interval" % ev.get("r")
    if op == "stuck":
        return "a call did not return although one of its conditions holds (quiescent store)"
    if op == "table":
        return "waiter table not empty although no call is in progress"
    if op == "mret":
        return "a store call panicked while waiters were registered"
    return "event %s not allowed by KvWait.tla" % op


def round_context(lines, at):
    """The events of the rejected round that concern the rejected call / key (kept small)."""
    start = at - 1
    while start > 0 and '"op":"New"' not in lines[start]:
        start -= 1
    ev = json.loads(lines[at - 1]) if 0 < at <= len(lines) else {}
    w = ev.get("w")
    key = None
    keep = []
    for ln in lines[start:at]:
        e = json.loads(ln)
        if w is not None and e.get("op") == "inv" and e.get("w") == w:
            key = e.get("k")
    for ln in lines[start:at]:
        e = json.loads(ln)
        if e.get("op") in ("New",) or e.get("w") == w or (e.get("op") in ("minv", "mret")):
            if e.get("op") == "minv" and key is not None and e.get("k", key) != key and key not in e.get("ks", [key]):
                continue
            keep.append(ln)
    return keep[-80:]


def run(tier):
    c = Check("C07", tier)
    c.build()
    q = c.quick()
    # ---- TLC: script graphs (emitted), the lemma on FineSpec, the implementation model ----
    jobs = [
        ("emit", lambda: script_cfg(c, "KvWait-2w1k", "Keys1", 2, 4, 2, True, True)),
        ("emit", lambda: script_cfg(c, "KvWait-3w2k", "Keys2", 3, 3 if q else 4, 0 if q else 2, not q, True)),
        ("tlc", lambda: fine_cfg(c, "KvWaitFine-2w1k", "Keys1", 2)),
        ("tlc", lambda: impl_cfg(c, "InmemWaitImpl-2w1k", "Keys1", 2, 2, 2 if q else 3, 2)),
        ("tlc", lambda: impl_live(c, "InmemWaitImpl-live", "Keys1", 2, 2, 2, 2)),
    ]
    if not q:
        jobs += [
            ("emit", lambda: script_cfg(c, "KvWait-3w1k", "Keys1", 3, 5, 2, True, True)),
            ("tlc", lambda: impl_cfg(c, "InmemWaitImpl-3w1k", "Keys1", 3, 3, 2, 0, workers=5)),
            ("tlc", lambda: impl_cfg(c, "InmemWaitImpl-2w2k", "Keys2", 2, 2, 2, 2, workers=5)),
            ("tlc", lambda: impl_cfg(c, "InmemWaitImpl-2w1k-3calls", "Keys1", 2, 3, 3, 2, workers=5)),
            ("tlc", lambda: fine_cfg(c, "KvWaitFine-2w2k", "Keys2", 2)),
        ]
    res = parallel([j[1] for j in jobs], max_workers=4 if q else 3)
    emits = [r for (kind, _), r in zip(jobs, res) if kind == "emit"]
    c.exhaustive = True

    # ---- spec -> code ----
    for e in emits:
        c.replay("kvwait", e, variant="inmem", workers=64)
    for e in (emits[:1] if q else emits):
        c.replay("kvwait", e, variant="redis", workers=64)

    not_judged = getattr(c, "inconclusive", 0)
    if not c.violations and not_judged > 0.1 * max(1, c.behaviours_replayed):
        # host stalls around real expiry instants, store replies off the KvStore contract (C03), harness trouble
        raise vcheck.Broken("%d of %d script runs could not be judged" % (not_judged, c.behaviours_replayed))

    # ---- code -> spec ----
    rounds, hunt = (30, 800) if q else (150, 6000)
    grounds, ghunt = (150, 2500) if q else (1500, 20000)
    (_, lines), _, _ = parallel([
        lambda: drive_and_validate(c, "inmem", rounds, hunt),
        lambda: drive_and_validate(c, "inmem", grounds, ghunt, mode="gated"),
        lambda: drive_and_validate(c, "redis", 4 if q else 25, 0)], max_workers=3)

    redis_promptness(c)
    if c.drift:
        vcheck.log("MODEL-DRIFT: %d script runs saw a blocked call woken without a change (InmemWaitImpl says it registers once); "
                   "not a violation of the contract" % c.drift)
    if not q:
        selftest(c, emits[0], lines)
    c.assumptions += [
        "the repo under test contains the add-only accessor kvs/inmem/verif_hooks.go (build tag verif)",
        "a version argument is one handed out earlier or one never handed out (versions are opaque, never guessed)",
        "store replies that differ from KvStore.tla are C03's business: such a script run is not judged here",
        "promptly = within 5 s of the step that made the condition true (a correct implementation needs microseconds in memory, "
        "at most one 100 ms poll on Redis); blocked waiters are observed for a grace period at the end of each script",
        "errors other than nil / ErrNotExist / the context's error are accepted from the Redis backend only while the harness "
        "injects a storage failure",
    ]
    return c.finish(rule="one script per edge of the KvWait.tla script graph (<= 3 waiters on <= 2 keys: start with current/stale/unknown "
                         "version and live/done context, cancel, Put, Put with expiry, PutMany, CasByVersion ok/conflict/notexist, "
                         "Delete, Create, time passing), each replayed on fresh inmem and Redis/miniredis storages with a settle "
                         "after every command; InmemWaitImpl.tla model-checked for all interleavings (refinement, no lost wake-up, "
                         "no stranded waiter, no residue, liveness); %d fully recorded + %d hunted free-running rounds of "
                         "32 waiters x 8 writers, and %d + %d rounds under a seeded scheduler that holds calls at the gate "
                         "of their context (between registration and parking), validated by KvWaitTrace.tla"
                         % (rounds, hunt, grounds, ghunt))


def selftest(c, emitted, lines):
    """Binding demonstration: (1) a flipped prescribed outcome must fail the replay, (2) a flipped recorded
    reply must be rejected by the trace validation at that line, (3) TLC must find every seeded defect of the
    implementation model."""
    st = {"ran": True}
    # (1)
    done = False
    for ln in open(emitted).read().splitlines():
        b = json.loads(json.loads(ln)) if ln.startswith('"') else json.loads(ln)
        last = b[-1]
        if len(b) >= 4 and last.get("op") == "Delete" and any(o.get("st") == "ret" for o in last.get("ws", [])):
            for o in last["ws"]:
                if o.get("st") == "ret":
                    o["may"] = ["nil"]
            p = c.path("emit", "selftest.ndjson")
            open(p, "w").write(json.dumps(b) + "\n")
            before = len(c.violations)
            c.replay("kvwait", p, variant="inmem")
            hit = len(c.violations) > before
            del c.violations[before:]
            c.behaviours_replayed -= 1
            st["replay"] = {"corrupted": "waiter outcome after Delete: notexist -> nil", "detected": hit}
            if not hit:
                raise vcheck.Broken("selftest: corrupted script was not rejected by the replay")
            done = True
            break
    if not done:
        st["replay"] = {"ran": False}
    # (2)
    idx = None
    for i, l in enumerate(lines):
        e = json.loads(l)
        if i > len(lines) // 3 and e.get("op") == "ret" and e.get("r") == "nil":
            e["r"] = "notexist"
            lines2 = list(lines)
            lines2[i] = json.dumps(e)
            idx = i
            break
    if idx is not None:
        p = c.path("trace", "kvwait-corrupt.ndjson")
        open(p, "w").write("\n".join(lines2) + "\n")
        cfg = c.write_cfg("kv", "KvWaitTrace-selftest", constraints=["Progress"], postcondition="Accepted")
        ok, at, _ = c.validate_trace("kv", "KvWaitTrace", cfg, p, workers=1, deque=True, label="selftest-trace")
        st["trace"] = {"corrupted_line": idx + 1, "rejected_at_line": at, "detected": (not ok) and at == idx + 1}
        if ok or at != idx + 1:
            raise vcheck.Broken("selftest: corrupted trace was not rejected at the corrupted line (%s, %s)" % (ok, at))
    # (2b) a `stuck` event for a call that is overdue (inserted right before its accepted `ret nil`, no store
    # call pending) must be rejected there; (2c) a non-empty table at the end of a round must be rejected
    pending, ins = set(), None
    for i, l in enumerate(lines):
        e = json.loads(l)
        if e.get("op") == "New":
            pending = set()
        elif e.get("op") == "minv":
            pending.add(e["t"])
        elif e.get("op") == "mret":
            pending.discard(e["t"])
        elif e.get("op") == "ret" and e.get("r") == "nil" and not pending and i > len(lines) // 2:
            ins = i
            break
    variants = {}
    if ins is not None:
        variants["stuck"] = (lines[:ins] + [json.dumps({"op": "stuck", "w": json.loads(lines[ins])["w"]})] + lines[ins:], ins + 1)
    for i, l in enumerate(lines):
        if '"op":"table"' in l and i > len(lines) // 4:
            l2 = list(lines)
            l2[i] = json.dumps({"op": "table", "n": 1})
            variants["table"] = (l2, i + 1)
            break
    for name, (l2, want) in variants.items():
        p = c.path("trace", "kvwait-corrupt-%s.ndjson" % name)
        open(p, "w").write("\n".join(l2) + "\n")
        cfg = c.write_cfg("kv", "KvWaitTrace-selftest-" + name, constraints=["Progress"], postcondition="Accepted")
        ok, at, _ = c.validate_trace("kv", "KvWaitTrace", cfg, p, workers=1, deque=True, label="selftest-trace-" + name)
        st["trace_" + name] = {"corrupted_line": want, "rejected_at_line": at, "detected": (not ok) and at == want}
        if ok or at != want:
            raise vcheck.Broken("selftest: trace with a bad %s event was not rejected at that line (%s, %s)" % (name, ok, at))
    # (2d) non-vacuity of the Stuck action: a `stuck` event for a call that is blocked for a reason (inserted
    # before its end-of-round cancel event, store quiescent) must be accepted
    last_mret, cand = -1, None
    for i, l in enumerate(lines):
        e = json.loads(l)
        if e.get("op") == "New":
            if cand is not None:
                break
            last_mret = -1
        elif e.get("op") in ("minv", "mret"):
            last_mret, cand = i, None
        elif e.get("op") == "cancel" and last_mret >= 0 and cand is None and '"op":"ret"' not in "".join(lines[last_mret:i]):
            cand = i
    if cand is not None:
        l2 = lines[:cand] + [json.dumps({"op": "stuck", "w": json.loads(lines[cand])["w"]})] + lines[cand:]
        p = c.path("trace", "kvwait-stuck-ok.ndjson")
        open(p, "w").write("\n".join(l2) + "\n")
        cfg = c.write_cfg("kv", "KvWaitTrace-selftest-stuckok", constraints=["Progress"], postcondition="Accepted")
        ok, at, _ = c.validate_trace("kv", "KvWaitTrace", cfg, p, workers=1, deque=True, label="selftest-trace-stuck-ok")
        st["trace_stuck_not_overdue"] = {"inserted_line": cand + 1, "accepted": ok}
        if not ok:
            raise vcheck.Broken("selftest: a stuck event for a call that is not overdue was rejected at line %s" % at)
    # (3)
    def bug(b):
        cfg = c.write_cfg("kv", "InmemWaitImpl-bug-" + b, constants=impl_consts("Keys1", 2, 2, 3, 2, bug=b),
                          invariants=IMPL_INVS, properties=["Refines", "GiveUpQuiet"], view="View")
        r = c.tlc("kv", "InmemWaitMC", cfg, workers=2, timeout=900, label="bug-" + b, count=False, expect_ok=False)
        return b, (not r["ok"]) and r["error"] and "violated" in r["error"], r["error"]
    found = parallel([lambda b=b: bug(b) for b in BUGS], max_workers=4)
    st["seeded_model_defects"] = {b: (err or "")[:120] for b, ok, err in found}
    missed = [b for b, ok, err in found if not ok]
    if missed:
        raise vcheck.Broken("selftest: TLC did not find the seeded defects %s in InmemWaitImpl" % missed)
    c.selftest = st


def redis_promptness(c):
    """'It does return promptly', Redis (polling) backend: a waiter idle for 2.2 s must notice a Put / Delete within the poll cap
    (100 ms) - judged with a one-sided bound of 1 s; scenarios during which the host stalled are repeated by the driver."""
    import json
    trace = c.path("trace", "kvwait-prompt.ndjson")
    c.run_vh(["drive", "kvwait-prompt", "-seed", c.seed, "-out", trace], timeout=300)
    cfg = c.write_cfg("kv", "PromptTrace", constants={"Bound": 1000}, postcondition="Accepted")
    ok, at, _ = c.validate_trace("kv", "PromptTrace", cfg, trace, label="PromptTrace")
    lines = open(trace).read().splitlines()
    c.extra["redis_promptness"] = [json.loads(x) for x in lines]
    if ok:
        c.traces_validated += len(lines)
        return
    ev = json.loads(lines[at - 1])
    if ev.get("e") == "brief":
        sig = "kvwait: in-memory waiters on records that ran out within microseconds never returned / returned something else than ErrNotExist"
    elif ev.get("e") == "deadline":
        if ev.get("change") == "none":
            sig = "kvwait: %s waiter with a context deadline and no change returned %s%s" % (
                ev.get("backend"), ev.get("res"), "" if ev.get("ctxdone") else " while its context was not done yet")
        else:
            sig = "kvwait: %s waiter with a context deadline was not woken promptly with ErrNotExist when the record ran out (returned %s)" % (
                ev.get("backend"), ev.get("res"))
    elif ev.get("late_ms", 0) > 1000:
        sig = "kvwait: %s waiter idle for %d ms noticed the %s only after more than 1 s (documented poll cap 100 ms)" % (ev.get("backend", "redis"), ev.get("idle_ms", 0), ev.get("change"))
    else:
        sig = "kvwait: %s waiter returned %s after a %s" % (ev.get("backend", "redis"), ev.get("res"), ev.get("change"))
    c.report_failure(sig, {"rejected_at_line": at, "history": lines[:at], "trace": {"comp": "kv", "module": "PromptTrace", "constants": {"Bound": 1000}}})
