"""C08 - LRU cache behaves as a reference LRU for every call sequence.

spec -> code: TLC exhausts the implementation-shaped model LRUImpl (ecache.go /
expirable.go written as operations on an insertion-ordered map) for the tier's
capacities and key sets, proves that it refines the contract LRU.tla (same
replies, same create/delete callback invocations, same content after every
call) and keeps the contract's invariants (size bound, every created value is
resident xor was deleted exactly once).  One behaviour per edge of that state
graph is replayed on the real lru.Cache[string,int], lru.ECache with
strings.ToLower as (non-injective) key mapping and lru.ExpirableCache, with and
without a delete callback; after the last call of every behaviour the hidden
recency order is observed through the API (LRU!ProbeSound).  The constructor
contract (maxSize < 1, nil create function) is part of every behaviour.
code -> spec: long seeded call sequences on capacities up to 64 are recorded
(result + callback arguments per call) and validated by TLC against LRU!Apply /
LRU!ApplyX (LRUTrace.tla).
"""
import json
import os
import subprocess
import vcheck
from vcheck import Check, parallel

# variant -> (Alias, Expirable)
VARIANTS = {"cache": (False, False), "ecache": (True, False), "expirable": (False, True)}
IMPL_INV = ["AbsBounded", "AbsWellFormed", "AbsAccounting", "MapOK"]
CONTRACT_INV = ["Bounded", "WellFormed", "Accounting", "ProbeSound"]


def consts(caps, nk, variant):
    alias, xp = VARIANTS[variant]
    return {"Caps": caps, "NK": nk, "Alias": alias, "Expirable": xp}


def run(tier):
    try:
        return run_(tier)
    except (vcheck.Broken, subprocess.TimeoutExpired):
        raise
    except Exception as e:          # a bug of this script is broken machinery (exit 2), never a verdict
        raise vcheck.Broken("c08.py: %s: %s" % (type(e).__name__, e))


def run_(tier):
    c = Check("C08", tier)
    c.build()
    c.specdir("lru")                # create the scratch copy of the specs before the parallel TLC jobs need it
    if c.quick():
        caps, nk = [1, 2, 3], {"cache": 4, "ecache": 3, "expirable": 3}
    else:
        caps, nk = [1, 2, 3, 4, 5], {"cache": 6, "ecache": 5, "expirable": 5}

    # ---- pass A: model check LRUImpl (refinement, invariants) and emit one behaviour per edge
    def impl(variant):
        cfg = c.write_cfg("lru", "LRUImpl_" + variant, constants=consts(caps, nk[variant], variant),
                          invariants=IMPL_INV, properties=["Refines", "StepAccounting"],
                          view="View", action_constraints=["Emit"])
        emit = c.path("emit", "lru-%s.ndjson" % variant)
        c.tlc("lru", "LRUImpl", cfg, emit=emit, workers=4, label="LRUImpl-" + variant)
        return variant, emit

    # the contract on its own: its invariants and the soundness of the replayer's final probe
    def contract(variant):
        cfg = c.write_cfg("lru", "LRU_" + variant, constants=consts(caps, nk[variant], variant),
                          invariants=CONTRACT_INV, properties=["StepAccounting"], view="View")
        c.tlc("lru", "LRU", cfg, workers=2, label="LRU-" + variant)
        return None

    jobs = [lambda v=v: impl(v) for v in VARIANTS] + [lambda v=v: contract(v) for v in VARIANTS]
    jobs.append(lambda: deep(c, "ecache"))
    # one ExpirableCache kept in use for more than a quarter of a minute of real time (runs alongside the TLC jobs)
    long_trace = c.path("trace", "lru-longlived.ndjson")
    jobs.append(lambda: c.run_vh(["drive", "lru", "-seed", c.seed, "-out", long_trace, "-x", "mode=longlived"], timeout=300) and None)
    if not c.quick():
        jobs += [lambda: deep(c, "expirable"), lambda: simulate(c, 8, "ecache", 300), lambda: simulate(c, 64, "expirable", 300),
                 lambda: simulate(c, 64, "cache", 500)]
    emits = [r for r in parallel(jobs, max_workers=8) if r]

    def hung():
        # a call that never returns leaves a spinning goroutine behind in vh: one report is enough
        return any("did not return" in v["sig"] for v in c.violations)

    for variant, e in emits:
        for extra in (None, {"ondelete": "nil"}):
            if not hung():
                c.replay("lru", e, variant=variant, extra=extra)
        if variant == "cache" and not hung():
            # the same behaviours on a cache whose values are pointers, every third creation succeeding with nil
            c.replay("lru", e, variant="ptr")
    c.exhaustive = True
    if hung():
        return c.finish(rule="stopped at the first call that did not return")

    # ---- pass B: recorded executions of the real code, validated against the contract
    ntr = 120 if c.quick() else 4000
    steps = 250 if c.quick() else 400
    trace = c.path("trace", "lru.ndjson")
    c.run_vh(["drive", "lru", "-seed", c.seed, "-n", ntr, "-out", trace, "-x", "steps=%d" % steps])
    with open(trace, "a") as f:      # every trace starts with a New line: simply appended
        f.write(open(long_trace).read())
    cfg = c.write_cfg("lru", "LRUTrace", invariants=["Bounded"], postcondition="Accepted")
    ok, at, res = c.validate_trace("lru", "LRUTrace", cfg, trace, timeout=1500)
    lines = open(trace).read().splitlines()
    if ok:
        c.traces_validated += ntr
        c.samples.append({"kind": "recorded trace prefix accepted by LRUTrace.tla", "events": lines[:8]})
    else:
        ctx = lines[max(0, at - 8):at]
        c.report_failure("lru: recorded call/reply not allowed by LRU.tla: " + summarize(lines, at),
                         {"rejected_at_line": at, "context": ctx})
    if not c.quick():
        selftest(c, lines, emits[0])
    return c.finish(rule="one behaviour per edge of the LRUImpl state graph (constructor with maxSize in %s, 0, -1 and nil create "
                         "function; then the shortest call sequence to the edge's source state + the edge's call; GetOrCreate with "
                         "succeeding/failing/expired creations, Remove, Clear over %s inner keys, ECache with two primary keys per inner "
                         "key), each replayed on Cache, ECache(strings.ToLower) and ExpirableCache with and without delete callback and "
                         "followed by a probe of the final recency order; plus %d recorded random traces of %d calls on capacities 1..64"
                         % (caps, nk, ntr, steps))


def deep(c, variant):
    """Pairs of consecutive calls from every state: the last call is made part of the VIEW, so the
    emitted behaviours also contain re-creation of a key that was just removed, evicted or cleared
    (state of the cache that the contract does not have, e.g. the in-flight table)."""
    cfg = c.write_cfg("lru", "LRUImpl_deep_" + variant, constants=consts([1, 2], 3, variant),
                      invariants=IMPL_INV, properties=["Refines", "StepAccounting"],
                      view="DeepView", action_constraints=["Emit"])
    emit = c.path("emit", "lru-deep-%s.ndjson" % variant)
    c.tlc("lru", "LRUImpl", cfg, emit=emit, workers=4, label="LRUImpl-deep-" + variant)
    return variant, emit


def simulate(c, cap, variant, depth):
    """Long random behaviours of LRUImpl on large capacities (only the complete behaviour is emitted).
    TLC picks the next call uniformly, so creations and removals balance at half of the keys
    resident: 3 * cap keys keep the cache full and evicting.  5 of 6 random constructor calls
    are rejected ones, whose behaviours end there and are not emitted."""
    nk = 3 * cap
    cfg = c.write_cfg("lru", "LRUImpl_sim_%s_%d" % (variant, cap), constants=consts([cap], nk, variant),
                      invariants=IMPL_INV, action_constraints=["EmitAtLen"])
    emit = c.path("emit", "lru-sim-%s-%d.ndjson" % (variant, cap))
    c.tlc("lru", "LRUImpl", cfg, emit=emit, workers=1, simulate="num=120", depth=depth, count=False,
          env_extra={"VERIF_EMIT_LEN": str(depth - 1)}, label="LRUImpl-sim-%s-cap%d" % (variant, cap))
    if not os.path.exists(emit) or vcheck.count_lines(emit) == 0:
        raise vcheck.Broken("simulation emitted no behaviour (%s cap %d)" % (variant, cap))
    return variant, emit


def summarize(lines, at):
    """op and variant of the rejected line (stable part of the signature)."""
    try:
        e = json.loads(lines[at - 1])
        variant = "?"
        for l in reversed(lines[:at]):
            n = json.loads(l)
            if n.get("op") == "New":
                variant = n.get("variant", "?") + ("/nil-ondelete" if n.get("nodel") else "")
                break
        return "variant=%s op=%s%s" % (variant, e.get("op"), " (crash)" if "crash" in e else "")
    except Exception:
        return "?"


def selftest(c, lines, emitted):
    """Binding demonstration: (1) corrupt one recorded value of a good trace: validation must
    reject it at that line; (2) corrupt one prescribed answer of a good behaviour: replay must fail."""
    st = {"ran": True}
    idx = None
    for i, l in enumerate(lines):
        e = json.loads(l)
        if i > 300 and e.get("op") == "GetOrCreate" and e.get("deleted") and not e.get("nodel"):
            e["deleted"][0]["vid"] += 1          # the delete callback got another value
            lines2 = list(lines[: i + 40])
            lines2[i] = json.dumps(e)
            idx = i
            break
    if idx is None:
        raise vcheck.Broken("selftest: no eviction found in the recorded trace")
    p = c.path("trace", "lru-corrupt.ndjson")
    open(p, "w").write("\n".join(lines2) + "\n")
    cfg = c.write_cfg("lru", "LRUTrace", invariants=["Bounded"], postcondition="Accepted")
    ok, at, _ = c.validate_trace("lru", "LRUTrace", cfg, p, label="selftest")
    st.update({"corrupted_line": idx + 1, "rejected_at_line": at, "trace_detected": (not ok) and at == idx + 1})
    if ok or at != idx + 1:
        raise vcheck.Broken("selftest: corrupted trace was not rejected at the corrupted line (%s, %s)" % (ok, at))

    variant, path = emitted
    good = None
    for l in open(path):
        b = json.loads(json.loads(l)) if l.startswith('"') else json.loads(l)
        if len(b) >= 4 and b[-1].get("op") == "GetOrCreate" and b[-1].get("err") == "nil" and not b[-1].get("created") \
                and len(b[-1].get("st", [])) >= 2:
            good = b
            break
    if good is None:
        raise vcheck.Broken("selftest: no behaviour ending in a hit found")
    results = {}
    for what in ("reply", "state"):
        bad = json.loads(json.dumps(good))
        if what == "reply":
            bad[-1]["vid"] += 1                   # a hit that returns another value
        else:
            bad[-1]["st"] = list(reversed(bad[-1]["st"]))   # another recency order
        bp = c.path("emit", "lru-corrupt-%s.ndjson" % what)
        open(bp, "w").write(json.dumps(good) + "\n" + json.dumps(bad) + "\n")
        out = c.path("emit", "lru-corrupt-%s.json" % what)
        c.run_vh(["replay", "lru", "-in", bp, "-out", out, "-variant", variant])
        r = json.load(open(out))
        results[what] = (r["passed"], r["n_failures"])
        if r["passed"] != 1 or r["n_failures"] != 1:
            raise vcheck.Broken("selftest: corrupted %s of a good behaviour was not noticed by replay: %s" % (what, r))
    st["replay_detected"] = results
    c.selftest = st
