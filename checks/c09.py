"""C09 - LRU cache under concurrency: single-flight, linearizable, nothing leaked."""
import json
import os
import vcheck
from vcheck import Check, Subst, parallel
import lock_common as lk

INVS = ["SingleFlight", "InflightOK", "CreatorInsertsFresh", "Bounded", "Balance", "NoForeignDelete", "NoOrphanWaiter"]


def consts(procs=3, keys="PK3", cap=1, maxops=1, kinds=("get", "remove", "clear")):
    return {"Procs": list(range(1, procs + 1)), "PKeys": Subst(keys), "Cap": cap, "MaxOps": maxops,
            "OpKinds": "{" + ", ".join('"%s"' % k for k in kinds) + "}"}


def run(tier):
    c = Check("C09", tier)
    c.build()
    c.specdir("lru")
    if c.quick():
        emits = [("conc-cap1", consts(cap=1)), ("conc-cap2", consts(cap=2, keys="PK3"))]
        checks = [("conc-2ops", consts(cap=1, maxops=2))]
        live = [("conc-live", consts(cap=1, keys="PK2"))]
        nrand, nstress = 400, 150
    else:
        emits = [("conc-cap1", consts(cap=1)), ("conc-cap2", consts(cap=2)), ("conc-cap3", consts(cap=3)),
                 ("conc-2ops-gets", consts(cap=1, maxops=2, kinds=("get",), keys="PK2"))]
        checks = [("conc-2ops", consts(cap=1, maxops=2)), ("conc-2ops-cap2", consts(cap=2, maxops=2))]
        live = [("conc-live", consts(cap=1, keys="PK3")), ("conc-live2", consts(cap=2, keys="PK2", maxops=2))]
        nrand, nstress = 4000, 1500

    def emit(name, cs):
        cfg = c.write_cfg("lru", name, constants=cs, invariants=INVS, view="View", action_constraints=["Emit"])
        e = c.path("emit", name + ".ndjson")
        c.tlc("lru", "LRUConc", cfg, emit=e, workers=6, timeout=1500, label=name)
        return e

    def check(name, cs):
        cfg = c.write_cfg("lru", name, constants=cs, invariants=INVS, view="View")
        c.tlc("lru", "LRUConc", cfg, workers=8, timeout=2400, label=name)

    def liveness(name, cs):
        cfg = c.write_cfg("lru", name, spec="FairSpec", constants=cs, properties=["WaitersReleased"], view="View")
        c.tlc("lru", "LRUConc", cfg, workers=4, timeout=1500, label=name)

    jobs = [lambda n=n, cs=cs: emit(n, cs) for n, cs in emits] + [lambda n=n, cs=cs: check(n, cs) for n, cs in checks] + \
           [lambda n=n, cs=cs: liveness(n, cs) for n, cs in live]
    res = parallel(jobs, max_workers=3)
    traces = []
    for (n, _), e in zip(emits, res):
        traces.append(drive(c, "schedules", n, infile=e))
    traces.append(drive(c, "random", "random", n=nrand))
    traces.append(drive(c, "stress", "stress", n=nstress))
    traces.append(drive(c, "bigclear", "bigclear", n=4 if c.quick() else 12))
    traces.append(drive(c, "failstorm", "failstorm", n=6 if c.quick() else 40))
    for name, path in traces:
        validate(c, path, name)
    if not c.quick():
        selftest(c, traces[-1][1])
    c.assumptions += ["the delete callback is invoked by the cache under its own lock (it is: ecache.go), so its position in the log is the "
                      "position of the critical section that made it",
                      "resident count read through the verif-tagged accessor after each return",
                      "a caller that has not returned 3 s after nothing is left to complete is reported as stuck"]
    return c.finish(rule="schedules = command histories (start call, complete creation ok/fail) of every transition of LRUConc.tla (3 callers, "
                         "keys {1, 2, alias of 1}, capacities 1-2%s) played on a real lru.ECache with a gated create callback and a recording "
                         "delete callback; seeded random gated schedules (3-5 callers, capacities 1-3), ungated stress (4-8 goroutines) and a Clear of about 590 "
                         "resident values racing GetOrCreate of the same keys; "
                         "every recorded history validated by TLC against LRUConcTrace.tla: linearizable to LRU!Apply with the same returned "
                         "values and evictions, single flight, each created value deleted exactly once by the final Clear, resident <= capacity"
                         % ("" if c.quick() else "-3"))


def drive(c, mode, name, n=0, infile=None):
    out = c.path("trace", "lruconc-" + name + ".ndjson")
    args = ["drive", "lruconc", "-x", "mode=" + mode, "-seed", c.seed, "-n", n, "-out", out, "-workers", 64]
    if infile:
        args += ["-in", infile]
    c.run_vh(args, timeout=1800)
    st = json.load(open(out + ".stats"))
    c.extra.setdefault("lruconc_runs", []).append(dict(name=name, mode=mode, **st))
    return name, out


def validate(c, path, name):
    blocks = lk.split_blocks(path)
    cfg = c.write_cfg("lru", "LRUConcTrace", constraints=["Mark"], postcondition="Accepted")
    n = max(1, min(4, len(blocks) // 100 or 1))
    parts = [blocks[i::n] for i in range(n)]

    def one(i, part):
        rejected = []
        for attempt in range(10):
            if not part:
                break
            p = c.path("trace", "lruconc-%s-%d-%d.ndjson" % (name, i, attempt))
            with open(p, "w") as f:
                for b in part:
                    f.write("\n".join(b) + "\n")
            ok, at, _ = c.validate_trace("lru", "LRUConcTrace", cfg, p, workers=1, deque=True, timeout=1800,
                                         label="LRUConcTrace-%s-%d" % (name, i))
            os.remove(p)
            if ok:
                break
            acc = 0
            for bi, b in enumerate(part):
                if acc + len(b) >= at:
                    rejected.append((b, at - acc))
                    part = part[:bi] + part[bi + 1:]
                    break
                acc += len(b)
        return rejected, len(part)

    res = parallel([lambda i=i, part=part: one(i, part) for i, part in enumerate(parts)], max_workers=n)
    for rejected, okn in res:
        c.traces_validated += okn
        for b, idx in rejected:
            report(c, b, idx)
    if blocks and len(c.samples) < 4:
        c.samples.append({"kind": "recorded concurrent LRU history (%s) accepted by LRUConcTrace.tla" % name, "events": blocks[len(blocks) // 2][:16]})


def report(c, block, idx):
    ev = json.loads(block[min(idx, len(block)) - 1])
    e = ev.get("e")
    if e == "cstart":
        sig = "lruconc: two creations for one key in progress at once (single flight broken)"
    elif e == "del":
        sig = "lruconc: delete callback not explainable (value deleted twice, never created, or not the entry a sequential LRU evicts)"
    elif e == "ret" and "crash" in ev:
        sig = "lruconc: call panicked"
    elif e == "ret":
        sig = "lruconc: history not linearizable to the sequential LRU (returned value / found / count / resident > capacity)"
    elif e == "final":
        sig = "lruconc: a created value was never passed to the delete callback (leak) after the final Clear"
    elif e == "stuck":
        sig = "lruconc: a caller never returned although no creation was left to complete"
    elif e == "storm":
        sig = ("lruconc: many callers on one key whose creation failed dozens of times in a row: two creations in progress at once, more than one "
               "value created, callers with different values, or a created value not deleted exactly once")
    else:
        sig = "lruconc: event %s not allowed" % e
    c.report_failure(sig, {"rejected_event": ev, "history": block[:idx + 1],
                           "trace": {"comp": "lru", "module": "LRUConcTrace", "deque": True, "constraints": ["Mark"]}})


def selftest(c, path):
    blocks = lk.split_blocks(path)
    for b in blocks:
        for i, ln in enumerate(b):
            e = json.loads(ln)
            if e.get("e") == "ret" and e.get("err") == "nil" and i > 6:
                e["vid"] = e["vid"] + 1000
                b2 = list(b[: i + 1])
                b2[i] = json.dumps(e, separators=(",", ":"))
                p = c.path("trace", "lruconc-selftest.ndjson")
                open(p, "w").write("\n".join(b2) + "\n")
                cfg = c.write_cfg("lru", "LRUConcTrace", constraints=["Mark"], postcondition="Accepted")
                ok, at, _ = c.validate_trace("lru", "LRUConcTrace", cfg, p, workers=1, deque=True, label="selftest")
                c.selftest = {"ran": True, "corrupted_line": i + 1, "rejected_at_line": at, "detected": (not ok) and at == i + 1}
                if ok or at != i + 1:
                    raise vcheck.Broken("selftest: corrupted history not rejected at the corrupted line (%s %s)" % (ok, at))
                return
    c.selftest = {"ran": False}
