"""C10 - ordered map: iteration stays correct under any mutation history."""
from vcheck import Check
import itermap_common as im


def run(tier):
    c = Check("C10", tier)
    c.build()
    if c.quick():
        im.model_and_replay(c, "c10", emit_cfgs=[(2, 2, 3)], check_cfgs=[])
        lines = im.drive_and_validate(c, "c10", ntr=60, steps=300)
    else:
        im.model_and_replay(c, "c10", emit_cfgs=[(2, 2, 4), (3, 2, 3)], check_cfgs=[(3, 2, 4), (2, 3, 4)])
        lines = im.drive_and_validate(c, "c10", ntr=500, steps=400)
        im.selftest(c, "c10", lines)
    cyclic(c)
    return c.finish(rule="one behaviour per edge of the IterMapImpl state graph (linked list + sentinel + ref counts + pool, "
                         "refinement of OrderedMap.tla checked in the same run) replayed on iterable.Map[string,int] comparing "
                         "every Add/Remove/Get/Len/First/Iterator/HasNext/Next/Close reply and recovering panics; plus recorded "
                         "random histories (6 keys, 8 iterators, re-added keys) validated by TLC against OrderedMap!Apply")


def cyclic(c):
    """Values that reach themselves, in a process of its own (a runaway recursion over a value ends the process)."""
    trace = c.path("trace", "itermap-cyclic.ndjson")
    if c.run_vh_crashcheck(["drive", "itermap-cyclic", "-out", trace],
                           "itermap: a map holding values that reach themselves took the process down (runaway recursion over a value)",
                           timeout=120) is None:
        return
    cfg = c.write_cfg("itermap", "OrderedMapTrace_cyc", constants={"Iters": [1], "CheckReplies": True, "CheckRetention": False},
                      postcondition="Accepted")
    ok, at, _ = c.validate_trace("itermap", "OrderedMapTrace", cfg, trace, timeout=300, label="OrderedMapTrace-cyclic")
    if ok:
        c.traces_validated += 1
    else:
        c.report_failure("itermap: a map holding values that reach themselves: a call panicked or a reply differed",
                         {"rejected_at_line": at, "event": open(trace).read().splitlines()[at - 1][:500]})
