"""C10 - ordered map: iteration stays correct under any mutation history."""
from vcheck import Check
import itermap_common as im


def run(tier):
    c = Check("C10", tier)
    c.build()
    if c.quick():
        im.model_and_replay(c, "c10", emit_cfgs=[(2, 2, 3)], check_cfgs=[])
        lines = im.drive_and_validate(c, "c10", ntr=60, steps=300)
    else:
        im.model_and_replay(c, "c10", emit_cfgs=[(2, 2, 4), (3, 2, 3)], check_cfgs=[(3, 2, 4), (2, 3, 4)])
        lines = im.drive_and_validate(c, "c10", ntr=500, steps=400)
        im.selftest(c, "c10", lines)
    return c.finish(rule="one behaviour per edge of the IterMapImpl state graph (linked list + sentinel + ref counts + pool, "
                         "refinement of OrderedMap.tla checked in the same run) replayed on iterable.Map[string,int] comparing "
                         "every Add/Remove/Get/Len/First/Iterator/HasNext/Next/Close reply and recovering panics; plus recorded "
                         "random histories (6 keys, 8 iterators, re-added keys) validated by TLC against OrderedMap!Apply")
