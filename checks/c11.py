"""C11 - ordered map and LRU cache retain nothing beyond live entries."""
from vcheck import Check
import itermap_common as im


def run(tier):
    c = Check("C11", tier)
    c.build()
    if c.quick():
        im.model_and_replay(c, "c11", emit_cfgs=[(2, 2, 3)], check_cfgs=[])
        lines = im.drive_and_validate(c, "c11", ntr=60, steps=300)
    else:
        im.model_and_replay(c, "c11", emit_cfgs=[(2, 2, 4), (3, 2, 3)], check_cfgs=[(3, 2, 4)])
        lines = im.drive_and_validate(c, "c11", ntr=500, steps=400)
        im.selftest(c, "c11", lines)
    lru_part(c)
    return c.finish(rule="retention predicate (linked nodes <= Len + 1 sentinel + open iterators; no iterator open => no removed "
                         "entry linked) read through the verif-tagged accessor after every step of every edge-behaviour of "
                         "IterMapImpl and of recorded random histories; LRU caches: node count after long seeded histories")


def lru_part(c):
    """LRU histories of arbitrary length: between calls the cache's list links live entries + sentinel only."""
    import json
    n = 20000 if c.quick() else 200000
    trace = c.path("trace", "lru-retention.ndjson")
    c.run_vh(["drive", "lru-retention", "-seed", c.seed, "-n", n, "-out", trace], timeout=1200)
    cfg = c.write_cfg("itermap", "RetentionTrace", postcondition="Accepted")
    ok, at, _ = c.validate_trace("itermap", "RetentionTrace", cfg, trace, label="lru-retention")
    lines = open(trace).read().splitlines()
    c.extra["lru_retention"] = {"calls_per_cache": n, "caches": 5, "samples_validated": len(lines)}
    if ok:
        c.traces_validated += 5
        c.samples.append({"kind": "LRU list statistics samples accepted by RetentionTrace.tla", "events": lines[-3:]})
    else:
        e = json.loads(lines[at - 1])
        if e.get("op") == "GcProbe":
            c.report_failure("retention: %s keeps removed entries reachable (their keys / values are not collected although nothing else refers to them)"
                             % ("the LRU cache" if e.get("what") == "lru" else "the ordered map"), {"rejected_at_line": at, "sample": e})
            return
        c.report_failure("retention: LRU cache list keeps more than live entries (after %s)" % e.get("op"),
                         {"rejected_at_line": at, "sample": e})
