"""C12 - timers: never early, at most once, cancel is effective and precise.

spec:  TimerHeap.tla (the futures slice, every future's idx, Less/Swap/Push/Pop and container/heap's
       up/down transcribed) is exhausted by TLC: index invariant, heap order, and Push / heap.Pop /
       cancel = heap.Remove(idx) change the SET of pending futures exactly as TimerImpl.tla assumes -
       for every heap shape in the bound (front, middle, back, repeated cancel, cancel after firing).
       TimerImpl.tla (pool level) is exhausted for never-early / at-most-once / cancel-effective and
       refines the timed contract TimerAbs.tla.
bind:  one script per edge of TimerHeap's state graph (sampled by the seed in the quick tier), run alone
       (the real heap then walks through the model's shapes) and 8 at a time on the shared package;
       TLC-simulated TimerImpl behaviours; seeded random scripts with up to 500 futures from 1..8
       goroutines (zero / negative / equal delays, cancels of every age).  All executed with real time;
       TLC judges the recorded timed traces against TimerTrace.tla (= TimerAbs.tla).
"""
from vcheck import Check, parallel
import timer_common as tm


def run(tier):
    c = Check("C12", tier)
    c.build()
    q = c.quick()
    u = tm.unit_ms(c)

    runs = tm.Runs(c)
    runs.long_delays_start("long")      # 10-12 s delays waited out, alongside everything below
    # ---- pass A: model checking (nothing timed runs meanwhile - except the long delays, which assert no lateness)
    heap_cf = (4, [0, 1, 2]) if q else (5, [0, 1, 2])
    impl_cf = tm.impl_consts(3, "D_n013", 2, 2) if q else tm.impl_consts(4, "D_n013", 2, 2)
    jobs = [lambda: tm.heap_check(c, "TimerHeap-emit", heap_cf[0], heap_cf[1], emit=True, workers=6, timeout=1500),
            lambda: tm.impl_check(c, "TimerImpl-safety", impl_cf, workers=6, timeout=1500),
            lambda: tm.impl_simulate(c, "TimerImpl-sim", tm.impl_consts(8, "D_n0125", 3, 2), 120 if q else 600, 60)]
    # 6 futures are needed before heap.Remove ever has to move the swapped-in element UP
    jobs.append(lambda: tm.heap_check(c, "TimerHeap-6f", 6, [0, 1] if q else [0, 1, 2], emit=False, workers=4, timeout=1500))
    jobs.append(lambda: tm.heap_simulate(c, "TimerHeap-sim", 12, [0, 1, 2, 3, 4], 150 if q else 1500, 40))
    if not q:
        jobs.append(lambda: tm.heap_check(c, "TimerHeap-5f-4k", 5, [0, 1, 2, 3], emit=False, workers=4, timeout=1500))
    res = parallel(jobs, max_workers=5)
    heap_scripts = tm.load_scripts(res[0])
    sim_scripts = tm.load_scripts(res[2]) + tm.load_scripts(res[4])
    c.exhaustive = True
    c.extra["distinct_heap_scripts"] = len(heap_scripts)

    # ---- pass B: timed executions on the real package
    base = {"unit_ms": u, "maxw": 2, "idle_ms": 2 * u, "late": 0}
    n1, n8 = (4000, 4000) if q else (60000, 40000)
    runs.scripts(tm.sample(c, heap_scripts, n1, 1), "heap1", dict(base, conc=1))
    runs.scripts(tm.sample(c, heap_scripts, n8, 2), "heap8", dict(base, conc=8, maxw=3, jitter_ms=u))
    runs.scripts(sim_scripts, "sim", dict(base, conc=1, maxw=3))
    runs.random("rand", 4 if q else 50, dict(base, futures=500, varycfg=1))
    runs.random("randslow", 1 if q else 10, dict(base, futures=200, varycfg=1, slow=1))
    runs.panicking("panic", 8 if q else 40)
    runs.long_delays_join()

    # ---- pass C: TLC judges the traces
    good = runs.validate("C12")
    if not q and good:
        tm.selftest(c, good, "early")
    c.assumptions += ["stamps come from Go's monotonic clock and are taken outside the package lock: only one-sided clauses are asserted "
                      "(a Start stamped after a CancelRet stamp is legal unless that Cancel returned before tb+d)",
                      "an execution during which a 5 ms sleep overshot by more than 250 ms is discarded and repeated, never judged",
                      "quiescence = every never-cancelled future started, or 2 s after the latest due time",
                      "time unit of the scripts %d ms (from the seed)" % u]
    return c.finish(rule="TLC: every heap shape of TimerHeap.tla for %d futures over keys %s under Push / heap.Pop / cancel in every order "
                         "(index + order invariants, set-exactness of each operation); TimerImpl.tla safety + refinement. Real package: "
                         "one script per edge of that graph (%s), alone and 8 at a time, simulated TimerImpl behaviours, random scripts "
                         "up to 500 futures / 8 goroutines; timed traces judged by TLC against TimerAbs.tla"
                         % (heap_cf[0], heap_cf[1], "%d + %d sampled by the seed" % (n1, n8)))
