"""C13 - timers: every live future fires; the pool adapts and winds down.

spec:  TimerImpl.tla (watchers, per-worker pc / misCount / timer deadline, wake tokens, clock with maximal
       progress).  TLC: no lost wake-up, lateness <= 1 tick, watchers = live workers, restart after
       wind-down, refinement of TimerAbs.tla with the lateness clause on; and under weak fairness (no VIEW,
       no state constraint) `pending and not cancelled ~> started` and `heap empty ~> watchers = 0`.
bind:  scripts executed alone on the real package with VerifConfigure(idle, maxWorkers): the enumerated
       arrival-pattern family {far, near, burst > pool, cancel-head, idle gap} in every order, scripts
       projected from the edges of TimerImpl's state graph (faithful and with the far class stretched to
       10 s) and from TLC-simulated behaviours, seeded random scripts; Idle observations (watchers and
       goroutines of the package) and a Call after wind-down.  TLC judges the timed traces (TimerTrace.tla).
"""
from vcheck import Check, parallel
import timer_common as tm


def run(tier):
    c = Check("C13", tier)
    c.build()
    q = c.quick()
    u = tm.unit_ms(c)

    runs = tm.Runs(c)
    runs.defaults_early()               # the package as it comes up, judged while the host is still quiet
    # ---- pass A: model checking
    emit_cf = tm.impl_consts(3, "D_n013", 2, 2)
    jobs = [lambda: tm.impl_check(c, "TimerImpl-emit", emit_cf, emit=True, workers=6, timeout=1500),
            lambda: tm.impl_live(c, "TimerImpl-live", tm.impl_consts(2, "D_n02", 2, 1, maxt=24, keephist=False), workers=4),
            lambda: tm.impl_simulate(c, "TimerImpl-sim", tm.impl_consts(8, "D_n0125", 3, 2), 100 if q else 500, 70)]
    if not q:
        jobs += [lambda: tm.impl_check(c, "TimerImpl-4f-3w", tm.impl_consts(4, "D_n013", 3, 2), workers=6, timeout=2400),
                 lambda: tm.impl_check(c, "TimerImpl-4f-1w", tm.impl_consts(4, "D_n013", 1, 1), workers=2, timeout=2400),
                 lambda: tm.impl_live(c, "TimerImpl-live3", tm.impl_consts(3, "D_n02", 2, 1, maxt=36, keephist=False), workers=4,
                                      timeout=2400)]
    jobs.append(lambda: tm.impl_wrong_variants(c))
    res = parallel(jobs, max_workers=3 if q else 6)
    impl_scripts = tm.load_scripts(res[0])
    sim_scripts = tm.load_scripts(res[2])
    c.exhaustive = True
    c.extra["distinct_impl_scripts"] = len(impl_scripts)

    # ---- pass B: timed executions, one script at a time per process
    base = {"unit_ms": u, "late": 1, "idlecheck": 1, "restart": 1, "sample": 1, "conc": 1}
    fam = tm.pattern_family(4, 2, 2)
    runs.scripts(fam, "pat-w2", dict(base, maxw=2, idle_ms=2 * u, stretch=50))
    fam1 = tm.pattern_family(2 if q else 3, 1, 1)
    runs.scripts(fam1, "pat-w1", dict(base, maxw=1, idle_ms=u, stretch=50))
    runs.scripts(tm.pattern_family(2 if q else 3, 10, 10), "pat-w10", dict(base, maxw=10, idle_ms=10 * u, stretch=50))
    # an idle timeout ABOVE the lateness / quiescence bounds: a dispatcher whose sleep wrongly involves the idle
    # timeout becomes visible; no Idle observation here (it would take 2 x 3 s), the process simply ends
    runs.scripts(tm.pattern_family(3, 2, 2), "pat-bigidle",
                 dict(base, maxw=2, idle_ms=3000, stretch=50, idlecheck=0, restart=0, sample=0))
    n = 800 if q else 6000
    runs.scripts(tm.sample(c, impl_scripts, n, 1), "impl", dict(base, maxw=2, idle_ms=2 * u))
    runs.scripts(tm.sample(c, impl_scripts, n, 2), "impl-far", dict(base, maxw=2, idle_ms=2 * u, stretch=3))
    runs.scripts(sim_scripts, "sim", dict(base, maxw=3, idle_ms=2 * u))
    runs.random("rand", 2 if q else 20, dict(base, futures=400, varycfg=1, chase=3000 if q else 20000, retire=25000 if q else 250000, order=2 if q else 8))
    runs.random("randslow", 1 if q else 8, dict(base, futures=150, varycfg=1, slow=1))
    runs.panicking("panic", 8 if q else 40)
    if not q:
        # the default idle timeout of the package (30 s): two idle rounds, then zero goroutines
        runs.scripts([[{"op": "call", "d": 1}, {"op": "call", "d": 2}, {"op": "tick", "n": 3}]], "idle30",
                     dict(base, maxw=10, idle_ms=30000, slack_ms=3000), nproc=1)

    # ---- pass C
    good = runs.validate("C13")
    if not q and good:
        tm.selftest(c, good, "idle")
    c.assumptions += ["lateness bound L = 2 s and quiescence bound Q = 2 s (a correct package is two orders of magnitude faster); "
                      "lateness is judged only in executions whose callbacks return at once",
                      "an execution during which a 5 ms sleep overshot by more than 250 ms is discarded and repeated, never judged",
                      "wind-down: zero watchers (accounted and counted on goroutine stacks) at the latest 2 x idle timeout + 1 s after "
                      "the last activity with nothing pending",
                      "pool limit: cc.watchers sampled every 5 ms never exceeds the configured maxWorkers",
                      "time unit of the scripts %d ms (from the seed)" % u]
    return c.finish(rule="TLC: TimerImpl.tla safety/refinement (3 futures, delays {-1,0,1,3}, 2 workers%s) and liveness under weak "
                         "fairness without state constraint. Real package, one script at a time per process: all orders of <= %d "
                         "arrival patterns for pool limits 1/2/10, %d sampled edge scripts of TimerImpl in two time mappings, "
                         "simulated behaviours, random scripts; timed traces judged by TLC against TimerAbs.tla"
                         % ("" if q else "; 4 futures with 1..3 workers", 4, n))
