"""C14 - ring buffer is a bounded FIFO queue for every call sequence.

spec -> code: every edge of RingImpl's state graph (every (r, w, contents,
call, argument) combination for the tier's capacities) is replayed on real
RingBuffer[int] and RingBuffer[*int] objects; TLC checks RingImpl => RingBuffer
(refinement) and the zeroing invariant in the same run.
code -> spec: long seeded call sequences on capacities up to 1000 with huge
arguments are recorded and validated by TLC against RingBuffer!Apply.
"""
import os
import vcheck
from vcheck import Check, parallel


def run(tier):
    c = Check("C14", tier)
    c.build()
    caps = [0, 1, 2, 3] if c.quick() else [0, 1, 2, 3, 4, 5, 6, 7]
    vals = [1, 2] if c.quick() else [1, 2, 3]
    valsof = lambda cap: vals if cap <= 6 else [1, 2]          # fitted to measured state counts (DESIGN.md 9)

    def one(cap):
        cfg = c.write_cfg("ring", "RingImpl_c%d" % cap,
                          constants={"Cap": cap, "Vals": valsof(cap), "MaxArg": cap + 2},
                          invariants=["IndexOK", "Bounded", "ZeroOutside"],
                          properties=["Refines"], view="View", action_constraints=["Emit"])
        emit = c.path("emit", "ring-c%d.ndjson" % cap)
        c.tlc("ring", "RingImpl", cfg, emit=emit, workers=4, label="RingImpl-cap%d" % cap, timeout=3000)
        return emit

    emits = parallel([lambda cap=cap: one(cap) for cap in caps], max_workers=6)
    # the contract on its own (invariants of RingBuffer.tla), smallest and largest capacity
    for cap in (caps[0], caps[-1]):
        cfg = c.write_cfg("ring", "RingBuffer_c%d" % cap,
                          constants={"Cap": cap, "Vals": valsof(cap), "MaxArg": cap + 2},
                          invariants=["Bounded"], view="View")
        c.tlc("ring", "RingBuffer", cfg, workers=4, label="RingBuffer-cap%d" % cap)
    for e in emits:
        for variant in ("int", "ptr"):
            c.replay("ring", e, variant=variant)
    c.exhaustive = True

    # code -> spec
    ntr = 60 if c.quick() else 3000
    steps = 150 if c.quick() else 400
    trace = c.path("trace", "ring.ndjson")
    c.run_vh(["drive", "ring", "-seed", c.seed, "-n", ntr, "-out", trace, "-x", "steps=%d" % steps])
    cfg = c.write_cfg("ring", "RingTrace", postcondition="Accepted")
    ok, at, res = c.validate_trace("ring", "RingTrace", cfg, trace, timeout=1200)
    lines = open(trace).read().splitlines()
    if ok:
        c.traces_validated += ntr
        c.samples.append({"kind": "recorded trace prefix accepted by RingTrace.tla", "events": lines[:8]})
    else:
        start = max(i for i in range(at) if '"op":"New"' in lines[i])
        ctx = lines[start:at]
        c.report_failure("ring: recorded call/reply not allowed by RingBuffer.tla: " + summarize(ctx[-1] if ctx else ""),
                         {"rejected_at_line": at, "history": ctx, "trace": {"comp": "ring", "module": "RingTrace"}})
    big(c)
    if not c.quick():
        selftest(c, lines)
    return c.finish(rule="one behaviour per edge of the RingImpl state graph (shortest call sequence to the edge's source "
                         "state + the edge's call), capacities %s, values %s (2 values at capacity 7), ReadN/Skip/At arguments -1..Cap+2, replayed on "
                         "RingBuffer[int] and RingBuffer[*int]; plus %d recorded random traces of %d calls on capacities up to 1000; plus "
                         "recorded traces of the consecutive-integers workload on capacities 40..65537 with arguments landing on the "
                         "physical end of the array, the fill level, the capacity and powers of two (RingBigTrace.tla)"
                         % (caps, vals, ntr, steps))


def big(c):
    """Large capacities (up to 65537): the consecutive-integers workload with summarised replies.  TLC first proves that the
    interval contract RingBig!BigApply is RingBuffer!Apply summarised (Agree), then validates the recorded traces against it."""
    import json
    cfg = c.write_cfg("ring", "RingBig", constants={"MaxCap": 4 if c.quick() else 6, "MaxLo": 2}, invariants=["Agree"])
    c.tlc("ring", "RingBig", cfg, workers=2, label="RingBig-Agree")
    ntr = 24 if c.quick() else 400
    trace = c.path("trace", "ring-big.ndjson")
    c.run_vh(["drive", "ring", "-seed", c.seed, "-n", ntr, "-out", trace, "-x", "mode=big"], timeout=1500)
    cfg = c.write_cfg("ring", "RingBigTrace", postcondition="Accepted")
    ok, at, res = c.validate_trace("ring", "RingBigTrace", cfg, trace, timeout=1200)
    lines = open(trace).read().splitlines()
    if ok:
        c.traces_validated += ntr
        c.samples.append({"kind": "recorded large-capacity trace prefix accepted by RingBigTrace.tla", "events": lines[:8]})
    else:
        start = max(i for i in range(at) if '"op":"New"' in lines[i])
        ctx = lines[start:at]
        e = json.loads(ctx[-1])
        what = "panicked" if "crash" in e else "reply not allowed by RingBuffer.tla"
        c.report_failure("ring: large capacity: %s %s" % (e.get("op"), what),
                         {"rejected_at_line": at, "history": ctx, "trace": {"comp": "ring", "module": "RingBigTrace"}})


def summarize(line):
    import json
    try:
        e = json.loads(line)
        return "op=%s" % e.get("op")
    except Exception:
        return "?"


def selftest(c, lines):
    """Binding demonstration: corrupt one reply of a good trace; validation must reject it there."""
    import json
    idx = None
    for i, l in enumerate(lines):
        e = json.loads(l)
        if e.get("op") == "Read" and e.get("err") == "nil" and i > 200:
            e["v"] = e["v"] + 1
            lines2 = list(lines[: i + 50])
            lines2[i] = json.dumps(e)
            idx = i
            break
    if idx is None:
        c.selftest = {"ran": False}
        return
    p = c.path("trace", "ring-corrupt.ndjson")
    open(p, "w").write("\n".join(lines2) + "\n")
    cfg = c.write_cfg("ring", "RingTrace", postcondition="Accepted")
    ok, at, _ = c.validate_trace("ring", "RingTrace", cfg, p, label="selftest")
    c.selftest = {"ran": True, "corrupted_line": idx + 1, "rejected_at_line": at, "detected": (not ok) and at == idx + 1}
    if ok or at != idx + 1:
        raise vcheck.Broken("selftest: corrupted trace was not rejected at the corrupted line (%s, %s)" % (ok, at))
