"""C15 - binary codec: decode(encode(x)) = x and predicted size = written size.

spec/xbinary/WireFormat.tla is the wire format (digit sequences instead of 64-bit integers).
spec -> code: TLC checks the format theorems (Size = Len(Enc), Dec(Enc(x)) = x over whole streams,
the transcribed MarshalUint loop and WritableUintSize tree agree with the format) on every case of
WireEnc / WireSmall and emits the cases; vh runs the real Marshal*, ObjectsWriter.Write*, Writable*Size
and Unmarshal* (both newBuf values) on each and compares bytes, sizes, errors, consumed counts, values.
The "exact" inputs of WireDec (a valid encoding followed by arbitrary bytes) are replayed as well.
code -> spec: long random streams with random 64-bit values and random strings, recorded and validated
by TLC against WireTrace.tla (Strict).
"""
import json
import vcheck
from vcheck import Check, parallel
import xbinary_common as xb


def run(tier):
    return xb.guarded(lambda: _run(tier))


def _run(tier):
    c = Check("C15", tier)
    c.build()
    c.specdir(xb.COMP)      # created once, before the parallel TLC runs share it
    all_lens = list(range(1, 11))
    strlens = [0, 1, 2, 126, 127, 128, 129, 16383, 16384, 16385]
    if c.quick():
        thunks = [
            lambda: xb.enc_run(c, "uint", "UUint", lens=all_lens, full=range(1, 8)),
            lambda: xb.enc_run(c, "fixed", "UFixed"),
            lambda: xb.enc_run(c, "str", "UStr", strlens=strlens),
            lambda: xb.enc_run(c, "concat3", "UConcat", max_items=3),
            lambda: xb.small_run(c, range(256)),
            lambda: xb.dec_run(c, "len4", 4, xb.CLASSES, True),
        ]
    else:
        thunks = [
            lambda: xb.enc_run(c, "uint-1to8", "UUint", lens=range(1, 9), full=all_lens),
            lambda: xb.enc_run(c, "uint-9", "UUint", lens=[9], full=all_lens),
            lambda: xb.enc_run(c, "uint-10", "UUint", lens=[10], full=all_lens),
            lambda: xb.enc_run(c, "fixed", "UFixedBig"),
            lambda: xb.enc_run(c, "str", "UStr", strlens=strlens + [3, 125, 130, 255, 256, 16382, 20000]),
            lambda: xb.enc_run(c, "concat3", "UConcat", max_items=3),
            lambda: xb.enc_run(c, "concat2big", "UConcatBig", max_items=2),
            lambda: xb.small_run(c, range(256)),
            lambda: xb.dec_run(c, "len6", 6, xb.CLASSES, True, big=True),
        ]
    emits = parallel(thunks, max_workers=6)
    for e in emits:
        c.replay(xb.COMP, e, extra={"prop": "C15"})
    c.exhaustive = True

    # code -> spec
    ntr = 100 if c.quick() else 5000
    steps = 40 if c.quick() else 80
    trace = c.path("trace", "xbinary-c15.ndjson")
    c.run_vh(["drive", xb.COMP, "-seed", c.seed, "-n", ntr, "-out", trace, "-x", "mode=c15", "-x", "steps=%d" % steps])
    ok, at = xb.validate(c, trace, True, "C15")
    lines = open(trace).read().splitlines()
    if ok:
        c.traces_validated += ntr
        c.samples.append({"kind": "recorded trace prefix accepted by WireTrace.tla (Strict)", "events": [l[:400] for l in lines[:6]]})
    else:
        ctx = lines[max(0, at - 4):at]
        c.report_failure("xbinary: recorded %s not allowed by WireFormat.tla" % xb.describe(ctx[-1] if ctx else ""),
                         {"rejected_at_line": at, "context": [l[:2000] for l in ctx]})
    if not c.quick():
        if ok and not c.violations:
            selftest(c, emits, lines)
        else:   # the self-test needs a good trace to corrupt; a violation is being reported anyway
            c.selftest = {"ran": False, "reason": "violations present"}
    c.assumptions.append("uint is 64 bits on this platform (the harness converts digit sequences to uint64)")
    return c.finish(rule="one behaviour per case of WireEnc/WireSmall: varints of every digit length 1..10 x per-position digit class "
                         "{0,1,127} (%s), every 8- and 16-bit value, byte-pattern products for 32/64-bit, byte strings of lengths %s, "
                         "each with every destination length 0..size+1 (long strings: around prefix and body ends), all concatenations of "
                         "<= 3 items of a 19-item mixed universe, each through Marshal*, ObjectsWriter.Write*, Writable*Size, Unmarshal* "
                         "(newBuf false/true, source overwritten); decoder inputs that begin with a valid encoding (WireDec, exact class); "
                         "plus %d recorded random streams of %d operations validated by WireTrace.tla"
                         % ("all combinations for lengths 1..7, uniform middle digits above" if c.quick() else "all 39 366 combinations",
                            strlens, ntr, steps))


def selftest(c, emits, lines):
    """Binding demonstration: one prescribed byte of one emitted case is changed -> replay must report a
    verdict; one recorded value of the trace is changed -> validation must reject exactly there."""
    st = {"ran": True}

    def flip(rec):
        if rec.get("op") == "Put" and rec.get("kind") == "uint" and len(rec["head"]) >= 3:
            rec["head"][1] ^= 1
            return True
        return False
    bad = c.path("selftest", "enc-corrupt.ndjson")
    if not xb.corrupt_emitted(emits[0], bad, flip):
        raise vcheck.Broken("selftest: no case to corrupt")
    r = xb.replay_raw(c, bad, "C15")
    st["corrupted_behaviour_failures"] = r["n_failures"]
    if r["n_failures"] < 1:
        raise vcheck.Broken("selftest: a corrupted prescribed encoding was not noticed by the replay")
    idx = None
    for i, l in enumerate(lines):
        e = json.loads(l)
        if e.get("op") == "R" and e.get("kind") == "uint" and i > 300:
            e["v"][0] ^= 1
            lines2 = list(lines[: i + 30])
            lines2[i] = json.dumps(e)
            idx = i
            break
    if idx is None:
        raise vcheck.Broken("selftest: no R event to corrupt")
    p = c.path("trace", "xbinary-c15-corrupt.ndjson")
    open(p, "w").write("\n".join(lines2) + "\n")
    ok, at = xb.validate(c, p, True, "C15", label="selftest")
    st.update({"corrupted_line": idx + 1, "rejected_at_line": at, "detected": (not ok) and at == idx + 1})
    c.selftest = st
    if ok or at != idx + 1:
        raise vcheck.Broken("selftest: corrupted trace was not rejected at the corrupted line (%s, %s)" % (ok, at))
