"""C16 - binary decoders are total: arbitrary bytes never panic or over-read.

spec/xbinary/WireFormat.tla defines the decoders as byte-at-a-time automata; WireDec.tla lets TLC reach
every input over the byte classes {00,01,7f,80,81,ff} up to a length bound plus structured adversarial
inputs, checks on the specification that every automaton is total (ok => 0 < n <= len and the body range
inside the input; fail => n = 0) and emits every input with the replies.
spec -> code: vh feeds every input to every Unmarshal* (both newBuf values, with exact and with slack
capacity behind the input), panics recovered.  Verdict: a panic, success with n outside 1..len, returned
bytes that are not a sub-range of the input, failure with n != 0.  Whether an over-long or non-canonical
varint is accepted, and with what value, is left open by the property: a difference from the automaton's
reply is counted as model drift only.
code -> spec: seeded mutation of valid encodings and random bytes -> D events -> WireTrace.tla (not Strict).
"""
import json
import vcheck
from vcheck import Check, parallel
import xbinary_common as xb


def run(tier):
    return xb.guarded(lambda: _run(tier))


def _run(tier):
    c = Check("C16", tier)
    c.build()
    c.specdir(xb.COMP)      # created once, before the parallel TLC runs share it
    if c.quick():
        maxlen, groups, big = 6, [[b] for b in xb.CLASSES], False
    else:
        maxlen, groups, big = 8, [[b] for b in xb.CLASSES], True
    emits = parallel(xb.dec_runs(c, maxlen, groups, big), max_workers=7)
    for e in emits:
        c.replay(xb.COMP, e, extra={"prop": "C16"})
    c.exhaustive = True

    ntr = 100 if c.quick() else 5000
    steps = 50 if c.quick() else 80
    trace = c.path("trace", "xbinary-c16.ndjson")
    c.run_vh(["drive", xb.COMP, "-seed", c.seed, "-n", ntr, "-out", trace, "-x", "mode=c16", "-x", "steps=%d" % steps])
    ok, at = xb.validate(c, trace, False, "C16")
    lines = open(trace).read().splitlines()
    if ok:
        c.traces_validated += ntr
        c.samples.append({"kind": "recorded trace prefix accepted by WireTrace.tla", "events": [l[:400] for l in lines[:6]]})
    else:
        ctx = lines[max(0, at - 2):at]
        c.report_failure("xbinary: recorded %s on mutated input not allowed by C16 (WireFormat!Total)" % xb.describe(ctx[-1] if ctx else ""),
                         {"rejected_at_line": at, "context": [l[:2000] for l in ctx]})
    # megabytes of continuation bytes, in a process of its own (a decoder that recurses per byte kills the process)
    ltrace = c.path("trace", "xbinary-long.ndjson")
    if c.run_vh_crashcheck(["drive", xb.COMP, "-out", ltrace, "-x", "mode=longrun"],
                           "xbinary: a decoder took the whole process down on a 16 MiB run of continuation bytes", timeout=300) is not None:
        lok, lat = xb.validate(c, ltrace, False, "C16", label="WireTrace-long")
        if lok:
            c.traces_validated += 1
        else:
            ll = open(ltrace).read().splitlines()
            if '"op":"Bulk"' in ll[lat - 1]:
                c.report_failure("xbinary: a decoder panicked or returned other bytes in the course of more than 2^31 short newBuf decodes in one process",
                                 {"rejected_at_line": lat, "event": ll[lat - 1][:600]})
            else:
                c.report_failure("xbinary: %s on a 16 MiB run of continuation bytes not allowed by C16" % xb.describe(ll[lat - 1]),
                             {"rejected_at_line": lat, "context": ll[max(0, lat - 1):lat]})
    if not c.quick():
        if ok and not c.violations:
            selftest(c, emits, lines)
        else:   # the self-test needs a good trace to corrupt; a violation is being reported anyway
            c.selftest = {"ran": False, "reason": "violations present"}
    return c.finish(rule="one behaviour per input: all byte strings over the classes {00,01,7f,80,81,ff} up to length %d, plus over-long "
                         "varints (9..12 and 30 continuation bytes, every terminator class), length prefixes 2^31-1, 2^31, 2^32-1, 2^32, 2^63-8, "
                         "2^63-1, 2^63, 2^63+1, 2^64-15..2^64-1 with empty/short bodies and truncated prefixes, honest prefixes with "
                         "empty / short-by-one / exact / over-complete bodies%s; each fed to all seven Unmarshal* with newBuf false/true and "
                         "with/without slack capacity; plus %d recorded runs of %d decodes of mutated encodings validated by WireTrace.tla"
                         % (maxlen, " (also 16 KiB bodies)" if big else "", ntr, steps))


def selftest(c, emits, lines):
    """Binding demonstration.  spec -> code: a prescribed reply is changed -> the replay must see the
    difference (as drift: for C16 the automaton's reply is not an oracle).  code -> spec: a recorded
    consumed length is pushed beyond the input -> validation must reject exactly there."""
    st = {"ran": True}

    def bump(rec):
        if rec.get("op") == "Dec" and rec["r"]["uint"]["ok"]:
            rec["r"]["uint"]["n"] += 1
            return True
        return False
    bad = c.path("selftest", "dec-corrupt.ndjson")
    if not xb.corrupt_emitted(emits[0], bad, bump):
        raise vcheck.Broken("selftest: no case to corrupt")
    r = xb.replay_raw(c, bad, "C16")
    st["corrupted_behaviour_drift"] = r["n_drift"]
    if r["n_drift"] < 1 or r["n_failures"] != 0:
        raise vcheck.Broken("selftest: a corrupted prescribed reply was not noticed (as drift) by the replay")
    idx = None
    for i, l in enumerate(lines):
        e = json.loads(l)
        if e.get("op") == "D" and e.get("ok") and i > 300:
            e["n"] = len(e["in"]) + 1
            lines2 = list(lines[: i + 30])
            lines2[i] = json.dumps(e)
            idx = i
            break
    if idx is None:
        raise vcheck.Broken("selftest: no D event to corrupt")
    p = c.path("trace", "xbinary-c16-corrupt.ndjson")
    open(p, "w").write("\n".join(lines2) + "\n")
    ok, at = xb.validate(c, p, False, "C16", label="selftest")
    st.update({"corrupted_line": idx + 1, "rejected_at_line": at, "detected": (not ok) and at == idx + 1})
    c.selftest = st
    if ok or at != idx + 1:
        raise vcheck.Broken("selftest: corrupted trace was not rejected at the corrupted line (%s, %s)" % (ok, at))
