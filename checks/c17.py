"""C17 - block allocator: no double allocation, disjoint blocks, recoverable state.

Specs (spec/blocks): BlockAlloc.tla (contract: Allowed/After), Geometry.tla (constructor
rule Valid and the layout arithmetic), BlocksImpl.tla (header bitmaps, freeIdx hint,
first-fit scan, available counter; refines BlockAlloc), BlocksTrace.tla (sequential
traces), BlocksLinTrace.tla (concurrent histories, linearizability).

spec -> code: one behaviour per edge of BlocksImpl's state graph on the tiny geometries
(block size 1 and 2, 1-3 segments, exact-fit and oversized buffers) and one case per
geometry of Geometry.tla are replayed on real bytes.Blocks objects over in-memory and
memory-mapped buffers.  After every single call the adapter opens a second NewBlocks on a
copy of the bytes and compares Count, Available and the allocation set; every allocated
block is filled with a pattern containing 0xFF bytes; block ranges must be disjoint from
each other and from every byte the allocator itself changes.
code -> spec: long seeded random runs on realistic geometries (block sizes 1..page,
in-memory and MMFile) and concurrent histories of 8 goroutines are recorded and validated
by TLC against the contract.
Verdicts come from the contract only; a free index different from BlocksImpl's prediction
is model drift.
"""
import json
import os
import random
import time

import vcheck
from vcheck import Check, parallel, q

COMP = "blocks"
IMPL_INV = ["TypeOK", "HintInHeader", "HintSound", "AvailOK"]
VH_TIMEOUT = 420      # a hanging harness run is broken machinery (exit 2), never a verdict


def impl_cfg(c, name, bs, segs, tail, mode, holes=None, emit=True, literal=False):
    """Write one BlocksImpl config.  holes=None: the complete state graph."""
    consts = {"BlkSize": bs, "Segments": segs, "TailBytes": tail, "ArgMode": q(mode),
              "MaxHoles": 99 if holes is None else holes}
    props, acts = [], []
    if literal:
        props = ["Refines", "RefinesStep"]      # refinement as a temporal property, literally
    else:
        acts.append("RefAssert")                # same condition, evaluated per transition
    if emit:
        acts.append("Emit")
    return c.write_cfg(COMP, name, constants=consts, invariants=IMPL_INV, properties=props,
                       view="View", action_constraints=acts,
                       constraints=[] if holes is None else ["FewHoles"])


def run(tier):
    c = Check("C17", tier)
    c.build()
    quick = c.quick()
    rnd = random.Random(c.seed)

    # ---- constants that live in the machine / the code --------------------------------
    probe = c.path("probe.json")
    c.run_vh(["drive", COMP, "-variant", "probe", "-out", probe])
    page = json.load(open(probe))["page"]
    c.extra["page_size"] = page

    c.specdir(COMP)     # create the scratch spec directory before the parallel jobs use it
    emits = {}          # name -> emitted file
    notes_files = []    # adapter-side findings of the drivers
    results = {}

    # ---- pass A: model checking + emission --------------------------------------------
    # (name, bs, segs, tail, mode, holes, emit, literal, workers)
    impl = [("I11", 1, 1, 0, "all", None, True, True, 4),
            ("I12", 1, 2, 3, "edge", 2, True, False, 4),
            ("I21", 2, 1, 0, "edge", 2, True, False, 4),
            ("I13", 1, 3, 0, "edge", 1, True, False, 4)]
    if not quick:
        impl += [("I22", 2, 2, 5, "edge", 1, True, False, 4),
                 ("I12h3", 1, 2, 0, "edge", 3, True, False, 4),
                 ("F12", 1, 2, 0, "all", None, False, False, 8),     # complete graphs, no emission
                 ("F21", 2, 1, 1, "all", None, False, False, 8)]

    def tlc_impl(spec):
        name, bs, segs, tail, mode, holes, emit, literal, workers = spec
        cfg = impl_cfg(c, "BlocksImpl_" + name, bs, segs, tail, mode, holes, emit, literal)
        ef = c.path("emit", name + ".ndjson") if emit else None
        c.tlc(COMP, "BlocksImpl", cfg, emit=ef, workers=workers, timeout=540, label="BlocksImpl-" + name)
        if emit:
            emits[name] = ef

    def tlc_geometry():
        cfg = c.write_cfg(COMP, "Geometry", constants={"Page": page, "MaxSize": 1100000000},
                          invariants=["RulesAgree", "AcceptedLayoutOK"], view="View",
                          action_constraints=["Emit"])
        ef = c.path("emit", "geometry.ndjson")
        c.tlc(COMP, "Geometry", cfg, emit=ef, workers=2, timeout=300, label="Geometry")
        emits["geo"] = ef

    def tlc_contract():
        cnt, ml = (2, 3) if quick else (3, 4)
        cfg = c.write_cfg(COMP, "BlockAlloc", constants={"Count": cnt, "MaxLen": ml},
                          invariants=["TypeOK", "NoDoubleHandout", "ExhaustedIffFull"],
                          constraints=["LenBound"])
        c.tlc(COMP, "BlockAlloc", cfg, workers=4, timeout=300, label="BlockAlloc-count%d-len%d" % (cnt, ml))

    def tlc_sim():
        # long random behaviours of BlocksImpl on 2 bytes x 3 segments (48 blocks)
        cfg = impl_cfg(c, "BlocksImpl_sim", 2, 3, 1, "edge", None, True, False)
        ef = c.path("emit", "sim.ndjson")
        depth = 80
        c.tlc(COMP, "BlocksImpl", cfg, emit=ef, workers=4, timeout=300, simulate="num=30", depth=depth,
              label="BlocksImpl-simulate")
        # the simulator evaluates Emit on every candidate successor; keep the full-length walks only
        full = c.path("emit", "sim-full.ndjson")
        with open(ef) as f, open(full, "w") as g:
            for line in f:
                if line.count("{") >= depth:
                    g.write(line)
        os.remove(ef)
        emits["sim"] = full

    # ---- pass B (independent of A): drive the real code, validate traces ---------------
    def drive_seq():
        trace = c.path("trace", "seq.ndjson")
        n, steps = (6, 1200) if quick else (24, 2500)
        c.run_vh(["drive", COMP, "-seed", c.seed, "-n", n, "-out", trace, "-x", "steps=%d" % steps], timeout=VH_TIMEOUT)
        notes_files.append(("sequential run", trace + ".notes.json"))
        cfg = c.write_cfg(COMP, "BlocksTrace", postcondition="Accepted")
        ok, at, _ = c.validate_trace(COMP, "BlocksTrace", cfg, trace, timeout=900, label="BlocksTrace")
        results["seq"] = (trace, ok, at, n)

    def drive_scen():
        # growth / window / bulk scenarios around the underlying buffer, in a process of their own (see blocks.go)
        trace = c.path("trace", "scen.ndjson")
        if c.run_vh_crashcheck(["drive", COMP, "-seed", c.seed, "-n", 1, "-out", trace, "-x", "only=scenarios"],
                               "blocks: an allocator call took the whole process down after its underlying buffer was grown / re-mapped "
                               "(memory fault)", timeout=600) is None:
            results["scen"] = (trace, True, None, 0)
            return
        cfg = c.write_cfg(COMP, "BlocksTrace", postcondition="Accepted")
        ok, at, _ = c.validate_trace(COMP, "BlocksTrace", cfg, trace, timeout=900, label="BlocksTrace-scenarios")
        results["scen"] = (trace, ok, at, 1)

    def drive_conc():
        trace = c.path("trace", "conc.ndjson")
        n, ops, rounds = (5, 150, 2) if quick else (15, 300, 3)
        c.run_vh(["drive", COMP, "-variant", "conc", "-seed", c.seed + 1000, "-n", n, "-out", trace,
                  "-x", "ops=%d" % ops, "-x", "rounds=%d" % rounds, "-x", "g=8"], timeout=VH_TIMEOUT)
        notes_files.append(("concurrent run", trace + ".notes.json"))
        cfg = c.write_cfg(COMP, "BlocksLinTrace", constraints=["Progress"], postcondition="Accepted")
        ok, at, _ = c.validate_trace(COMP, "BlocksLinTrace", cfg, trace, workers=1, deque=True,
                                     timeout=900, label="BlocksLinTrace")
        results["conc"] = (trace, ok, at, n * rounds)

    jobs = [lambda s=s: tlc_impl(s) for s in impl] + [tlc_geometry, tlc_contract, drive_seq, drive_scen, drive_conc]
    if not quick:
        jobs.append(tlc_sim)
    parallel(jobs, max_workers=9 if quick else 6)
    vcheck.log("model checking, emission and trace validation done after %.1fs" % (time.time() - c.t0))
    c.exhaustive = True

    # ---- replay the emitted behaviours on the real code ---------------------------------
    for name, ef in sorted(emits.items()):
        c.replay(COMP, ef, variant="inmem", timeout=VH_TIMEOUT)
    # the same driver over files.MMFile: live mapping, state read back from the file after
    # every call ("mm"); and close + re-map + NewBlocks after every call ("mmre")
    mm = ["I11"] if quick else ["I11", "I12", "I13", "I21", "sim"]
    for name in mm:
        c.replay(COMP, emits[name], variant="mm", timeout=VH_TIMEOUT)
    if quick:
        c.replay(COMP, sample_lines(c, emits["I21"], 2000, rnd), variant="mm", timeout=VH_TIMEOUT)
    mmre = sample_lines(c, emits["I12"], 1500 if quick else 8000, rnd)
    c.replay(COMP, mmre, variant="mmre", timeout=VH_TIMEOUT)

    # ---- verdicts of the drivers ---------------------------------------------------------
    for what, nf in notes_files:
        for nt in json.load(open(nf)).get("notes") or []:
            c.report_failure(nt["sig"], {"where": what, "cfg": nt.get("cfg"), "step": nt.get("step"),
                                         "got": nt.get("got"), "want": nt.get("want")})
    trace, ok, at, n = results["seq"]
    lines = open(trace).read().splitlines()
    if ok:
        c.traces_validated += sum(1 for l in lines if '"op":"New"' in l)
        c.samples.append({"kind": "recorded sequential trace prefix accepted by BlocksTrace.tla", "events": lines[:6]})
    else:
        ctx = lines[max(0, at - 5):at]
        c.report_failure("blocks: recorded call/reply not allowed by BlockAlloc.tla/Geometry.tla: " + summarize(ctx[-1] if ctx else ""),
                         {"rejected_at_line": at, "context": ctx})
    strace, sok, sat, sn = results["scen"]
    if sn:
        slines = open(strace).read().splitlines()
        if sok:
            c.traces_validated += len(slines)
        else:
            ctx = slines[max(0, sat - 1):sat]
            c.report_failure("blocks: recorded call/reply not allowed by BlockAlloc.tla/Geometry.tla: " + summarize(ctx[-1] if ctx else ""),
                             {"rejected_at_line": sat, "context": ctx})
    ctrace, cok, cat, cn = results["conc"]
    clines = open(ctrace).read().splitlines()
    if cok:
        c.traces_validated += cn
        c.samples.append({"kind": "recorded concurrent history prefix accepted by BlocksLinTrace.tla", "events": clines[:6]})
    else:
        ctx = clines[max(0, cat - 8):cat]
        c.report_failure("blocks: concurrent history is not linearizable with respect to BlockAlloc.tla",
                         {"stuck_at_line": cat, "context": ctx})
    c.extra["sequential_trace_events"] = len(lines)
    c.extra["concurrent_history_events"] = len(clines)
    c.assumptions = [
        "page size %d probed from os.Getpagesize() on this machine" % page,
        "geometry cases above 64 MiB run on an anonymous private mapping instead of NewInMemBytes",
        "tiny geometries on MMFile use the first n bytes of a 4096-byte mapped file (MMFile sizes are multiples of 4096)",
    ]

    if not quick:
        selftest(c, lines, clines, emits["I11"])
    return c.finish(rule="one behaviour per edge of the BlocksImpl state graph: block size 1 x 1 segment complete (every "
                         "allocation set x hint position x call/argument), block size 1 x 2-3 segments and 2 x 1%s segments for all "
                         "allocation sets with at most 1-3 holes; one case per geometry of Geometry.tla (block sizes -2..17, 32, 64, "
                         "page/2, page-1, page, page+1, 3*page/2, 2*page; sizes k segments -1/0/+1, k=0..3; both fit values); each "
                         "replayed with snapshot/reopen after every call, on in-memory and MMFile buffers; plus recorded random "
                         "sequential runs and 8-goroutine histories validated by TLC"
                         % ("" if quick else "-2"))


def sample_lines(c, path, k, rnd):
    lines = open(path).read().splitlines()
    if len(lines) > k:
        lines = rnd.sample(lines, k)
    out = c.path("emit", "sample-%d.ndjson" % k)
    open(out, "w").write("\n".join(lines) + "\n")
    return out


def summarize(line):
    try:
        e = json.loads(line)
        return "op=%s" % e.get("op")
    except Exception:
        return "?"


def selftest(c, lines, clines, emitted):
    """Binding demonstration: corrupt one recorded value of a good sequential trace, one of a good
    concurrent history and one prescribed reply of a good behaviour; each must be noticed."""
    st = {"ran": True}
    # 1. sequential trace: a successful Free turned into ErrNotExist
    idx = None
    for i, l in enumerate(lines):
        e = json.loads(l)
        if i > 300 and e.get("op") == "Free" and e.get("err") == "nil":
            e["err"] = "notexist"
            l2 = list(lines[: i + 40])
            l2[i] = json.dumps(e)
            idx = i
            break
    if idx is None:
        raise vcheck.Broken("selftest: no successful Free in the recorded trace")
    p = c.path("trace", "seq-corrupt.ndjson")
    open(p, "w").write("\n".join(l2) + "\n")
    cfg = c.write_cfg(COMP, "BlocksTrace", postcondition="Accepted")
    ok, at, _ = c.validate_trace(COMP, "BlocksTrace", cfg, p, label="selftest-seq")
    st["sequential"] = {"corrupted_line": idx + 1, "rejected_at_line": at, "detected": (not ok) and at == idx + 1}
    if ok or at != idx + 1:
        raise vcheck.Broken("selftest: corrupted sequential trace not rejected at the corrupted line (%s, %s)" % (ok, at))
    # 2. concurrent history: an Arrange reply changed to an index another call holds
    held, idx = {}, None
    for i, l in enumerate(clines):
        e = json.loads(l)
        if e.get("e") == "new":
            held = {}
        if e.get("e") != "inv":
            continue
        if e["op"] == "Arrange" and e["err"] == "nil":
            others = [x for x, since in held.items() if x != e["idx"] and i - since > 40]
            if i > 200 and others:
                e["idx"] = others[0]
                l2 = list(clines[: i + 60])
                l2[i] = json.dumps(e)
                idx = i
                break
            held[e["idx"]] = i
        elif e["op"] == "Free" and e["err"] == "nil":
            held.pop(e["i"], None)
    if idx is None:
        raise vcheck.Broken("selftest: no suitable Arrange in the concurrent history")
    p = c.path("trace", "conc-corrupt.ndjson")
    open(p, "w").write("\n".join(l2) + "\n")
    cfg = c.write_cfg(COMP, "BlocksLinTrace", constraints=["Progress"], postcondition="Accepted")
    ok, at, _ = c.validate_trace(COMP, "BlocksLinTrace", cfg, p, workers=1, deque=True, label="selftest-conc")
    st["concurrent"] = {"corrupted_line": idx + 1, "stuck_at_line": at, "detected": not ok}
    if ok:
        raise vcheck.Broken("selftest: corrupted concurrent history was accepted")
    # 3. behaviour: a prescribed ErrExhausted turned into success
    blines = open(emitted).read().splitlines()
    done = None
    for i, l in enumerate(blines):
        b = json.loads(json.loads(l))
        if b[-1].get("op") == "Arrange" and b[-1].get("err") == "exhausted":
            b[-1] = {"op": "Arrange", "err": "nil", "idx": 0}
            done = json.dumps(b)
            break
    if done is None:
        raise vcheck.Broken("selftest: no exhausted behaviour emitted")
    p = c.path("emit", "corrupt.ndjson")
    open(p, "w").write(done + "\n")
    out = c.path("emit", "corrupt-result.json")
    c.run_vh(["replay", COMP, "-in", p, "-out", out, "-variant", "inmem"])
    r = json.load(open(out))
    st["behaviour"] = {"detected": r["n_failures"] == 1}
    if r["n_failures"] != 1:
        raise vcheck.Broken("selftest: corrupted behaviour replayed without a failure")
    c.selftest = st
