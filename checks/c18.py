"""C18 - iterator mixer is a faithful two-way merge.

spec -> code: TLC explores MixerImpl (the 4-state selector `st` with the
one-element look-ahead per source, as in mixer.go) for ALL pairs of input
sequences up to the tier's length over {1,2,3}, the selectors <, <=, TRUE,
FALSE and every call pattern of HasNext / Next / Reset (each is an edge of the
state graph), proves it refines the contract Merge.tla and emits one behaviour
per edge; every behaviour is replayed on a real iterable.Mixer[int] over
WrapIntSlice inputs (also nested in inner mixers, and over inputs that cannot
be reset).  TLC checks on the contract itself that the output is an
order-preserving interleaving holding every element exactly once and that
sorted inputs give sorted output.
code -> spec: long random inputs under random call patterns are recorded from
the real mixer and validated by TLC against the same contract operators.
"""
import json
import os
import vcheck
from vcheck import Check, parallel, q

SELS = ["lt", "le", "true", "false"]
VALS = [1, 2, 3]


def run(tier):
    c = Check("C18", tier)
    c.build()
    c.specdir("mixer")      # create the scratch spec directory before the threads race for it
    maxlen = 2 if c.quick() else 3
    # inputs that cannot both be reset only matter for the Reset clause and the "any call
    # pattern" clause (with them the state graph is three times larger): shorter inputs
    maxlen_nr = 1 if c.quick() else 2
    lens = list(range(maxlen + 1))
    nlens = list(range(maxlen_nr + 1))
    modes = ((False, False, "nn"), (True, False, "rn"), (False, True, "nr"))

    jobs = []   # (label, constants, both inputs resettable)

    def consts(sels, len1s, len2s, r1, r2):
        return {"Vals": VALS, "Len1s": len1s, "Len2s": len2s, "Sels": [q(s) for s in sels], "R1s": [r1], "R2s": [r2]}

    if c.quick():
        # few TLC runs: the JVM start dominates at these sizes
        jobs.append(("rr-lt-true", consts(["lt", "true"], lens, lens, True, True), True))
        jobs.append(("rr-le-false", consts(["le", "false"], lens, lens, True, True), True))
        for (r1, r2, tag) in modes:
            jobs.append((tag, consts(SELS, nlens, nlens, r1, r2), False))
    else:
        for sel in SELS:
            # 27 of the 40 first inputs have length 3: that slice is a run of its own
            jobs.append(("rr-%s-l012" % sel, consts([sel], lens[:-1], lens, True, True), True))
            jobs.append(("rr-%s-l3" % sel, consts([sel], lens[-1:], lens, True, True), True))
            for (r1, r2, tag) in modes:
                jobs.append(("%s-%s" % (tag, sel), consts([sel], nlens, nlens, r1, r2), False))

    def one(job):
        label, constants, _ = job
        cfg = c.write_cfg("mixer", "MixerImpl_" + label, constants=constants,
                          invariants=["TypeOK", "LoadInv", "StInv"], properties=["Refines"],
                          view="View", action_constraints=["Emit"])
        emit = c.path("emit", "mixer-%s.ndjson" % label)
        c.tlc("mixer", "MixerImpl", cfg, emit=emit, workers=2, label="MixerImpl-" + label, timeout=540)
        return emit

    # largest jobs first so the pool drains evenly
    def weight(job):
        k = job[1]
        return sum(3 ** (a + b) for a in k["Len1s"] for b in k["Len2s"]) * len(k["Sels"]) * (1 if job[2] else 3)

    jobs.sort(key=weight, reverse=True)

    # the contract on its own: what the property says about the output as a whole
    def contract(sels, tag):
        cfg = c.write_cfg("mixer", "Merge_" + tag,
                          constants={"Vals": VALS, "Len1s": lens, "Len2s": lens, "Sels": [q(s) for s in sels],
                                     "R1s": [True, False], "R2s": [True, False]},
                          invariants=["TypeOK", "Interleaving", "Complete", "SortedMerge", "WholeMerge", "AgreeInv"],
                          properties=["Progress"], view="View")
        c.tlc("mixer", "Merge", cfg, workers=2, label="Merge-" + tag, timeout=540)

    contracts = [(SELS, "all")] if c.quick() else [([sel], sel) for sel in SELS]
    thunks = [lambda job=job: one(job) for job in jobs] + [lambda a=a: contract(*a) for a in contracts]
    emits = parallel(thunks, max_workers=vcheck.NCPU)[:len(jobs)]

    for job, e in zip(jobs, emits):
        c.replay("mixer", e)
        for v in ("reinit-drained", "reinit-peeked", "reinit-mid", "reinit-closed", "reinit-closedmid", "tease", "funcs"):
            c.replay("mixer", e, variant=v)
        if job[2]:
            c.replay("mixer", e, variant="nested")
            c.replay("mixer", e, variant="ptr")
    c.exhaustive = True

    # code -> spec
    ntr = 150 if c.quick() else 1500
    steps = 200 if c.quick() else 400
    maxl = 60 if c.quick() else 200
    trace = c.path("trace", "mixer.ndjson")
    c.run_vh(["drive", "mixer", "-seed", c.seed, "-n", ntr, "-out", trace,
              "-x", "steps=%d" % steps, "-x", "maxlen=%d" % maxl])
    cfg = c.write_cfg("mixer", "MergeTrace", postcondition="Accepted")
    ok, at, res = c.validate_trace("mixer", "MergeTrace", cfg, trace, timeout=1200)
    lines = open(trace).read().splitlines()
    if ok:
        c.traces_validated += ntr
        c.samples.append({"kind": "recorded trace prefix accepted by MergeTrace.tla", "events": lines[:8]})
    else:
        ctx = lines[max(0, at - 6):at]
        start = at - 1
        while start > 0 and '"op":"New"' not in lines[start]:
            start -= 1
        c.report_failure("mixer: recorded call/reply not allowed by Merge.tla: " + summarize(ctx[-1] if ctx else ""),
                         {"rejected_at_line": at, "new": lines[start], "calls_since_new": at - 1 - start, "context": ctx})
    if not c.quick():
        selftest(c, lines, emits[0])
    return c.finish(rule="one behaviour per edge of the MixerImpl state graph (shortest call sequence to the edge's source state "
                         "+ the edge's call: HasNext, Next or Reset), all pairs of input sequences of length <= %d over %s "
                         "(<= %d when an input cannot be reset), selectors %s, replayed on Mixer[int] over WrapIntSlice inputs, "
                         "nested inner mixers and non-resettable wrappers; plus %d recorded traces of %d random calls on random "
                         "inputs of length <= %d" % (maxlen, VALS, maxlen_nr, SELS, ntr, steps, maxl))


def summarize(line):
    try:
        e = json.loads(line)
        return "op=%s" % e.get("op")
    except Exception:
        return "?"


def selftest(c, lines, emitted):
    """Binding demonstration, both directions: (1) corrupt one recorded value of a good
    trace - TLC must reject the trace at that line; (2) corrupt one prescribed answer of a
    good behaviour - the replay on the real code must fail at that step."""
    st = {"ran": True}
    idx, seen_new = None, 0
    for i, l in enumerate(lines):
        e = json.loads(l)
        if e.get("op") == "New":
            seen_new += 1
            resettable = e["r1"] and e["r2"]
        if seen_new >= 3 and resettable and e.get("op") == "Next" and e.get("ok"):
            e["v"] = e["v"] + 1
            lines2 = list(lines[: i + 40])
            lines2[i] = json.dumps(e, separators=(",", ":"))
            idx = i
            break
    if idx is None:
        raise vcheck.Broken("selftest: no successful Next found in the recorded trace")
    p = c.path("trace", "mixer-corrupt.ndjson")
    open(p, "w").write("\n".join(lines2) + "\n")
    cfg = c.write_cfg("mixer", "MergeTrace", postcondition="Accepted")
    ok, at, _ = c.validate_trace("mixer", "MergeTrace", cfg, p, label="selftest")
    st.update({"corrupted_trace_line": idx + 1, "rejected_at_line": at, "trace_detected": (not ok) and at == idx + 1})
    if ok or at != idx + 1:
        raise vcheck.Broken("selftest: corrupted trace was not rejected at the corrupted line (%s, %s)" % (ok, at))

    # (2) a behaviour whose last step is a successful Next: flip the prescribed value
    beh = None
    for l in open(emitted):
        b = json.loads(l)
        if isinstance(b, str):
            b = json.loads(b)
        if b[-2].get("op") == "Next" and b[-2].get("ok") and not b[-2].get("free"):
            beh = b[:-1]      # without the Drain epilogue
            break
    if beh is None:
        raise vcheck.Broken("selftest: no behaviour ending in a successful Next")
    beh[-1]["v"] = beh[-1]["v"] % 3 + 1
    bp = c.path("emit", "mixer-corrupt.ndjson")
    open(bp, "w").write(json.dumps(beh) + "\n")
    outp = c.path("emit", "mixer-corrupt-result.json")
    c.run_vh(["replay", "mixer", "-in", bp, "-out", outp])
    r = json.load(open(outp))
    det = r["n_failures"] == 1 and r["failures"][0]["step"] == len(beh) - 1
    st.update({"corrupted_behaviour_step": len(beh) - 1, "replay_detected": det})
    c.selftest = st
    if not det:
        raise vcheck.Broken("selftest: corrupted prescribed answer was not noticed by the replay: %s" % r)
