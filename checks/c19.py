"""C19 - error classes survive wrapping and the gRPC boundary.

probe:        `vh drive errs-probe` asks the compiled library for GRPCStatusCode(class) (12 classes) and
              FromGRPCError(status error with code) (17 codes) and writes them as the TLA+ module ErrTables.tla
              into the scratch spec directory.
TLC:          ErrMC (= ErrClasses with the probed tables) is explored over class x depth 0..4 x embed position x
              message id; invariants Contract / RoundTrip / WrappedIsStable / NeverNil say that the table-driven model
              of the Go functions satisfies the property.  A failure here is a finding about the probed tables, not a
              verdict.
spec -> code: one behaviour per edge of that state graph is rebuilt with the real fmt.Errorf("%w"), EmbedObject,
              GRPCWrap; the real Is / GRPCStatusCode / FromGRPCError / ExtractObject results are compared with what
              the property requires (verdict) and with what the model predicts (drift).
code -> spec: seeded random chains (random texts over the marker's alphabet) are recorded and validated by TLC
              against the contract operators (ErrTrace.tla).
A TLC table finding that no real observation confirms is a SPEC-ERROR (exit 2), never a violation.
"""
import json
import os
import re
import shutil

import vcheck
from vcheck import Check, Subst, parallel

TABLE_INVARIANTS = ["Contract", "RoundTrip", "WrappedIsStable", "NeverNil"]


def consts(nmsgs, depth):
    return {"ClassToCode": Subst("ProbedClassToCode"), "CodeToClass": Subst("ProbedCodeToClass"),
            "FallbackCode": Subst("ProbedFallbackCode"), "Msgs": list(range(1, nmsgs + 1)), "MaxDepth": depth}


def probe(c, comp="errs"):
    d = c.specdir(comp)
    out = os.path.join(d, "ErrTables.tla")
    c.run_vh(["drive", "errs-probe", "-out", out])
    tables = json.loads(open(out + ".json").read())
    os.remove(out + ".json")
    return tables


def table_invariants(c, comp, nmsgs, depth, label):
    """One TLC run per invariant on the probed tables; returns the names of the violated ones."""
    def one(inv):
        cfg = c.write_cfg(comp, "ErrMC_" + inv, constants=consts(nmsgs, depth), invariants=[inv], view="View")
        res = c.tlc(comp, "ErrMC", cfg, workers=2, expect_ok=False, count=False, label="%s-%s" % (label, inv), timeout=300)
        if res["ok"]:
            return None
        if res["error"] and re.search(r"Invariant %s is violated|invariant of %s is equal to FALSE" % (inv, inv), res["out"]):
            return inv
        raise vcheck.Broken("SPEC-ERROR: TLC run %s failed: %s\n%s" % (res["label"], res["error"], vcheck.tail(res["out"], 40)))
    return [r for r in parallel([lambda inv=inv: one(inv) for inv in TABLE_INVARIANTS], max_workers=4) if r]


def run(tier):
    c = Check("C19", tier)
    c.build()
    tables = probe(c)
    nmsgs = tables["n_msgs"]
    c.extra["probed_tables"] = tables
    depth = 4 if c.quick() else 8   # the property's bound on fmt %w layers is 4

    # ---- TLC: emission run (type invariants only: must pass) and the table invariants, side by side
    emit = c.path("emit", "errs.ndjson")

    def emit_run():
        cfg = c.write_cfg("errs", "ErrMC_emit", constants=consts(nmsgs, depth), invariants=["TablesOK", "TypeOK"],
                          view="View", action_constraints=["Emit"])
        return c.tlc("errs", "ErrMC", cfg, emit=emit, workers=4, label="ErrMC-emit", timeout=600)

    _, findings = parallel([emit_run, lambda: table_invariants(c, "errs", nmsgs, depth, "ErrMC")], max_workers=2)
    c.extra["tlc_findings_on_probed_tables"] = findings
    for inv in findings:
        vcheck.log("TLC: invariant %s does not hold on the tables probed from the compiled library "
                   "(finding; a verdict only if the real functions confirm it)" % inv)

    # ---- spec -> code
    c.replay("errs", emit)
    c.exhaustive = True

    # ---- code -> spec
    ntr = 20000 if c.quick() else 300000
    nseeds = 1 if c.quick() else 6
    maxd = 6 if c.quick() else 10
    cfg = c.write_cfg("errs", "ErrTrace", postcondition="Accepted")

    def drive(k):
        trace = c.path("trace", "errs-%d.ndjson" % k)
        c.run_vh(["drive", "errs", "-seed", c.seed + 7919 * k, "-n", ntr, "-out", trace, "-x", "maxdepth=%d" % maxd])
        ok, at, _ = c.validate_trace("errs", "ErrTrace", cfg, trace, timeout=1200, label="ErrTrace-%d" % k)
        return ok, at, open(trace).read().splitlines()

    lines = None
    for ok, at, ls in parallel([lambda k=k: drive(k) for k in range(nseeds)], max_workers=6):
        lines = lines or ls
        if ok:
            c.traces_validated += ntr
            if len(c.samples) < 5:
                c.samples.append({"kind": "recorded observations accepted by ErrTrace.tla", "events": ls[:6]})
        else:
            bad = ls[at - 1] if 0 < at <= len(ls) else ""
            c.report_failure("errs: recorded observation of the real functions is not allowed by the contract (%s)" % summarize(bad),
                             {"rejected_at_line": at, "event": bad})
    ntr *= nseeds

    # ---- a table finding must be confirmed by the real functions
    if findings and not c.violations and not c.known:
        raise vcheck.Broken("SPEC-ERROR: TLC found %s violated on the probed tables but no real Is / FromGRPCError / "
                            "ExtractObject result contradicts the property; the model of the tables is wrong" % findings)

    if not c.quick():
        if c.violations or c.known or findings:
            c.selftest = {"ran": False, "reason": "the run itself reports a failure"}
        else:
            selftest(c, emit, lines, nmsgs, depth)
    return c.finish(rule="one behaviour per edge of the ErrMC state graph on the tables probed from the compiled library: "
                         "12 classes x %d message texts x wrap depth 0..%d x (no object | object embedded below layer 0..depth) "
                         "x (plain | GRPCWrap | GRPCWrap twice), plus 17 codes x %d texts through FromGRPCError, every step "
                         "replayed with the real fmt.Errorf/EmbedObject/GRPCWrap; plus %d recorded random chains (depth 0..%d, "
                         "random texts) validated against the contract" % (nmsgs, depth, nmsgs, ntr, maxd))


def summarize(line):
    try:
        e = json.loads(line)
    except Exception:
        return "?"
    if "crash" in e:
        return "op=%s: a library call panicked" % e.get("op")
    return "op=%s" % e.get("op")


def selftest(c, emit, lines, nmsgs, depth):
    """Binding demonstration, three ways: (1) a prescribed answer of a good behaviour is corrupted and the replay
    must fail on it; (2) a recorded observation is corrupted and TLC must reject the trace at that line;
    (3) the probed table is edited (two codes swapped) and TLC must find the round trip broken."""
    st = {"ran": True}
    # (1)
    beh = None
    for raw in open(emit):
        b = json.loads(json.loads(raw)) if raw.startswith('"') else json.loads(raw)
        if len(b) >= 4 and b[-1]["op"] == "GRPCWrap" and "req" in b[-1] and b[-1]["req"].get("extract"):
            beh = b
            break
    if beh is None:
        raise vcheck.Broken("selftest: no behaviour with an embedded object and a GRPCWrap step was emitted")
    cls = beh[-1]["req"]["is"][0]
    beh[-1]["req"]["is"] = ["Exist" if cls != "Exist" else "NotExist"]
    p = c.path("emit", "errs-corrupt.ndjson")
    open(p, "w").write(json.dumps(beh) + "\n")
    out = c.path("emit", "errs-corrupt-result.json")
    c.run_vh(["replay", "errs", "-in", p, "-out", out])
    r = json.load(open(out))
    st["corrupted_behaviour_detected"] = r["n_failures"] == 1
    # (2)
    idx = next(i for i, l in enumerate(lines) if i > 100 and '"op":"Chain"' in l and '"class":"Closed"' not in l
               and '"class":"Communication"' not in l)
    e = json.loads(lines[idx])
    e["same"] = False
    lines2 = list(lines[: idx + 20])
    lines2[idx] = json.dumps(e)
    p = c.path("trace", "errs-corrupt.ndjson")
    open(p, "w").write("\n".join(lines2) + "\n")
    cfg = c.write_cfg("errs", "ErrTrace", postcondition="Accepted")
    ok, at, _ = c.validate_trace("errs", "ErrTrace", cfg, p, label="selftest-trace")
    st["corrupted_trace_line"], st["rejected_at_line"] = idx + 1, at
    st["corrupted_trace_detected"] = (not ok) and at == idx + 1
    # (3)
    src = c.specdir("errs")
    dst = os.path.join(c.scratch, "spec-errsedit")
    shutil.copytree(src, dst)
    tp = os.path.join(dst, "ErrTables.tla")
    s = open(tp).read()
    m1 = re.search(r'\("Exist" :> (\d+)\)', s)
    m2 = re.search(r'\("NotExist" :> (\d+)\)', s)
    s = s.replace(m1.group(0), '("Exist" :> %s)' % m2.group(1)).replace(m2.group(0), '("NotExist" :> %s)' % m1.group(1))
    open(tp, "w").write(s)
    found = table_invariants(c, "errsedit", nmsgs, depth, "selftest-edit")
    st["edited_table_findings"] = found
    st["edited_table_detected"] = "RoundTrip" in found and "Contract" in found
    st["detected"] = bool(st["corrupted_behaviour_detected"] and st["corrupted_trace_detected"] and st["edited_table_detected"])
    c.selftest = st
    if not st["detected"]:
        raise vcheck.Broken("selftest failed: %s" % st)
