"""C20 - zip helpers: lossless round trip and extraction confined to the target.

spec (S): ZipFs.tla states the contract (Select, Resolve, Under, RoundTripOK,
Confined) with reference Zip/Unzip functions; ZipImpl.tla transcribes
files.ZipFolder (walk, filter, non-recursive guard, entry name) and
files.UnzipToFolder (containment test, EnsureDirExists, os.Create, stop at the
first error).  TLC checks, for every tree / filter / recursive flag of the bound,
Inside(Unzip(Zip(t, f, r))) = Select(t, f, r), and for every archive over the
segments {"..", ".", a, b, dest, dest2, leading "/"} of the bound that nothing
outside dest changes - for the reference functions and for the transcription.

spec -> code: every transition of ZipImpl is emitted as a behaviour.  Trees are
materialised, zipped with the real ZipFolder and unzipped with the real
UnzipToFolder for every filter / recursive combination and the files below dest
compared with Select; archives are written with archive/zip directly and
extracted by the real UnzipToFolder into <sandbox>/s/x/dest, the sandbox outside
dest (decoy files on every level) being compared before/after.

code -> spec: seeded random trees (depth 0..4, empty / binary / large files,
names with spaces, dots, unicode, hundreds of files) and random hostile
archives; the recorded events are validated by TLC against ZipTrace.tla.
"""
import atexit
import json
import os
import shutil
import subprocess
import tempfile

import vcheck
from vcheck import Check, parallel, q

SEG4 = [q(".."), q("."), q("a"), q("b")]
SEGD = [q(".."), q("a"), q("dest"), q("dest2")]
SEG6 = [q(".."), q("."), q("a"), q("b"), q("dest"), q("dest2")]


def consts(**kw):
    """Constants of ZipFs/ZipImpl; every run sets the ones of its half and leaves the rest minimal."""
    c = dict(NNames=1, Contents=[0], MaxDepth=1, MaxFiles=0, MaxDirs=0,
             Segs=[q("a")], MaxLen=1, MaxEntries=0, Slashes=[False], DirFlags=[False], DestExists=[True])
    c.update(kw)
    return c


def make_jail(c):
    """One private directory holds everything `vh ... zipfs` reads, writes or creates: the emitted
    behaviours, the replay reports, the recorded trace and every sandbox (os.MkdirTemp).  vh
    chroots into it before the first library call (see zipEnterJail in zipfs.go), so a broken
    library - one that takes absolute entry names literally, say - cannot reach the host's file
    system.  On tmpfs when there is one (thousands of small sandboxes; a disk-backed /tmp makes
    the replay ~8x slower)."""
    base = None
    for cand in ("/dev/shm", None):
        try:
            base = tempfile.mkdtemp(prefix="verif-c20-jail-", dir=cand)
            break
        except OSError:
            continue
    atexit.register(lambda: shutil.rmtree(base, ignore_errors=True))
    for sub in ("emit", "out", "trace", "tmp"):
        os.makedirs(os.path.join(base, sub))
    return base


def vh(c, jail, args, timeout=1800):
    """Run vh with the jail as working directory; file arguments are relative to it."""
    env = dict(os.environ)
    env.update(vcheck.GOENV)
    env["VERIF_ZIPFS_JAIL"] = jail
    env["TMPDIR"] = os.path.join(jail, "tmp")
    # archive/zip must hand "insecure" entry names to the code under test (the Go default)
    gd = [x for x in env.get("GODEBUG", "").split(",") if x and not x.startswith("zipinsecurepath")]
    env["GODEBUG"] = ",".join(gd + ["zipinsecurepath=1"])
    p = subprocess.run([c.vh] + [str(a) for a in args], capture_output=True, text=True, timeout=timeout, env=env, cwd=jail)
    if p.returncode != 0:
        raise vcheck.Broken("vh %s failed (exit %d):\n%s\n%s" % (" ".join(map(str, args)), p.returncode, p.stdout[-3000:], p.stderr[-3000:]))
    mode = [l for l in p.stderr.splitlines() if l.startswith("vh zipfs: jail=")]
    if mode:
        c.extra["jail"] = mode[0].split("jail=", 1)[1]
    return p


def replay(c, jail, emit, variant, extra=None):
    """Check.replay, with paths relative to the jail."""
    out_rel = os.path.join("out", "replay-%s-%s.json" % (os.path.basename(emit), variant))
    args = ["replay", "zipfs", "-in", os.path.relpath(emit, jail), "-out", out_rel, "-workers", vcheck.NCPU, "-variant", variant]
    for k, v in (extra or {}).items():
        args += ["-x", "%s=%s" % (k, v)]
    vh(c, jail, args)
    r = json.load(open(os.path.join(jail, out_rel)))
    c.behaviours_replayed += r["distinct"]
    c.steps_replayed += r["steps"]
    c.drift += r.get("n_drift", 0)
    if r.get("samples") and len(c.samples) < 5:
        c.samples.append({"kind": "behaviour replayed on the real code (zipfs/%s)" % variant,
                          "steps": r["samples"][len(r["samples"]) // 2]})
    for f in r.get("failures") or []:
        if f.get("kind") == "drift":
            continue
        c.report_failure(f["sig"], {"component": "zipfs", "variant": variant, "step": f.get("step"),
                                    "got": f.get("got"), "want": f.get("want"), "behaviour": f.get("behaviour")})
    return r


def run(tier):
    c = Check("C20", tier)
    jail = make_jail(c)
    c.build()
    quick = c.quick()

    # ------------------------------------------------------------- TLC: model check + emit
    # (label, module, spec, constants, invariants, view, emit?, replay variants)
    rt_inv_i = ["ImplWellFormed", "ImplRoundTrip"]
    ex_inv_i = ["ImplWellFormed", "ImplConfined", "NoSpuriousRefusal", "ResolvePlain"]
    runs = []
    if quick:
        runs += [
            ("rt-d2f3", "ZipImpl", "SpecRTI", consts(NNames=2, Contents=[0, 1, 2], MaxDepth=2, MaxFiles=3), rt_inv_i, "ViewRTI", ["plain", "odd"]),
            ("rt-d3f2", "ZipImpl", "SpecRTI", consts(NNames=2, Contents=[0, 1], MaxDepth=3, MaxFiles=2), rt_inv_i, "ViewRTI", ["plain", "stale"]),
            ("rt-dirs", "ZipImpl", "SpecRTI", consts(NNames=2, Contents=[0, 1], MaxDepth=2, MaxFiles=2, MaxDirs=1), rt_inv_i, "ViewRTI", ["odd"]),
            ("ex-seg4", "ZipImpl", "SpecExI", consts(Segs=SEG4, MaxLen=3, MaxEntries=3, Slashes=[False, True]), ex_inv_i, "ViewExI", ["plain", "bslash"]),
            ("ex-dest", "ZipImpl", "SpecExI", consts(Segs=SEGD, MaxLen=3, MaxEntries=2, Slashes=[False, True], DirFlags=[False, True],
                                                     DestExists=[False, True]), ex_inv_i, "ViewExI", ["odd"]),
            ("ex-all2", "ZipImpl", "SpecExI", consts(Segs=SEG4, MaxLen=3, MaxEntries=2, Slashes=[False, True]), ex_inv_i, "ViewExAllI", []),
        ]
    else:
        runs += [
            ("rt-d2f3", "ZipImpl", "SpecRTI", consts(NNames=2, Contents=[0, 1, 2], MaxDepth=2, MaxFiles=3, MaxDirs=1), rt_inv_i, "ViewRTI", ["plain", "odd"]),
            ("rt-d3f3", "ZipImpl", "SpecRTI", consts(NNames=2, Contents=[0, 1], MaxDepth=3, MaxFiles=3), rt_inv_i, "ViewRTI", ["plain", "odd", "stale"]),
            ("rt-n3d2", "ZipImpl", "SpecRTI", consts(NNames=3, Contents=[0, 1, 2], MaxDepth=2, MaxFiles=3), rt_inv_i, "ViewRTI", ["odd"]),
            ("ex-seg4", "ZipImpl", "SpecExI", consts(Segs=SEG4, MaxLen=3, MaxEntries=3, Slashes=[False, True], DestExists=[False, True]),
             ex_inv_i, "ViewExI", ["plain", "odd", "bslash"]),
            ("ex-seg6", "ZipImpl", "SpecExI", consts(Segs=SEG6, MaxLen=3, MaxEntries=2, Slashes=[False, True], DirFlags=[False, True]),
             ex_inv_i, "ViewExI", ["plain", "odd"]),
            ("ex-all3", "ZipImpl", "SpecExI", consts(Segs=SEG4, MaxLen=3, MaxEntries=3, Slashes=[False, True]), ex_inv_i, "ViewExAllI", []),
        ]
    # the contract's own reference functions (no emission)
    runs += [
        ("ref-rt", "ZipFs", "SpecRT", consts(NNames=2, Contents=[0, 1, 2], MaxDepth=2, MaxFiles=3, MaxDirs=0 if quick else 1),
         ["FsWellFormed", "RoundTripHolds"], "ViewRT", []),
        ("ref-ex", "ZipFs", "SpecEx", consts(Segs=SEG4 if quick else SEG6, MaxLen=3, MaxEntries=3 if quick else 2, Slashes=[False, True],
                                             DirFlags=[False, True]),
         ["FsWellFormed", "ConfinementHolds", "ResolvePlain"], "ViewEx", []),
    ]

    def one(r):
        label, module, spec, cs, inv, view, variants = r
        emit = os.path.join(jail, "emit", "zip-%s.ndjson" % label) if variants else None
        cfg = c.write_cfg("zipfs", "%s_%s" % (module, label), spec=spec, constants=cs, invariants=inv, view=view,
                          action_constraints=["Emit"] if emit else [])
        c.tlc("zipfs", module, cfg, emit=emit, workers=2, timeout=900, label=label)
        return emit

    c.specdir("zipfs")   # create the scratch spec directory before the threads race for it
    emits = parallel([lambda r=r: one(r) for r in runs], max_workers=8)

    # ------------------------------------------------------------- replay on the real code
    for r, emit in zip(runs, emits):
        for variant in r[6]:
            replay(c, jail, emit, variant)
    c.exhaustive = True

    # ------------------------------------------------------------- code -> spec
    ntr = 40 if quick else 400
    nfiles = 300 if quick else 600
    trace = os.path.join(jail, "trace", "zip.ndjson")
    vh(c, jail, ["drive", "zipfs", "-seed", c.seed, "-n", ntr, "-out", os.path.relpath(trace, jail), "-x", "files=%d" % nfiles])
    cfg = c.write_cfg("zipfs", "ZipTrace", postcondition="Accepted")
    ok, at, res = c.validate_trace("zipfs", "ZipTrace", cfg, trace, timeout=1500)
    lines = open(trace).read().splitlines()
    if ok:
        c.traces_validated += ntr
        c.samples.append({"kind": "recorded trace prefix accepted by ZipTrace.tla", "events": lines[:6]})
    else:
        bad = lines[at - 1] if 0 < at <= len(lines) else ""
        if not any('"op":"%s"' % op in bad for op in ("Out", "End", "Changed")):
            # only these three lines carry an observation of the library; a rejection anywhere
            # else means the driver and the trace spec disagree about the format
            raise vcheck.Broken("SPEC-ERROR: ZipTrace rejected line %d, which is not an observation: %s" % (at, bad[:300]))
        ctx = lines[max(0, at - 4):at]
        # the Zip event of the rejected round trip carries the errors the library returned
        zipev = [l for l in lines[:at] if '"op":"Zip"' in l][-1:]
        c.report_failure("zipfs: " + explain(bad), {"rejected_at_line": at, "rejected": bad, "context": ctx, "zip_event": zipev})
    c.extra["trace_events"] = len(lines)

    if not quick:
        selftest(c, jail, runs, emits, lines)

    # every sandbox was created with os.MkdirTemp below <jail>/tmp and removed again; nothing
    # else may have appeared in the jail (= the root directory the library saw)
    c.extra["temp_dirs_left_behind"] = len(os.listdir(os.path.join(jail, "tmp")))
    c.extra["unexpected_in_jail_root"] = sorted(set(os.listdir(jail)) - {"emit", "out", "trace", "tmp"})
    shutil.rmtree(jail, ignore_errors=True)
    return c.finish(rule="one behaviour per transition of ZipImpl.tla: every source tree of the bound (names a,b[,c], depth <= 2..3, "
                         "<= 2..3 files, contents {empty, binary, 33 KB}, optional empty directory) x every filter (nil or any subset of "
                         "its files) x recursive flag, run through the real ZipFolder + UnzipToFolder with plain and odd real names; every "
                         "(file-system state reached by <= %d earlier entries) x (next entry name of <= 3 segments over '..', '.', a, b, "
                         "dest, dest2, with and without leading '/', file or directory entry) extracted by the real UnzipToFolder with "
                         "the sandbox outside dest compared before/after; plus %d recorded executions on random trees of up to %d files "
                         "and random hostile archives validated against ZipTrace.tla"
                         % (2, ntr, nfiles))


def explain(line):
    """Stable description of what the rejected trace line means for the property."""
    try:
        e = json.loads(line)
    except Exception:
        return "recorded trace rejected by ZipTrace.tla"
    op = e.get("op")
    if op == "Out":
        return "round trip produced a file that was not selected, or with different content (random tree)"
    if op == "End":
        return "round trip lost a selected file (random tree)"
    if op == "Changed":
        return "UnzipToFolder touched the file system outside the destination (%s, random archive)" % e.get("how")
    return "recorded trace rejected by ZipTrace.tla at op=%s" % op


def selftest(c, jail, runs, emits, lines):
    """Binding demonstration: (1) one corrupted recorded hash must be rejected at its line; (2) one
    corrupted prescribed content must make the replay fail; (3) a write next to dest injected by the
    harness itself must be seen by the before/after comparison."""
    st = {"ran": True}
    # (1) trace
    idx = None
    for i, l in enumerate(lines):
        if '"op":"Out"' in l and i > 50:
            e = json.loads(l)
            e["h"] = e["h"] + 100000
            lines2 = list(lines[: i + 20])
            lines2[i] = json.dumps(e)
            idx = i
            break
    if idx is None:
        raise vcheck.Broken("selftest: no Out event in the recorded trace")
    p = c.path("trace", "zip-corrupt.ndjson")
    open(p, "w").write("\n".join(lines2) + "\n")
    cfg = c.write_cfg("zipfs", "ZipTrace", postcondition="Accepted")
    ok, at, _ = c.validate_trace("zipfs", "ZipTrace", cfg, p, label="selftest")
    st["trace"] = {"corrupted_line": idx + 1, "rejected_at_line": at, "detected": (not ok) and at == idx + 1}
    if ok or at != idx + 1:
        raise vcheck.Broken("selftest: corrupted trace was not rejected at the corrupted line (%s, %s)" % (ok, at))

    # (2) prescribed answer of a round-trip behaviour
    rt_emit = [e for r, e in zip(runs, emits) if r[0].startswith("rt-") and e][0]
    picked = None
    for raw in open(rt_emit):
        b = json.loads(json.loads(raw)) if raw.startswith('"') else json.loads(raw)
        if len(b) == 2 and b[1].get("want"):
            b[1]["want"][0]["content"] = 7
            picked = b
            break
    if picked is None:
        raise vcheck.Broken("selftest: no round-trip behaviour with a selected file")
    p2 = os.path.join(jail, "emit", "zip-corrupt-rt.ndjson")
    open(p2, "w").write(json.dumps(picked) + "\n")
    vh(c, jail, ["replay", "zipfs", "-in", "emit/zip-corrupt-rt.ndjson", "-out", "out/zip-corrupt-rt.json", "-variant", "plain"])
    r2 = json.load(open(os.path.join(jail, "out", "zip-corrupt-rt.json")))
    st["behaviour"] = {"n_failures": r2["n_failures"], "sig": (r2["failures"] or [{}])[0].get("sig")}
    if r2["n_failures"] != 1:
        raise vcheck.Broken("selftest: corrupted prescribed content was not noticed by the replay")

    # (3) the before/after observation of the sandbox
    ex_emit = [e for r, e in zip(runs, emits) if r[0].startswith("ex-") and e][0]
    some = []
    for raw in open(ex_emit):
        b = json.loads(json.loads(raw)) if raw.startswith('"') else json.loads(raw)
        if len(b) >= 2:
            some.append(json.dumps(b))
        if len(some) == 50:
            break
    p3 = os.path.join(jail, "emit", "zip-inject.ndjson")
    open(p3, "w").write("\n".join(some) + "\n")
    vh(c, jail, ["replay", "zipfs", "-in", "emit/zip-inject.ndjson", "-out", "out/zip-inject.json", "-variant", "plain", "-x", "inject=escape"])
    r3 = json.load(open(os.path.join(jail, "out", "zip-inject.json")))
    st["observation"] = {"behaviours": len(some), "n_failures": r3["n_failures"]}
    if r3["n_failures"] != len(some):
        raise vcheck.Broken("selftest: an injected write outside dest was not observed (%d of %d)" % (r3["n_failures"], len(some)))
    c.selftest = st
