"""Shared by C10 (replies/panics) and C11 (retention) - both replay the edges of
IterMapImpl's state graph on the real iterable.Map and validate recorded traces."""
import json
import vcheck
from vcheck import parallel

INVS = ["Shape", "RefCounts", "PoolDiscipline", "NoOrphans", "DeletedPinned", "IndexOK", "GidOrder", "Retention"]


def keyset(n):
    return "{" + ", ".join('"%s"' % k for k in "abcdef"[:n]) + "}"


def model_and_replay(c, mode, emit_cfgs, check_cfgs):
    """emit_cfgs / check_cfgs: lists of (keys, iters, maxadds)."""
    def emit_one(cf):
        k, i, a = cf
        cfg = c.write_cfg("itermap", "IterMapImpl_%d_%d_%d" % cf,
                          constants={"Keys": keyset(k), "Iters": list(range(1, i + 1)), "MaxAdds": a},
                          invariants=INVS, properties=["Refines"], view="View", action_constraints=["Emit"])
        emit = c.path("emit", "itermap-%d-%d-%d.ndjson" % cf)
        c.tlc("itermap", "IterMapImpl", cfg, emit=emit, workers=6, timeout=1500, label="IterMapImpl-%dk-%di-%da-emit" % cf)
        return emit

    def check_one(cf):
        k, i, a = cf
        cfg = c.write_cfg("itermap", "IterMapImplChk_%d_%d_%d" % cf,
                          constants={"Keys": keyset(k), "Iters": list(range(1, i + 1)), "MaxAdds": a},
                          invariants=INVS, properties=["Refines"], view="View")
        c.tlc("itermap", "IterMapImpl", cfg, workers=8, timeout=2400, label="IterMapImpl-%dk-%di-%da" % cf)

    def contract_one():
        cfg = c.write_cfg("itermap", "OrderedMap_chk",
                          constants={"Keys": keyset(2), "Iters": [1, 2], "MaxAdds": 3},
                          invariants=["Sorted", "UniqueKeys", "CursorsOK", "NextNAgrees"], view="View")
        c.tlc("itermap", "OrderedMap", cfg, workers=4, label="OrderedMap-contract")

    jobs = [lambda cf=cf: emit_one(cf) for cf in emit_cfgs] + [lambda cf=cf: check_one(cf) for cf in check_cfgs] + [contract_one]
    res = parallel(jobs, max_workers=3)
    for e in res[:len(emit_cfgs)]:
        c.replay("itermap", e, variant=mode, extra={"check": mode})
    c.exhaustive = True


def drive_and_validate(c, mode, ntr, steps):
    trace = c.path("trace", "itermap.ndjson")
    c.run_vh(["drive", "itermap", "-seed", c.seed, "-n", ntr, "-out", trace, "-x", "steps=%d" % steps])
    cfg = c.write_cfg("itermap", "OrderedMapTrace_" + mode,
                      constants={"Iters": list(range(1, 301)), "CheckReplies": mode == "c10", "CheckRetention": mode == "c11"},
                      postcondition="Accepted")
    ok, at, _ = c.validate_trace("itermap", "OrderedMapTrace", cfg, trace, timeout=1800)
    lines = open(trace).read().splitlines()
    if ok:
        c.traces_validated += ntr
        c.samples.append({"kind": "recorded trace prefix accepted by OrderedMapTrace.tla", "events": lines[:10]})
    else:
        start = max([i for i in range(at) if '"op":"New"' in lines[i]] or [0])
        ctx = lines[start:at]
        if '"op":"Types"' in lines[at - 1]:
            if mode == "c10":
                c.report_failure("itermap: maps of several instantiations in one process: a call panicked or a reply differed from a plain sequence",
                                 {"rejected_at_line": at, "event": json.loads(lines[at - 1])})
            return lines
        try:
            op = json.loads(ctx[-1]).get("op")
            crash = "crash" in json.loads(ctx[-1])
        except Exception:
            op, crash = "?", False
        if mode == "c10":
            sig = "itermap: recorded %s %s" % (op, "panicked" if crash else "reply not allowed by OrderedMap.tla")
        else:
            sig = "retention: recorded list statistics after %s exceed live + pinned entries" % op
            if crash:
                return lines     # a panic is C10's business
        c.report_failure(sig, {"rejected_at_line": at, "history": ctx,
                               "trace": {"comp": "itermap", "module": "OrderedMapTrace",
                                         "constants": {"Iters": list(range(1, 301)), "CheckReplies": mode == "c10", "CheckRetention": mode == "c11"}}})
    return lines


def selftest(c, mode, lines):
    """Corrupt one logged field of a good trace: validation must reject exactly there."""
    target = None
    for i, l in enumerate(lines):
        e = json.loads(l)
        if i > 100 and mode == "c10" and e.get("op") == "Next" and e.get("ok") is True:
            e["v"] = e["v"] + 1
            target = (i, e)
            break
        if i > 100 and mode == "c11" and e.get("op") == "Close" and e.get("open") == 0:
            e["nodes"] = e["nodes"] + 1
            target = (i, e)
            break
    if not target:
        c.selftest = {"ran": False}
        return
    i, e = target
    l2 = list(lines[: i + 20])
    l2[i] = json.dumps(e)
    p = c.path("trace", "itermap-corrupt.ndjson")
    open(p, "w").write("\n".join(l2) + "\n")
    cfg = c.write_cfg("itermap", "OrderedMapTrace_" + mode,
                      constants={"Iters": list(range(1, 301)), "CheckReplies": mode == "c10", "CheckRetention": mode == "c11"},
                      postcondition="Accepted")
    ok, at, _ = c.validate_trace("itermap", "OrderedMapTrace", cfg, p, label="selftest")
    c.selftest = {"ran": True, "corrupted_line": i + 1, "rejected_at_line": at, "detected": (not ok) and at == i + 1}
    if ok or at != i + 1:
        raise vcheck.Broken("selftest: corrupted trace not rejected at the corrupted line (%s, %s)" % (ok, at))
