"""Shared by C03 (sequential contract, both backends) and C06 (expiry)."""
from vcheck import Subst, parallel

INVS = ["VersionsFresh", "NoExpiredVisible", "KnownIssued"]


def consts(keys="Keys2", pats="Pats5", invals=("nil", "empty", "x"), exps=("none", "long"), maxnow=0, many=2, depth=100):
    return {"Keys": Subst(keys), "Pats": Subst(pats),
            "InVals": "{" + ", ".join('"%s"' % v for v in invals) + "}",
            "ExpClasses": "{" + ", ".join('"%s"' % v for v in exps) + "}",
            "MaxNow": maxnow, "ManyLen": many, "Depth": depth}


def emit(c, name, cs, workers=4, timeout=900):
    cfg = c.write_cfg("kv", name, constants=cs, invariants=INVS, view="View", constraints=["Bound"],
                      action_constraints=["Emit"])
    e = c.path("emit", name + ".ndjson")
    c.tlc("kv", "KvStoreMC", cfg, emit=e, workers=workers, timeout=timeout, label=name)
    return e


def simulate(c, name, cs, num, depth):
    """Random long behaviours of the same contract (beyond the exhaustive constants)."""
    cfg = c.write_cfg("kv", name, constants=cs, invariants=INVS, action_constraints=["EmitLast"])
    e = c.path("emit", name + ".ndjson")
    c.tlc("kv", "KvStoreMC", cfg, emit=e, workers=1, simulate="num=%d" % num, depth=depth, timeout=900,
          label=name, count=False, env_extra={"VERIF_EMIT_MINLEN": str(depth)})
    return e


def replay_both(c, emits, inmem_workers=None):
    for e in emits:
        c.replay("kv", e, variant="inmem", extra={"tick_ms": 30})
        c.replay("kv", e, variant="redis")
