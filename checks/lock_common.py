"""Shared by C01 (mutual exclusion) and C04 (hand-off, cancellation, shutdown, residue).

KvLock.tla (protocol at storage-call granularity) is model-checked by TLC and its command
histories are played as schedules on real kvsLock objects over a gated kvs.Storage; random
schedules and ungated stress add depth.  Whatever really happened is recorded and TLC
decides with LockTrace.tla (the contract) whether it is allowed."""
import json
import os
import vcheck
from vcheck import Subst, parallel

INVS = ["MutualExclusion", "RecordOfHolder", "CounterOK", "TokenOK", "NoResidue", "NoLateAcquire", "NoLostWakeup"]

TOPO = {
    "two": dict(Procs=[1, 2], Lockers=[1, 2], Provs=[1, 2], LockerOf=Subst("TwoLockers"), ProvOf=Subst("TwoProvs")),
    "shared": dict(Procs=[1, 2], Lockers=[1, 2], Provs=[1], LockerOf=Subst("SharedLocker"), ProvOf=Subst("OneProv")),
    "three": dict(Procs=[1, 2, 3], Lockers=[1, 2], Provs=[1, 2], LockerOf=Subst("ThreeMixed"), ProvOf=Subst("TwoProvs")),
}


def consts(topo, kinds=("lock", "try", "ctx"), calls=1, faults=1, cancels=1, shutdown=True, late=False,
           fkinds=("reqlost", "replylost", "midcancel")):
    c = dict(TOPO[topo])
    c.update(Kinds="{" + ", ".join('"%s"' % k for k in kinds) + "}", MaxCalls=calls, MaxFaults=faults,
             FaultKinds="{" + ", ".join('"%s"' % k for k in fkinds) + "}", MaxCancels=cancels,
             WithShutdown=shutdown, LateDelete=late)
    return c


def model_emit(c, name, cs, timeout=1200):
    cfg = c.write_cfg("lock", name, constants=cs, invariants=INVS, view="View", action_constraints=["Emit"])
    e = c.path("emit", name + ".ndjson")
    c.tlc("lock", "KvLockMC", cfg, emit=e, workers=6, timeout=timeout, label=name)
    return e


def model_check(c, name, cs, timeout=2400, workers=8):
    cfg = c.write_cfg("lock", name, constants=cs, invariants=INVS, view="View")
    c.tlc("lock", "KvLockMC", cfg, workers=workers, timeout=timeout, label=name)


def model_liveness(c, name, cs, timeout=1200):
    cfg = c.write_cfg("lock", name, spec="FairSpec", constants=cs, properties=["Progress"], view="View")
    c.tlc("lock", "KvLockMC", cfg, workers=4, timeout=timeout, label=name)


def model_late_delete(c):
    """Design-level confirmation of the recorded finding: with the late-release window open the
    model loses 'the holder's record is in the store' (and then mutual exclusion)."""
    cfg = c.write_cfg("lock", "late", constants=consts("three", kinds=("try",), calls=1, faults=0, cancels=0,
                                                        shutdown=False, late=True),
                      invariants=["MutualExclusion"], view="View")
    r = c.tlc("lock", "KvLockMC", cfg, workers=4, timeout=600, label="KvLock-LateDelete", expect_ok=False, count=False)
    c.extra["late_delete_window_model"] = ("TLC finds a MutualExclusion counterexample when LateDelete=TRUE"
                                           if (not r["ok"] and "MutualExclusion" in (r["error"] or "") + r["out"])
                                           else "no counterexample found (unexpected)")


def drive(c, mode, name, variant="inmem", n=0, infile=None, workers=128, timeout=1800, extra=()):
    out = c.path("trace", name + ".ndjson")
    args = ["drive", "lock", "-x", "mode=" + mode, "-seed", c.seed, "-n", n, "-out", out, "-variant", variant,
            "-workers", workers]
    if infile:
        args += ["-in", infile]
    for kv in extra:
        args += ["-x", kv]
    c.run_vh(args, timeout=timeout)
    st = json.load(open(out + ".stats"))
    key = "lock_runs"
    c.extra.setdefault(key, []).append(dict(name=name, mode=mode, variant=variant, **st))
    return out, st


def split_blocks(path):
    blocks, cur = [], []
    for ln in open(path):
        ln = ln.rstrip("\n")
        if not ln:
            continue
        if '"e":"reset"' in ln and cur:
            blocks.append(cur)
            cur = []
        cur.append(ln)
    if cur:
        blocks.append(cur)
    return blocks


def validate(c, path, flags, name, chunks=4):
    """TLC validates the recorded histories against LockTrace.tla; on a rejection the offending
    history is reported and removed, and the rest is validated again."""
    blocks = split_blocks(path)
    c.lock_flags = flags
    if not blocks:
        return
    cfg = c.write_cfg("lock", "LockTrace_" + name, constants=flags, postcondition="Accepted")
    n = max(1, min(chunks, len(blocks) // 50 or 1))
    parts = [blocks[i::n] for i in range(n)]

    def one(i, part):
        rejected = []
        for attempt in range(12):
            if not part:
                break
            p = c.path("trace", "%s-part%d-%d.ndjson" % (name, i, attempt))
            with open(p, "w") as f:
                for b in part:
                    f.write("\n".join(b) + "\n")
            ok, at, _ = c.validate_trace("lock", "LockTrace", cfg, p, timeout=1800, label="LockTrace-%s-%d" % (name, i))
            os.remove(p)
            if ok:
                break
            # locate the block holding line `at`
            acc = 0
            for bi, b in enumerate(part):
                if acc + len(b) >= at:
                    rejected.append((b, at - acc))
                    part = part[:bi] + part[bi + 1:]
                    break
                acc += len(b)
            else:
                raise vcheck.Broken("rejection line %d beyond trace" % at)
        return rejected, len(part)

    res = parallel([lambda i=i, part=part: one(i, part) for i, part in enumerate(parts)], max_workers=n)
    accepted = 0
    for rejected, okcount in res:
        accepted += okcount
        for b, idx in rejected:
            report(c, b, idx)
    c.traces_validated += accepted
    if blocks and len(c.samples) < 5:
        c.samples.append({"kind": "recorded lock history validated by LockTrace.tla (%s)" % name, "events": blocks[len(blocks) // 2][:14]})


def report(c, block, idx):
    ev = json.loads(block[idx - 1])
    late = any('"lateexpire"' in ln for ln in block)
    e = ev.get("e")
    if e == "ret" and ev.get("res") == "ok":
        holders = set()
        for ln in block[:idx - 1]:
            x = json.loads(ln)
            if x.get("e") == "ret" and x.get("res") == "ok":
                holders.add(x["p"])
            if x.get("e") == "unlock":
                holders.discard(x["p"])
        if holders:
            sig = "lock: two holders at once"
            if late:
                sig += " (history: Unlock's Delete reached the store after the unlocker's lease had expired and a successor had created the record)"
        else:
            sig = "lock: acquired by a call that had to fail (context ended before it acquired, or invoked after Shutdown)"
    elif e == "ret":
        sig = "lock: call returned %s where the contract does not allow it" % ev.get("res")
    elif e == "stuck":
        sig = "lock: lost wake-up - callers stayed blocked although the lock was free and nothing was pending"
    elif e == "quiesce":
        sig = "lock: residue at quiescence (record left behind or a locker cannot be acquired again)"
    elif e == "expire":
        sig = "lock: a record was left in the store although no request or reply was lost"
    elif e == "unlocked":
        sig = "lock: Unlock panicked for a holder"
    else:
        sig = "lock: event %s not allowed by the contract" % e
    c.report_failure(sig, {"rejected_event": ev, "history": block[:idx + 2],
                           "trace": {"comp": "lock", "module": "LockTrace", "constants": getattr(c, "lock_flags", None)}})
