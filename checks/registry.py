"""Single table from which MANIFEST.json is generated (bin/mkmanifest)."""
import json
import os

ROOT = os.path.dirname(os.path.dirname(os.path.abspath(__file__)))

BASELINE_OFF = ("cd /repo && GOFLAGS=-mod=mod go test -json -vet=off -count=1 -timeout 25m ./...")

HOOK_COMMITS = [
    "7c06555",  # container/verif_hooks.go: ring buffer raw accessor
    "6d9c0df",  # container/iterable/verif_hooks.go, container/lru/verif_hooks.go: list statistics accessors
    "d42f800",  # kvs/distlock/verif_hooks.go: lease period setter
    "6bac5f6",  # container/iterable/verif_hooks.go: bounded list walk
    "c999370",  # kvs/inmem/verif_hooks.go: waiter table accessor
    "734454b",  # container/iterable/verif_hooks.go: VerifListStats2 (values retained by non-live nodes)
    "f8b4775",  # container/lru/verif_hooks.go: VerifStaleVals
    "7f3df4d",  # timeout/verif_hooks.go: pool configuration / watchers / pending
]

# id -> dict(text, note, technique, design_ref)
CHECKS = {
    "C03": dict(
        text="KvStore.tla is the sequential contract of kvs.Storage (Create/Get/GetMany/Put/PutMany/CasByVersion/Delete/ListKeys/"
             "non-blocking WaitForVersionChange; versions abstracted to freshness and identity; glob matcher in TLA+). TLC enumerates its "
             "whole state graph for 2 keys (thorough also 3 keys, 4 value classes, expiry classes) under a VIEW that abstracts version "
             "numbers, checks the contract's own invariants, and emits one behaviour per edge plus simulated long behaviours; each is "
             "replayed on a fresh in-memory store and on the Redis client over a fresh miniredis and every reply compared with the "
             "contract's. Exhaustive for the stated alphabets and all (state, call) pairs; random beyond.",
        note="Trusted: TLC, the KvStore.tla contract, miniredis as a faithful Redis. Keys have no leading '/'; nil == empty value.",
        technique="TLA+ sequential contract, TLC state-graph enumeration with behaviour emission, per-edge replay on both backends",
        design_ref="DESIGN.md section 4, C03"),
    "C06": dict(
        text="The same KvStore.tla contract with discrete time: Advance drops every record whose expiration has passed, so the contract "
             "cannot distinguish 'expired' from 'deleted'. TLC enumerates all states with no/short/longer expirations and up to two "
             "Advances, so every operation kind occurs as the first one touching an expired key and as one touching a not-yet-expired "
             "key; every edge is replayed on the in-memory store (real clock, 30 ms ticks, calls at even ticks, expirations at odd ticks, "
             "stalled runs re-run and never judged) and on Redis/miniredis (FastForward).",
        note="Trusted: TLC, KvStore.tla, miniredis TTL handling, the host keeping a 30 ms window (otherwise the run is discarded, not judged).",
        technique="TLA+ timed contract, TLC state-graph enumeration with behaviour emission, per-edge replay on both backends with controlled time",
        design_ref="DESIGN.md section 4, C06"),
    "C10": dict(
        text="TLC exhausts IterMapImpl - the linked list with sentinel, per-node state, prev/next, iterator reference counts, head, "
             "key index and node pool of map.go, transcribed statement by statement - for 2 keys / 2 iterators / 3 insertions "
             "(thorough: up to 3 keys / 2 iterators / 4 insertions and 2 keys / 3 iterators / 4 insertions), proves that it refines "
             "the cursor contract OrderedMap.tla (same reply to every call) and keeps eight structural invariants; one test per edge "
             "of that graph is replayed on the real iterable.Map with panics recovered; recorded random histories (6 keys, 8 "
             "iterators, re-added keys, 300-400 calls) are validated by TLC against the contract. Bounded, not a proof.",
        note="Trusted: TLC, the OrderedMap.tla contract (cursor = oldest live entry not yet passed), JSON emission/parsing.",
        technique="TLA+ contract + implementation-shaped spec, TLC refinement check, per-edge behaviour replay, TLC trace validation",
        design_ref="DESIGN.md section 4, C10"),
    "C11": dict(
        text="The retention bound (linked nodes <= Len + 1 sentinel + open iterators; no iterator open => no removed entry linked, all "
             "reference counts zero) is an invariant TLC checks on every state of IterMapImpl; on the real map it is read through a "
             "verif-tagged accessor after every step of every edge-behaviour and of recorded random histories (validated by "
             "OrderedMapTrace.tla); for LRU caches (Cache and ECache, capacities 1..64) list statistics sampled over 20k (thorough "
             "200k) mixed GetOrCreate/Remove/Clear calls are validated by RetentionTrace.tla. Cost growth is judged by the exact node "
             "count, not by timing.",
        note="Trusted: TLC, the accessors iterable.VerifListStats / lru.VerifListStats (they walk the real list from the real head).",
        technique="TLC invariant on the implementation-shaped spec + per-edge replay with structural accessor + TLC trace validation of sampled statistics",
        design_ref="DESIGN.md section 4, C11"),
    "C14": dict(
        text="TLC exhausts the implementation-shaped model RingImpl (slice of Cap+1 slots, r, w, the two-segment loops) for "
             "capacities 0..3 (thorough 0..5), proves it refines the FIFO contract RingBuffer.tla and keeps consumed slots zero; "
             "one test per edge of that state graph is replayed on the real RingBuffer[int] and RingBuffer[*int] and every reply "
             "compared with the contract's; long recorded random traces (capacities up to 1000, huge arguments) are validated by "
             "TLC against the same contract operator. Bounded model checking plus conformance, not a proof for all capacities.",
        note="Trusted: TLC, the RingBuffer.tla contract (Apply), the verif-tagged accessor VerifRingRaw returning the real backing slice.",
        technique="TLA+ contract + implementation-shaped spec, TLC refinement check, per-edge behaviour replay on the real object, TLC trace validation",
        design_ref="DESIGN.md section 4, C14"),
}
CHECKS["C19"] = dict(
    text="The two hand-maintained tables are extracted from the compiled library at check time (GRPCStatusCode(class) for the 12 classes, "
         "FromGRPCError(status error) for the 17 codes) into a generated TLA+ module; TLC explores ErrClasses on them over class x wrap depth "
         "0..4 (thorough 0..6) x embed position x 14 message texts and checks that the table-driven model of Is/GRPCStatusCode/GRPCWrap/"
         "FromGRPCError satisfies the contract (class kept, no other class, GRPCWrap idempotent, object extractable, non-OK code never nil, "
         "class->code->class identity). One behaviour per edge of that graph is rebuilt with the real fmt.Errorf(%w)/EmbedObject/GRPCWrap and "
         "every real Is/code/class/extract result compared with what the property requires; seeded random chains with random texts over the "
         "marker's alphabet are recorded and validated by TLC against the same contract operators. A TLC table finding counts only when the "
         "real functions confirm it. Exhaustive for the property's stated bounds on the listed texts; not a proof for all message texts.",
    note="Trusted: TLC, the contract operators Required/CodeRequired and the set Coded (the ten classes listed in errorsToCode at the pinned "
         "commit count as 'having a gRPC code'), the harness's identification of sentinels by ==, encoding/json for object equality. "
         "Texts containing the full embed marker and wrapping applied after GRPCWrap are outside the property and not exercised.",
    technique="TLA+ contract + table-driven model with constants probed from the compiled code, TLC invariant check, per-edge behaviour replay on the real functions, TLC trace validation",
    design_ref="DESIGN.md section 4, C19")

CHECKS["C01"] = dict(
    text="KvLock.tla models the protocol of kvlock.go at storage-call granularity (token channel, lckCntr, Create / ErrExist / "
         "WaitForVersionChange loop, unconditional Delete in Unlock, cancellation and shutdown races as separate internal steps, "
         "request-lost and reply-lost faults, expiry of unowned records). TLC exhausts it for 2 callers x 2 calls, 2 callers sharing a "
         "locker and 3 callers (0.3-1 M states each) and proves mutual exclusion, 'the holder's record is in the store' and token/counter "
         "consistency. The command history of every transition of the smaller configurations is played as a schedule on REAL kvsLock "
         "objects over a gated kvs.Storage facade of a real in-memory store; seeded random schedules (2-4 callers) and ungated stress "
         "(in-memory and Redis/miniredis) add depth. Every recorded history is validated by TLC against the contract LockTrace.tla "
         "(acquire only while nobody holds). Bounded exhaustive on the model, conformance on the code; not a proof for N callers.",
    note="Assumes leases of live holders are renewed in time and a release reaches the store within the remaining lease; the one history "
         "outside that (late Delete after lease expiry) is reproduced on the real code and recorded as known finding F-C01-late-delete. "
         "Trusted: TLC, LockTrace.tla, the harness's event order (one mutex), the in-memory store as the storage.",
    technique="TLA+ protocol spec model-checked by TLC, TLC-generated schedules replayed on real objects through a gated storage, TLC trace validation against a contract spec",
    design_ref="DESIGN.md section 4, C01")
CHECKS["C04"] = dict(
    text="Same KvLock.tla model and schedules as C01, with the residue/hand-off contract enforced: TLC checks on the model NoResidue (all idle "
         "=> every token back, every counter 0, no record unless a request/reply was lost), NoLateAcquire (no acquisition by a call invoked "
         "after Shutdown), NoLostWakeup (a blocked caller with the lock free always has an enabled step) and, under weak fairness, Progress "
         "(blocked ~> holding or left). On the real objects every schedule (cancellation before the call / during the token wait / during the "
         "storage wait, shutdown, faults) is followed by a drain and quiescence probes (record read from the backing store, TryLock/Unlock on "
         "every locker); LockTrace.tla rejects a wrong return value, an acquisition after the context ended or after Shutdown, a stuck "
         "caller, a leftover record, a locker that cannot be acquired again.",
    note="A stuck verdict needs 4 s without progress while nothing is held/pending/expirable. Calls parked in the storage wait at Shutdown are "
         "not constrained. Trusted: TLC, LockTrace.tla, harness event order, in-memory store.",
    technique="TLA+ protocol spec with safety + liveness checked by TLC, TLC-generated schedules replayed on real objects through a gated storage, TLC trace validation",
    design_ref="DESIGN.md section 4, C04")

CHECKS["C18"] = dict(
    text="TLC exhausts the implementation-shaped model MixerImpl (4-state selector st, one-element look-ahead load/e per source, "
         "Reset with its early returns) for all pairs of input sequences of length <= 2 (thorough <= 3) over {1,2,3}, selectors <, <=, "
         "TRUE, FALSE, under every call pattern of HasNext/Next/Reset, and proves it refines the contract Merge.tla; on the contract TLC "
         "checks that the output is an order-preserving interleaving holding every element exactly once, that sorted inputs give sorted "
         "output, and that output-so-far + rest = whole merge. One test per edge of the MixerImpl graph, closed by a contract-derived "
         "'drain' epilogue, is replayed on real iterable.Mixer[int] over WrapIntSlice inputs, nested inner mixers and non-resettable "
         "wrappers; recorded traces of random calls on random inputs up to length 200 are validated by TLC against the same contract "
         "operators. Bounded model checking plus conformance, not a proof for all input lengths.",
    note="Trusted: TLC, the Merge.tla contract operators (Step, Rest, HasNextAllowed, NextAllowed), iterable.WrapIntSlice as the source "
         "iterator. After a Reset on inputs that cannot both be reset the property is silent: only HasNext idempotence and agreement "
         "with the following Next are judged there (everything else is drift). The value returned with ok=false is not judged.",
    technique="TLA+ contract + implementation-shaped spec, TLC refinement check, per-edge behaviour replay with drain epilogue on the real object, TLC trace validation",
    design_ref="DESIGN.md section 4, C18")
CHECKS["C05"] = dict(
    text="Timed scenarios on real kvsLock objects over a recording facade of a real in-memory store, in real time: hold for 5-11 lease "
         "periods with a polling contender and store probes; a request-lost error on the k-th renewal (k = 1..5); holder death at 8 phases "
         "of the renewal cycle with a waiter blocked in LockWithCtx; Unlock landing around the instant a renewal fires. Every storage call is "
         "stamped with the harness's monotonic clock and the event log is validated by TLC against the timed contract LeaseTrace.tla (the "
         "holder's renewals always find its record, probes find it, nobody else acquires; after death the record is gone and the waiter "
         "holds within a lease + slack; after Unlock at most one renewal reaches the store, fails, and nothing follows). The renewal chain "
         "(arm at TTL/2, CAS, re-arm, retry after a transient error, Unlock racing a renewal in flight at every phase) is model-checked in "
         "KvLease.tla with a discrete clock. Real-time sampling of phases, exhaustive only on the model.",
    note="Real clock, leases 200-400 ms (thorough 150 ms-1.5 s; shorter leases are not judged because scheduler latency would dominate); "
         "stalled runs (stall detector > lease/8) are repeated, then not judged; one-sided bounds with 1.5 s slack. The reply-lost renewal "
         "is reproduced and recorded as known finding F-C05-reply-lost.",
    technique="TLC trace validation of timed event logs from the real lock against a TLA+ timed contract; TLA+ model of the renewal chain checked by TLC",
    design_ref="DESIGN.md section 4, C05")

CHECKS["C20"] = dict(
    text="ZipFs.tla states the contract (Select(tree, filter, recursive); Resolve = filepath.Join/Clean on '.', '..' and leading '/'; "
         "RoundTripOK: files below dest = Select; Confined: everything outside dest unchanged). ZipImpl.tla transcribes ZipFolder (walk, "
         "filter, non-recursive guard, entry name) and UnzipToFolder (containment test, EnsureDirExists, os.Create, stop at first error); "
         "TLC checks it against the contract for every tree of the bound (2-3 names, depth <=3, <=3 files, 3 contents, optional empty dir) "
         "x every filter x flag, and for every archive of <=3 entries over names of <=3 segments from {.., ., a, b, dest, dest2} with/without "
         "leading '/'. Every transition is replayed on the real ZipFolder/UnzipToFolder (archives written with archive/zip directly, sandbox "
         "outside dest with decoy files compared before/after, inside a chroot jail); seeded random trees (depth 0..4, hundreds of files, "
         "empty/binary/MB-sized contents, names with spaces/dots/unicode) and random hostile archives are recorded and validated by TLC "
         "against ZipTrace.tla. Bounded model checking plus conformance, not a proof for all trees/archives.",
    note="Trusted: TLC, the ZipFs.tla contract, Go's archive/zip writer/reader (harness verifies the reader hands the written names to the "
         "library; GODEBUG zipinsecurepath=1 pinned), the before/after file-system snapshot. Symlink entries, pre-populated destinations "
         "and non-canonical spellings of srcDir are outside the property and not exercised.",
    technique="TLA+ contract + implementation-shaped spec checked by TLC, per-transition behaviour replay on the real functions in a chroot sandbox, seeded driver with TLC trace validation",
    design_ref="DESIGN.md section 4, C20")

CHECKS["C08"] = dict(
    text="TLC exhausts the implementation-shaped model LRUImpl (ecache.go/expirable.go as operations on an insertion-ordered map: "
         "Get/Remove/Add on a hit, Add then First/Remove for the victim, the iterator loop of Clear, remove-and-recreate of expired "
         "items) for capacities 1..3 (thorough 1..4) over 3-5 keys, proves that it refines the reference-LRU contract LRU.tla (same "
         "results, same create/delete callback invocations, same content and recency order after every call) and that every created "
         "value is resident xor was handed to the delete callback exactly once; one test per edge of that state graph (plus every pair "
         "of consecutive calls for the smallest bounds, plus constructor calls with maxSize 0/-1 and a nil create function) is replayed on "
         "the real lru.Cache, lru.ECache with strings.ToLower as non-injective key mapping and lru.ExpirableCache, with and without a "
         "delete callback, each followed by an API-level probe of the final recency order; long recorded random traces on capacities up "
         "to 64 are validated by TLC against the same contract operators. Bounded model checking plus conformance, not a proof for all "
         "capacities or sequence lengths.",
    note="Trusted: TLC, the LRU.tla contract (Apply/ApplyX; for the expirable wrapper: GetOrCreate, Remove if expired, GetOrCreate again), "
         "the harness callbacks (value ids 1,2,3,...; items expiring one hour in the past/future instead of a clock). Sequential use only "
         "(C09 covers concurrency); the order of delete callbacks within Clear is left open; a call that does not return within 13 s is "
         "reported as a violation.",
    technique="TLA+ contract + implementation-shaped spec, TLC refinement check, per-edge behaviour replay on the real objects with final-state probe, TLC simulation, TLC trace validation",
    design_ref="DESIGN.md section 4, C08")

CHECKS["C02"] = dict(
    text="vh drive kvlin records concurrent histories of one kvs.Storage (in-memory store; Redis client(s) over an in-process "
         "miniredis): 2-4 goroutines on their own OS threads, random mixes of Create/Get/Put/CasByVersion/Delete/GetMany/PutMany, "
         "unsynchronised read-CAS chains, and all-fire-at-once Create/Create, CAS/CAS, Delete/CAS, Put/CAS races (spin barrier; CAS "
         "arguments are versions the thread observed). Every call is bracketed by two draws from one atomic sequence counter, so "
         "logged intervals contain the real ones. KvLinTrace.tla lets TLC place a linearization point per call (per entry for "
         "GetMany/PutMany) inside its interval and requires KvStore!Apply - the same sequential contract as C03 - to give exactly the "
         "logged reply there (error class, value, version identity; every successful write installs a version id no other write has). "
         "A history TLC cannot explain is the violation; the rejection line names the first unexplainable reply. RedisImpl.tla models "
         "redis.go as SETNX/GET, WATCH/GET/MULTI-SET-EXEC with retry, MSET, SET-loop round-trips for 2-3 clients; TLC checks the "
         "refinement to KvStore with fixed linearization points plus 'at most/exactly one creator', 'one CAS winner per version', "
         "'fresh versions', and must reject four re-introduced defects (negative controls). Sampling of schedules, not exhaustive, "
         "for the code; exhaustive in the bound for the model.",
    note="Trusted: TLC, KvStore.tla, miniredis as a faithful Redis (WATCH/EXEC), atomic counter order = real-time order. Races with "
         "nanosecond windows in the in-memory store are hit only probabilistically (no gates). A call that never returns is exit 2.",
    technique="TLA+ linearizability trace validation by TLC (silent linearization steps, read-ahead replies, high-water-mark acceptance) "
              "of recorded concurrent histories + TLC refinement check of a round-trip model of the Redis client with negative controls",
    design_ref="DESIGN.md section 4, C02; section 2.2")
CHECKS["C09"] = dict(
    text="LRUConc.tla models GetOrCreate's two critical sections (hit / register in-flight / wait; creation outside the lock; close, "
         "unregister, insert, evict + callback), Remove and Clear, with LRU!Apply as the effect of every critical section; TLC exhausts it "
         "for 3 callers x 2 calls (1.6 M states) and proves single flight, creator-inserts-fresh, resident <= capacity, created = resident "
         "(+) deleted-once, no orphan waiter, and (fairness) every waiter released. The command history of every transition of the 1-call "
         "configurations is played on a REAL lru.ECache with a gated create callback (the harness decides when a creation completes and "
         "whether it fails) and a delete callback that records under the cache's own lock; seeded random gated schedules and ungated stress "
         "(4-8 goroutines) add depth. Every recorded history is validated by TLC against LRUConcTrace.tla: linearizable to the sequential "
         "contract with the same returned values and evictions, at most one open creation per key, every created value deleted exactly "
         "once by the final Clear, resident count <= capacity at every return.",
    note="Trusted: TLC, LRU!Apply (the C08 contract), the harness event order (one mutex), the fact that ecache.go calls the delete callback "
         "under its lock. Bounded exhaustive on the model; schedules at critical-section granularity plus sampled free scheduling on the code.",
    technique="TLA+ concurrency spec model-checked by TLC, TLC-generated schedules replayed on the real cache through gated callbacks, TLC linearizability trace validation",
    design_ref="DESIGN.md section 4, C09")

CHECKS["C17"] = dict(
    text="TLC model-checks BlocksImpl (per-segment header bitmap bytes, freeIdx hint, first-fit scan loops, available counter) "
         "and proves it refines the allocation contract BlockAlloc.tla (any free index; ErrExhausted iff full; FreeBlock nil/"
         "ErrNotExist/ErrInvalid; Available = Count - |alloc|; Reopen keeps the set) together with HintSound/AvailOK: complete state "
         "graph for block size 1 x 1 segment (thorough: also 1x2 and 2x1, 65 793 states each), bounded (<=1-3 holes) for 1x2, 1x3, 2x1, 2x2; "
         "Geometry.tla checks the documented constructor rule against the coded one and the block/header offset arithmetic for 862 "
         "geometries (block sizes -2..17, 32, 64, page/2, page-1, page, page+1, 3page/2, 2page; k segments -1/0/+1; both fit). One test per "
         "edge / per geometry is replayed on real bytes.Blocks over NewInMemBytes and files.MMFile; after every single call a second "
         "NewBlocks on a copy of the bytes must show the same Count, Available and allocation set, allocated blocks hold 0xFF-rich "
         "patterns, block ranges (learned from the returned slices) must be disjoint from each other and from every byte the allocator "
         "changes. Recorded seeded random runs (block sizes 1..4096, exhaustion, reopen) and 8-goroutine histories are validated by TLC "
         "(BlocksTrace, BlocksLinTrace: linearizability). Bounded model checking plus conformance testing, not a proof for all geometries; "
         "the concurrent part samples schedules.",
    note="Trusted: TLC, the contract operators Allowed/After and Geometry!Valid, the adapter's transcription of the contract used for the "
         "per-call snapshot comparison, page size probed from os.Getpagesize(); buffers above 64 MiB in geometry cases use an anonymous mapping; "
         "tiny geometries on MMFile use the first n bytes of a 4096-byte file. Which free index is chosen is drift, never a verdict. No source hook.",
    technique="TLA+ contract + implementation-shaped spec, TLC refinement/invariant check, per-edge behaviour replay with snapshot/reopen after "
              "every call (in-memory and memory-mapped), TLC trace validation incl. linearizability of concurrent histories",
    design_ref="DESIGN.md section 4, C17")
CHECKS["C15"] = dict(
    text="WireFormat.tla defines the xbinary wire format with 64-bit values as base-128 / base-256 digit sequences; TLC checks on it "
         "Size(x) = Len(Enc(x)), Dec(Enc(x)) = x with consumed = produced over whole streams, and that the transcribed MarshalUint loop and "
         "WritableUintSize tree agree with the format, for varints of every digit length 1..10 x per-position digit class {0,1,127} "
         "(quick: all combinations up to 7 digits; thorough: all 39 366), every 8/16-bit value, byte-pattern products for 32/64-bit, byte strings "
         "around the 1-2-3 byte prefix boundaries (0..2, 126..129, 16383..16385), every destination length 0..size+1, all concatenations of <= 3 "
         "items of a 19-item universe. Every case is run on the real Marshal*, ObjectsWriter.Write*, Writable*Size and Unmarshal* (newBuf "
         "false/true with the source overwritten) and compared byte for byte; inputs that begin with a valid encoding followed by arbitrary "
         "bytes are replayed too; seeded random streams (random 64-bit values and strings) are validated by TLC against WireTrace.tla. "
         "The spec is a format definition used as oracle and exhaustive case generator: assurance is exploration-like beyond the enumerated classes.",
    note="Trusted: TLC, WireFormat.tla (Enc/Size/Dictated/Want), the adapter's digit-sequence <-> uint64 conversion and its mirror of Expand; uint is 64 bits on this platform.",
    technique="TLA+ wire-format contract + implementation-shaped encoder/decoder automata, TLC case enumeration with per-case replay on the real code, TLC trace validation of random streams",
    design_ref="DESIGN.md section 4, C15")
CHECKS["C16"] = dict(
    text="WireFormat.tla's decoders are byte-at-a-time automata; WireDec.tla lets TLC reach every input over the byte classes {00,01,7f,80,81,ff} "
         "up to length 6 (thorough 7) plus structured adversarial inputs (over-long varints of 9..12 and 30 continuation bytes, length prefixes "
         "2^31-1 .. 2^64-1 with empty/short/truncated bodies, honest prefixes with short-by-one/exact/over-complete bodies, 16 KiB bodies in thorough) "
         "and checks on the spec that every automaton is total (ok => 0 < n <= len and body inside the input; fail => n = 0). Every input is fed to "
         "all seven real Unmarshal* (newBuf false/true, with exact and with slack capacity behind the input, panics recovered); seeded mutations "
         "of valid encodings are recorded and validated by TLC. Verdict only for: panic, n outside 1..len on success, returned bytes not a sub-range "
         "of the input, n != 0 on failure. Whether over-long / non-canonical varints are accepted is left open (difference from the automaton = drift).",
    note="Trusted: TLC, WireFormat!Total, the adapter's panic recovery and alias-range test (unsafe pointer arithmetic on the input's backing array).",
    technique="TLA+ decoder automata with totality invariants, TLC input-space enumeration with per-input replay on the real decoders, TLC trace validation of mutated encodings",
    design_ref="DESIGN.md section 4, C16")
CHECKS["C07"] = dict(
    text="KvWait.tla states the waiter contract on top of KvStore.tla: every call carries the set `may` of replies (nil / ErrNotExist / ctx "
         "error) whose condition held at some state since its invocation; it may return only a member of `may`, and it is overdue as soon "
         "as a condition holds (TLC-checked lemma: once overdue, always overdue). TLC enumerates the script graph (<= 3 waiters, <= 2 keys; "
         "start with current/stale/unknown version and live/done context, cancel, Put, Put with expiry, PutMany, CAS ok/conflict/notexist, "
         "Delete, Create, time passing), one script per edge, each replayed on a fresh in-memory store and on the Redis client over "
         "miniredis with a settle after every command (overdue waiters must return within 5 s with an explainable reply, all others must "
         "stay blocked, the in-memory waiter table must be empty whenever no call is in progress). InmemWaitImpl.tla models the waiters-group "
         "table of kvs/inmem per critical section and TLC checks, for every interleaving in the bound, refinement of the contract, no lost "
         "wake-up, no stranded waiter, give-up disturbs nobody, no residue, no double close, and Overdue ~> returned. Recorded executions "
         "(32 waiters x 8 writers free-running; rounds under a seeded scheduler that holds calls at the gate of their context between "
         "registration and parking; Redis rounds) are validated by TLC against the fine-grained contract with silent linearization steps. "
         "Bounded model checking plus conformance; races inside the library are only provoked, not commanded.",
    note="Trusted: TLC, KvStore.tla/KvWait.tla, miniredis, the accessor inmem.VerifWaiterTable (reads len and counts under the store lock), "
         "the 5 s bound for 'promptly'. Store replies off the KvStore contract are left to C02/C03.",
    technique="TLA+ contract + implementation-shaped spec, TLC refinement/invariant/liveness check, per-edge script replay with settle on both "
              "backends, TLC trace validation (linearization search) of free-running and gate-scheduled executions",
    design_ref="DESIGN.md section 4, C07")

CHECKS["C12"] = dict(
    text="TimerHeap.tla transcribes the futures slice, every future's idx, Less/Swap/Push/Pop and container/heap's up/down; TLC exhausts "
         "every heap shape for 4 futures x 3 fire times and 6 futures x 2 (thorough 5x3, 6x3, 5x4) under Push / heap.Pop / cancel (= "
         "heap.Remove(idx)) in every order: index invariant arr[idx[f]] = f, heap order, and each operation changes the pending SET exactly "
         "as the pool-level model assumes (Cancel removes exactly its future: front, middle, back, repeated, after firing). TimerImpl.tla "
         "(workers, misCount, wake tokens, clock with maximal progress) is exhausted for never-early / at-most-once / cancel-effective and "
         "refines the timed contract TimerAbs.tla. One script per edge of TimerHeap's graph (seed-sampled), TLC-simulated behaviours and "
         "seeded random scripts (<= 500 futures, 1..8 goroutines, zero/negative/equal delays, cancels of every age, concurrent cancels) are "
         "executed on the real package in real time, every callback stamping its start as its first statement; TLC validates the recorded "
         "timed traces against TimerTrace.tla: no start before tb+d, no second start, no start after a Cancel that RETURNED before tb+d, "
         "every never-cancelled future started by quiescence, no panic in Cancel. Bounded model checking + conformance, not a proof.",
    note="Trusted: TLC, TimerAbs.tla, Go's monotonic clock, the stall detector (executions with a >250 ms overshoot of a 5 ms sleep are "
         "discarded, never judged), timeout/verif_hooks.go (VerifPending for quiescing between scripts).",
    technique="TLA+ array-level heap spec + pool-level spec refining a timed contract; TLC-generated arrival scripts executed in real time; TLC timed-trace validation",
    design_ref="DESIGN.md section 4, C12")
CHECKS["C13"] = dict(
    text="TimerImpl.tla: TLC checks no-lost-wake-up (heap non-empty => a live worker is awake, or asleep with deadline <= earliest fire time, "
         "or a wake token is pending), lateness <= 1 tick, watchers = live workers, restart after wind-down, refinement of TimerAbs.tla with "
         "the lateness clause on (3 futures, delays {-1,0,1,3}, 2 workers; thorough 4 futures, 1..3 workers) and, under weak fairness with no "
         "VIEW and no state constraint, pending & not cancelled ~> started and heap empty ~> watchers = 0. On the real package, one script at "
         "a time per process with VerifConfigure(idle, maxWorkers): all orders of <= 4 arrival patterns {far, near, burst > pool, cancel-head, "
         "idle gap} for pool limits 1/2/10 and idle timeouts of 1-10 units and 3 s (thorough: the default 30 s), seed-sampled edge scripts of "
         "TimerImpl in two time mappings (faithful; far class stretched to 10 s and cancelled after quiescence), simulated and random scripts; "
         "TLC validates the timed traces: every live future started within 2 s of its due time, lateness <= 2 s with prompt callbacks, sampled "
         "watchers <= maxWorkers, zero watcher goroutines at the latest 2 x idle + 1 s after the last activity with nothing pending, a Call "
         "after wind-down is started.",
    note="Trusted: TLC, TimerAbs.tla, the accessors VerifConfigure/VerifWatchers/VerifPending (timeout/verif_hooks.go), goroutine stack dumps "
         "('created by ...golibs/timeout'), the stall detector. Bounds L = Q = 2 s are two orders of magnitude above measured lateness.",
    technique="TLA+ pool-level spec with safety, refinement and liveness (TLC); TLC-generated and enumerated arrival scripts executed in real time; TLC timed-trace validation",
    design_ref="DESIGN.md section 4, C13")


PENDING_REASON = "check not built yet in this round; the TLA+ design for it is in DESIGN.md section 4"


def all_ids():
    ids = []
    for l in open(os.path.join(ROOT, "properties.jsonl")):
        l = l.strip()
        if l:
            ids.append(json.loads(l)["id"])
    return ids


def manifest():
    checks = []
    for pid in all_ids():
        if pid not in CHECKS:
            continue
        c = CHECKS[pid]
        checks.append({
            "property_id": pid,
            "quick_cmd": "bin/check %s quick" % pid,
            "thorough_cmd": "bin/check %s thorough" % pid,
            "evidence_file": "evidence/%s.json" % pid,
            "replay_cmd_template": "bin/check %s --replay {path}" % pid,
            "engine": "tlc+vh",
            "level_claimed": {"category": c.get("category", "model_checking"), "text": c["text"],
                              "design_ref": c.get("design_ref", "DESIGN.md section 4")},
            "level_note": c["note"],
            "technique": c["technique"],
        })
    na = [{"property_id": pid, "reason": NOT_APPLICABLE.get(pid, PENDING_REASON)} for pid in all_ids() if pid not in CHECKS]
    return {
        "version": 1,
        "setup_cmd": "bin/setup",
        "hooks": {
            "guard": "verif",
            "enable": "go build -tags verif (harness module with replace github.com/acquirecloud/golibs => /repo)",
            "baseline_off_cmd": BASELINE_OFF,
            "source_commits": HOOK_COMMITS,
            "add_only": True,
        },
        "engines": [
            {"name": "tlc+vh", "path": "bin/check", "serves_properties": sorted(CHECKS),
             "kind_free_text": "TLA+ specifications under spec/ checked by TLC; Go harness harness/cmd/vh replays TLC-generated "
                               "behaviours on the real code and records traces that TLC validates against the specifications"},
        ],
        "checks": checks,
        "not_applicable": na,
        "notes": "Every check: bin/check <id> quick|thorough. Exit 0 held / 1 VIOLATION / 2 broken machinery. "
                 "known_findings.json lists recorded defects and fixed: entries. See DESIGN.md. "
                 "Additional specifications beyond the listed properties (context.WithCancelError, chans, ulidutils, MMFile, HashDir, "
                 "slice/map helpers, config enricher, files tree helpers, bytes.Buffer, WrapChannel/Sleep, transport config, log levels) "
                 "run as bin/check X01..X11 (DESIGN.md 9.5); they are not claimed here.",
    }


NOT_APPLICABLE = {}

# what later rounds of seeded changes added (DESIGN.md section 10); appended to the texts above
ADDENDA = {
    "C01": " Added: callers spinning on TryLock/Unlock of providers that sit directly on the store (no serialising facade); real-lease "
           "hand-off while the reply of the old holder's renewal is held back.",
    "C03": " The contract's pattern language also has gobwas alternatives {a,b} and character classes (in-memory backend; plain classes on both).",
    "C04": " Added: real-lease scenario in which the reply of a renewal is in flight when Unlock runs; LeaseTrace rule (d): once Unlock has "
           "returned every probe of the store finds the record absent until somebody creates it again.",
    "C05": " Added: a tenure of 30-60 lease periods; the holder's provider shut down while the lock is held followed by a transient renewal failure.",
    "C06": " Patterns include literal keys.",
    "C07": " Added: waiters whose context carries a deadline (the context's error only once the context is done; a record that runs out before "
           "the deadline wakes the waiter promptly with ErrNotExist), both backends, PromptTrace.tla.",
    "C08": " A few long recorded traces run on capacities 100 / 257 / 1000.",
    "C10": " Added scenarios: 40-90 iterators parked on as many entries that are all removed; forgotten iterators under garbage-collection "
           "pressure (Drop event, unlogged stuttering iterators); an iterator parked on removed entries across 4000+ add/remove cycles of one key.",
    "C11": " Added: reachability probes that ask the garbage collector itself - pointer keys/values with finalizers must become collectable "
           "once their entries left the map (also after 4000+ add/remove cycles under a parked iterator) or the cache (GcProbe lines of RetentionTrace.tla).",
    "C13": " Added: invariant WindDownArmed; two wrong variants of TimerImpl.tla (late decrement on retire, quiet cancel) that TLC must reject "
           "in every run; retire-boundary stress with an idle time-out of 1 ns.",
    "C14": " Added: RingBig.tla, the contract specialised to a consecutive-integers workload so that replies can be summarised (TLC proves it "
           "equal to RingBuffer!Apply summarised for every small case); recorded traces on capacities 40..65537 with arguments landing on the "
           "physical end of the array, the fill level and powers of two are validated against it (RingBigTrace.tla).",
    "C15": " Every body length 0..600 and around powers of two up to 64 KiB goes through Marshal and ObjectsWriter; independence of a "
           "newBuf=true result includes its capacity.",
    "C17": " Added: a block size of three pages filled beyond 8 x page blocks (anonymous 1.2 GB mapping); exhaustion before the buffer grows by "
           "whole segments with the live allocator's accounting; the buffer scenarios run in a process of their own whose death by a memory "
           "fault is a verdict.",
    "C19": " Unrelated siblings in error trees include context.Canceled / DeadlineExceeded and io.EOF.",
    "C20": " Added: archives with symbolic-link entries (chains of links harmless one by one); source directory given relative to the "
           "working directory with names that repeat it; the > 64 MiB file always travels without filter.",
}
for _pid, _add in ADDENDA.items():
    CHECKS[_pid]["text"] = CHECKS[_pid]["text"].rstrip() + _add

# rounds 4 and 5 of the seeded changes
ADDENDA2 = {
    'C01': ' Later rounds: TryLock with a context that is already done (KvLock.tla: Cancel for the try kind); Unlock whose Delete loses its reply followed by a hand-off; a record orphaned by a lost Delete request, found again by the same Locker, with any take-over write held back at a gate of its own while the orphan runs out and another caller acquires.',
    'C02': ' Later rounds: keys with leading slashes; calls made with an already cancelled context (KvLinTrace LinCtx: an error means no effect); sixteen concurrent writers whose versions must all differ (own process).',
    'C03': " Later rounds: the empty key, a key containing '*', escaped metacharacters, zero-time expirations, unknown version arguments of three kinds (sorting before / after every real one, empty).", 'C05': ' Later rounds: a second blocked caller that gives up after the holder died; Unlock whose Delete is on its way while the renewal takes effect, then the same Locker holds again (LeaseTrace allowance for the one stale attempt of the finished tenure).',
    'C06': ' Later rounds: records that live for microseconds with a waiter arriving in their last instants (PromptTrace brief line).',
    'C07': ' Later rounds: a new value that mentions the version it replaces; a waiter that joined another one which gives up before the record runs out; unknown versions that sort after every real one.',
    'C08': ' Later rounds: a cache whose values are of an interface type with creations that succeed with nil.',
    'C09': ' Later rounds: a Clear of about 590 resident values with a slow delete callback racing GetOrCreate of the keys it removes.',
    'C10': ' Later rounds: 260+ removed entries in a row each held by an iterator (NextN lines; the closed form is checked by TLC against Apply); totals of changes around 2^8 and 2^16 between HasNext and Next (unobservable add/remove pairs not logged).',
    'C11': ' Later rounds: probes keep the newest entries and call First() before the drain; keys removed while their creation is in progress and then fails.',
    'C12': ' Later rounds: delays at the top of time.Duration; cancelled futures are printed.',
    'C13': ' Later rounds: InOrder clause of TimerAbs.tla (single-worker executions: no live future more than the gap earlier may be waiting when another is started) in a queue-order scenario; the unlock->select gap as a model state and a third wrong variant (unbuffered wake channel).',
    'C14': ' Later rounds: RingBuffer[struct{}], RingBuffer[any], a capacity beyond 2^20 with Clear.',
    'C15': ' Later rounds: bodies of 2^28-1 .. 2^28+1 bytes; 40 million distinct short values decoded in a row.',
    'C18': ' Later rounds: a Mixer initialised again after Close.',
    'C19': ' Later rounds: status codes beyond the seventeen; classes reached through an Is method.',
}
for _pid, _add in ADDENDA2.items():
    CHECKS[_pid]["text"] = CHECKS[_pid]["text"].rstrip() + _add

ADDENDA3 = {
    'C01': ' Round 6: two goroutines sharing one Locker with a slow Delete reply at the hand-off; model action GrantCreateMid (the context ends while the winning Create is in the store).',
    'C03': ' Round 6: one PutMany of 600-1800 records whose first expiration sits anywhere in the batch (WideTrace).',
    'C04': ' Round 6: a stale renewal answered only after the same Locker holds again, then Unlock: the record is gone (LeaseTrace rule d); GrantCreateMid behaviours.',
    'C05': " Round 6: the provider's default 10 s lease held for two thirds of a period; shared-Locker hand-off with a slow Delete reply.",
    'C06': ' Round 6: expirations from a day to a century ahead on Redis with the server clock moved by whole days (FarTrace.tla).',
    'C08': " Round 6: capacity math.MaxInt ('unbounded'), logged clamped.",
    'C09': ' Round 6: capacity math.MaxInt in the concurrent stress.',
    'C10': ' Round 6: 2^8 and 2^16 open iterators on the oldest entry.',
    'C12': ' Round 6: scheduled functions that panic, one process per scenario (a package that survives is held to at-most-once).',
    'C13': ' Round 6: scheduled functions that panic, one process per scenario (a package that survives must start every other live future).',
    'C14': ' Round 6: RingBuffer[struct{}] with capacity math.MaxInt.',
    'C16': ' Round 6: every input also decoded inside a guarded arena (ending at / starting behind a page that may not be touched): an over-read faults.',
    'C19': ' Round 6: Is() of a status error names exactly the class FromGRPCError reports, also next to foreign siblings.',
    'C20': ' Round 6: destination pre-populated with newer files of the same length at the selected paths.',
}
for _pid, _add in ADDENDA3.items():
    CHECKS[_pid]["text"] = CHECKS[_pid]["text"].rstrip() + _add

ADDENDA4 = {
    'C01': ' Round 7: every provider also hands out lockers of other names, before or after the ones under test.',
    'C02': ' Round 7: a dead record read and overwritten at the same instant, 300000 rounds (WideTrace OverDead).',
    'C03': ' Round 7: one storage asked for about 800 distinct ListKeys patterns, the early ones again (WideTrace ManyPatterns).',
    'C05': " Round 7: lock acquired through LockWithCtx whose context ends after the grant, over a facade that honours the caller's context.",
    'C06': ' Round 7: the expiry-under-parked-waiters scenarios (deadline / expire / expire2) run here too.',
    'C07': ' Round 7: two waiters parked while every kind of write replaces or removes the record, also records expired on arrival (PromptTrace).',
    'C08': ' Round 7: one ExpirableCache in use for 17 s of real time with expired items resident (alongside the TLC jobs).',
    'C10': ' Round 7: maps of nine instantiations (interface-typed keys and values among them) side by side in one process (Types line).',
    'C12': ' Round 7: delays of 10-12 s (thorough: up to 61 s) waited out in a process alongside the check.',
    'C13': ' Round 7: one process uses the package exactly as it comes up (no VerifConfigure): 3000 short futures, each scheduled the instant the previous one has run.',
    'C14': ' Round 7: ReadN destinations with spare capacity behind their length.',
    'C15': ' Round 7: one ObjectsWriter whose Writer field is replaced between items.',
    'C16': ' Round 7: more than 2^31 short newBuf decodes in one process; recorded decodes carry an over-read flag from the guarded arena.',
    'C17': ' Round 7: indexes near the top of the int range for which offset arithmetic wraps round into the first segments.',
    'C20': ' Round 7: contents that start like files of well-known formats.',
}
for _pid, _add in ADDENDA4.items():
    CHECKS[_pid]["text"] = CHECKS[_pid]["text"].rstrip() + _add

ADDENDA5 = {
    'C01': " Round 8: contexts of four makes handed to TryLock / LockWithCtx (context.WithCancel, the library's WithCancelError ended with nil or with the caller's error below a live parent, the library's WrapChannel).",
    'C02': ' Round 8: CAS values that quote the version they replace; ListKeys walking 200000 records as the reader racing a write over a dead record.',
    'C03': ' Round 8: written values quote earlier version strings; Redis ListKeys over a server that answers SCAN a few keys at a time.',
    'C04': ' Round 8: the same four makes of contexts (an ErrClosed-class context error is still the context\'s error).',
    'C05': " Round 8: a store that serves every renewal after 3/16 of a lease period and honours the caller's context.",
    'C06': ' Round 8: the OverDead scenarios (a dead record read - also by ListKeys over a big store - and overwritten at the same instant).',
    'C07': " Round 8: a waiter woken by a write within microseconds of its record's expiration, then a waiter on an unchanged record, on one processor.",
    'C09': ' Round 8: 70-130 callers on one key whose creation fails dozens of times in a row (storm line of LRUConcTrace).',
    'C10': ' Round 8: values that reach themselves, in a process of its own.',
    'C11': ' Round 8: a delete callback that leaves Clear by runtime.Goexit or panic(nil).',
    'C12': ' Round 8: fresh processes whose very first Calls come from sixteen goroutines at once.',
    'C14': ' Round 8: element types that cannot be compared with == ([]byte, func).',
    'C15': ' Round 8: pairs of different strings with the same 32-bit hash under eight common hash functions, decoded back to back.',
    'C16': ' Round 8: inputs in local arrays at 3000 stack depths on fresh goroutines (the result of newBuf=false is the body inside the input, also across a stack move).',
    'C17': ' Round 8: concurrent stress over a storage with transient faults while three goroutines poll Available.',
    'C18': ' Round 8: sources given as values of a struct of functions (uncomparable dynamic type).',
    'C19': ' Round 8: message texts that are the complete status line of another error.',
    'C20': " Round 8: file names that also occur around the tree (the archive's own name, the directories involved).",
}
for _pid, _add in ADDENDA5.items():
    CHECKS[_pid]["text"] = CHECKS[_pid]["text"].rstrip() + _add
