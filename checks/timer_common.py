"""Shared by C12 (never early / at most once / cancel effective and precise) and
C13 (every live future fires, bounded lateness, pool limit, wind-down, restart).

Both properties are judged by TLC on timed traces recorded from the real
package `timeout` (spec/timer/TimerTrace.tla = TimerAbs.tla driven by the
trace).  Scripts come from TLC itself (edges of TimerHeap.tla, edges and random
behaviours of TimerImpl.tla projected to the environment's actions), from an
enumerated arrival-pattern family and from seeded random generators; they are
executed with real time by `vh drive timer` in several processes (the package
is a process-global singleton).

Timing discipline: TLC model checking never runs at the same time as a timed
execution; an execution during which the stall detector fired is discarded by
the harness and repeated; every timed clause of the contract is one-sided with
bounds of seconds.
"""
import json
import os
import random
import time

import vcheck
from vcheck import Subst, parallel

NPROC = 12          # vh processes running scripts at the same time (each mostly sleeps)

IMPL_INVS = ["TypeOK", "WatchersCount", "NeverEarly", "AtMostOnce", "CancelEffective", "NoLostWakeup", "WindDownArmed",
             "LatenessOneTick", "Conservation", "AbsInv"]
IMPL_PROPS = ["HeapLeavers", "Restart", "Refines"]
HEAP_INVS = ["IndexOK", "NoDup", "HeapOrder", "SetOK"]
HEAP_PROPS = ["PushExact", "PopExact", "CancelExact"]

# clauses of TimerAbs.tla and the property they belong to
CLAUSES = {
    "early": ("C12", "Start earlier than Call + d"),
    "twice": ("C12", "function started a second time"),
    "cancelled": ("C12", "function started although Cancel had returned before it was due"),
    "cancel-panic": ("C12", "Cancel panicked"),
    "not-started": ("C12 C13", "a future nobody cancelled was not started by quiescence"),
    "late": ("C13", "Start later than the lateness bound L after Call + d"),
    "order": ("C13", "a future was started while an earlier one (by more than the gap) was still waiting: the queue lost its order"),
    "idle": ("C13", "watcher goroutines still alive long after the last activity with nothing pending"),
    "pool": ("C13", "more watcher goroutines than maxWorkers"),
    "crash": ("C12 C13", "package timeout panicked in its own goroutine (process crashed)"),
    "hang": ("C12 C13", "a call into package timeout did not return (execution aborted by the watchdog)"),
    "other": ("", "recorded event not allowed by TimerAbs.tla"),
}


def unit_ms(c):
    """time unit of the scripts: 15..25 ms, chosen by the seed"""
    return 15 + c.seed % 11


# ----------------------------------------------------------------------------- model checking
def impl_consts(nf, delays, maxw, idle, tokcap=None, maxt=1000, keephist=True, variant="code"):
    return {"NF": nf, "Delays": Subst(delays), "MaxW": maxw, "IdleT": idle,
            "TokCap": tokcap if tokcap is not None else maxw, "MaxT": maxt, "KeepHist": keephist,
            "Variant": '"%s"' % variant}


def impl_wrong_variants(c):
    """TLC must REJECT the wrong variants of TimerImpl.tla: the properties rest on the atomicity / notification they remove."""
    out = {}
    for variant, what in (("lateDecrement", "NoLostWakeup / Fires"), ("quietCancel", "WindDownArmed"),
                          ("rendezvous", "NoLostWakeup")):
        cfg = c.write_cfg("timer", "wrong-" + variant, spec="FairSpec",
                          constants=impl_consts(2, "D_n0125", 2, 1, maxt=24, keephist=False, variant=variant),
                          invariants=["TypeOK", "NoLostWakeup", "WindDownArmed"], properties=["Fires", "WindDown"])
        r = c.tlc("timer", "TimerMC", cfg, workers=4, timeout=900, label="wrong-" + variant, expect_ok=False, count=False)
        out[variant] = "rejected: " + (r["error"] or "")[:160] if not r["ok"] else "ACCEPTED"
        if r["ok"]:
            raise vcheck.Broken("SPEC-ERROR: the wrong variant %s of TimerImpl.tla is accepted by TLC (expected a violation of %s)"
                                % (variant, what))
    c.extra["wrong_variants_rejected"] = out


def impl_check(c, name, consts, emit=False, workers=6, timeout=900, coverage=False):
    """Safety + refinement of TimerImpl for one set of constants; optionally one script per environment edge."""
    cfg = c.write_cfg("timer", name, constants=consts, invariants=IMPL_INVS, properties=IMPL_PROPS,
                      view="View", action_constraints=["Emit"] if emit else ())
    e = c.path("emit", name + ".ndjson") if emit else None
    res = c.tlc("timer", "TimerMC", cfg, emit=e, workers=workers, timeout=timeout, label=name, coverage=coverage)
    return e if emit else res


def impl_live(c, name, consts, workers=6, timeout=900):
    """Liveness under weak fairness of worker steps and of the clock; no VIEW, no state constraint."""
    cfg = c.write_cfg("timer", name, spec="FairSpec", constants=consts,
                      invariants=["TypeOK", "ClockNotBinding", "NoLostWakeup", "WatchersCount"],
                      properties=["Fires", "WindDown"])
    return c.tlc("timer", "TimerMC", cfg, workers=workers, timeout=timeout, label=name)


def impl_simulate(c, name, consts, num, depth):
    """Random long behaviours of TimerImpl (constants beyond the exhaustive ones); one script per behaviour."""
    cfg = c.write_cfg("timer", name, constants=consts, invariants=IMPL_INVS, action_constraints=["EmitLast"])
    e = c.path("emit", name + ".ndjson")
    c.tlc("timer", "TimerMC", cfg, emit=e, workers=1, simulate="num=%d" % num, depth=depth, timeout=600,
          label=name, count=False, env_extra={"VERIF_EMIT_MINLEN": str(depth)})
    return e


def heap_check(c, name, nf, keys, emit=True, workers=6, timeout=900, coverage=False):
    cfg = c.write_cfg("timer", name, constants={"NF": nf, "Keys": keys}, invariants=HEAP_INVS,
                      properties=HEAP_PROPS, view="View", action_constraints=["Emit"] if emit else ())
    e = c.path("emit", name + ".ndjson") if emit else None
    res = c.tlc("timer", "TimerHeap", cfg, emit=e, workers=workers, timeout=timeout, label=name, coverage=coverage)
    return e if emit else res


def heap_simulate(c, name, nf, keys, num, depth):
    """Random behaviours of TimerHeap with more futures than the exhaustive runs can afford."""
    cfg = c.write_cfg("timer", name, constants={"NF": nf, "Keys": keys}, invariants=HEAP_INVS, action_constraints=["EmitLast"])
    e = c.path("emit", name + ".ndjson")
    c.tlc("timer", "TimerHeap", cfg, emit=e, workers=1, simulate="num=%d" % num, depth=depth, timeout=600,
          label=name, count=False, env_extra={"VERIF_EMIT_MINLEN": str(depth)})
    return e


# ----------------------------------------------------------------------------- scripts
def load_scripts(path):
    """Distinct scripts of an emitted file (a line is a JSON string holding JSON, or plain JSON)."""
    seen, res = set(), []
    for ln in open(path):
        ln = ln.strip()
        if not ln:
            continue
        b = json.loads(ln)
        if isinstance(b, str):
            b = json.loads(b)
        k = json.dumps(b, sort_keys=True)
        if k not in seen and any(s.get("op") == "call" for s in b):
            seen.add(k)
            res.append(b)
    return res


def sample(c, scripts, n, salt=0):
    if len(scripts) <= n:
        return list(scripts)
    rnd = random.Random(c.seed * 7919 + salt)
    return rnd.sample(scripts, n)


def pattern_family(maxlen, maxw, idle_units, far=50):
    """Arrival patterns over {far, near, burst (> pool), cancel-head, idle gap} in every order of <= maxlen.
    `far` futures get a delay class the harness stretches to 10 s and cancels at the end; the generator keeps
    a little model of what is pending so that "cancel-head" addresses the earliest pending future (or, when
    nothing is pending, the latest one: cancel after firing) and "idle" is an observed wind-down when nothing
    is pending and otherwise a gap of more than two idle timeouts."""
    pats = ["far", "near", "burst", "chead", "idle"]
    res = []

    def gen(prefix):
        if prefix:
            res.append(build(prefix))
        if len(prefix) < maxlen:
            for p in pats:
                gen(prefix + [p])

    def build(seq):
        sc, clock, futs = [], 0, []      # futs: [due in units or None if cancelled]

        def pend():
            return [(d, i) for i, d in enumerate(futs) if d is not None and d >= clock]

        def tick(n):
            nonlocal clock
            sc.append({"op": "tick", "n": n})
            clock += n

        for p in seq:
            if p == "far":
                sc.append({"op": "call", "d": far})
                futs.append(clock + far)
                tick(1)
            elif p == "near":
                sc.append({"op": "call", "d": 1})
                futs.append(clock + 1)
                tick(1)
            elif p == "burst":
                for _ in range(2 * maxw + 2):
                    sc.append({"op": "call", "d": 1})
                    futs.append(clock + 1)
                tick(1)
            elif p == "chead":
                pe = pend()
                if pe:
                    i = min(pe)[1]
                elif futs:
                    i = len(futs) - 1
                else:
                    continue
                sc.append({"op": "cancel", "i": i + 1})
                futs[i] = None
                tick(1)
            elif p == "idle":
                if pend():
                    tick(2 * idle_units + 2)
                else:
                    tick(1)
                    sc.append({"op": "idle"})
        return sc

    gen([])
    seen, out = set(), []
    for s in res:
        k = json.dumps(s)
        if k not in seen and any(x["op"] == "call" for x in s):
            seen.add(k)
            out.append(s)
    return out


# ----------------------------------------------------------------------------- timed executions
class Runs:
    """Collects recorded traces (one file per vh process) for later validation."""
    def __init__(self, c):
        self.c = c
        self.traces = []     # (path, label)
        self.stats = {"executions": 0, "discarded_stalled": 0, "not_judged": 0, "scripts": 0, "futures": 0, "events": 0}
        self.crashes = []
        self.n = 0
        self.phases = []     # (label, wall seconds)

    def _vh(self, args, label, timeout):
        c = self.c
        p = c.run_vh(args, timeout=timeout, ok_codes=(0, 1, 2, 3))
        if p.returncode != 0:
            err = p.stderr or ""
            if "panic" in err and "golibs/timeout" in err:
                # the package's own goroutine panicked: nothing can recover that, the process is gone
                self.crashes.append({"label": label, "clause": "crash", "stderr": err[-3000:]})
                return None
            if p.returncode == 3 and "TIMER-HANG" in err:
                stuck = [g for g in err.split("\n\n") if "golibs/timeout." in g and "cmd/vh" in g]
                if stuck:     # a harness goroutine is inside the package and never came back
                    self.crashes.append({"label": label, "clause": "hang", "stderr": (err[:300] + "\n" + stuck[0])[-3000:]})
                    return None
            raise vcheck.Broken("vh drive timer (%s) failed (exit %d):\n%s" % (label, p.returncode, err[-3000:]))
        try:
            s = json.loads(p.stdout.strip().splitlines()[-1])
        except Exception:
            raise vcheck.Broken("vh drive timer (%s): no summary line:\n%s" % (label, p.stdout[-1000:]))
        for k in self.stats:
            self.stats[k] += s.get(k, 0)
        return s

    def scripts(self, scripts, label, extra, nproc=NPROC, timeout=900):
        """Run the scripts, spread over nproc vh processes running at the same time."""
        if not scripts:
            return
        c = self.c
        nproc = max(1, min(nproc, len(scripts)))
        if len(c.samples) < 4:
            c.samples.append({"kind": "script executed on the real package (%s; %s)" % (label, extra),
                              "steps": max(scripts[:50], key=len)})
        jobs = []
        for k in range(nproc):
            part = scripts[k::nproc]
            self.n += 1
            inp = c.path("scripts", "%s-%d.ndjson" % (label, self.n))
            out = c.path("trace", "%s-%d.ndjson" % (label, self.n))
            with open(inp, "w") as f:
                for s in part:
                    f.write(json.dumps(s) + "\n")
            args = ["drive", "timer", "-seed", c.seed + k, "-in", inp, "-out", out, "-x", "mode=scripts"]
            for a, b in extra.items():
                args += ["-x", "%s=%s" % (a, b)]
            jobs.append((args, out, "%s-%d" % (label, self.n)))
        t0 = time.time()
        res = parallel([lambda j=j: self._vh(j[0], j[2], timeout) for j in jobs], max_workers=nproc)
        self.phases.append((label, round(time.time() - t0, 1)))
        for j, r in zip(jobs, res):
            if r is not None:
                self.traces.append((j[1], j[2]))

    def random(self, label, nexec, extra, nproc=NPROC, timeout=900):
        c = self.c
        jobs = []
        for k in range(nproc):
            self.n += 1
            out = c.path("trace", "%s-%d.ndjson" % (label, self.n))
            args = ["drive", "timer", "-seed", c.seed * 1000 + self.n, "-n", nexec, "-out", out, "-x", "mode=random"]
            for a, b in extra.items():
                args += ["-x", "%s=%s" % (a, b)]
            jobs.append((args, out, "%s-%d" % (label, self.n)))
        t0 = time.time()
        res = parallel([lambda j=j: self._vh(j[0], j[2], timeout) for j in jobs], max_workers=nproc)
        self.phases.append((label, round(time.time() - t0, 1)))
        for j, r in zip(jobs, res):
            if r is not None:
                self.traces.append((j[1], j[2]))

    def long_delays_start(self, label):
        """Delays of ten seconds and more, waited out in a process of their own that runs alongside everything else
        (only never-early / at-most-once / started-at-all are asserted, so load does not matter)."""
        import threading
        c = self.c
        self.n += 1
        out = c.path("trace", "%s-%d.ndjson" % (label, self.n))
        box = {}

        def work():
            try:
                c.run_vh(["drive", "timerpanic", "-seed", c.seed, "-out", out, "-x", "mode=long", "-x", "tier=" + c.tier], timeout=600)
            except BaseException as e:     # reported when joined
                box["err"] = e
        th = threading.Thread(target=work, daemon=True)
        th.start()
        self._long = (th, out, label, box)

    def long_delays_join(self):
        th, out, label, box = self._long
        th.join()
        if "err" in box:
            raise box["err"]
        self.traces.append((out, label))

    def panicking(self, label, n, timeout=300):
        """Scheduled functions that panic, each scenario in a process of its own (the death of that process by the planted
        panic ends the observation; a package that lives on is bound by the contract for what follows)."""
        c = self.c
        self.n += 1
        out = c.path("trace", "%s-%d.ndjson" % (label, self.n))
        t0 = time.time()
        p = c.run_vh(["drive", "timerpanic", "-seed", c.seed, "-n", n, "-out", out], timeout=timeout)
        self.phases.append((label, round(time.time() - t0, 1)))
        try:
            c.extra["panicking_callbacks"] = json.loads(p.stdout.strip().splitlines()[-1])
        except Exception:
            raise vcheck.Broken("vh drive timerpanic: no summary line:\n%s" % p.stdout[-1000:])
        if os.environ.get("VERIF_KEEP_PANIC_TRACE"):      # debugging aid
            import shutil
            shutil.copy(out, os.environ["VERIF_KEEP_PANIC_TRACE"])
        self.traces.append((out, label))

    def defaults_early(self, label="defaults-early", timeout=300):
        """The package-as-it-comes-up child alone, before anything else of the check loads the host (its spin-chase looks
        for a wake-up lost in a window of a few hundred nanoseconds; the same scenario runs again inside panicking())."""
        c = self.c
        self.n += 1
        out = c.path("trace", "%s-%d.ndjson" % (label, self.n))
        t0 = time.time()
        c.run_vh(["drive", "timerpanic", "-seed", c.seed, "-out", out, "-x", "only=defaults"], timeout=timeout)
        self.phases.append((label, round(time.time() - t0, 1)))
        self.traces.append((out, label))

    # ------------------------------------------------------------------ verdicts
    def validate(self, pid):
        """TLC judges every recorded trace; a rejection is reported under the clause that failed if that
        clause belongs to property `pid`; an execution rejected for a clause of the sister property is set
        aside (it is that check's business) and the rest of the file is validated again."""
        c = self.c
        cfg = c.write_cfg("timer", "TimerTrace", postcondition="Accepted")
        foreign = []
        t0 = time.time()
        # every execution starts with a Begin line, so trace files can simply be concatenated: one JVM start
        # per bundle instead of one per vh process and phase
        nb = min(8, len(self.traces))
        bundles = []
        for k in range(nb):
            bp = c.path("trace", "bundle-%d.ndjson" % k)
            with open(bp, "w") as f:
                for path, _ in self.traces[k::nb]:
                    f.write(open(path).read())
            bundles.append((bp, "bundle%d" % k))
        self.traces = bundles

        def one(path, label):
            lines = open(path).read().splitlines()
            out = []
            for rnd in range(6):
                if not lines:
                    break
                p = path if rnd == 0 else path + ".r%d" % rnd
                if rnd:
                    open(p, "w").write("\n".join(lines) + "\n")
                ok, at, _ = c.validate_trace("timer", "TimerTrace", cfg, p, timeout=900, label="trace-%s-%d" % (label, rnd))
                if ok:
                    out.append(("ok", lines))
                    break
                clause, ctx = classify(lines, at)
                out.append(("rejected", clause, at, ctx))
                if pid in CLAUSES[clause][0] or clause == "other":
                    break
                # set aside every execution the sister property's clauses reject (named by the mirror) and
                # let TLC judge the rest again
                exs = executions(lines)
                keep = []
                for ex in exs:
                    mc = mirror_clause(ex)
                    if mc is None or pid in CLAUSES[mc][0] or mc == "other":
                        keep.append(ex)
                if len(keep) == len(exs):      # the mirror disagrees with TLC: cut just the rejected execution
                    b = max(i for i in range(at) if '"e":"Begin"' in lines[i])
                    e = next((i for i in range(at, len(lines)) if '"e":"Begin"' in lines[i]), len(lines))
                    lines = lines[:b] + lines[e:]
                else:
                    lines = [l for ex in keep for l in ex]
            return out

        results = parallel([lambda t=t: one(*t) for t in self.traces], max_workers=8)
        good = None
        for (path, label), outs in zip(self.traces, results):
            for o in outs:
                if o[0] == "ok":
                    c.traces_validated += sum(1 for l in o[1] if '"Begin"' in l)
                    if good is None and len(o[1]) > 3:
                        good = o[1]
                else:
                    _, clause, at, ctx = o
                    if pid in CLAUSES[clause][0] or clause == "other":
                        c.report_failure("timer: " + CLAUSES[clause][1], {"clause": clause, "trace": label,
                                                                            "rejected_at_line": at, "context": ctx})
                    else:
                        foreign.append({"clause": clause, "trace": label})
        for cr in self.crashes:
            c.report_failure("timer: " + CLAUSES[cr["clause"]][1], cr)
        if good is not None:
            c.samples.append({"kind": "recorded timed trace (prefix) accepted by TimerTrace.tla", "events": good[:12]})
        c.extra["timed_runs"] = dict(self.stats)
        self.phases.append(("validate", round(time.time() - t0, 1)))
        c.extra["timed_phases_wall_s"] = self.phases
        if foreign:
            c.extra["rejections_belonging_to_sister_property"] = foreign[:20]
        c.behaviours_replayed += self.stats["scripts"]
        return good


class Mirror:
    """A plain re-statement of TimerAbs.tla, used ONLY to word signatures and to set aside executions that
    belong to the sister property; the verdict is always TLC's."""
    def __init__(self, cfg):
        self.cfg = cfg
        self.due, self.ref = {}, {}
        self.started, self.cancelled, self.intime = set(), set(), set()

    def step(self, e):
        """clause that forbids event e in the current state, or None; updates the state"""
        k, cfg = e.get("e"), self.cfg
        if "panic" in e:
            return "cancel-panic"
        if k == "Call":
            if e["i"] in self.due or e["tb"] > e["ta"]:
                return "other"
            self.due[e["i"]] = e["tb"] + e["d"]
            self.ref[e["i"]] = e["ta"] + e["d"]
        elif k == "Start":
            i, t = e["i"], e["t"]
            if i not in self.due:
                return "other"
            if t < self.due[i]:
                return "early"
            if i in self.started:
                return "twice"
            if i in self.intime:
                return "cancelled"
            if cfg.get("late") == 1 and t - self.ref[i] > cfg["L"]:
                return "late"
            if cfg.get("gap", 0) > 0 and any(j != i and j not in self.started and j not in self.cancelled
                                             and self.ref[j] + cfg["gap"] <= self.due[i] for j in self.due):
                return "order"
            self.started.add(i)
        elif k == "CancelRet":
            i = e["i"]
            if i not in self.due:
                return "other"
            self.cancelled.add(i)
            if e["t"] < self.due[i]:
                if i in self.started:
                    return "early"
                self.intime.add(i)
        elif k == "Quiesce":
            if any(e["t"] >= self.ref[i] + cfg["Q"] and i not in self.started for i in set(self.due) - self.cancelled):
                return "not-started"
        elif k == "Idle":
            if set(self.due) <= (self.started | self.cancelled) and e["quiet"] >= 2 * cfg["idle"] + cfg["slack"] and e["w"] != 0:
                return "idle"
        elif k == "Sample":
            if not 0 <= e["w"] <= cfg["maxw"]:
                return "pool"
        elif k != "Begin":
            return "other"
        return None


def executions(lines):
    """split a trace file into executions (lists of lines, each starting with its Begin line)"""
    res = []
    for l in lines:
        if '"e":"Begin"' in l or not res:
            res.append([])
        res[-1].append(l)
    return res


def mirror_clause(ex_lines):
    evs = [json.loads(l) for l in ex_lines]
    m = Mirror(evs[0])
    for e in evs[1:]:
        c = m.step(e)
        if c:
            return c
    return None


def classify(lines, at):
    """Name the clause of TimerAbs.tla that rejected line `at` (1-based) and collect the lines about the
    future concerned."""
    evs = [json.loads(l) for l in lines[:at]]
    b = max([i for i, e in enumerate(evs) if e.get("e") == "Begin"] or [0])
    m = Mirror(evs[b])
    for e in evs[b + 1:-1]:
        m.step(e)
    cur = evs[-1]
    clause = m.step(cur) or "other"
    if cur.get("i") is not None:
        ids = [cur["i"]]
    else:
        ids = sorted(i for i in set(m.due) - m.cancelled - m.started if cur.get("t", 0) >= m.ref[i] + m.cfg.get("Q", 0))[:2]
    ctx = [lines[b]] + [l for l in lines[b + 1:at - 1] if any('"i":%d,' % i in l or '"i":%d}' % i in l for i in ids)][-10:] \
        + [lines[at - 1]]
    return clause, ctx


# ----------------------------------------------------------------------------- self test
def selftest(c, good, kind):
    """Binding demonstration: corrupt one recorded value of an accepted trace; TLC must reject exactly there."""
    lines = list(good)
    target = None
    due = {}
    for i, l in enumerate(lines):
        e = json.loads(l)
        if e.get("e") == "Begin" and i > 0:
            break
        if e.get("e") == "Call":
            due[e["i"]] = e["tb"] + e["d"]
        if kind == "early" and e.get("e") == "Start" and e["i"] in due and due[e["i"]] > 10 and i > 5:
            e["t"] = due[e["i"]] - 1
            target = (i, e)
            break
        if kind == "idle" and e.get("e") == "Idle":
            e["w"] = 1
            e["quiet"] = 2 * json.loads(lines[0])["idle"] + json.loads(lines[0])["slack"] + 1
            target = (i, e)
            break
    if not target:
        c.selftest = {"ran": False}
        return
    i, e = target
    l2 = lines[: i + 5]
    l2[i] = json.dumps(e)
    p = c.path("trace", "timer-corrupt.ndjson")
    open(p, "w").write("\n".join(l2) + "\n")
    cfg = c.write_cfg("timer", "TimerTrace", postcondition="Accepted")
    ok, at, _ = c.validate_trace("timer", "TimerTrace", cfg, p, label="selftest")
    c.selftest = {"ran": True, "corrupted": kind, "corrupted_line": i + 1, "rejected_at_line": at,
                  "detected": (not ok) and at == i + 1}
    if ok or at != i + 1:
        raise vcheck.Broken("selftest: corrupted trace not rejected at the corrupted line (%s, %s)" % (ok, at))
