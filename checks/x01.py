"""X01 - context.WithCancelError: the first cancellation wins, for every call sequence and schedule.

(S) CancelErr.tla is the contract (perr, cerr); CancelErrImpl.tla is cnclderr.go statement by statement
    (mutex, err field, channel, watchdog goroutine, cancellers, readers): TLC checks NoPanic, the
    refinement of the contract, reader agreement and the two liveness facts for every interleaving, and
    rejects three wrong variants of cancel() (negative controls of the specification).
(B) spec -> code: every call sequence of the contract up to the tier's length, for every kind of parent,
    replayed on real contexts (with standard-library descendants); code -> spec: recorded concurrent
    histories (cancellers, parent cancellation, readers) validated by TLC (CancelErrTrace.tla,
    linearization points + the library's own propagation step); plus a goroutine-leak measurement.
"""
import json
import vcheck
from vcheck import Check, parallel, q

KINDS = ["bg", "cancel", "value", "deadline", "expired"]


def sset(xs):
    return "{" + ", ".join(q(x) for x in xs) + "}"


def run(tier):
    c = Check("X01", tier)
    c.build()
    maxlen = 4 if c.quick() else 5

    # ---- (S) implementation-shaped model: all interleavings -------------------------------------
    def impl(name, cancellers, readers, nobs, bug="none", live=True, expect_ok=True, count=True):
        props = ["Refines"] + (["ParentCancels", "WatchdogEnds", "CallsReturn"] if live else [])
        cfg = c.write_cfg("extras", name, spec="FairSpec" if live else "Spec",
                          constants={"Cancellers": sset(cancellers), "Readers": sset(readers), "NObs": nobs,
                                     "WithParent": True, "Bug": q(bug)},
                          invariants=["NoPanic", "MutexOK", "LockedView", "ReadersAgree"], properties=props)
        return c.tlc("extras", "CancelErrImpl", cfg, workers=4, label=name, expect_ok=expect_ok, count=count, timeout=900)

    def negctl(bug):
        r = impl("CancelErrImpl-bug-" + bug, ["e1", "e2"], ["r1"], 2, bug=bug, live=False, expect_ok=False, count=False)
        if r["ok"] or "is violated" not in (r["error"] or ""):
            raise vcheck.Broken("SPEC-ERROR: CancelErrImpl with Bug=%s was not rejected by TLC (%s)" % (bug, r["error"]))
        return r

    jobs = [lambda: impl("CancelErrImpl-3c1r", ["e1", "e2", "nilc"], ["r1"], 3)]
    if not c.quick():
        jobs.append(lambda: impl("CancelErrImpl-2c2r", ["e1", "e2"], ["r1", "r2"], 3))
        jobs.append(lambda: impl("CancelErrImpl-3c2r-safety", ["e1", "e2", "nilc"], ["r1", "r2"], 2, live=False))
    jobs += [lambda b=b: negctl(b) for b in ("nocheck", "lastwins", "unlocked-err")]

    # ---- (S)+(B) contract: every call sequence, emitted ---------------------------------------------
    def contract(kind):
        cfg = c.write_cfg("extras", "CancelErr_" + kind,
                          constants={"ParentKind": q(kind), "Errs": sset(["e1", "e2"]), "MaxLen": maxlen},
                          invariants=["TypeOK", "ParentPropagated", "ParentErrOnlyFromParent"], properties=["FirstWins"],
                          constraints=["Bound"], action_constraints=["Emit"])
        emit = c.path("emit", "cancelerr-%s.ndjson" % kind)
        c.tlc("extras", "CancelErr", cfg, emit=emit, workers=2, label="CancelErr-" + kind)
        return emit

    res = parallel(jobs + [lambda k=k: contract(k) for k in KINDS], max_workers=8)
    emits = res[len(jobs):]
    c.extra["negative_controls"] = {"rejected_variants": ["nocheck", "lastwins", "unlocked-err"]}
    for e in emits:
        c.replay("x-cancelerr", e, workers=8)
    c.exhaustive = True

    # ---- (B) code -> spec: concurrent histories ------------------------------------------------------
    nh = 400 if c.quick() else 3000
    trace = c.path("trace", "cancelerr.ndjson")
    c.run_vh(["drive", "x-cancelerr", "-seed", c.seed, "-n", nh, "-out", trace])
    cfg = c.write_cfg("extras", "CancelErrTrace", constants={"MaxT": 4}, constraints=["Explore"], postcondition="Accepted")
    ok, at, _ = c.validate_trace("extras", "CancelErrTrace", cfg, trace, workers=1, deque=True, timeout=1200)
    lines = open(trace).read().splitlines()
    if ok:
        c.traces_validated += nh
        c.samples.append({"kind": "recorded concurrent history accepted by CancelErrTrace.tla", "events": lines[:14]})
    else:
        start = max(i for i in range(min(at, len(lines))) if '"reset"' in lines[i])
        end = next((i for i in range(start + 1, len(lines)) if '"reset"' in lines[i]), len(lines))
        c.report_failure("x-cancelerr: recorded concurrent history is not explained by the contract: " + summarize(lines, at),
                         {"rejected_at_line": at, "history": lines[start:end]})

    # ---- goroutine started by WithCancelError ends after cancellation -----------------------------------
    leak = c.path("trace", "leak.json")
    c.run_vh(["drive", "x-cancelerr", "-n", 600, "-out", leak, "-x", "mode=leak"])
    lk = json.load(open(leak))
    c.extra["goroutine_leak_probe"] = lk
    if lk["goroutines_left"] > 50:
        c.report_failure("x-cancelerr: goroutines started by WithCancelError are still alive long after every context was cancelled", lk)

    if not c.quick():
        selftest(c, lines, emits[1])
    return c.finish(rule="every call sequence of CancelErr.tla with at most %d calls (cancel(nil/e1/e2), parent cancellation, "
                         "simultaneous parent+user cancellation, Deadline, Value, observation) for parents %s replayed on real "
                         "contexts with standard-library descendants; %d recorded concurrent histories (2-4 goroutines) validated; "
                         "CancelErrImpl model-checked for all interleavings" % (maxlen - 1, KINDS, nh))


def summarize(lines, at):
    try:
        e = json.loads(lines[at - 1])
        return "%s %s" % (e.get("e"), e.get("op", ""))
    except Exception:
        return "?"


def selftest(c, lines, emit):
    """corrupt one recorded Err() reply / one prescribed Err() value: both must be noticed"""
    import vcheck
    idx = None
    for i, l in enumerate(lines):
        e = json.loads(l)
        if i > 50 and e.get("e") == "ret" and e.get("err") in ("e1", "e2"):
            e["err"] = "e3" if e["err"] != "e3" else "e1"
            idx = i
            lines2 = lines[: i + 30]
            lines2[i] = json.dumps(e)
            break
    res = {"ran": idx is not None}
    if idx is not None:
        p = c.path("trace", "cancelerr-corrupt.ndjson")
        open(p, "w").write("\n".join(lines2) + "\n")
        cfg = c.write_cfg("extras", "CancelErrTrace", constants={"MaxT": 4}, constraints=["Explore"], postcondition="Accepted")
        ok, at, _ = c.validate_trace("extras", "CancelErrTrace", cfg, p, workers=1, deque=True, label="selftest")
        res.update({"corrupted_line": idx + 1, "rejected_at_line": at, "trace_detected": not ok})
        if ok:
            raise vcheck.Broken("selftest: corrupted trace accepted")
    # behaviour side
    bl = open(emit).read().splitlines()
    for l in bl:
        b = json.loads(json.loads(l)) if l.startswith('"') else json.loads(l)
        if len(b) >= 3 and b[-1].get("err") == "e1":
            b[-1]["err"] = "e2"
            p = c.path("emit", "cancelerr-corrupt.ndjson")
            open(p, "w").write(json.dumps(b) + "\n")
            out = c.path("emit", "cancelerr-corrupt.json")
            c.run_vh(["replay", "x-cancelerr", "-in", p, "-out", out])
            r = json.load(open(out))
            res["behaviour_detected"] = r["n_failures"] == 1
            if r["n_failures"] != 1:
                raise vcheck.Broken("selftest: corrupted behaviour passed the replay")
            break
    c.selftest = res
