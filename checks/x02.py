"""X02 - chans.WriteToManyWithControl and chans.IsOpened.

(S) ChanSelect.tla: contract of the blocking multi-way send with done channels, over channel configurations
    (capacity 0/1(/2), done channel open/closed/nil), fill states, parked receivers, and calls that block and are
    released by an environment step.  IsOpened.tla: contract of IsOpened over capacity, contents, parked sender,
    open/closed.  TLC checks the invariants and emits one behaviour per edge (ChanSelect) / per call sequence (IsOpened).
(B) spec -> code: every behaviour replayed on real channels; the choice among several ready cases and whether
    IsOpened consumes are observed and must be allowed by the contract.
"""
import json
import vcheck
from vcheck import Check, parallel


def run(tier):
    c = Check("X02", tier)
    c.build()
    sel_cfgs = [(1, [0, 1], 3), (2, [0, 1], 3)] if c.quick() else [(1, [0, 1, 2], 4), (2, [0, 1, 2], 3), (3, [0, 1], 3)]
    iso_cfgs = [(0, 2, 6), (1, 3, 6), (2, 3, 6)] if c.quick() else [(0, 2, 7), (1, 3, 7), (2, 4, 7), (3, 4, 7)]

    def sel(n, caps, calls):
        name = "ChanSelect_n%d_c%d" % (n, len(caps))
        cfg = c.write_cfg("extras", name, constants={"N": n, "Caps": caps, "MaxCalls": calls},
                          invariants=["BlockedOnlyIfNothingReady", "NoDuplicates", "WithinCap"],
                          view="View", action_constraints=["Emit"])
        emit = c.path("emit", name + ".ndjson")
        c.tlc("extras", "ChanSelect", cfg, emit=emit, workers=4, label=name, timeout=900)
        return ("x-chansel", emit)

    def iso(cap, sends, maxlen):
        name = "IsOpened_c%d" % cap
        cfg = c.write_cfg("extras", name, constants={"Cap": cap, "MaxSends": sends, "MaxLen": maxlen},
                          invariants=["Bounded", "Ordered"], constraints=["Bound"], action_constraints=["Emit"])
        emit = c.path("emit", name + ".ndjson")
        c.tlc("extras", "IsOpened", cfg, emit=emit, workers=4, label=name, timeout=900)
        return ("x-isopened", emit)

    emits = parallel([lambda a=a: sel(*a) for a in sel_cfgs] + [lambda a=a: iso(*a) for a in iso_cfgs], max_workers=8)
    # the empty descriptor list: the documented panic
    p0 = c.path("emit", "ChanSelect_n0.ndjson")
    open(p0, "w").write(json.dumps([{"op": "New", "caps": [], "dnil": []}, {"op": "CallEmpty", "panic": True, "lens": [], "parked": []}]) + "\n")
    emits.append(("x-chansel", p0))
    rounds = 2 if c.quick() else 4   # the real select chooses at random among ready cases: several rounds reach more branches
    for comp, e in emits:
        for _ in range(rounds if comp == "x-chansel" else 1):
            c.replay(comp, e, workers=8)
    c.exhaustive = True
    if not c.quick():
        selftest(c, emits)
    return c.finish(rule="ChanSelect: one behaviour per edge of the contract's state graph for (descriptors, capacities, calls) in %s "
                         "(done channels open/closed/nil, parked receivers, blocked calls released by every kind of environment step); "
                         "IsOpened: every call sequence of Send/Recv/Close/IsOpened up to the length bound for (capacity, sends, length) in %s; "
                         "all replayed on real channels" % (sel_cfgs, iso_cfgs))


def selftest(c, emits):
    res = {}
    for comp, field, flip in (("x-chansel", "idx", lambda v: v + 1), ("x-isopened", "inflight", lambda v: v + 1)):
        e = [p for k, p in emits if k == comp][0]
        for l in open(e):
            b = json.loads(json.loads(l)) if l.startswith('"') else json.loads(l)
            if len(b) >= 3 and field in b[1] and (comp != "x-chansel" or len(b[1].get("allowed", [])) == 1):
                b[1][field] = flip(b[1][field])
                if comp == "x-chansel":
                    b[1]["allowed"] = [{"idx": b[1]["idx"], "ok": b[1]["ok"]}]
                p = c.path("emit", comp + "-corrupt.ndjson")
                open(p, "w").write(json.dumps(b) + "\n")
                out = c.path("emit", comp + "-corrupt.json")
                c.run_vh(["replay", comp, "-in", p, "-out", out])
                r = json.load(open(out))
                res[comp] = r["n_failures"] == 1
                if r["n_failures"] != 1:
                    raise vcheck.Broken("selftest: corrupted %s behaviour passed the replay" % comp)
                break
    c.selftest = {"ran": True, "detected": res}
