"""X03 - ulidutils.NextID / PrevID are the immediate successor / predecessor in string order.

(S) UlidStep.tla: contract on 26-digit strings (adjacency in lexicographic order, wrap-around, validity) and the
    code's 16-byte carry/borrow loops with the base-32 encoding; TLC checks that the loops meet the contract on the
    case set (every carry/borrow length 0..16 x pivot byte class x prefix class) and emits the cases.
(B) spec -> code: every case replayed on the real functions (invalid strings must panic);
    code -> spec: random ids with what the real functions returned, validated by TLC (UlidTrace.tla).
"""
import json
import vcheck
from vcheck import Check


def run(tier):
    c = Check("X03", tier)
    c.build()
    cfg = c.write_cfg("extras", "UlidStep", invariants=["ImplMeetsContract", "BadIsInvalid"], action_constraints=["Emit"])
    emit = c.path("emit", "ulid.ndjson")
    c.tlc("extras", "UlidStep", cfg, emit=emit, workers=4, label="UlidStep")
    c.replay("x-ulid", emit)
    c.exhaustive = True

    n = 1500 if c.quick() else 12000
    trace = c.path("trace", "ulid.ndjson")
    c.run_vh(["drive", "x-ulid", "-seed", c.seed, "-n", n, "-out", trace])
    cfg = c.write_cfg("extras", "UlidTrace", postcondition="Accepted")
    ok, at, _ = c.validate_trace("extras", "UlidTrace", cfg, trace, timeout=1200)
    lines = open(trace).read().splitlines()
    if ok:
        c.traces_validated += n
        c.samples.append({"kind": "recorded ids accepted by UlidTrace.tla", "events": lines[:3]})
    else:
        c.report_failure("x-ulid: NextID/PrevID of a random id is not the neighbour in string order (or round trip differs)",
                         {"rejected_at_line": at, "event": lines[at - 1] if 0 < at <= len(lines) else None})
    if not c.quick():
        e = json.loads(lines[10])
        e["next"][25] = (e["next"][25] + 1) % 32
        p = c.path("trace", "ulid-corrupt.ndjson")
        open(p, "w").write("\n".join(lines[:10] + [json.dumps(e)] + lines[11:30]) + "\n")
        ok2, at2, _ = c.validate_trace("extras", "UlidTrace", cfg, p, label="selftest")
        c.selftest = {"ran": True, "corrupted_line": 11, "rejected_at_line": at2, "detected": (not ok2) and at2 == 11}
        if ok2 or at2 != 11:
            raise vcheck.Broken("selftest: corrupted ULID trace not rejected at the corrupted line")
    return c.finish(rule="every 16-byte value of the form filler^(15-k) pivot t^k (k = 0..16 trailing bytes t in {00,FF}, pivot in "
                         "{00,01,7F,80,FE,FF}, filler in {00,5A,FF}) and 5 invalid strings replayed on NextID/PrevID; %d random ids "
                         "(ulid.Make and random bytes with 00/FF runs) validated against the string-order contract" % n)
