"""X04 - files.MMFile is a window onto a file that keeps every byte written through Buffer.

(S) MMFile.tla: contract as a cell array in a file (abstract block of 4 positions; position 1 / 3 = one byte after /
    before a block boundary); TLC checks the invariants and emits one behaviour per edge of the state graph.
(B) spec -> code: every behaviour replayed on a real memory-mapped file in a fresh directory; after every step the file
    length, after every Close the file content on disk, are compared with the contract.
"""
import json
import vcheck
from vcheck import Check, parallel


def run(tier):
    c = Check("X04", tier)
    c.build()
    if c.quick():
        cfgs = [("q", {"B": 4, "NewSizes": [0, 3, 4, 8], "GrowSizes": [0, 4, 6, 8], "Offs": [0, 1, 3, 4, 7, 8],
                       "Lens": [0, 1, 4, 5, 9], "Vals": [1], "ExtSizes": [0, 3, 5], "MaxCells": 8})]
    else:
        cfgs = [("t1", {"B": 4, "NewSizes": [0, 3, 4, 5, 8], "GrowSizes": [0, 4, 6, 8, 9], "Offs": [0, 1, 3, 4, 7, 8],
                        "Lens": [0, 1, 4, 5, 9], "Vals": [1, 2], "ExtSizes": [0, 3, 5], "MaxCells": 8}),
                ("t2", {"B": 4, "NewSizes": [4, 8, 12], "GrowSizes": [4, 8, 12, 16], "Offs": [0, 3, 4, 8, 11, 12],
                        "Lens": [1, 5, 13], "Vals": [1], "ExtSizes": [0], "MaxCells": 12})]

    def one(name, consts):
        cfg = c.write_cfg("extras", "MMFile_" + name, constants=consts, invariants=["WindowInFile"], properties=["NeverShrinks"],
                          view="View", action_constraints=["Emit"])
        emit = c.path("emit", "mmfile-%s.ndjson" % name)
        c.tlc("extras", "MMFile", cfg, emit=emit, workers=4, label="MMFile-" + name, timeout=1500)
        return emit

    emits = parallel([lambda a=a: one(*a) for a in cfgs])
    for e in emits:
        c.replay("x-mmfile", e, workers=8)
    c.exhaustive = True
    if not c.quick():
        for l in open(emits[0]):
            b = json.loads(json.loads(l)) if l.startswith('"') else json.loads(l)
            if b[-1].get("op") == "Read" and b[-1].get("cells") and any(b[-1]["cells"]):
                b[-1]["cells"][0] = b[-1]["cells"][0] + 1
                p = c.path("emit", "mmfile-corrupt.ndjson")
                open(p, "w").write(json.dumps(b) + "\n")
                out = c.path("emit", "mmfile-corrupt.json")
                c.run_vh(["replay", "x-mmfile", "-in", p, "-out", out])
                r = json.load(open(out))
                c.selftest = {"ran": True, "detected": r["n_failures"] == 1}
                if r["n_failures"] != 1:
                    raise vcheck.Broken("selftest: corrupted MMFile behaviour passed the replay")
                break
    return c.finish(rule="one behaviour per edge of the MMFile contract's state graph (New/Grow sizes, Buffer offsets and lengths "
                         "at, next to and across block / window / file boundaries, external truncation, close and re-open): %s"
                         % json.dumps([k for _, k in cfgs]))
