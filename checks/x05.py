"""X05 - files.HashDir is a function of the selected context of a directory and of nothing else.

(S) HashDir.tla: trees over a small universe (files a, d.x, n.skip; directory d with d/a, d/n.skip; rejected directory s.skip; data empty/"1"(/"2")),
    the selected context for recursive x filter, and the clauses of the property (insensitive to rejected entries and,
    without recursion, to sub-directories; sensitive to every change of a selected entry) as invariants TLC checks on
    every reachable tree; one behaviour per edge (create / modify / rename / move / remove / mkdir).
(B) spec -> code: every behaviour replayed in a fresh directory with real files; HashDir is called four times after
    every step; over all calls of all behaviours equal contexts <=> equal hashes.
"""
import json
import vcheck
from vcheck import Check, parallel, q


def run(tier):
    c = Check("X05", tier)
    c.build()
    cfgs = [("sub", ["e", "1"], True)] if c.quick() else [("sub3", ["e", "1", "2"], True), ("flat", ["e", "1", "2"], False)]

    def one(name, contents, sub):
        cfg = c.write_cfg("extras", "HashDir_" + name,
                          constants={"Contents": "{" + ", ".join(q(x) for x in contents) + "}", "WithSub": sub},
                          invariants=["TreeOK", "Insensitive", "Sensitive"], view="View", action_constraints=["Emit"])
        emit = c.path("emit", "hashdir-%s.ndjson" % name)
        c.tlc("extras", "HashDir", cfg, emit=emit, workers=4, label="HashDir-" + name, timeout=1500)
        return emit

    emits = parallel([lambda a=a: one(*a) for a in cfgs])
    # all files in ONE replay process: the context <-> hash binding spans every behaviour
    allp = c.path("emit", "hashdir-all.ndjson")
    with open(allp, "w") as out:
        for e in emits:
            out.write(open(e).read())
    c.replay("x-hashdir", allp, workers=8)
    c.exhaustive = True
    if not c.quick():
        for l in open(emits[0]):
            b = json.loads(json.loads(l)) if l.startswith('"') else json.loads(l)
            if len(b) >= 3 and b[-1]["s10"] != b[-2]["s10"]:
                b[-1]["s10"] = b[-2]["s10"]      # claim the last mutation did not change the recursive context
                p = c.path("emit", "hashdir-corrupt.ndjson")
                open(p, "w").write(json.dumps(b) + "\n")
                out = c.path("emit", "hashdir-corrupt.json")
                c.run_vh(["replay", "x-hashdir", "-in", p, "-out", out])
                r = json.load(open(out))
                c.selftest = {"ran": True, "detected": r["n_failures"] == 1}
                if r["n_failures"] != 1:
                    raise vcheck.Broken("selftest: corrupted HashDir behaviour passed the replay")
                break
    c.assumptions.append("names and data of the universe are in disjoint alphabets and no name is a concatenation of others "
                         "(HashDir concatenates names and data without separators; see the caveat in HashDir.tla)")
    return c.finish(rule="one behaviour per edge of the tree graph over the universe %s; HashDir(recursive x filter) after every step; "
                         "equal selected contexts <=> equal hashes over all calls of all behaviours" % json.dumps([list(a) for a in cfgs]))
