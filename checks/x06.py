"""X06 - algebraic contracts of the slice / map / string helpers (container/sliceutils.go, maputils.go, strutil/string.go).

(S) SeqUtils.tla: declarative contracts (least index, reversal, first occurrences, pair swap, union / difference /
    intersection as sets, element removal as a multiset, fill, truncation, map copies and projections); the in-place
    loop of RemoveDups and the doubling copy of SliceFill are written as the code computes them and TLC checks them
    against the contract, together with the algebraic laws (involutions, idempotence), on every case.
(B) spec -> code: every case (all pairs of sequences up to the length bound, all maps, fill lengths around 50 and the
    powers of two, all (length, n) truncations) replayed on the real functions.
"""
import json
import vcheck
from vcheck import Check


def run(tier):
    c = Check("X06", tier)
    c.build()
    consts = {"Vals": [1, 2, 3], "MaxLen": 3 if c.quick() else 4,
              "FillLens": [0, 1, 2, 49, 50, 51, 63, 64, 65, 100, 127, 128, 129] + ([] if c.quick() else [99, 255, 256, 257, 300]),
              "StrLens": [0, 1, 2, 3, 4, 5, 8], "TruncArgs": [3, 4, 5, 7, 8, 9]}
    cfg = c.write_cfg("extras", "SeqUtils", constants=consts, invariants=["Algebra", "FillOK", "TruncOK"], action_constraints=["Emit"])
    emit = c.path("emit", "sequtils.ndjson")
    c.tlc("extras", "SeqUtils", cfg, emit=emit, workers=4, label="SeqUtils", timeout=1500)
    c.replay("x-sequtils", emit)
    c.exhaustive = True
    if not c.quick():
        for l in open(emit):
            b = json.loads(json.loads(l)) if l.startswith('"') else json.loads(l)
            if b[0].get("op") == "Seq" and len(b[0]["reverse"]) >= 2 and b[0]["reverse"][0] != b[0]["reverse"][1]:
                b[0]["reverse"][0], b[0]["reverse"][1] = b[0]["reverse"][1], b[0]["reverse"][0]
                p = c.path("emit", "sequtils-corrupt.ndjson")
                open(p, "w").write(json.dumps(b) + "\n")
                out = c.path("emit", "sequtils-corrupt.json")
                c.run_vh(["replay", "x-sequtils", "-in", p, "-out", out])
                r = json.load(open(out))
                c.selftest = {"ran": True, "detected": r["n_failures"] == 1}
                if r["n_failures"] != 1:
                    raise vcheck.Broken("selftest: corrupted case passed the replay")
                break
    c.assumptions.append("SliceExcludeOverlaps is only exercised with duplicate-free arguments (with a value repeated in s2 and present "
                         "in s1 the code reports it as 'only in s2'); TruncateWithEllipses only with maxSize >= 3 (below 3 the code returns "
                         "'...', longer than maxSize)")
    return c.finish(rule="every case of SeqUtils.tla: all pairs of sequences of length <= %d over 3 values x every v / index, all maps over "
                         "3 keys, SliceFill lengths %s, TruncateWithEllipses (length, n) in %s x %s"
                         % (consts["MaxLen"], consts["FillLens"], consts["StrLens"], consts["TruncArgs"]))
