"""X07 - the configuration enricher (config/enricher.go, config.go) holds the value its doc comments prescribe.

(S) ConfigEnricher.tla: the contract over an abstract struct tree (fixed type T: int / string / bool leaves, json
    aliases, a name that is a prefix of another, nested struct, struct pointer, slice, unexported leaf): the deep merge
    of ApplyOther with its laws (identity, idempotence, zero target, associativity), the declarative resolution of
    key-value keys (prefix, separator, names or aliases, case) with the value-text table, all iteration orders of the
    map (independent keys commute - checked; parent/child and same-leaf corners left open), document loading.
    ConfigEnricherImpl.tla: applyValues / ApplyKeyValues / assignStruct / setFieldValueByString as the code computes
    them (cut at the first separator, first field in declaration order, copy / fresh pointee stored only if assigned);
    TLC checks on every value reached that they meet the contract for every call of the universe and every order.
(B) spec -> code: one behaviour per edge (New(value); up to Depth calls), replayed on a real Enricher[T]: Value() after
    every call, every call also through ApplyEnvVariables (real environment), LoadJSONAndApply, both file formats and the
    direct LoadFromJSONFile / LoadFromYAMLFile entry points, each behaviour closed by the no-op / error probes.
    code -> spec: long random call sequences (random letter case of keys, prefix, separator; random route) recorded and
    validated by TLC (ConfigEnricherTrace.tla).
"""
import json
import vcheck
from vcheck import Check, parallel

INV = ["TypeOK", "ContractLaws", "Refinement"]


def load(line):
    return json.loads(json.loads(line)) if line.startswith('"') else json.loads(line)


def run(tier):
    c = Check("X07", tier)
    c.build()
    # thorough: three calls from the zero value, two from the two populated ones (three from all three: 721k behaviours,
    # 12.5 min - passes, but over the tier's budget)
    depths = {1: 2, 2: 2, 3: 2} if c.quick() else {1: 3, 2: 2, 3: 2}

    def one(i):
        cfg = c.write_cfg("extras", "ConfigEnricherImpl_i%d" % i,
                          constants={"Depth": depths[i], "Inits": [i], "CheckLeaves": not c.quick() and depths[i] == 2},
                          invariants=INV, view="View", action_constraints=["Emit"])
        emit = c.path("emit", "config-i%d.ndjson" % i)
        c.tlc("extras", "ConfigEnricherImpl", cfg, emit=emit, workers=4, label="ConfigEnricherImpl-init%d" % i, timeout=1500)
        return emit

    emits = parallel([lambda i=i: one(i) for i in (1, 2, 3)])
    for e in emits:
        c.replay("x-config", e, workers=8)
    c.exhaustive = True

    # code -> spec: the driver draws from the spec's own universe, read off the emitted one-call behaviours
    uni = {"inits": {}, "others": {}, "docs": {}, "kvs": {}}
    key = lambda x: json.dumps(x, sort_keys=True)
    for e in emits:
        for l in open(e):
            b = load(l)
            if len(b) != 2:
                continue
            uni["inits"][key(b[0]["tree"])] = b[0]["tree"]
            s = b[1]
            if s["op"] == "Other" and not s["unexported"]:
                uni["others"][key(s["other"])] = s["other"]
            elif s["op"] == "Load":
                uni["docs"][key(s["doc"])] = s["doc"]
            elif s["op"] == "KV":
                uni["kvs"][key([s["prefix"], s["sep"], s["kvs"]])] = {"prefix": s["prefix"], "sep": s["sep"], "kvs": s["kvs"],
                                                                     "skip": s["badvalue"] or s["unexported"]}
    uni = {k: [v[x] for x in sorted(v)] for k, v in uni.items()}
    if min(len(v) for v in uni.values()) == 0:
        raise vcheck.Broken("universe extraction found nothing: %s" % {k: len(v) for k, v in uni.items()})
    up = c.path("trace", "universe.json")
    json.dump(uni, open(up, "w"))
    ntr, steps = (60, 40) if c.quick() else (400, 60)
    trace = c.path("trace", "config.ndjson")
    c.run_vh(["drive", "x-config", "-seed", c.seed, "-n", ntr, "-out", trace, "-x", "universe=" + up, "-x", "steps=%d" % steps])
    tcfg = c.write_cfg("extras", "ConfigEnricherTrace", spec="TSpec", constants={"Depth": 0, "Inits": [], "CheckLeaves": False},
                       postcondition="Accepted")
    ok, at, _ = c.validate_trace("extras", "ConfigEnricherTrace", tcfg, trace, timeout=1200)
    lines = open(trace).read().splitlines()
    if ok:
        c.traces_validated += ntr
        c.samples.append({"kind": "recorded trace prefix accepted by ConfigEnricherTrace.tla", "events": lines[:4]})
    else:
        start = max(i for i in range(at) if '"op":"New"' in lines[i])
        ctx = lines[start:at]
        c.report_failure("x-config: recorded call/value not allowed by ConfigEnricher.tla: " + summarize(ctx[-1] if ctx else ""),
                         {"rejected_at_line": at, "history": ctx, "trace": {"comp": "extras", "module": "ConfigEnricherTrace"}})
    if not c.quick():
        selftest(c, emits[0], lines, tcfg)
    c.assumptions.append("left open by the comments and not judged: which key wins when one key addresses a field and another the same "
                         "field or a member of it; whether a JSON object assigned to a struct field resets the members it does not name; "
                         "empty value texts; separators occurring inside a field name, the empty and a trailing separator; an alias equal to "
                         "another field's name; nil vs empty slices; upper-case file extensions (the code accepts .YAML but not .JSON); "
                         "the value after a failed parse")
    return c.finish(rule="one behaviour per edge of the value graph: New(one of 3 values) followed by up to %d calls from the universe of "
                         "ConfigEnricher.tla (%d ApplyOther arguments, %d documents + 2 unparsable ones, %d key-value calls), Value() compared "
                         "after every call, every call repeated through the equivalent routes, no-op/error probes at the end; plus %d recorded "
                         "random traces of %d calls" % (max(depths.values()), len(uni["others"]) + 1, len(uni["docs"]), len(uni["kvs"]), ntr, steps))


def summarize(line):
    try:
        e = json.loads(line)
        if e.get("crash"):
            return "op=%s panicked or returned an error" % e.get("op")
        return "op=%s" % e.get("op")
    except Exception:
        return "?"


def selftest(c, emit, lines, tcfg):
    """Binding demonstration: a corrupted prescribed value must fail the replay; a corrupted recorded value must be rejected there."""
    res = {"ran": False}
    for l in open(emit):
        b = load(l)
        if len(b) == 3 and b[1]["op"] == "KV" and not b[1]["badvalue"] and not b[1]["unexported"] and len(b[1]["alts"]) == 1 \
                and b[2]["op"] == "Other" and not b[2]["unexported"]:
            b[1]["tree"]["Port"] += 1
            b[1]["alts"][0]["Port"] += 1
            p = c.path("emit", "config-corrupt.ndjson")
            open(p, "w").write(json.dumps(b) + "\n")
            out = c.path("emit", "config-corrupt.json")
            c.run_vh(["replay", "x-config", "-in", p, "-out", out])
            r = json.load(open(out))
            res.update({"ran": True, "replay_detected": r["n_failures"] == 1})
            if r["n_failures"] != 1:
                raise vcheck.Broken("selftest: corrupted behaviour passed the replay")
            break
    for i, l in enumerate(lines):
        e = json.loads(l)
        if i > 100 and e.get("op") == "KV":
            e["tree"]["Port"] += 5
            lines2 = list(lines[: i + 20])
            lines2[i] = json.dumps(e)
            p = c.path("trace", "config-corrupt.ndjson")
            open(p, "w").write("\n".join(lines2) + "\n")
            ok, at, _ = c.validate_trace("extras", "ConfigEnricherTrace", tcfg, p, label="selftest")
            res.update({"corrupted_line": i + 1, "rejected_at_line": at, "trace_detected": (not ok) and at == i + 1})
            if ok or at != i + 1:
                raise vcheck.Broken("selftest: corrupted trace was not rejected at the corrupted line (%s, %s)" % (ok, at))
            break
    c.selftest = res
