"""X08 - the directory-tree helpers of files/files.go do to a tree exactly what their doc comments say.

(S) FileTree.tla: contract on an abstract tree (path -> dir | content) for ListDir, IsDirEmpty, EnsureDirExists, WriteTo,
    CreateRandomDir / CreateRandomFileName, RemoveFiles (four test functions), CopyDir, ZipFolder + UnzipToFolder, GetRoot;
    the recursions of RemoveFiles and CopyDir transcribed from the code and checked against the contract by TLC on every
    reachable tree and argument (RemoveImplMeetsContract, CopyImplVsContract).
(B) spec -> code: one behaviour per edge of the state graph (build a tree, 1..MaxOps calls), replayed in a sandbox
    directory of its own; every reply and the whole tree after every call are compared with the contract.
Doc / code disagreements found while building the check are listed in DOC_CODE_DISAGREEMENTS below; they are reported as
KNOWN-FINDING lines (the inputs are in the `what` texts) and do not fail the check.
"""
import json
import os
import vcheck
from vcheck import Check, parallel

ALL = ["ListDir", "IsDirEmpty", "EnsureDirExists", "WriteTo", "CreateRandom", "RemoveFiles", "CopyDir", "ZipUnzip"]

SP = r"( \(directory spelled with a (trailing separator|'\.' segment)\))?$"
DOC_CODE_DISAGREEMENTS = [
    {"id": "F-X08-ensuredir-regular-file", "status": "known", "property": "X08",
     "match": r"^x-files: (EnsureDirExists error class differs from contract \(nil instead of error, is-file\)"
              r"|CopyDir error class differs from contract \(nil instead of error, (dst-is-file-src-empty|only-empty-dirs-onto-files)\)"
              r"|ZipUnzip UnzipToFolder error class differs from contract \(nil instead of error, dst-is-file-nothing-selected\))" + SP,
     "what": "EnsureDirExists(<regular file>) returns nil although no directory exists afterwards (os.Open succeeds on a file); hence "
             "CopyDir returns nil when an empty source directory meets a regular file of the same name in the destination "
             "(from={x/}, to={x: file}: nil, to/x is still a file) or when `to` itself is a regular file and the source is empty, "
             "and UnzipToFolder(archive without entries, <regular file>) returns nil"},
    {"id": "F-X08-copydir-no-source", "status": "known", "property": "X08",
     "match": r"^x-files: CopyDir error class differs from contract \(nil instead of error, src-not-dir\)" + SP,
     "what": "CopyDir(from, to) returns nil and creates `to` when `from` does not exist or is a regular file (ListDir of a "
             "non-directory is empty)"},
    {"id": "F-X08-listdir-dot-segment", "status": "known", "property": "X08",
     "match": r"^x-files: (ListDir misses entries of the directory|tree after RemoveFiles differs from contract: unexpected entries"
              r"|tree after CopyDir differs from contract: entries missing) \(directory spelled with a '\.' segment\)$",
     "what": "ListDir(dir) compares the walked paths (cleaned by filepath.Join) with `dir` as given: for a directory spelled "
             "with a '.' segment (\"./data\", \"/x/./a\", also \".\" and \"/\") it returns nothing, so RemoveFiles removes nothing "
             "and CopyDir copies nothing, all returning nil"},
]


def cfgs_for(tier):
    base = {"NNames": 2, "MaxDepth": 3, "ArgDepth": 2}
    q = [
        ("main", dict(base, Contents=['"e"', '"x"'], MaxNodes=3, MaxOps=1, Ops=[vcheck.q(o) for o in ALL], Spellings=['"plain"', '"slash"'])),
        ("deep", dict(base, Contents=['"x"'], MaxNodes=4, MaxOps=1, Ops=[vcheck.q(o) for o in ["RemoveFiles", "CopyDir", "ZipUnzip"]], Spellings=['"plain"'])),
        ("seq", dict(base, Contents=['"x"'], MaxNodes=2, MaxOps=2, Spellings=['"plain"'],
                     Ops=[vcheck.q(o) for o in ["EnsureDirExists", "WriteTo", "RemoveFiles", "CopyDir", "IsDirEmpty"]])),
        ("dot", dict(base, Contents=['"x"'], MaxNodes=2, MaxOps=1, Spellings=['"dot"'],
                     Ops=[vcheck.q(o) for o in ["ListDir", "IsDirEmpty", "EnsureDirExists", "RemoveFiles", "CopyDir"]])),
        ("long", dict(base, Contents=['"x"', '"L"'], MaxNodes=2, MaxOps=1, Ops=[vcheck.q(o) for o in ["WriteTo", "CopyDir", "ZipUnzip"]], Spellings=['"plain"'])),
        ("getroot", dict(base, Contents=['"x"'], MaxNodes=0, MaxOps=1, Ops=[vcheck.q("GetRoot")], Spellings=['"plain"'])),
    ]
    if tier == "quick":
        return q
    t = [
        ("main4", dict(base, Contents=['"e"', '"x"'], MaxNodes=4, MaxOps=1, Ops=[vcheck.q(o) for o in ALL], Spellings=['"plain"', '"slash"'])),
        ("seq3", dict(base, Contents=['"e"', '"x"'], MaxNodes=2, MaxOps=3, Ops=[vcheck.q(o) for o in ALL], Spellings=['"plain"'])),
        ("deep5", dict(base, Contents=['"x"'], MaxNodes=5, MaxOps=1, Ops=[vcheck.q(o) for o in ["RemoveFiles", "CopyDir"]], Spellings=['"plain"'])),
    ]
    return [c for c in q if c[0] not in ("main",)] + t


def run(tier):
    c = Check("X08", tier)
    c.findings = list(c.findings) + DOC_CODE_DISAGREEMENTS
    c.build()
    cfgs = cfgs_for(tier)

    def one(name, consts):
        cfg = c.write_cfg("extras", "FileTree_" + name, constants=consts,
                          invariants=["TreeValid", "RemoveImplMeetsContract", "CopyImplVsContract"],
                          view="View", action_constraints=["Emit"])
        emit = c.path("emit", "filetree-%s.ndjson" % name)
        c.tlc("extras", "FileTree", cfg, emit=emit, workers=4, label="FileTree-" + name, timeout=1500)
        return emit

    emits = parallel([lambda a=a: one(*a) for a in cfgs])
    # the sandboxes are made with os.MkdirTemp: a memory file system is >10x faster than the disk under load
    if os.path.isdir("/dev/shm") and os.access("/dev/shm", os.W_OK):
        os.environ["TMPDIR"] = "/dev/shm"
    parallel([lambda e=e: c.replay("x-files", e, workers=6) for e in emits], max_workers=3)
    c.exhaustive = True
    if not c.quick():
        # selftest: corrupt one prescribed tree / one prescribed listing
        done = {}
        for l in open(emits[0]):
            b = json.loads(json.loads(l)) if l.startswith('"') else json.loads(l)
            last = b[-1]
            if last.get("op") == "CopyDir" and last.get("err") == "nil" and len(last["tree"]) >= 3 and "tree" not in done:
                last["tree"] = last["tree"][:-1]
                done["tree"] = b
            if last.get("op") == "RemoveFiles" and last.get("err") == "nil" and len(b[-2]["tree"]) > len(last["tree"]) and "rm" not in done:
                last["tree"] = b[-2]["tree"]
                done["rm"] = b
            if len(done) == 2:
                break
        p = c.path("emit", "filetree-corrupt.ndjson")
        open(p, "w").write("".join(json.dumps(b) + "\n" for b in done.values()))
        out = c.path("emit", "filetree-corrupt.json")
        c.run_vh(["replay", "x-files", "-in", p, "-out", out])
        r = json.load(open(out))
        c.selftest = {"ran": True, "corrupted": len(done), "detected": r["n_failures"]}
        if len(done) != 2 or r["n_failures"] != 2:
            raise vcheck.Broken("selftest: corrupted FileTree behaviours passed the replay")
    c.assumptions.append("not explored: CopyDir with one path inside the other (the code recurses until the path name is too long); "
                         "CreateRandomDir / CreateRandomFileName below a regular file (ensureUndique loops for ever: ENOTDIR is not "
                         "IsNotExist); ZipFolder of a regular file; what a failed CopyDir / UnzipToFolder leaves behind")
    return c.finish(rule="one behaviour per edge of the FileTree contract's state graph: every tree with <= MaxNodes entries over 2 names, "
                         "depth <= 3, x every call and argument of the configuration, replayed in a sandbox directory: %s"
                         % json.dumps([(n, {k: v for k, v in k_.items() if k in ("MaxNodes", "MaxOps", "Contents", "Spellings")}) for n, k_ in cfgs]))
