"""X09 - the bytes.Buffer interface (container/bytes/bstorage.go): one contract, both implementations.

(S) BytesBuf.tla: a storage is an array of cells; Size, Grow (keeps content, appends zeros, never shrinks), Buffer
    (bounds, ErrInvalid, window clipped at Size), slices alias the storage in both directions until the next Grow / Close,
    everything fails after Close; TLC checks the invariants and emits one behaviour per edge of the state graph.
(B) spec -> code: every behaviour replayed on container/bytes.NewInMemBytes (a cell = one byte) and on files.MMFile
    (a cell = one 4096-byte block); after every step Size(), the whole content and the kept slice are compared.
"""
import json
import os
import vcheck
from vcheck import Check, parallel


def run(tier):
    c = Check("X09", tier)
    c.build()
    if c.quick():
        cfgs = [("inmem", "inmem", {"NewSizes": [0, 1, 3], "GrowSizes": [0, 1, 2, 3, 4], "Offs": [0, 1, 2, 3, 4], "Lens": [0, 1, 2, 5],
                                    "Vals": [1, 2], "MaxCells": 4, "AfterClose": True}),
                ("mmfile", "mmfile", {"NewSizes": [1, 2], "GrowSizes": [1, 2, 3], "Offs": [0, 1, 2, 3], "Lens": [0, 1, 4],
                                      "Vals": [1], "MaxCells": 3, "AfterClose": False})]
    else:
        cfgs = [("inmem", "inmem", {"NewSizes": [0, 1, 3], "GrowSizes": [0, 1, 2, 3, 4, 5], "Offs": [0, 1, 2, 3, 4, 5], "Lens": [0, 1, 2, 3, 6],
                                    "Vals": [1, 2], "MaxCells": 5, "AfterClose": True}),
                ("mmfile", "mmfile", {"NewSizes": [1, 2], "GrowSizes": [1, 2, 3, 4], "Offs": [0, 1, 2, 3, 4], "Lens": [0, 1, 2, 5],
                                      "Vals": [1, 2], "MaxCells": 4, "AfterClose": False})]

    def one(name, variant, consts):
        cfg = c.write_cfg("extras", "BytesBuf_" + name, constants=consts, invariants=["HeldInside"],
                          properties=["NeverShrinks", "GrowKeeps"], view="View", action_constraints=["Emit"])
        emit = c.path("emit", "bytesbuf-%s.ndjson" % name)
        c.tlc("extras", "BytesBuf", cfg, emit=emit, workers=4, label="BytesBuf-" + name, timeout=1500)
        return emit

    emits = parallel([lambda a=a: one(*a) for a in cfgs])
    if os.path.isdir("/dev/shm") and os.access("/dev/shm", os.W_OK):
        os.environ["TMPDIR"] = "/dev/shm"       # the MMFile variant maps one small file per behaviour
    for (name, variant, _), e in zip(cfgs, emits):
        c.replay("x-bytesbuf", e, variant=variant, workers=8)
    c.exhaustive = True
    if not c.quick():
        for l in open(emits[0]):
            b = json.loads(json.loads(l)) if l.startswith('"') else json.loads(l)
            if b[-1].get("op") == "ReadHeld" and any(b[-1]["data"]):
                b[-1]["data"][0] += 1
                p = c.path("emit", "bytesbuf-corrupt.ndjson")
                open(p, "w").write(json.dumps(b) + "\n")
                out = c.path("emit", "bytesbuf-corrupt.json")
                c.run_vh(["replay", "x-bytesbuf", "-variant", "inmem", "-in", p, "-out", out])
                r = json.load(open(out))
                c.selftest = {"ran": True, "detected": r["n_failures"] == 1}
                if r["n_failures"] != 1:
                    raise vcheck.Broken("selftest: corrupted BytesBuf behaviour passed the replay")
                break
    c.assumptions.append("left open (doc comments silent, implementations differ): Grow(n) with n = Size(); the error class of "
                         "Grow(n < Size()) and of calls after Close; Close after Close; Size() after Close; negative lengths "
                         "(in-memory Buffer(0, -1) panics); Grow on a closed MMFile is not called")
    return c.finish(rule="one behaviour per edge of the BytesBuf contract's state graph, replayed on the in-memory storage and on "
                         "MMFile: %s" % json.dumps([(n, k) for n, _, k in cfgs]))
