"""X10 - context.WrapChannel is done exactly when the channel is closed; context.Sleep returns nil only after d and the
context's error promptly once the context is done.

(S) CtxWrap.tla: contract of the wrapper (Err / Done / Deadline / Value), of standard-library contexts derived from it
    before or after the close (WithCancel, WithTimeout, WithValue, WithCancel over WithValue), and of Sleep on any of
    these contexts (d < 0, 0, short, one hour; the cancellation before or during the sleep); TLC checks Monotone / Settled
    and emits one behaviour per edge of the state graph.
(B) spec -> code: every behaviour replayed on real channels and contexts (one-sided, generous timing only);
    code -> spec: rounds of concurrent readers polling Err() / Done() while the channel is closed, recorded and validated by
    TLC against CtxWrapTrace.tla (linearization points + the moment of the close).
"""
import json
import vcheck
from vcheck import Check, parallel, q


def run(tier):
    c = Check("X10", tier)
    c.build()
    kinds = ["cancel", "timeout", "value", "grand"]
    consts = {"KidKinds": [q(k) for k in kinds], "MaxKids": 2 if c.quick() else 3,
              "Durs": [q(d) for d in ["neg", "zero", "short", "long"]]}
    cfg = c.write_cfg("extras", "CtxWrap", constants=consts, invariants=["Settled"], properties=["Monotone"],
                      view="View", action_constraints=["Emit"])
    emit = c.path("emit", "ctxwrap.ndjson")
    c.tlc("extras", "CtxWrap", cfg, emit=emit, workers=4, label="CtxWrap", timeout=1500)
    try:
        c.replay("x-ctxwrap", emit, workers=16)
    except vcheck.Broken as e:
        # Err() is also called by the standard library's propagation goroutine: a panic there cannot be recovered by the
        # harness and takes the replay process down - that is the library's observable behaviour, not a tool failure
        # (a wrapper whose Err() is nil although Done() is closed makes the standard library panic: 'missing cancel error')
        if "panic: " in str(e) and ("golibs/context" in str(e) or "propagateCancel" in str(e)):
            c.report_failure("x-ctxwrap: the process died of a panic in the standard library's propagation goroutine (inside the wrapper, "
                             "or because the wrapper broke the Context contract)",
                             {"stderr": str(e)[-1500:]})
        else:
            raise
    c.exhaustive = True

    n = 300 if c.quick() else 3000
    trace = c.path("trace", "ctxwrap.ndjson")
    c.run_vh(["drive", "x-ctxwrap", "-seed", c.seed, "-n", n, "-out", trace])
    tcfg = c.write_cfg("extras", "CtxWrapTrace", constants={"MaxR": 3}, constraints=["Explore"], postcondition="Accepted")
    ok, at, _ = c.validate_trace("extras", "CtxWrapTrace", tcfg, trace, workers=1, deque=True, timeout=1200)
    lines = open(trace).read().splitlines()
    if ok:
        c.traces_validated += n
        c.samples.append({"kind": "recorded round of concurrent readers accepted by CtxWrapTrace.tla", "events": lines[:16]})
    else:
        start = max(i for i in range(min(at, len(lines))) if '"reset"' in lines[i])
        end = next((i for i in range(start + 1, len(lines)) if '"reset"' in lines[i]), len(lines))
        ev = json.loads(lines[at - 1]) if 0 < at <= len(lines) else {}
        what = "a reader's Err() / Done() is not explained by one close moment"
        if str(ev.get("res", "")).startswith("panic"):
            what = "Err() panicked"
        elif ev.get("res") not in (None, "nil", "closed"):
            what = "Err() returned an error that is not ErrClosed"
        c.report_failure("x-ctxwrap: recorded concurrent history rejected: " + what, {"rejected_at_line": at, "history": lines[start:end]})

    if not c.quick():
        res = {"ran": True}
        # trace side: a read that ended before the close began claims the error
        idx = next((i for i, l in enumerate(lines) if '"re"' in l and '"nil"' in l), None)
        if idx is not None:
            e = json.loads(lines[idx])
            e["res"], e["done"] = "closed", True
            first_cb = next(i for i, l in enumerate(lines) if '"cb"' in l)
            if idx < first_cb:
                p = c.path("trace", "ctxwrap-corrupt.ndjson")
                open(p, "w").write("\n".join(lines[:idx] + [json.dumps(e)] + lines[idx + 1:200]) + "\n")
                ok2, at2, _ = c.validate_trace("extras", "CtxWrapTrace", tcfg, p, workers=1, deque=True, label="selftest")
                res.update({"corrupted_line": idx + 1, "rejected_at_line": at2, "trace_detected": not ok2})
                if ok2:
                    raise vcheck.Broken("selftest: corrupted CtxWrap trace accepted")
        for l in open(emit):
            b = json.loads(json.loads(l)) if l.startswith('"') else json.loads(l)
            if b[-1].get("op") == "CloseCh" and b[-1].get("kerrs"):
                b[-1]["kerrs"][0] = "canceled"
                p = c.path("emit", "ctxwrap-corrupt.ndjson")
                open(p, "w").write(json.dumps(b) + "\n")
                out = c.path("emit", "ctxwrap-corrupt.json")
                c.run_vh(["replay", "x-ctxwrap", "-in", p, "-out", out])
                r = json.load(open(out))
                res["behaviour_detected"] = r["n_failures"] == 1
                if r["n_failures"] != 1:
                    raise vcheck.Broken("selftest: corrupted CtxWrap behaviour passed the replay")
                break
        c.selftest = res
    c.assumptions.append("timing is judged one-sidedly: nil from Sleep only after >= d (short = 20 ms); 'promptly' = within 20 s where "
                         "the alternative is one hour; when timer and cancellation are both due either result is accepted. "
                         "Sending values on the wrapped channel (Err() panics 'Improper use') and NewSignalsContext are not exercised.")
    return c.finish(rule="one behaviour per edge of the CtxWrap contract's state graph (%d derived context(s) of kinds %s, sleeps %s) "
                         "replayed on real contexts; %d recorded rounds of 2-3 concurrent readers validated against CtxWrapTrace.tla"
                         % (consts["MaxKids"], kinds, ["neg", "zero", "short", "long"], n))
