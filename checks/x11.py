"""X11 - transport.Config (Addr / ScanAddr / String / Apply / defaults) and the logging facade (level filtering,
SetLevel / GetLevel, SetConfig).

(S) TransportCfg.tla: Apply as a field-wise merge (laws checked by TLC), Addr / ScanAddr as text built and split at the
    last colon, over small value sets; LogLevel.tla: a message of level m is written iff m <= the level set last, loggers
    made before / after, the configuration swap (old loggers keep the old level, SetLevel / GetLevel / NewLogger go to the
    new functions).  One behaviour per edge of each state graph.
(B) spec -> code: transport behaviours replayed on real configs (every accessor compared after every step, one real
    listener on 127.0.0.1:0); logging behaviours replayed on the real package with the standard logger's output captured
    through os.Stdout; behaviours with SetConfig (irreversible, process-wide) run in a child process each.
"""
import json
import vcheck
from vcheck import Check, parallel, q


def sset(xs):
    return [q(x) for x in xs]


def run(tier):
    c = Check("X11", tier)
    c.build()
    tconsts = {"Nets": sset(["", "tcp", "unix"]), "Addrs": sset(["", "h.example", "127.0.0.1", "::1"]),
               "Ports": [0, 1, 80, 50051] + ([] if c.quick() else [65535]),
               "ScanAddrs": sset(["", "h", "1.2.3.4", "::1", "a:b", "[::1]", "h.example"]),
               "PortTexts": sset(["0", "80", "080", "65535", "-1", "2147483647", "", "x", "8x", "2147483648", " 80", "0x10", "8.0"])}
    lconsts = {"Levels": [0, 1, 2, 3, 4], "MsgLevels": [0, 1, 2, 3, 4], "MaxLoggers": 2, "Swap": False}
    sconsts = {"Levels": [1, 3] if c.quick() else [0, 2, 4], "MsgLevels": [0, 2, 4] if c.quick() else [0, 1, 2, 3, 4], "MaxLoggers": 2, "Swap": True}

    def transport():
        cfg = c.write_cfg("extras", "TransportCfg", constants=tconsts, invariants=["ApplyLaws"], view="View", action_constraints=["Emit"])
        emit = c.path("emit", "transport.ndjson")
        c.tlc("extras", "TransportCfg", cfg, emit=emit, workers=4, label="TransportCfg", timeout=1500)
        return emit

    def logging(name, consts):
        cfg = c.write_cfg("extras", "LogLevel_" + name, constants=consts, properties=["StdFrozen"], view="View", action_constraints=["Emit"])
        emit = c.path("emit", "logging-%s.ndjson" % name)
        c.tlc("extras", "LogLevel", cfg, emit=emit, workers=4, label="LogLevel-" + name, timeout=1500)
        return emit

    et, el, es = parallel([transport, lambda: logging("std", lconsts), lambda: logging("swap", sconsts)])
    c.replay("x-transport", et, workers=8)
    c.replay("x-logging", el, workers=2)
    # only the behaviours that really swap need a process of their own; the others were covered by the run above
    swap = c.path("emit", "logging-swaponly.ndjson")
    with open(swap, "w") as out:
        for l in open(es):
            if "SetConfig" in l:
                out.write(l)
    c.replay("x-logging", swap, workers=8)
    c.exhaustive = True
    if not c.quick():
        res = {"ran": True}
        for l in open(et):
            b = json.loads(json.loads(l)) if l.startswith('"') else json.loads(l)
            if b[-1].get("op") == "Apply" and b[-1]["port"] != b[-2]["port"]:
                b[-1]["port"] = b[-2]["port"]
                b[-1]["addrstr"] = b[-2]["addrstr"]
                p = c.path("emit", "transport-corrupt.ndjson")
                open(p, "w").write(json.dumps(b) + "\n")
                out = c.path("emit", "transport-corrupt.json")
                c.run_vh(["replay", "x-transport", "-in", p, "-out", out])
                res["transport_detected"] = json.load(open(out))["n_failures"] == 1
                break
        for l in open(swap):
            b = json.loads(json.loads(l)) if l.startswith('"') else json.loads(l)
            if b[-1].get("op") == "Log" and b[-1]["by"] == "std" and not b[-1]["emitted"]:
                b[-1]["emitted"] = True
                p = c.path("emit", "logging-corrupt.ndjson")
                open(p, "w").write(json.dumps(b) + "\n")
                out = c.path("emit", "logging-corrupt.json")
                c.run_vh(["replay", "x-logging", "-in", p, "-out", out])
                res["logging_detected"] = json.load(open(out))["n_failures"] == 1
                break
        c.selftest = res
        if not (res.get("transport_detected") and res.get("logging_detected")):
            raise vcheck.Broken("selftest: a corrupted behaviour passed the replay: %s" % res)
    c.assumptions.append("not specified: Apply with a negative Port in `other`; what ScanAddr returns together with an error; the log "
                         "level in force before the first SetLevel; levels outside ERROR..TRACE; the exact layout of a log line")
    return c.finish(rule="one behaviour per edge of TransportCfg (configs over %s x %s x %s from the default and the zero config; ScanAddr on "
                         "7 address texts x 13 port texts) and of LogLevel (2 loggers, 5 levels, with and without SetConfig)"
                         % (tconsts["Nets"], tconsts["Addrs"], tconsts["Ports"]))
