"""Shared by c15.py and c16.py: the TLC runs over spec/xbinary and the replay of what they emit."""
import json
import vcheck
from vcheck import Subst, parallel

COMP = "xbinary"
CLASSES = [0, 1, 127, 128, 129, 255]          # 00 01 7f 80 81 ff
ENC_INVARIANTS = ["ItemsOK", "SizeOK", "ImplOK", "RoundTrip"]
DEC_INVARIANTS = ["Incremental", "TotalOK", "DictatedOK", "OnlyNonCanonicalOpen", "StringAsBytes"]


def guarded(f):
    """Anything unexpected in the check script itself is broken machinery (exit 2), never exit 1."""
    import subprocess
    import traceback
    try:
        return f()
    except (vcheck.Broken, subprocess.TimeoutExpired):
        raise
    except Exception:
        raise vcheck.Broken("check script error:\n" + traceback.format_exc())


def enc_run(c, label, universe, max_items=1, lens=(), full=(), strlens=(), timeout=900):
    """One WireEnc run: model check the format theorems on the universe and emit one line per case."""
    cfg = c.write_cfg(COMP, "WireEnc_" + label,
                      constants={"Universe": Subst(universe), "MaxItems": max_items, "Lens": list(lens),
                                 "FullLens": list(full), "StrLens": list(strlens)},
                      invariants=ENC_INVARIANTS, view="View", action_constraints=["Emit"])
    emit = c.path("emit", "enc-%s.ndjson" % label)
    c.tlc(COMP, "WireEnc", cfg, emit=emit, workers=3, label="WireEnc-" + label, timeout=timeout)
    return emit


def small_run(c, rows, timeout=900):
    cfg = c.write_cfg(COMP, "WireSmall", constants={"Rows": list(rows)}, invariants=["RowOK"],
                      view="View", action_constraints=["Emit"])
    emit = c.path("emit", "small.ndjson")
    c.tlc(COMP, "WireSmall", cfg, emit=emit, workers=4, label="WireSmall", timeout=timeout)
    return emit


def dec_run(c, label, maxlen, first, structured, big=False, timeout=900):
    """One WireDec run: all inputs over the byte classes up to maxlen that start with a byte of `first`
    (+ the structured adversarial inputs), the totality / dictated-reply invariants, one line per input."""
    cfg = c.write_cfg(COMP, "WireDec_" + label,
                      constants={"Classes": CLASSES, "MaxLen": maxlen, "First": list(first),
                                 "Structured": structured, "BigBodies": big},
                      invariants=DEC_INVARIANTS, view="View", action_constraints=["Emit"])
    emit = c.path("emit", "dec-%s.ndjson" % label)
    # the 16 KiB inputs are ~60 kB lines: a single worker, so that appended lines cannot interleave
    c.tlc(COMP, "WireDec", cfg, emit=emit, workers=1 if big else 3, label="WireDec-" + label, timeout=timeout)
    return emit


def dec_runs(c, maxlen, groups, big=False):
    """The decoder input space split over several TLC processes (emission is the bottleneck)."""
    thunks = [lambda: dec_run(c, "structured", 0, [], True, big)]
    for i, g in enumerate(groups):
        thunks.append(lambda i=i, g=g: dec_run(c, "len%d-g%d" % (maxlen, i), maxlen, g, False))
    return thunks


def validate(c, trace, strict, what, label=None):
    """TLC decides whether the recorded trace is a behaviour of WireTrace; on rejection report the event."""
    cfg = c.write_cfg(COMP, "WireTrace_" + ("strict" if strict else "total"),
                      constants={"Strict": strict}, postcondition="Accepted")
    ok, at, res = c.validate_trace(COMP, "WireTrace", cfg, trace, timeout=1200, label=label)
    return ok, at


def describe(line):
    try:
        e = json.loads(line)
    except Exception:
        return "?"
    if e.get("op") == "Big":
        return "long byte string (len %s, string=%s): psize=%s n=%s nw=%s consumed=%s rt=%s shortfails=%s shift=%s" % tuple(
            e.get(k) for k in ("len", "string", "psize", "n", "nw", "consumed", "rt", "shortfails", "shift"))
    if e.get("op") == "Bulk" and e.get("what"):
        return "%s: %s of %s replies wrong%s" % (e["what"], e.get("bad"), e.get("n"), " (panic)" if e.get("panic") else "")
    if e.get("op") == "Bulk":
        return "bulk decode of distinct short values: %s of %s came back as another value%s" % (
            e.get("bad"), e.get("n"), " (panic)" if e.get("panic") else "")
    op = {"W": "write", "R": "read from stream", "M": "Marshal", "D": "Unmarshal"}.get(e.get("op"), e.get("op"))
    extra = ""
    if e.get("panic"):
        extra = " panicked"
    if e.get("over"):
        extra += " read memory outside the input"
    return "%s %s%s" % (op, e.get("kind"), extra)


def corrupt_emitted(src, dst, mutate):
    """Copy an emitted file, applying mutate(record) to the first record it accepts (returns True)."""
    done = False
    with open(dst, "w") as out:
        for line in open(src):
            line = line.strip()
            if not line:
                continue
            b = json.loads(json.loads(line)) if line.startswith('"') else json.loads(line)
            if not done:
                for rec in b:
                    if mutate(rec):
                        done = True
                        break
            out.write(json.dumps(b) + "\n")
    return done


def replay_raw(c, emitted, prop):
    """vh replay without touching the check's counters (self-test)."""
    out = c.path("selftest", "replay-%s.json" % prop)
    c.run_vh(["replay", COMP, "-in", emitted, "-out", out, "-workers", vcheck.NCPU, "-x", "prop=" + prop])
    return json.load(open(out))
