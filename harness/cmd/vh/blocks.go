package main

// C17: container/bytes.Blocks (block allocator) against spec/blocks/BlockAlloc.tla,
// Geometry.tla (contract) and BlocksImpl.tla (implementation-shaped, drift only).
//
// The adapter never assumes the layout of the buffer: where a block lives is
// learned from the slice Block(i) returns (its address inside the underlying
// bytes), and "bookkeeping bytes" are simply the bytes ArrangeBlock / FreeBlock
// change.  The verdict rules are those of the contract:
//   - the reply of every call must be allowed by BlockAlloc!Allowed in the
//     adapter's own contract state `alloc` (which index ArrangeBlock picks is open);
//   - after EVERY call a copy of the bytes is opened with a second NewBlocks and
//     must show the same Count, Available and allocation set (probed by FreeBlock);
//   - every allocated block is filled with a pattern containing 0xFF bytes; bytes
//     of blocks are never changed by the allocator, bytes outside a block never by
//     writing the block, block ranges are pairwise disjoint and inside the buffer;
//   - NewBlocks returns ErrInvalid exactly for the geometries Geometry!Valid rejects
//     and never panics.
// A reply that differs from BlocksImpl's prediction but is allowed by the contract
// (a different free index) is reported as Kind "drift".

import (
	"encoding/json"
	"errors"
	"fmt"
	"math/rand"
	"os"
	"path/filepath"
	"sort"
	"strings"
	"runtime"
	"sync"
	"sync/atomic"
	"syscall"
	"time"
	"unsafe"

	gbytes "github.com/acquirecloud/golibs/container/bytes"
	gerrors "github.com/acquirecloud/golibs/errors"
	"github.com/acquirecloud/golibs/files"
)

func init() {
	replayers["blocks"] = replayBlocks
	drivers["blocks"] = driveBlocks
}

// ---------------------------------------------------------------- backings

// blkBacking is the storage under an allocator: the Buffer handed to NewBlocks,
// a live view of all its bytes, and a copy "as somebody else opening the same
// bytes would see them".
type blkBacking interface {
	buffer() gbytes.Buffer
	raw() []byte
	snapshot() ([]byte, error)
	// reopen makes the bytes available again after the allocator's Close (memory
	// mapped file: close + re-map; in memory: the same buffer, never closed)
	reopen() error
	closeRemove()
	kind() string
}

type inmemBacking struct {
	b gbytes.Buffer
	n int64
}

func newInmemBacking(size int64) *inmemBacking {
	return &inmemBacking{b: gbytes.NewInMemBytes(int(size)), n: size}
}
func (m *inmemBacking) buffer() gbytes.Buffer { return m.b }
func (m *inmemBacking) raw() []byte {
	if m.n == 0 {
		return nil
	}
	r, err := m.b.Buffer(0, int(m.n))
	if err != nil {
		return nil
	}
	return r
}
func (m *inmemBacking) snapshot() ([]byte, error) {
	r := m.raw()
	c := make([]byte, len(r))
	copy(c, r)
	return c, nil
}
func (m *inmemBacking) reopen() error { return nil }
func (m *inmemBacking) closeRemove()  {}
func (m *inmemBacking) kind() string  { return "inmem" }

// anonBacking: anonymous private mapping, used instead of NewInMemBytes for the
// geometry cases with buffers above 64 MiB (up to 1 GiB): pages that are never
// touched cost nothing.  Same Buffer semantics as the in-memory buffer.
type anonBuf struct{ mem []byte }

func (a *anonBuf) Close() error { return nil }
func (a *anonBuf) Size() int64  { return int64(len(a.mem)) }
func (a *anonBuf) Grow(newSize int64) error {
	return fmt.Errorf("anonBuf: Grow not supported: %w", gerrors.ErrInvalid)
}
func (a *anonBuf) Buffer(offs int64, size int) ([]byte, error) {
	if offs < 0 || offs >= a.Size() {
		return nil, fmt.Errorf("anonBuf: offs=%d out of [0..%d): %w", offs, a.Size(), gerrors.ErrInvalid)
	}
	if offs+int64(size) > a.Size() {
		size = int(a.Size() - offs)
	}
	return a.mem[offs : offs+int64(size)], nil
}

type anonBacking struct{ b *anonBuf }

func newAnonBacking(size int64) (*anonBacking, error) {
	mem, err := syscall.Mmap(-1, 0, int(size), syscall.PROT_READ|syscall.PROT_WRITE, syscall.MAP_ANON|syscall.MAP_PRIVATE|syscall.MAP_NORESERVE)
	if err != nil {
		return nil, err
	}
	return &anonBacking{b: &anonBuf{mem: mem}}, nil
}
func (m *anonBacking) buffer() gbytes.Buffer { return m.b }
func (m *anonBacking) raw() []byte           { return m.b.mem }
func (m *anonBacking) snapshot() ([]byte, error) {
	c := make([]byte, len(m.b.mem))
	copy(c, m.b.mem)
	return c, nil
}
func (m *anonBacking) reopen() error { return nil }
func (m *anonBacking) closeRemove() {
	if m.b.mem != nil {
		syscall.Munmap(m.b.mem)
		m.b.mem = nil
	}
}
func (m *anonBacking) kind() string { return "anon" }

// limitBuf presents the first n bytes of a Buffer (memory mapped files have sizes
// that are multiples of 4096; the tiny exhaustive geometries need 9..70 bytes).
type limitBuf struct {
	under gbytes.Buffer
	n     int64
}

func (l *limitBuf) Close() error { return l.under.Close() }
func (l *limitBuf) Grow(newSize int64) error {
	return fmt.Errorf("limitBuf: Grow not supported: %w", gerrors.ErrInvalid)
}
func (l *limitBuf) Size() int64 { return l.n }
func (l *limitBuf) Buffer(offs int64, size int) ([]byte, error) {
	if offs < 0 || offs >= l.n {
		return nil, fmt.Errorf("limitBuf: offs=%d out of [0..%d): %w", offs, l.n, gerrors.ErrInvalid)
	}
	if offs+int64(size) > l.n {
		size = int(l.n - offs)
	}
	return l.under.Buffer(offs, size)
}

// mmBacking: a files.MMFile in a temp dir; n bytes of it are given to the allocator.
type mmBacking struct {
	dir, path string
	mf        *files.MMFile
	n         int64 // bytes visible to the allocator
	fsize     int64 // mapped size (multiple of files.BlockSize)
}

func newMMBacking(n int64) (*mmBacking, error) {
	// below the working directory: `bin/check` runs vh inside its scratch directory,
	// which it removes on exit even when vh is killed
	dir, err := os.MkdirTemp(".", "vh-blocks-")
	if err != nil {
		dir, err = os.MkdirTemp("", "vh-blocks-")
	}
	if err != nil {
		return nil, err
	}
	fs := (n + files.BlockSize - 1) / files.BlockSize * files.BlockSize
	if fs == 0 {
		fs = files.BlockSize
	}
	m := &mmBacking{dir: dir, path: filepath.Join(dir, "blocks.dat"), n: n, fsize: fs}
	m.mf, err = files.NewMMFile(m.path, fs)
	if err != nil {
		os.RemoveAll(dir)
		return nil, err
	}
	return m, nil
}
func (m *mmBacking) buffer() gbytes.Buffer {
	if m.n == m.fsize {
		return m.mf
	}
	return &limitBuf{under: m.mf, n: m.n}
}
func (m *mmBacking) raw() []byte {
	r, err := m.mf.Buffer(0, int(m.fsize))
	if err != nil {
		return nil
	}
	return r[:m.n]
}

// snapshot reads the FILE (not the mapping): the allocation state must be in it.
func (m *mmBacking) snapshot() ([]byte, error) {
	f, err := os.Open(m.path)
	if err != nil {
		return nil, err
	}
	defer f.Close()
	c := make([]byte, m.n)
	k, err := f.ReadAt(c, 0)
	if int64(k) != m.n {
		return nil, fmt.Errorf("short read of %s: %d of %d: %v", m.path, k, m.n, err)
	}
	return c, nil
}

// reopen: the allocator's Close() has closed the mapping; map the file again
// with the size found on disk.
func (m *mmBacking) reopen() error {
	m.mf.Close() // idempotent
	mf, err := files.NewMMFile(m.path, -1)
	if err != nil {
		return err
	}
	if mf.Size() != m.fsize {
		return fmt.Errorf("re-mapped file has size %d, expected %d", mf.Size(), m.fsize)
	}
	m.mf = mf
	return nil
}
func (m *mmBacking) closeRemove() {
	if m.mf != nil {
		m.mf.Close()
	}
	os.RemoveAll(m.dir)
}
func (m *mmBacking) kind() string { return "mm" }

// ---------------------------------------------------------------- environment

// blkLogIdx: TLC's integers have 32 bits; an index beyond them is logged as the largest one (as far outside 0..Count-1)
func blkLogIdx(i int) int {
	if i > 1<<31-1 {
		return 1<<31 - 1
	}
	if i < -(1<<31 - 1) {
		return -(1<<31 - 1)
	}
	return i
}

// blkFarIndexes: indexes near the top of the int range for which offset arithmetic of the usual kinds wraps round to a
// small number: (i + i/B + 1) * bs, (i + 1) * bs, i * bs and i * 8 with B = 8*bs blocks per segment, for targets within the
// first few segments.  All of them lie far outside 0..Count-1: ErrInvalid, and nothing changes.
var blkFarCache = map[int][]int{}

func blkFarIndexes(bs int) []int {
	if v, ok := blkFarCache[bs]; ok {
		return v
	}
	var res []int
	add := func(i uint64) {
		if i > 1<<31 && i < 1<<63 {
			res = append(res, int(i))
		}
	}
	B := uint64(8 * bs)
	k := 0
	for 1<<uint(k) < bs {
		k++
	}
	if bs > 1 && 1<<uint(k) == bs {
		for t := uint64(1); t < uint64(bs) && t <= 8; t++ {
			for _, r := range []uint64{0, 1, 2, 3, B, B + 1, B + 2, 2*B + 2} {
				y := t<<(64-uint(k)) + r // y * bs == r * bs (mod 2^64)
				// plain products: (i+1)*bs, i*bs
				add(y - 1)
				add(y)
				// (i + i/B + 1) == y
				q, j := (y-1)/(B+1), (y-1)%(B+1)
				if j < B {
					add(q*B + j)
				}
			}
		}
	}
	for _, d := range []uint64{1, 2, 3, 4, 8, 16, 17} { // and simply the top of the range and its fractions
		for _, o := range []uint64{0, 1, 2} {
			add(1<<63/d - o)
			add(1<<63/d*uint64(d-1)/d + o)
		}
	}
	blkFarCache[bs] = res
	return res
}

func blkErrKind(err error) string {
	switch {
	case err == nil:
		return "nil"
	case errors.Is(err, gerrors.ErrExhausted):
		return "exhausted"
	case errors.Is(err, gerrors.ErrNotExist):
		return "notexist"
	case errors.Is(err, gerrors.ErrInvalid):
		return "invalid"
	}
	return "other:" + firstLine(err.Error())
}

type blkNote struct {
	Sig  string `json:"sig"`
	Got  any    `json:"got,omitempty"`
	Want any    `json:"want,omitempty"`
	Cfg  string `json:"cfg,omitempty"`
	Step int    `json:"step"`
}

// blkEnv is one real allocator together with the adapter's contract state.
type blkEnv struct {
	probes int
	bs     int
	size   int64
	fit    bool
	back   blkBacking
	b      *gbytes.Blocks
	cfg    string

	cnt    int
	alloc  []bool // contract state
	nalloc int
	gen    []int // pattern generation per block

	rng    []int64 // offset of block i inside raw(), learned from Block(i)
	sorted []int   // block indices ordered by offset
	shadow []byte  // the bytes as the adapter last saw / wrote them
	light  bool    // big buffer: no shadow, snapshots only on demand

	step  int
	bad   int // byte-level problems since the last takeBad()
	notes []blkNote
	// dead: a library call panicked.  The allocator may still hold its mutex, so
	// no further call is made on it (it could block forever).
	dead bool
}

func (e *blkEnv) note(sig string, got, want any) {
	e.bad++
	if len(e.notes) < 20 {
		e.notes = append(e.notes, blkNote{Sig: sig, Got: got, Want: want, Cfg: e.cfg, Step: e.step})
	}
}
func (e *blkEnv) takeBad() int { b := e.bad; e.bad = 0; return b }
func (e *blkEnv) failure() *Failure {
	if len(e.notes) == 0 {
		return nil
	}
	n := e.notes[0]
	return &Failure{Step: n.Step, Sig: n.Sig, Got: n.Got, Want: n.Want}
}

const blkLightLimit = 1 << 20 // buffers above 1 MiB are not diffed / copied after every call

const blkAnonLimit = 64 << 20 // in-memory geometry cases above 64 MiB use an anonymous mapping

// blkOpen calls NewBlocks on a zeroed buffer of the given kind.  It returns the
// error kind of the constructor ("nil", "invalid", "panic", "other:..").
func blkOpen(bs int, size int64, fit bool, kind string) (*blkEnv, string) {
	e := &blkEnv{bs: bs, size: size, fit: fit, light: size > blkLightLimit}
	e.cfg = fmt.Sprintf("%s bs=%d size=%d fit=%v", kind, bs, size, fit)
	if kind == "mm" {
		m, err := newMMBacking(size)
		if err != nil {
			return nil, "harness:" + err.Error()
		}
		e.back = m
	} else if kind == "auto" && size > blkAnonLimit {
		m, err := newAnonBacking(size)
		if err != nil {
			return nil, "harness:" + err.Error()
		}
		e.back = m
	} else {
		e.back = newInmemBacking(size)
	}
	k := e.construct()
	if k != "nil" {
		e.back.closeRemove()
		return nil, k
	}
	e.cnt = e.b.Count()
	if e.cnt < 0 || e.cnt > 1<<22 {
		e.note("blocks: Count() of a fresh allocator is absurd", e.cnt, nil)
		e.cnt = 0
	}
	e.alloc = make([]bool, e.cnt)
	e.gen = make([]int, e.cnt)
	if !e.light {
		e.shadow, _ = e.back.snapshot()
	}
	e.learnLayout()
	return e, "nil"
}

func (e *blkEnv) construct() string {
	var b *gbytes.Blocks
	var err error
	p, pv := callPanics(func() { b, err = gbytes.NewBlocks(e.bs, e.back.buffer(), e.fit) })
	if p {
		return "panic:" + firstLine(fmt.Sprint(pv))
	}
	if err != nil {
		return blkErrKind(err)
	}
	if b == nil {
		return "other:nil allocator without error"
	}
	e.b = b
	return "nil"
}

func offsetIn(raw, blk []byte) int64 {
	if len(raw) == 0 || len(blk) == 0 {
		return -1
	}
	d := int64(uintptr(unsafe.Pointer(&blk[0]))) - int64(uintptr(unsafe.Pointer(&raw[0])))
	if d < 0 || d >= int64(len(raw)) {
		return -1
	}
	return d
}

// learnLayout asks Block(i) for every index, records where the returned slice
// lies in the buffer, and checks: length = block size, inside the buffer,
// pairwise disjoint.
func (e *blkEnv) learnLayout() {
	raw := e.back.raw()
	e.rng = make([]int64, e.cnt)
	e.sorted = make([]int, e.cnt)
	for i := 0; i < e.cnt; i++ {
		e.sorted[i] = i
		var blk []byte
		var err error
		p, pv := callPanics(func() { blk, err = e.b.Block(i) })
		switch {
		case p:
			e.note("blocks: Block panicked", fmt.Sprint(pv), nil)
			e.rng[i] = -1
			e.dead = true
		case err != nil:
			e.note("blocks: Block failed for an index in range", map[string]any{"i": i, "err": err.Error()}, nil)
			e.rng[i] = -1
		case len(blk) != e.bs:
			e.note("blocks: Block returned a slice whose length is not the block size", map[string]any{"i": i, "len": len(blk)}, e.bs)
			e.rng[i] = -1
		default:
			e.rng[i] = offsetIn(raw, blk)
			if e.rng[i] < 0 || e.rng[i]+int64(e.bs) > e.size {
				e.note("blocks: Block returned bytes outside the buffer", map[string]any{"i": i, "off": e.rng[i]}, nil)
				e.rng[i] = -1
			}
		}
	}
	sort.Slice(e.sorted, func(a, b int) bool { return e.rng[e.sorted[a]] < e.rng[e.sorted[b]] })
	for k := 1; k < e.cnt; k++ {
		a, b := e.sorted[k-1], e.sorted[k]
		if e.rng[a] >= 0 && e.rng[a]+int64(e.bs) > e.rng[b] {
			e.note("blocks: byte ranges of two blocks overlap", map[string]any{"i": a, "j": b, "off_i": e.rng[a], "off_j": e.rng[b]}, nil)
			break
		}
	}
}

// owner returns the block whose range contains byte position p, or -1.
func (e *blkEnv) owner(p int64) int {
	k := sort.Search(e.cnt, func(k int) bool { return e.rng[e.sorted[k]] > p }) - 1
	if k < 0 {
		return -1
	}
	i := e.sorted[k]
	if e.rng[i] >= 0 && p < e.rng[i]+int64(e.bs) {
		return i
	}
	return -1
}

// diffAllocator compares the bytes with the shadow after an allocator call:
// whatever the allocator changed is bookkeeping and must not lie inside a block
// the user holds across the call (allocated before and after it).  The block
// handed out or released by this very call (own) may be touched: an allocator
// that clears a block when arranging or freeing it breaks nothing.
func (e *blkEnv) diffAllocator(op string, own int) {
	if e.light {
		return
	}
	raw := e.back.raw()
	if len(raw) != len(e.shadow) {
		e.note("blocks: buffer size changed", len(raw), len(e.shadow))
		return
	}
	if string(raw) == string(e.shadow) {
		return
	}
	noted := false
	for p := range raw {
		if raw[p] != e.shadow[p] {
			if o := e.owner(int64(p)); o >= 0 && o != own && e.alloc[o] && !noted {
				e.note("blocks: the allocator changed a byte inside an allocated block (block overlaps the bookkeeping area)",
					map[string]any{"op": op, "pos": p, "block": o, "was": e.shadow[p], "is": raw[p]}, nil)
				noted = true
			}
			e.shadow[p] = raw[p]
		}
	}
}

func blkPattern(i, gen, j int) byte {
	if (j+gen)%2 == 0 {
		return 0xFF
	}
	return byte(i*131 + j*7 + gen*29 + 1)
}

// fill writes block i's own pattern through the slice Block(i) returns and
// checks that exactly the bytes of its range changed.
func (e *blkEnv) fill(i int) {
	var blk []byte
	var err error
	p, pv := callPanics(func() { blk, err = e.b.Block(i) })
	if p || err != nil || len(blk) != e.bs {
		e.note("blocks: Block failed for an allocated index", map[string]any{"i": i, "panic": fmt.Sprint(pv), "err": fmt.Sprint(err), "len": len(blk)}, nil)
		e.dead = e.dead || p
		return
	}
	e.gen[i]++
	for j := range blk {
		blk[j] = blkPattern(i, e.gen[i], j)
	}
	raw := e.back.raw()
	if off := offsetIn(raw, blk); off != e.rng[i] {
		e.note("blocks: Block(i) moved: different byte range than at open", map[string]any{"i": i, "off": off}, e.rng[i])
	}
	if e.light {
		return
	}
	if e.rng[i] >= 0 {
		for j := 0; j < e.bs; j++ {
			e.shadow[e.rng[i]+int64(j)] = blkPattern(i, e.gen[i], j)
		}
	}
	if string(raw) != string(e.shadow) {
		for p := range raw {
			if raw[p] != e.shadow[p] {
				e.note("blocks: writing a block changed bytes outside its range", map[string]any{"i": i, "pos": p}, nil)
				break
			}
		}
		copy(e.shadow, raw)
	}
}

// verifyPatterns (light mode): allocated blocks still hold their pattern.
func (e *blkEnv) verifyPatterns() {
	if e.dead {
		return
	}
	for i := 0; i < e.cnt; i++ {
		if !e.alloc[i] || e.gen[i] == 0 {
			continue
		}
		blk, err := e.b.Block(i)
		if err != nil || len(blk) != e.bs {
			e.note("blocks: Block failed for an allocated index", map[string]any{"i": i}, nil)
			return
		}
		for j := range blk {
			if blk[j] != blkPattern(i, e.gen[i], j) {
				e.note("blocks: content of an allocated block was changed by the allocator", map[string]any{"i": i, "byte": j}, nil)
				return
			}
		}
	}
}

type blkSnap struct {
	avail int
	set   []int
	ok    bool
}

// snapshotCheck opens a second allocator on a copy of the bytes and compares its
// Count, Available and allocation set (probed with FreeBlock) with the contract state.
func (e *blkEnv) snapshotCheck(after string) blkSnap {
	res := blkSnap{}
	snap, err := e.back.snapshot()
	if err != nil {
		e.note("harness: snapshot failed", err.Error(), nil)
		return res
	}
	cp := gbytes.NewInMemBytes(len(snap))
	if len(snap) > 0 {
		dst, _ := cp.Buffer(0, len(snap))
		copy(dst, snap)
	}
	var b2 *gbytes.Blocks
	p, pv := callPanics(func() { b2, err = gbytes.NewBlocks(e.bs, cp, e.fit) })
	if p || err != nil || b2 == nil {
		e.note("blocks: reopening a copy of the bytes failed", map[string]any{"after": after, "panic": fmt.Sprint(pv), "err": fmt.Sprint(err)}, nil)
		return res
	}
	res.ok = true
	res.avail = b2.Available()
	e.fillProbe(snap, after)
	if b2.Count() != e.cnt {
		e.note("blocks: reopened copy reports a different Count", b2.Count(), e.cnt)
	}
	if res.avail != e.cnt-e.nalloc {
		e.note("blocks: reopened copy: Available differs from Count minus allocated blocks",
			map[string]any{"after": after, "available": res.avail}, e.cnt-e.nalloc)
	}
	mism := -1
	for i := 0; i < e.cnt; i++ {
		var fe error
		if p, _ := callPanics(func() { fe = b2.FreeBlock(i) }); p {
			e.note("blocks: FreeBlock panicked on the reopened copy", i, nil)
			return res
		}
		switch blkErrKind(fe) {
		case "nil":
			res.set = append(res.set, i)
			if !e.alloc[i] && mism < 0 {
				mism = i
			}
		case "notexist":
			if e.alloc[i] && mism < 0 {
				mism = i
			}
		default:
			if mism < 0 {
				mism = i
			}
		}
	}
	if mism >= 0 {
		e.note("blocks: reopened copy: allocation set differs from the blocks handed out and not freed",
			map[string]any{"after": after, "first_differing_index": mism, "copy_says_allocated": res.set}, e.allocList())
	}
	if b2.Available() != e.cnt && mism < 0 {
		e.note("blocks: reopened copy: Available after freeing everything is not Count", b2.Available(), e.cnt)
	}
	return res
}

// fillProbe opens a third allocator on a copy of the bytes and USES it: it must hand out exactly the
// blocks that are free (each once, none that is allocated) and report ErrExhausted exactly then.  This
// observes state the reopened allocator derives from the bytes beyond Available (its scan position).
func (e *blkEnv) fillProbe(snap []byte, after string) {
	e.probes++
	if e.cnt > 4096 || e.cnt > 64 && e.probes%16 != 0 {
		return // large geometries: sampled
	}
	cp := gbytes.NewInMemBytes(len(snap))
	if len(snap) > 0 {
		dst, _ := cp.Buffer(0, len(snap))
		copy(dst, snap)
	}
	var b3 *gbytes.Blocks
	var err error
	if p, _ := callPanics(func() { b3, err = gbytes.NewBlocks(e.bs, cp, e.fit) }); p || err != nil || b3 == nil {
		return // already reported by the caller
	}
	free := e.cnt - e.nalloc
	seen := map[int]bool{}
	for k := 0; k <= free; k++ {
		var idx int
		var ae error
		if p, _ := callPanics(func() { idx, ae = b3.ArrangeBlock() }); p {
			e.note("blocks: ArrangeBlock panicked on a reopened copy", map[string]any{"after": after}, nil)
			return
		}
		if k == free {
			if blkErrKind(ae) != "exhausted" {
				e.note("blocks: reopened copy: ArrangeBlock succeeded although every block is allocated", map[string]any{"after": after, "idx": idx}, nil)
			}
			return
		}
		if ae != nil {
			e.note("blocks: reopened copy: ArrangeBlock reports "+blkErrKind(ae)+" although free blocks remain",
				map[string]any{"after": after, "handed_out": k}, free)
			return
		}
		if idx < 0 || idx >= e.cnt || e.alloc[idx] || seen[idx] {
			e.note("blocks: reopened copy: ArrangeBlock returned an index that is allocated or was just handed out", map[string]any{"after": after, "idx": idx}, nil)
			return
		}
		seen[idx] = true
	}
}

func (e *blkEnv) allocList() []int {
	l := []int{}
	for i, a := range e.alloc {
		if a {
			l = append(l, i)
		}
	}
	return l
}

// reopen replaces the live allocator by a new NewBlocks over the same bytes.
func (e *blkEnv) reopen() string {
	if e.back.kind() == "mm" {
		// Close the allocator (closes the mapping), map the file again
		if err := e.b.Close(); err != nil {
			e.note("blocks: Close failed", err.Error(), nil)
		}
		if err := e.back.reopen(); err != nil {
			e.note("harness: re-mapping failed", err.Error(), nil)
			return "harness"
		}
	}
	k := e.construct()
	if k != "nil" {
		e.note("blocks: NewBlocks on the same bytes failed", k, "nil")
	}
	return k
}

func (e *blkEnv) close() {
	if e.back.kind() == "mm" && e.b != nil {
		e.b.Close()
	}
	e.back.closeRemove()
}

// do performs one call on the real allocator and returns the reply in the
// shape of the specification; it judges the reply against the contract state
// and runs the byte-level and snapshot checks.  snapshot=false skips the
// reopen-a-copy step (light mode between sampling points).
func (e *blkEnv) do(s Step, snapshot bool) (Step, blkSnap) {
	e.step++
	op := s.Str("op")
	got := Step{"op": op}
	if e.dead {
		got["crash"] = "not called: an earlier call panicked"
		return got, blkSnap{}
	}
	var panicked bool
	var pv any
	switch op {
	case "Arrange":
		var idx int
		var err error
		panicked, pv = callPanics(func() { idx, err = e.b.ArrangeBlock() })
		if panicked {
			break
		}
		k := blkErrKind(err)
		got["err"] = k
		switch k {
		case "nil":
			got["idx"] = idx
			switch {
			case idx < 0 || idx >= e.cnt:
				e.note("blocks: ArrangeBlock returned an index outside 0..Count-1", idx, nil)
			case e.alloc[idx]:
				e.note("blocks: ArrangeBlock returned an index that is still allocated", idx, nil)
			default:
				e.alloc[idx] = true
				e.nalloc++
			}
		case "exhausted":
			if e.nalloc != e.cnt {
				e.note("blocks: ArrangeBlock returned ErrExhausted although a block is free", map[string]any{"allocated": e.nalloc}, e.cnt)
			}
		default:
			e.note("blocks: ArrangeBlock failed with an error other than ErrExhausted", k, nil)
		}
		own := -1
		if k == "nil" {
			own = idx
		}
		e.diffAllocator(op, own)
		if k == "nil" && idx >= 0 && idx < e.cnt {
			e.fill(idx)
		}
	case "Free":
		i := s.Int("i")
		got["i"] = blkLogIdx(i)
		var err error
		panicked, pv = callPanics(func() { err = e.b.FreeBlock(i) })
		if panicked {
			break
		}
		k := blkErrKind(err)
		got["err"] = k
		want := "invalid"
		if i >= 0 && i < e.cnt {
			want = "notexist"
			if e.alloc[i] {
				want = "nil"
			}
		}
		if k != want {
			e.note("blocks: FreeBlock reply differs from the contract (got "+blkShort(k)+", want "+want+")", map[string]any{"i": i, "err": k}, want)
		}
		if k == "nil" && i >= 0 && i < e.cnt && e.alloc[i] {
			e.alloc[i] = false
			e.nalloc--
		}
		e.diffAllocator(op, i)
	case "Avail":
		var k int
		panicked, pv = callPanics(func() { k = e.b.Available() })
		got["k"] = k
		if !panicked && k != e.cnt-e.nalloc {
			e.note("blocks: Available differs from Count minus allocated blocks", k, e.cnt-e.nalloc)
		}
	case "Count":
		var k int
		panicked, pv = callPanics(func() { k = e.b.Count() })
		got["k"] = k
		if !panicked && k != e.cnt {
			e.note("blocks: Count changed", k, e.cnt)
		}
	case "Block":
		i := s.Int("i")
		got["i"] = blkLogIdx(i)
		var blk []byte
		var err error
		panicked, pv = callPanics(func() { blk, err = e.b.Block(i) })
		if panicked {
			break
		}
		k := blkErrKind(err)
		got["err"] = k
		if i >= 0 && i < e.cnt {
			if k != "nil" {
				e.note("blocks: Block failed for an index in range", map[string]any{"i": i, "err": k}, "nil")
			} else if len(blk) != e.bs || offsetIn(e.back.raw(), blk) != e.rng[i] {
				e.note("blocks: Block(i) moved: different byte range than at open", map[string]any{"i": i, "len": len(blk)}, e.rng[i])
			}
		} else if k == "nil" {
			e.note("blocks: Block accepted an index outside 0..Count-1", map[string]any{"i": i, "len": len(blk)}, "error")
		}
	case "Reopen":
		k := e.reopen()
		if k == "nil" {
			got["k"] = e.b.Available()
			got["cnt"] = e.b.Count()
			if got["k"] != e.cnt-e.nalloc {
				e.note("blocks: reopened allocator: Available differs from Count minus allocated blocks", got["k"], e.cnt-e.nalloc)
			}
			if got["cnt"] != e.cnt {
				e.note("blocks: reopened allocator reports a different Count", got["cnt"], e.cnt)
			}
		}
		e.diffAllocator(op, -1)
	default:
		e.note("harness: unknown op "+op, nil, nil)
	}
	if panicked {
		got["crash"] = firstLine(fmt.Sprint(pv))
		e.note("blocks: "+op+" panicked", fmt.Sprint(pv), nil)
		e.dead = true
		return got, blkSnap{}
	}
	var sn blkSnap
	if snapshot {
		sn = e.snapshotCheck(op)
	}
	return got, sn
}

func blkShort(k string) string {
	if len(k) > 5 && k[:5] == "other" {
		return "other"
	}
	return k
}

// ---------------------------------------------------------------- replay

// replayBlocks runs one emitted behaviour.  b[0] is the New record (geometry and the
// constructor reply Geometry.tla prescribes); the remaining steps are calls with
// BlocksImpl's replies.  A behaviour consisting of the New record alone is a
// geometry case: an accepted geometry then gets a built-in exercise.
func replayBlocks(b Behaviour, opt *Options) *Failure {
	if len(b) == 0 || b[0].Str("op") != "New" {
		return &Failure{Step: 0, Sig: "harness: behaviour does not start with New"}
	}
	kind := "auto" // NewInMemBytes, or an anonymous mapping above 64 MiB
	if opt.Variant == "mm" || opt.Variant == "mmre" {
		kind = "mm"
	}
	n := b[0]
	bs, size, fit := n.Int("bs"), int64(n.Int("size")), n.Bool("fit")
	e, k := blkOpen(bs, size, fit, kind)
	want := n.Str("err")
	switch {
	case len(k) >= 5 && k[:5] == "panic":
		return &Failure{Step: 0, Sig: "blocks: NewBlocks panicked", Got: k, Want: n}
	case len(k) >= 7 && k[:7] == "harness":
		return &Failure{Step: 0, Sig: k}
	case want == "invalid" && k == "nil":
		e.close()
		return &Failure{Step: 0, Sig: "blocks: NewBlocks accepted a geometry that must be rejected with ErrInvalid", Got: k, Want: n}
	case want == "invalid" && k != "invalid":
		return &Failure{Step: 0, Sig: "blocks: NewBlocks rejected an invalid geometry with an error that is not ErrInvalid", Got: k, Want: n}
	case want == "nil" && k != "nil":
		return &Failure{Step: 0, Sig: "blocks: NewBlocks rejected a valid geometry", Got: k, Want: n}
	case want == "invalid":
		return nil
	}
	defer e.close()
	if e.b.Segments() != n.Int("segs") || e.cnt != n.Int("cnt") {
		return &Failure{Step: 0, Sig: "blocks: Segments/Count of the new allocator differ from the geometry",
			Got: map[string]int{"segs": e.b.Segments(), "cnt": e.cnt}, Want: n}
	}
	if a := e.b.Available(); a != e.cnt {
		return &Failure{Step: 0, Sig: "blocks: Available of a new allocator on zeroed bytes is not Count", Got: a, Want: e.cnt}
	}
	if f := e.failure(); f != nil {
		return f
	}
	if len(b) == 1 {
		blkExercise(e, rand.New(rand.NewSource(opt.Seed+int64(bs)*7919+size)))
		return e.failure()
	}
	remapEvery := opt.Variant == "mmre"
	var drift *Failure
	for i := 1; i < len(b); i++ {
		got, _ := e.do(b[i], true)
		if f := e.failure(); f != nil {
			f.Step = i
			return f
		}
		if drift == nil {
			if d := blkCompare(got, b[i]); d != "" {
				if d == "idx" {
					// allowed by the contract (judged above), not what BlocksImpl predicts
					drift = &Failure{Step: i, Kind: "drift", Sig: "blocks: ArrangeBlock picked a different free index than BlocksImpl predicts", Got: got, Want: b[i]}
				} else {
					return &Failure{Step: i, Sig: "blocks: " + b[i].Str("op") + " reply differs from the specification (" + d + ")", Got: got, Want: b[i]}
				}
			}
		}
		if remapEvery && b[i].Str("op") != "Reopen" {
			// close, re-map, compare: the reopened allocator must continue in the same state
			e.do(Step{"op": "Reopen"}, true)
			if f := e.failure(); f != nil {
				f.Step = i
				return f
			}
		}
	}
	return drift
}

// blkCompare returns the name of the first field in which the real reply differs
// from the prescribed one ("" if none).
func blkCompare(got, want Step) string {
	for _, k := range []string{"err", "i", "k", "cnt", "idx"} {
		w, ok := want[k]
		if !ok {
			continue
		}
		g := got[k]
		switch wv := w.(type) {
		case float64:
			gi, ok := g.(int)
			if !ok || gi != int(wv) {
				return k
			}
		case string:
			if g != wv {
				return k
			}
		}
	}
	return ""
}

// blkExercise is the built-in call sequence for accepted geometry cases: boundary
// arguments, a stretch of allocations across the first segment boundary where
// that is affordable, exhaustion on small geometries, frees, re-allocation.
func blkExercise(e *blkEnv, rnd *rand.Rand) {
	full := !e.light && e.cnt <= 600 // snapshot after every call
	step := func(s Step) Step {
		g, _ := e.do(s, full)
		return g
	}
	for _, i := range []int{-1, e.cnt, e.cnt + 1, -e.cnt} {
		step(Step{"op": "Free", "i": i})
		step(Step{"op": "Block", "i": i})
	}
	step(Step{"op": "Free", "i": 0})
	step(Step{"op": "Free", "i": e.cnt - 1})
	step(Step{"op": "Avail"})
	n := e.cnt
	exhaust := n <= 2100
	if !exhaust {
		n = 300
	}
	var held []int
	for k := 0; k < n; k++ {
		g := step(Step{"op": "Arrange"})
		if g["err"] == "nil" {
			held = append(held, g["idx"].(int))
		}
		if len(e.notes) > 0 {
			return
		}
	}
	if exhaust {
		step(Step{"op": "Arrange"}) // must be ErrExhausted
		step(Step{"op": "Avail"})
	}
	e.do(Step{"op": "Avail"}, !e.light || e.size <= blkAnonLimit)
	// free a random third, reopen, allocate again
	rnd.Shuffle(len(held), func(a, b int) { held[a], held[b] = held[b], held[a] })
	for k := 0; k < len(held)/3; k++ {
		step(Step{"op": "Free", "i": held[k]})
		if k%7 == 0 {
			step(Step{"op": "Free", "i": held[k]}) // double free
		}
	}
	step(Step{"op": "Reopen"})
	for k := 0; k < len(held)/3+1; k++ {
		step(Step{"op": "Arrange"})
		if len(e.notes) > 0 {
			return
		}
	}
	step(Step{"op": "Avail"})
	if e.light {
		e.verifyPatterns()
	}
	e.do(Step{"op": "Count"}, !e.light || e.size <= blkAnonLimit)
}

// ---------------------------------------------------------------- drivers

func driveBlocks(opt *Options) error {
	switch opt.Variant {
	case "probe":
		out, _ := json.Marshal(map[string]int{"page": os.Getpagesize(), "mmblock": files.BlockSize})
		return os.WriteFile(opt.Out, out, 0o644)
	case "conc":
		return driveBlocksConc(opt)
	}
	return driveBlocksSeq(opt)
}

type blkRunCfg struct {
	Kind  string `json:"kind"`
	Bs    int    `json:"bs"`
	Size  int64  `json:"size"`
	Fit   bool   `json:"fit"`
	Steps int    `json:"steps"`
	Every int    `json:"every"` // snapshot every n-th call (1 = all)
}

func segBytes(bs int) int64 { return int64(bs*8+1) * int64(bs) }

// driveBlocksSeq: long seeded random call sequences on realistic geometries,
// every call logged with its reply and with what a second allocator opened on a
// copy of the bytes reports (BlocksTrace.tla validates the file).  Problems the
// adapter sees itself are also written to <out>.notes.json.
func driveBlocksSeq(opt *Options) error {
	tw, err := NewTraceWriter(opt.Out)
	if err != nil {
		return err
	}
	defer tw.Close()
	rnd := rand.New(rand.NewSource(opt.Seed))
	page := os.Getpagesize()
	steps := 1500
	if s, ok := opt.Extra["steps"]; ok {
		fmt.Sscan(s, &steps)
	}
	big := opt.Extra["big"] != "0"
	if opt.Extra["only"] == "scenarios" {
		// the scenarios around the UNDERLYING buffer run in a process of their own: an allocator that keeps pointers into
		// memory which was re-mapped takes the whole process down (SIGSEGV is not a recoverable panic) - that death is
		// then the observation
		blkBufferScenarios(tw, rnd)
		if big {
			blkBulkOdd(tw, rnd, page)
		}
		return os.WriteFile(opt.Out+".notes.json", []byte(`{"notes": [], "runs": []}`), 0o644)
	}
	var cfgs []blkRunCfg
	for t := 0; t < opt.N; t++ {
		switch t % 6 {
		case 0:
			cfgs = append(cfgs, blkRunCfg{"inmem", 16, 3*segBytes(16) + int64(rnd.Intn(40)), false, steps, 1})
		case 1:
			cfgs = append(cfgs, blkRunCfg{"mm", 16, 2 * 4096, false, steps, 1}) // 3 segments + tail in 2 pages
		case 2:
			cfgs = append(cfgs, blkRunCfg{"inmem", 64, 2 * segBytes(64), true, 2 * steps, 1})
		case 3:
			sb := 1 << uint(rnd.Intn(4))
			cfgs = append(cfgs, blkRunCfg{"inmem", sb, int64(1+rnd.Intn(3))*segBytes(sb) + int64(rnd.Intn(sb+1)), false, steps, 1})
		case 4:
			cfgs = append(cfgs, blkRunCfg{"mm", 8, 4096, false, steps, 1}) // 7 segments
		case 5:
			if big {
				k := "inmem"
				if t%12 == 11 {
					k = "mm"
				}
				cfgs = append(cfgs, blkRunCfg{k, page, segBytes(page) + int64(page)*int64(rnd.Intn(3)), false, steps, 400})
			}
		}
	}
	// constructor refusals appear in the trace too (judged by Geometry!Valid)
	cfgs = append(cfgs,
		blkRunCfg{"inmem", 24, 5000, false, 0, 1},               // not a power of two
		blkRunCfg{"inmem", 16, segBytes(16) + 1, true, 0, 1},    // fit requested, one byte too many
		blkRunCfg{"inmem", 32, segBytes(32) - 1, false, 0, 1},   // less than one segment
		blkRunCfg{"inmem", page + page/2, 1 << 20, false, 0, 1}, // not a multiple of the page size
		blkRunCfg{"inmem", 4, segBytes(4) + 3, false, 40, 1})
	var notes []blkNote
	for _, c := range cfgs {
		notes = append(notes, blkRandomRun(tw, rnd, c, page)...)
	}
	if big {
		notes = append(notes, blkBulk(rnd, page)...)
	}
	out, _ := json.MarshalIndent(map[string]any{"notes": notes, "runs": cfgs}, "", " ")
	return os.WriteFile(opt.Out+".notes.json", out, 0o644)
}

func blkRandomRun(tw *TraceWriter, rnd *rand.Rand, c blkRunCfg, page int) []blkNote {
	e, k := blkOpen(c.Bs, c.Size, c.Fit, c.Kind)
	ev := map[string]any{"op": "New", "bs": c.Bs, "size": c.Size, "fit": c.Fit, "page": page, "err": blkShort(k), "buf": c.Kind,
		"segs": 0, "cnt": 0, "avail": 0}
	if e == nil {
		tw.Emit(ev)
		if k != "invalid" {
			return []blkNote{{Sig: "blocks: NewBlocks failed in the driver: " + blkShort(k), Got: k, Cfg: fmt.Sprint(c)}}
		}
		return nil
	}
	defer e.close()
	ev["segs"], ev["cnt"], ev["avail"] = e.b.Segments(), e.cnt, e.b.Available()
	tw.Emit(ev)
	B := c.Bs * 8
	up := true
	for i := 0; i < c.Steps; i++ {
		// phases: mostly allocate until exhausted, then mostly free until nearly empty
		if e.nalloc == e.cnt && rnd.Intn(3) == 0 {
			up = false
		} else if e.nalloc <= e.cnt/8 {
			up = true
		}
		if e.cnt > 4096 { // large geometry: stay low, no exhaustion phase
			up = e.nalloc < 600
		}
		pa := 30
		if up {
			pa = 65
		}
		var s Step
		switch r := rnd.Intn(100); {
		case r < pa:
			s = Step{"op": "Arrange"}
		case r < 88:
			var idx int
			switch q := rnd.Intn(100); {
			case q < 62 && e.nalloc > 0: // an allocated index
				idx = rnd.Intn(e.cnt)
				for !e.alloc[idx] {
					idx = (idx + 1) % e.cnt
				}
			case q < 80:
				idx = rnd.Intn(e.cnt)
			case q < 90:
				idx = []int{-1, e.cnt, e.cnt + 1, -e.cnt, 1 << 30}[rnd.Intn(5)]
				if far := blkFarIndexes(e.bs); rnd.Intn(2) == 0 && len(far) > 0 {
					idx = far[rnd.Intn(len(far))]
				}
			default:
				idx = []int{0, B - 1, B, e.cnt - 1, e.cnt - B, 7, 8}[rnd.Intn(7)]
			}
			s = Step{"op": "Free", "i": idx}
		case r < 92:
			s = Step{"op": "Avail"}
		case r < 94:
			s = Step{"op": "Count"}
		case r < 97:
			s = Step{"op": "Block", "i": []int{-1, 0, e.cnt - 1, e.cnt, rnd.Intn(e.cnt + 2)}[rnd.Intn(5)]}
			if far := blkFarIndexes(e.bs); rnd.Intn(3) == 0 && len(far) > 0 {
				s = Step{"op": "Block", "i": far[rnd.Intn(len(far))]}
			}
		default:
			s = Step{"op": "Reopen"}
		}
		snap := c.Every <= 1 || i%c.Every == c.Every-1 || i == c.Steps-1
		got, sn := e.do(s, snap)
		if snap {
			if e.light {
				e.verifyPatterns()
			}
			if sn.ok {
				got["savail"] = sn.avail
				got["sn"] = len(sn.set)
				if e.cnt <= 64 {
					if sn.set == nil {
						sn.set = []int{}
					}
					got["snap"] = sn.set
				}
			} else {
				got["savail"], got["sn"] = -1, -1
			}
		}
		got["bad"] = e.takeBad()
		tw.Emit(got)
		if e.dead {
			break
		}
	}
	return e.notes
}

// blkBulk: one page-sized geometry filled to exhaustion (32768 blocks), judged by
// the adapter's contract state only (too long for a TLC trace).
func blkBulk(rnd *rand.Rand, page int) []blkNote {
	e, k := blkOpen(page, segBytes(page)+int64(page), false, "inmem")
	if e == nil {
		return []blkNote{{Sig: "blocks: NewBlocks failed in the driver: " + blkShort(k), Got: k}}
	}
	defer e.close()
	e.cfg += " bulk"
	for i := 0; i < e.cnt && len(e.notes) == 0; i++ {
		e.do(Step{"op": "Arrange"}, false)
	}
	e.do(Step{"op": "Arrange"}, false) // exhausted
	e.do(Step{"op": "Avail"}, true)
	e.verifyPatterns()
	for i := 0; i < e.cnt && len(e.notes) == 0; i++ {
		if rnd.Intn(3) == 0 {
			e.do(Step{"op": "Free", "i": i}, false)
		}
	}
	e.do(Step{"op": "Reopen"}, false)
	free := e.cnt - e.nalloc
	for i := 0; i < free && len(e.notes) == 0; i++ {
		e.do(Step{"op": "Arrange"}, false)
	}
	e.do(Step{"op": "Arrange"}, true) // exhausted again
	e.verifyPatterns()
	return e.notes
}

// blkBulkOdd: a block size that is a multiple of the page size but NOT a power of two (3 pages), one segment of
// 24 * page + ... blocks in an anonymous mapping (1.2 GB of address space, only the header and a few block pages are
// touched), filled beyond 8 * page blocks - the first point where the bitmap of such a geometry is longer than a
// power-of-two bitmap would be.  One summary event; the contract is in BlocksTrace.tla (Scenario, op = "Bulk").
func blkBulkOdd(tw *TraceWriter, rnd *rand.Rand, page int) {
	bs := 3 * page
	ev := map[string]any{"op": "Bulk", "bs": bs, "n": 0, "count": -1, "dups": 0, "errs": 0, "avail": -1, "refree": 0,
		"freed": 0, "avail2": -1, "reopen_avail": -1, "mismatch": 0, "skipped": false}
	defer func() { tw.Emit(ev) }()
	m, err := newAnonBacking(segBytes(bs))
	if err != nil {
		ev["skipped"] = true // no address space for the mapping: nothing observed, nothing judged
		return
	}
	defer m.closeRemove()
	defer func() {
		if p := recover(); p != nil {
			ev["crash"] = firstLine(fmt.Sprint(p))
		}
	}()
	b, err := gbytes.NewBlocks(bs, m.buffer(), false)
	if err != nil {
		ev["crash"] = "NewBlocks: " + err.Error()
		return
	}
	cnt := b.Count()
	n := 8*page + 1000 + rnd.Intn(1000)
	alloc := make([]bool, cnt)
	dups, errs := 0, 0
	for k := 0; k < n; k++ {
		idx, err := b.ArrangeBlock()
		switch {
		case err != nil || idx < 0 || idx >= cnt:
			errs++
		case alloc[idx]:
			dups++
		default:
			alloc[idx] = true
			if k%64 == 0 || idx >= 8*page-2 && idx <= 8*page+2 {
				if blk, err := b.Block(idx); err == nil && len(blk) == bs {
					blk[0], blk[bs-1] = 0xA5, 0x5A
				} else {
					errs++
				}
			}
		}
	}
	ev["n"], ev["count"], ev["dups"], ev["errs"], ev["avail"] = n, cnt, dups, errs, b.Available()
	// release blocks on both sides of index 8 * page, each once; a second release must fail
	var frees []int
	for _, i := range []int{0, 1, 2, page, 8*page - 1, 8 * page, 8*page + 1, n - 1, n - 2} {
		frees = append(frees, i)
	}
	for k := 0; k < 60; k++ {
		frees = append(frees, rnd.Intn(n))
	}
	freed, refree := 0, 0
	for _, i := range frees {
		if i < 0 || i >= cnt || !alloc[i] {
			continue
		}
		if b.FreeBlock(i) == nil {
			freed++
			alloc[i] = false
			if b.FreeBlock(i) == nil {
				refree++
			}
		} else {
			errs++
		}
	}
	ev["errs"], ev["freed"], ev["refree"], ev["avail2"] = errs, freed, refree, b.Available()
	// a second allocator over the same bytes sees exactly the blocks still held
	b2, err := gbytes.NewBlocks(bs, m.buffer(), false)
	if err != nil {
		ev["crash"] = "NewBlocks (reopen): " + err.Error()
		return
	}
	ev["reopen_avail"] = b2.Available()
	mism := 0
	for i := 0; i < cnt && i < n+64; i++ {
		if (b2.FreeBlock(i) == nil) != alloc[i] {
			mism++
		}
	}
	ev["mismatch"] = mism
}

// ---------------------------------------------------------------- concurrent

type blkConcOp struct {
	ID   int    `json:"id"`
	G    int    `json:"g"`
	Inv  int64  `json:"-"`
	Res  int64  `json:"-"`
	Op   string `json:"op"`
	I    int    `json:"i"`
	Err  string `json:"err"`
	Idx  int    `json:"idx"`
	K    int    `json:"k"`
	ByID int    `json:"-"`
}

// driveBlocksConc: G goroutines allocate, fill, verify and free blocks of one
// small allocator (so that exhaustion happens).  Every call is bracketed by two
// global sequence numbers; the history is written in that order for
// BlocksLinTrace.tla.  Cheap necessary conditions are also checked here
// (<out>.notes.json): no index is held by two goroutines at once, block patterns
// stay intact while held, Available and the reopened copy agree at quiescence.
func driveBlocksConc(opt *Options) error {
	tw, err := NewTraceWriter(opt.Out)
	if err != nil {
		return err
	}
	defer tw.Close()
	rnd := rand.New(rand.NewSource(opt.Seed))
	G := 8
	if s, ok := opt.Extra["g"]; ok {
		fmt.Sscan(s, &G)
	}
	perG := 30
	if s, ok := opt.Extra["ops"]; ok {
		fmt.Sscan(s, &perG)
	}
	rounds := 4
	if s, ok := opt.Extra["rounds"]; ok {
		fmt.Sscan(s, &rounds)
	}
	type geo struct {
		bs, segs, hold int
		kind           string
	}
	geos := []geo{{1, 2, 3, "inmem"}, {2, 1, 3, "inmem"}, {1, 3, 4, "mm"}, {2, 2, 5, "inmem"}, {16, 1, 20, "inmem"}}
	var notes []blkNote
	nextID := 0
	for t := 0; t < opt.N; t++ {
		gm := geos[t%len(geos)]
		e, k := blkOpen(gm.bs, int64(gm.segs)*segBytes(gm.bs)+int64(rnd.Intn(3)), false, gm.kind)
		if e == nil {
			notes = append(notes, blkNote{Sig: "blocks: NewBlocks failed in the driver: " + blkShort(k), Got: k})
			continue
		}
		e.cfg += " concurrent"
		tw.Emit(map[string]any{"e": "new", "cnt": e.cnt, "bs": gm.bs, "segs": gm.segs})
		held := make([][]int, G) // per goroutine: indices it holds
		tags := make([][]byte, G)
		var seq atomic.Int64
		var panicked atomic.Value
		for r := 0; r < rounds; r++ {
			ops := make([][]blkConcOp, G)
			var bad atomic.Int64
			var wg sync.WaitGroup
			seeds := make([]int64, G)
			for g := range seeds {
				seeds[g] = rnd.Int63()
			}
			start := make(chan struct{})
			for g := 0; g < G; g++ {
				wg.Add(1)
				go func(g int) {
					defer wg.Done()
					defer func() {
						if p := recover(); p != nil {
							panicked.Store(fmt.Sprint(p))
						}
					}()
					lr := rand.New(rand.NewSource(seeds[g]))
					<-start
					for n := 0; n < perG && panicked.Load() == nil; n++ {
						o := blkConcOp{G: g, I: -1, Idx: -1, K: -1, Err: "nil"}
						c := lr.Intn(100)
						switch {
						case c < 50 && len(held[g]) < gm.hold || len(held[g]) == 0 && c < 80:
							o.Op = "Arrange"
							o.Inv = seq.Add(1)
							idx, err := e.b.ArrangeBlock()
							o.Res = seq.Add(1)
							o.Err = blkErrKind(err)
							if err == nil {
								o.Idx = idx
								tag := byte(g*16 + lr.Intn(15) + 1)
								if blk, berr := e.b.Block(idx); berr == nil {
									for j := range blk {
										blk[j] = tag
									}
								} else {
									bad.Add(1)
								}
								held[g] = append(held[g], idx)
								tags[g] = append(tags[g], tag)
							}
						case c < 88 && len(held[g]) > 0:
							k := lr.Intn(len(held[g]))
							idx := held[g][k]
							// the block must still hold what this goroutine wrote
							if blk, berr := e.b.Block(idx); berr == nil {
								for j := range blk {
									if blk[j] != tags[g][k] {
										bad.Add(1)
										break
									}
								}
							} else {
								bad.Add(1)
							}
							held[g] = append(held[g][:k], held[g][k+1:]...)
							tags[g] = append(tags[g][:k], tags[g][k+1:]...)
							o.Op, o.I = "Free", idx
							o.Inv = seq.Add(1)
							err := e.b.FreeBlock(idx)
							o.Res = seq.Add(1)
							o.Err = blkErrKind(err)
						case c < 94:
							o.Op = "Avail"
							o.Inv = seq.Add(1)
							o.K = e.b.Available()
							o.Res = seq.Add(1)
						default:
							o.Op, o.I = "Free", []int{-1, e.cnt, e.cnt + 3}[lr.Intn(3)]
							o.Inv = seq.Add(1)
							err := e.b.FreeBlock(o.I)
							o.Res = seq.Add(1)
							o.Err = blkErrKind(err)
						}
						ops[g] = append(ops[g], o)
					}
				}(g)
			}
			close(start)
			finished := make(chan struct{})
			go func() { wg.Wait(); close(finished) }()
			tmo := time.After(120 * time.Second)
		waiting:
			for {
				select {
				case <-finished:
					break waiting
				case <-tmo:
					return fmt.Errorf("concurrent round did not finish within 120 s")
				case <-time.After(50 * time.Millisecond):
					if panicked.Load() != nil {
						// the panicking call may have left the allocator's mutex locked: the other
						// goroutines can be blocked for good, so the run ends here
						time.Sleep(200 * time.Millisecond)
						break waiting
					}
				}
			}
			if pv := panicked.Load(); pv != nil {
				notes = append(notes, blkNote{Sig: "blocks: concurrent: a call panicked", Got: pv, Cfg: e.cfg})
				out, _ := json.MarshalIndent(map[string]any{"notes": notes}, "", " ")
				return os.WriteFile(opt.Out+".notes.json", out, 0o644)
			}
			// merge by sequence number
			type evt struct {
				seq int64
				inv bool
				op  *blkConcOp
			}
			var evs []evt
			for g := range ops {
				for k := range ops[g] {
					o := &ops[g][k]
					o.ID = nextID
					nextID++
					evs = append(evs, evt{o.Inv, true, o}, evt{o.Res, false, o})
				}
			}
			sort.Slice(evs, func(a, b int) bool { return evs[a].seq < evs[b].seq })
			for _, ev := range evs {
				if ev.inv {
					o := ev.op
					tw.Emit(map[string]any{"e": "inv", "id": o.ID, "g": o.G, "op": o.Op, "i": o.I, "err": blkShort(o.Err), "idx": o.Idx, "k": o.K})
				} else {
					tw.Emit(map[string]any{"e": "res", "id": ev.op.ID})
				}
			}
			// necessary condition, checked directly: nobody holds the same index twice
			seen := map[int]int{}
			total := 0
			for g := range held {
				for _, idx := range held[g] {
					if g2, dup := seen[idx]; dup {
						notes = append(notes, blkNote{Sig: "blocks: concurrent: the same index is held by two goroutines at once", Got: map[string]int{"idx": idx, "g1": g2, "g2": g}, Cfg: e.cfg})
					}
					seen[idx] = g
					total++
				}
			}
			// quiescence: contract state = union of the holdings
			for i := range e.alloc {
				e.alloc[i] = false
			}
			e.nalloc = 0
			for idx := range seen {
				if idx >= 0 && idx < e.cnt {
					e.alloc[idx] = true
					e.nalloc++
				}
			}
			av := e.b.Available()
			if av != e.cnt-len(seen) {
				notes = append(notes, blkNote{Sig: "blocks: concurrent: Available at quiescence differs from Count minus held blocks", Got: av, Want: e.cnt - len(seen), Cfg: e.cfg})
			}
			if b := bad.Load(); b > 0 {
				notes = append(notes, blkNote{Sig: "blocks: concurrent: content of a held block was overwritten (handed out twice)", Got: b, Cfg: e.cfg})
			}
			e.notes = nil
			sn := e.snapshotCheck("quiescence")
			notes = append(notes, e.notes...)
			if sn.set == nil {
				sn.set = []int{}
			}
			tw.Emit(map[string]any{"e": "quiet", "avail": av, "sn": len(sn.set), "snap": sn.set, "bad": int(bad.Load())})
		}
		e.close()
	}
	// unrecorded stress on single header bytes: lost updates of the bitmap show up at quiescence
	stress := 100000
	if s, ok := opt.Extra["stress"]; ok {
		fmt.Sscan(s, &stress)
	}
	for _, gm := range [][3]int{{1, 1, 1}, {1, 2, 2}, {2, 1, 2}} {
		if stress > 0 {
			notes = append(notes, blkStress(gm[0], gm[1], gm[2], G, stress, rnd)...)
		}
	}
	if stress > 0 {
		notes = append(notes, blkStressFaulty(rnd)...)
	}
	out, _ := json.MarshalIndent(map[string]any{"notes": notes}, "", " ")
	return os.WriteFile(opt.Out+".notes.json", out, 0o644)
}

// blkFaultyBuf: a byte storage whose Buffer call fails now and then (transient faults of a mapped file, a remote store ...)
type blkFaultyBuf struct {
	in     gbytes.Buffer
	armed  atomic.Int32
	failed atomic.Int64
	slow   atomic.Bool
}

func (f *blkFaultyBuf) Buffer(offs int64, size int) ([]byte, error) {
	if f.armed.CompareAndSwap(1, 0) {
		f.failed.Add(1)
		return nil, fmt.Errorf("harness: transient storage fault")
	}
	if f.slow.Load() {
		runtime.Gosched()
	}
	return f.in.Buffer(offs, size)
}
func (f *blkFaultyBuf) Size() int64          { return f.in.Size() }
func (f *blkFaultyBuf) Grow(n int64) error   { return f.in.Grow(n) }
func (f *blkFaultyBuf) Close() error         { return f.in.Close() }

// blkStressFaulty: the concurrent stress over a storage with transient faults, with one more goroutine that keeps
// asking Available / Count while the others arrange and free: a call that fails changes nothing, and at quiescence
// Available is Count minus the blocks held - whatever an allocator does to recover from a fault.
func blkStressFaulty(rnd *rand.Rand) []blkNote {
	var notes []blkNote
	for _, gm := range [][2]int{{16, 3}, {1, 1500}, {4, 400}} {
		bs, segs := gm[0], gm[1]
		fb := &blkFaultyBuf{in: gbytes.NewInMemBytes(int(int64(segs) * segBytes(bs)))}
		b, err := gbytes.NewBlocks(bs, fb, true)
		cfg := fmt.Sprintf("inmem bs=%d segments=%d faulty storage", bs, segs)
		if err != nil {
			notes = append(notes, blkNote{Sig: "blocks: NewBlocks failed in the driver: " + blkShort(blkErrKind(err)), Cfg: cfg})
			continue
		}
		cnt := b.Count()
		const G, hold, ops = 6, 12, 40000
		held := make([][]int, G)
		var stop atomic.Bool
		var panicked atomic.Value
		var wg, aux sync.WaitGroup
		aux.Add(4)
		for q := 0; q < 3; q++ {
			go func() { // keep looking at the counters
				defer aux.Done()
				defer func() { recover() }()
				for !stop.Load() {
					if av := b.Available(); av < 0 || av > cnt {
						panicked.Store(fmt.Sprintf("Available()=%d outside 0..Count", av))
					}
				}
			}()
		}
		go func() { // arms a fault every now and then
			defer aux.Done()
			for !stop.Load() {
				fb.armed.Store(1)
				time.Sleep(20 * time.Microsecond)
			}
		}()
		for g := 0; g < G; g++ {
			wg.Add(1)
			seed := rnd.Int63()
			go func(g int) {
				defer wg.Done()
				defer func() {
					if p := recover(); p != nil {
						panicked.Store(fmt.Sprint(p))
					}
				}()
				lr := rand.New(rand.NewSource(seed))
				for n := 0; n < ops; n++ {
					if len(held[g]) < hold && (len(held[g]) == 0 || lr.Intn(2) == 0) {
						if idx, err := b.ArrangeBlock(); err == nil {
							held[g] = append(held[g], idx)
						}
					} else {
						k := lr.Intn(len(held[g]))
						if err := b.FreeBlock(held[g][k]); err == nil {
							held[g] = append(held[g][:k], held[g][k+1:]...)
						}
					}
				}
			}(g)
		}
		wg.Wait()
		stop.Store(true)
		aux.Wait()
		fb.armed.Store(0)
		if pv := panicked.Load(); pv != nil {
			notes = append(notes, blkNote{Sig: "blocks: concurrent, faulty storage: a call panicked or a counter left its range", Got: pv, Cfg: cfg})
			continue
		}
		seen := map[int]bool{}
		dup := 0
		for g := range held {
			for _, idx := range held[g] {
				if seen[idx] {
					dup++
				}
				seen[idx] = true
			}
		}
		if dup > 0 {
			notes = append(notes, blkNote{Sig: "blocks: concurrent, faulty storage: the same index is held twice", Got: dup, Cfg: cfg})
		}
		if av := b.Available(); av != cnt-len(seen) {
			notes = append(notes, blkNote{Sig: "blocks: concurrent, faulty storage: Available at quiescence differs from Count minus held blocks",
				Got: map[string]any{"available": av, "faults": fb.failed.Load()}, Want: cnt - len(seen), Cfg: cfg})
			continue
		}
		// directed rounds: one call fails on a storage fault while nobody else is in the allocator, and the very next
		// look at the counters runs while others arrange and free (whatever recovery the fault started meets them)
		heldNow := len(seen)
		bad := 0
		var last any
		for round := 0; round < 300 && bad == 0; round++ {
			fb.armed.Store(1)
			if idx, err := b.ArrangeBlock(); err == nil { // the fault was not on this call's way: give the block back
				_ = b.FreeBlock(idx)
			}
			fb.armed.Store(0)
			fb.slow.Store(true) // a slow store: every access yields, so calls really overlap
			var done sync.WaitGroup
			var running atomic.Int32
			var stopW atomic.Bool
			for w := 0; w < 4; w++ {
				done.Add(1)
				go func() {
					defer done.Done()
					defer func() { recover() }()
					for n := 0; n < 200000 && !stopW.Load(); n++ {
						if idx, err := b.ArrangeBlock(); err == nil {
							_ = b.FreeBlock(idx)
						}
						running.Add(1)
					}
				}()
			}
			for t0 := time.Now(); running.Load() < 40 && time.Since(t0) < 2*time.Second; {
				runtime.Gosched()
			}
			func() {
				defer func() { recover() }()
				_ = b.Available() // the first look at the counters after the fault, others at work
			}()
			stopW.Store(true)
			done.Wait()
			fb.slow.Store(false)
			if av := b.Available(); av != cnt-heldNow {
				bad++
				last = map[string]any{"available": av, "round": round}
			}
		}
		if bad > 0 {
			notes = append(notes, blkNote{Sig: "blocks: concurrent, faulty storage: Available at quiescence differs from Count minus held blocks",
				Got: last, Want: cnt - heldNow, Cfg: cfg + " directed"})
		}
	}
	return notes
}

// blkStress: G goroutines allocate / tag / verify / free as fast as they can on a
// tiny geometry (all bits in one or two header bytes), nothing is recorded.  Checked:
// a held block keeps its tag (not handed out twice), and at quiescence Available,
// the holdings and the allocation set of a reopened copy agree.
func blkStress(bs, segs, hold, G, ops int, rnd *rand.Rand) []blkNote {
	e, k := blkOpen(bs, int64(segs)*segBytes(bs), true, "inmem")
	if e == nil {
		return []blkNote{{Sig: "blocks: NewBlocks failed in the driver: " + blkShort(k), Got: k}}
	}
	defer e.close()
	e.cfg += " stress"
	held := make([][]int, G)
	tags := make([][]byte, G)
	var bad, oob atomic.Int64
	var panicked atomic.Value
	var wg sync.WaitGroup
	for g := 0; g < G; g++ {
		wg.Add(1)
		seed := rnd.Int63()
		go func(g int) {
			defer wg.Done()
			defer func() {
				if p := recover(); p != nil {
					panicked.Store(fmt.Sprint(p))
				}
			}()
			lr := rand.New(rand.NewSource(seed))
			for n := 0; n < ops && panicked.Load() == nil; n++ {
				if len(held[g]) < hold && (len(held[g]) == 0 || lr.Intn(2) == 0) {
					idx, err := e.b.ArrangeBlock()
					if err != nil {
						continue
					}
					blk, berr := e.b.Block(idx)
					if berr != nil || idx < 0 || idx >= e.cnt {
						oob.Add(1)
						continue
					}
					tag := byte(g*16 + lr.Intn(15) + 1)
					for j := range blk {
						blk[j] = tag
					}
					held[g] = append(held[g], idx)
					tags[g] = append(tags[g], tag)
				} else {
					k := lr.Intn(len(held[g]))
					idx := held[g][k]
					blk, _ := e.b.Block(idx)
					for j := range blk {
						if blk[j] != tags[g][k] {
							bad.Add(1)
							break
						}
					}
					held[g] = append(held[g][:k], held[g][k+1:]...)
					tags[g] = append(tags[g][:k], tags[g][k+1:]...)
					if err := e.b.FreeBlock(idx); err != nil {
						bad.Add(1)
					}
				}
			}
		}(g)
	}
	finished := make(chan struct{})
	go func() { wg.Wait(); close(finished) }()
	select {
	case <-finished:
	case <-time.After(120 * time.Second):
		if pv := panicked.Load(); pv != nil {
			return []blkNote{{Sig: "blocks: concurrent: a call panicked", Got: pv, Cfg: e.cfg}}
		}
		return []blkNote{{Sig: "harness: stress round did not finish within 120 s", Cfg: e.cfg}}
	}
	var notes []blkNote
	if pv := panicked.Load(); pv != nil {
		return []blkNote{{Sig: "blocks: concurrent: a call panicked", Got: pv, Cfg: e.cfg}}
	}
	seen := map[int]int{}
	for g := range held {
		for _, idx := range held[g] {
			if g2, dup := seen[idx]; dup {
				notes = append(notes, blkNote{Sig: "blocks: concurrent: the same index is held by two goroutines at once", Got: map[string]int{"idx": idx, "g1": g2, "g2": g}, Cfg: e.cfg})
			}
			seen[idx] = g
		}
	}
	for idx := range seen {
		e.alloc[idx] = true
		e.nalloc++
	}
	if b := bad.Load(); b > 0 {
		notes = append(notes, blkNote{Sig: "blocks: concurrent: content of a held block was overwritten (handed out twice)", Got: b, Cfg: e.cfg})
	}
	if b := oob.Load(); b > 0 {
		notes = append(notes, blkNote{Sig: "blocks: ArrangeBlock returned an index outside 0..Count-1", Got: b, Cfg: e.cfg})
	}
	if av := e.b.Available(); av != e.cnt-len(seen) {
		notes = append(notes, blkNote{Sig: "blocks: concurrent: Available at quiescence differs from Count minus held blocks", Got: av, Want: e.cnt - len(seen), Cfg: e.cfg})
	}
	e.snapshotCheck("stress quiescence")
	return append(notes, e.notes...)
}

// blkBufferScenarios: what happens to the allocation state when the underlying buffer is grown under a live
// Blocks object (in memory and memory-mapped), and when a memory-mapped file is opened once through a window
// shorter than the file.  One summary event each; the contract is in BlocksTrace.tla (Scenario).
func blkBufferScenarios(tw *TraceWriter, rnd *rand.Rand) {
	probe := func(b *gbytes.Blocks) []int {
		var set []int
		for i := 0; i < b.Count(); i++ {
			if b.FreeBlock(i) == nil {
				set = append(set, i)
			}
		}
		return set
	}
	keys := func(m map[int]bool) []int {
		l := []int{}
		for i := range m {
			l = append(l, i)
		}
		sort.Ints(l)
		return l
	}
	for _, kind := range []string{"inmem", "mm", "inmem-full", "mm-full"} {
		for _, bs := range []int{16, 64} {
			ev := map[string]any{"op": "Grow", "kind": kind, "bs": bs, "dup": false}
			full := strings.HasSuffix(kind, "-full") // the allocator is exhausted before its buffer grows by whole segments
			kind := strings.TrimSuffix(kind, "-full")
			dir, _ := os.MkdirTemp("", "vh-blk-grow-")
			func() {
				defer os.RemoveAll(dir)
				defer func() {
					if p := recover(); p != nil {
						ev["crash"] = firstLine(fmt.Sprint(p))
					}
				}()
				size := int64(4096 * (1 + (2*int(segBytes(bs))-1)/4096)) // whole pages holding at least two segments
				var buf gbytes.Buffer
				if kind == "mm" {
					f, err := files.NewMMFile(filepath.Join(dir, "blocks.dat"), size)
					if err != nil {
						panic(err)
					}
					buf = f
				} else {
					buf = gbytes.NewInMemBytes(int(size))
				}
				b, err := gbytes.NewBlocks(bs, buf, false)
				if err != nil {
					panic(err)
				}
				held := map[int]bool{}
				take := func(n int) {
					for k := 0; k < n; k++ {
						if i, err := b.ArrangeBlock(); err == nil {
							if held[i] {
								ev["dup"] = true // an index handed out while still allocated
							}
							held[i] = true
						}
					}
				}
				if full {
					take(b.Count() + 2)
				} else {
					take(5 + rnd.Intn(20))
				}
				grow := 4096 * int64(1+rnd.Intn(3))
				if full {
					grow = 4096 * (1 + (int64(1+rnd.Intn(2))*segBytes(bs)-1)/4096)
				}
				if err := buf.Grow(size + grow); err != nil {
					panic(err)
				}
				// the same object goes on working over the grown buffer
				take(3 + rnd.Intn(10))
				for i := range held {
					if rnd.Intn(3) == 0 {
						if b.FreeBlock(i) == nil {
							delete(held, i)
						}
					}
				}
				// a second allocator on a copy of the grown bytes
				raw, err := buf.Buffer(0, int(buf.Size()))
				if err != nil {
					panic(err)
				}
				cp := gbytes.NewInMemBytes(len(raw))
				dst, _ := cp.Buffer(0, len(raw))
				copy(dst, raw)
				b2, err := gbytes.NewBlocks(bs, cp, false)
				if err != nil {
					panic(err)
				}
				ev["count"], ev["avail"] = b2.Count(), b2.Available()
				ev["live_count"], ev["live_avail"] = b.Count(), b.Available()
				ev["got"], ev["want"] = probe(b2), keys(held)
				buf.Close()
			}()
			for _, k := range []string{"count", "avail", "live_count", "live_avail"} {
				if _, ok := ev[k]; !ok {
					ev[k] = -1
				}
			}
			for _, k := range []string{"got", "want"} {
				if _, ok := ev[k]; !ok {
					ev[k] = []int{}
				}
			}
			tw.Emit(ev)
		}
	}
	// a window shorter than the file
	for _, bs := range []int{64} {
		ev := map[string]any{"op": "Window", "bs": bs}
		dir, _ := os.MkdirTemp("", "vh-blk-win-")
		func() {
			defer os.RemoveAll(dir)
			defer func() {
				if p := recover(); p != nil {
					ev["crash"] = firstLine(fmt.Sprint(p))
				}
			}()
			fn := filepath.Join(dir, "blocks.dat")
			size := int64(4096 * (1 + (3*int(segBytes(bs))-1)/4096))
			f, err := files.NewMMFile(fn, size)
			if err != nil {
				panic(err)
			}
			b, err := gbytes.NewBlocks(bs, f, false)
			if err != nil {
				panic(err)
			}
			held := map[int]bool{}
			for k := 0; k < b.Count(); k++ { // fill everything, then free a scattered third
				if i, err := b.ArrangeBlock(); err == nil {
					held[i] = true
				}
			}
			for i := range held {
				if rnd.Intn(3) == 0 && b.FreeBlock(i) == nil {
					delete(held, i)
				}
			}
			f.Close()
			// open only the first pages of the file once, look, close
			w, err := files.NewMMFile(fn, 4096*2)
			if err != nil {
				panic(err)
			}
			w.Buffer(0, 16)
			w.Close()
			st, err := os.Stat(fn)
			if err != nil {
				panic(err)
			}
			ev["filelen"], ev["wantlen"] = st.Size(), size
			full, err := files.NewMMFile(fn, -1)
			if err != nil {
				panic(err)
			}
			if full.Size() < size {
				if err := full.Grow(size); err != nil {
					panic(err)
				}
			}
			b2, err := gbytes.NewBlocks(bs, full, false)
			if err != nil {
				panic(err)
			}
			ev["count"], ev["avail"] = b2.Count(), b2.Available()
			ev["got"], ev["want"] = probe(b2), keys(held)
			full.Close()
		}()
		for _, k := range []string{"count", "avail", "filelen", "wantlen"} {
			if _, ok := ev[k]; !ok {
				ev[k] = -1
			}
		}
		for _, k := range []string{"got", "want"} {
			if _, ok := ev[k]; !ok {
				ev[k] = []int{}
			}
		}
		tw.Emit(ev)
	}
}
