package main

import (
	"bufio"
	"crypto/sha1"
	"encoding/hex"
	"encoding/json"
	"fmt"
	"os"
	"runtime"
	"sort"
	"sync"
	"sync/atomic"
	"time"
)

// Step is one call with the reply the specification prescribes.
type Step map[string]any

// Behaviour is a sequence of steps, as emitted by TLC (ToJson of the history variable).
type Behaviour []Step

// Failure describes a disagreement between the real code and the specification.
type Failure struct {
	Index     int       `json:"index"`          // line of the behaviour in the input
	Step      int       `json:"step"`           // failing step (0-based)
	Kind      string    `json:"kind"`           // "verdict" (contract broken) or "drift" (impl model differs)
	Sig       string    `json:"sig"`            // stable signature used for known-finding matching
	Got       any       `json:"got,omitempty"`  // what the real code answered
	Want      any       `json:"want,omitempty"` // what the specification prescribes
	Behaviour Behaviour `json:"behaviour,omitempty"`
}

type ReplayResult struct {
	Component string      `json:"component"`
	Variant   string      `json:"variant"`
	Total     int         `json:"total"`
	Distinct  int         `json:"distinct"`
	Steps     int         `json:"steps"`
	Passed    int         `json:"passed"`
	Failures  []*Failure  `json:"failures"`
	NFail     int         `json:"n_failures"`
	NDrift    int         `json:"n_drift"`
	NInconcl  int         `json:"n_inconclusive"`
	Aborted   string      `json:"aborted,omitempty"`
	Samples   []Behaviour `json:"samples"`
}

func (s Step) Str(k string) string {
	v, _ := s[k].(string)
	return v
}
func (s Step) Int(k string) int {
	switch v := s[k].(type) {
	case float64:
		return int(v)
	case int:
		return v
	}
	return 0
}
func (s Step) Bool(k string) bool {
	v, _ := s[k].(bool)
	return v
}
func (s Step) Ints(k string) []int {
	arr, _ := s[k].([]any)
	res := make([]int, 0, len(arr))
	for _, a := range arr {
		if f, ok := a.(float64); ok {
			res = append(res, int(f))
		}
	}
	return res
}
func (s Step) Has(k string) bool { _, ok := s[k]; return ok }

// parseLine decodes one emitted line.  TLC's CSVWrite prints the JSON text as a
// TLA+ string literal, i.e. a JSON string containing JSON; plain JSON is accepted too.
func parseLine(line []byte) (Behaviour, error) {
	var b Behaviour
	if len(line) > 0 && line[0] == '"' {
		var s string
		if err := json.Unmarshal(line, &s); err != nil {
			return nil, err
		}
		line = []byte(s)
	}
	if err := json.Unmarshal(line, &b); err != nil {
		return nil, err
	}
	return b, nil
}

func readBehaviours(path string) ([]Behaviour, int, error) {
	f, err := os.Open(path)
	if err != nil {
		return nil, 0, err
	}
	defer f.Close()
	sc := bufio.NewScanner(f)
	sc.Buffer(make([]byte, 1<<20), 1<<28)
	seen := map[[20]byte]bool{}
	var res []Behaviour
	total := 0
	for sc.Scan() {
		line := sc.Bytes()
		if len(line) == 0 {
			continue
		}
		total++
		h := sha1.Sum(line)
		if seen[h] {
			continue
		}
		seen[h] = true
		b, err := parseLine(line)
		if err != nil {
			return nil, 0, fmt.Errorf("line %d: %w", total, err)
		}
		res = append(res, b)
	}
	return res, total, sc.Err()
}

func runReplay(comp string, r Replayer, opt *Options) error {
	bs, total, err := readBehaviours(opt.In)
	if err != nil {
		return err
	}
	res := &ReplayResult{Component: comp, Variant: opt.Variant, Total: total, Distinct: len(bs)}
	var mu sync.Mutex
	var wg sync.WaitGroup
	ch := make(chan int, 1024)
	w := opt.Workers
	if w < 1 {
		w = 1
	}
	running := map[int]time.Time{}
	finish := func() error { return writeReplayResult(res, bs, opt) }
	// memory watchdog: a library call that loops forever while allocating would take the whole process
	// down (out of memory is not recoverable).  When the heap explodes, the behaviours that have been
	// running for a while are reported as "did not return" and the result is written at once.
	var base runtime.MemStats
	runtime.GC()
	runtime.ReadMemStats(&base) // what the harness itself holds (the loaded behaviours) is not the library's doing
	go func() {
		var ms runtime.MemStats
		for {
			time.Sleep(50 * time.Millisecond)
			runtime.ReadMemStats(&ms)
			if ms.HeapAlloc < base.HeapAlloc+memLimit {
				continue
			}
			mu.Lock()
			culprits := 0
			for _, t0 := range running {
				if time.Since(t0) > 2*time.Second {
					culprits++
				}
			}
			if culprits == 0 {
				// the heap is large but no library call has been running for long: not a runaway call.
				// Give the collector a chance and carry on (the harness's own memory is its own problem).
				mu.Unlock()
				runtime.GC()
				time.Sleep(500 * time.Millisecond)
				continue
			}
			for idx, t0 := range running {
				if time.Since(t0) > 2*time.Second {
					res.NFail++
					res.Failures = append(res.Failures, &Failure{Index: idx, Step: -1, Kind: "verdict", Behaviour: bs[idx],
						Sig: "a library call did not return (endless loop, unbounded memory)", Got: fmt.Sprintf("heap %d MB", ms.HeapAlloc>>20)})
				}
			}
			res.Aborted = "heap limit reached"
			finish()
			os.Exit(0)
		}
	}()
	for i := 0; i < w; i++ {
		wg.Add(1)
		go func() {
			defer wg.Done()
			for idx := range ch {
				mu.Lock()
				running[idx] = time.Now()
				mu.Unlock()
				f := safeRun(r, bs[idx], opt)
				mu.Lock()
				delete(running, idx)
				res.Steps += len(bs[idx])
				if f == nil {
					res.Passed++
				} else {
					f.Index = idx
					f.Behaviour = bs[idx]
					if f.Kind == "drift" {
						res.NDrift++
					} else if f.Kind == "inconclusive" {
						// the run could not be judged (e.g. the host stalled during a timed step): never a verdict
						res.NInconcl++
					} else {
						f.Kind = "verdict"
						res.NFail++
					}
					res.Failures = append(res.Failures, f)
				}
				mu.Unlock()
			}
		}()
	}
	for i := range bs {
		ch <- i
	}
	close(ch)
	wg.Wait()
	mu.Lock()
	defer mu.Unlock()
	return finish()
}

var memLimit uint64 = 3 << 30

func writeReplayResult(res *ReplayResult, bs []Behaviour, opt *Options) error {
	sort.Slice(res.Failures, func(i, j int) bool {
		a, b := res.Failures[i], res.Failures[j]
		if len(a.Behaviour) != len(b.Behaviour) {
			return len(a.Behaviour) < len(b.Behaviour)
		}
		return a.Index < b.Index
	})
	// keep the report small: at most 50 failures per signature, shortest first
	perSig := map[string]int{}
	kept := res.Failures[:0]
	for _, f := range res.Failures {
		perSig[f.Kind+f.Sig]++
		if perSig[f.Kind+f.Sig] <= 20 {
			kept = append(kept, f)
		}
	}
	res.Failures = kept
	for i := 0; i < len(bs) && len(res.Samples) < 3; i += 1 + len(bs)/3 {
		res.Samples = append(res.Samples, bs[i])
	}
	out, _ := json.MarshalIndent(res, "", " ")
	if opt.Out == "" {
		fmt.Println(string(out))
		return nil
	}
	return os.WriteFile(opt.Out, out, 0o644)
}

// safeRun turns a panic that escapes the adapter (i.e. one the adapter did not
// expect at a call where the contract allows a panic) into a verdict failure.
func safeRun(r Replayer, b Behaviour, opt *Options) *Failure {
	if atomic.LoadInt32(&hangs) >= 3 {
		// several behaviours already hung (each leaves a spinning goroutine behind): the verdict is
		// established, the rest is skipped
		return &Failure{Kind: "inconclusive", Sig: "skipped after repeated hangs"}
	}
	done := make(chan *Failure, 1)
	go func() {
		defer func() {
			if p := recover(); p != nil {
				done <- &Failure{Step: -1, Sig: "panic escaped: " + firstLine(fmt.Sprint(p)), Got: fmt.Sprint(p)}
			}
		}()
		done <- r(b, opt)
	}()
	// A behaviour is not abandoned because it is slow (the host may be heavily loaded): it is abandoned when
	// ONE library call made through callPanics has been in flight for callTimeout, or - for adapters that call
	// the library directly - when the whole (small) behaviour has not finished after behaviourTimeout.
	start := time.Now()
	for {
		select {
		case f := <-done:
			return f
		case <-time.After(time.Second):
		}
		stuck := false
		inflight.Range(func(_, v any) bool {
			if time.Since(v.(time.Time)) > callTimeout {
				stuck = true
			}
			return true
		})
		if stuck || time.Since(start) > behaviourTimeout {
			atomic.AddInt32(&hangs, 1)
			return &Failure{Step: -1, Sig: "a library call did not return (hang / endless loop)",
				Got: fmt.Sprintf("no reply after %s", time.Since(start).Round(time.Second))}
		}
	}
}

var hangs int32
var callTimeout = 45 * time.Second
var behaviourTimeout = 6 * time.Minute
var hangTimeout = callTimeout // used by the driver watchdog

func firstLine(s string) string {
	for i := 0; i < len(s); i++ {
		if s[i] == '\n' {
			return s[:i]
		}
	}
	if len(s) > 160 {
		return s[:160]
	}
	return s
}

// callPanics runs f and reports whether it panicked (with the panic value).
func callPanics(f func()) (panicked bool, val any) {
	id := atomic.AddInt64(&callSeq, 1)
	inflight.Store(id, time.Now())
	defer inflight.Delete(id)
	defer func() {
		if p := recover(); p != nil {
			panicked, val = true, p
		}
	}()
	f()
	return
}

func hashOf(v any) string {
	b, _ := json.Marshal(v)
	h := sha1.Sum(b)
	return hex.EncodeToString(h[:8])
}

// TraceWriter writes ndjson trace events (code -> spec direction).
type TraceWriter struct {
	f  *os.File
	w  *bufio.Writer
	mu sync.Mutex
	n  int
}

func NewTraceWriter(path string) (*TraceWriter, error) {
	f, err := os.Create(path)
	if err != nil {
		return nil, err
	}
	tw := &TraceWriter{f: f, w: bufio.NewWriterSize(f, 1<<20)}
	go tw.watchdog()
	return tw, nil
}

var callSeq int64
var inflight sync.Map // call id -> start time of a library call made through callPanics

// watchdog: a library call that never returns (or eats memory without bound) cannot be recovered
// like a panic.  The driver records it as a `crash` event - the trace specifications never accept
// one - flushes the trace and ends the process, so that TLC judges what was recorded so far.
func (t *TraceWriter) watchdog() {
	var ms runtime.MemStats
	for {
		time.Sleep(100 * time.Millisecond)
		runtime.ReadMemStats(&ms)
		stuck := ms.HeapAlloc > memLimit
		inflight.Range(func(_, v any) bool {
			if time.Since(v.(time.Time)) > hangTimeout {
				stuck = true
			}
			return true
		})
		if stuck {
			t.mu.Lock()
			b, _ := json.Marshal(map[string]any{"op": "(library call)", "e": "crash", "crash": "a library call did not return (endless loop / unbounded memory)"})
			t.w.Write(b)
			t.w.WriteByte('\n')
			t.w.Flush()
			t.f.Close()
			os.Exit(0)
		}
	}
}

func (t *TraceWriter) Emit(ev map[string]any) {
	t.mu.Lock()
	defer t.mu.Unlock()
	b, _ := json.Marshal(ev)
	t.w.Write(b)
	t.w.WriteByte('\n')
	t.n++
}

func (t *TraceWriter) Close() error {
	t.w.Flush()
	return t.f.Close()
}
