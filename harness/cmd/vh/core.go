package main

import (
	"bufio"
	"crypto/sha1"
	"encoding/hex"
	"encoding/json"
	"fmt"
	"os"
	"sort"
	"sync"
)

// Step is one call with the reply the specification prescribes.
type Step map[string]any

// Behaviour is a sequence of steps, as emitted by TLC (ToJson of the history variable).
type Behaviour []Step

// Failure describes a disagreement between the real code and the specification.
type Failure struct {
	Index     int       `json:"index"`          // line of the behaviour in the input
	Step      int       `json:"step"`           // failing step (0-based)
	Kind      string    `json:"kind"`           // "verdict" (contract broken) or "drift" (impl model differs)
	Sig       string    `json:"sig"`            // stable signature used for known-finding matching
	Got       any       `json:"got,omitempty"`  // what the real code answered
	Want      any       `json:"want,omitempty"` // what the specification prescribes
	Behaviour Behaviour `json:"behaviour,omitempty"`
}

type ReplayResult struct {
	Component string      `json:"component"`
	Variant   string      `json:"variant"`
	Total     int         `json:"total"`
	Distinct  int         `json:"distinct"`
	Steps     int         `json:"steps"`
	Passed    int         `json:"passed"`
	Failures  []*Failure  `json:"failures"`
	NFail     int         `json:"n_failures"`
	NDrift    int         `json:"n_drift"`
	NInconcl  int         `json:"n_inconclusive"`
	Samples   []Behaviour `json:"samples"`
}

func (s Step) Str(k string) string {
	v, _ := s[k].(string)
	return v
}
func (s Step) Int(k string) int {
	switch v := s[k].(type) {
	case float64:
		return int(v)
	case int:
		return v
	}
	return 0
}
func (s Step) Bool(k string) bool {
	v, _ := s[k].(bool)
	return v
}
func (s Step) Ints(k string) []int {
	arr, _ := s[k].([]any)
	res := make([]int, 0, len(arr))
	for _, a := range arr {
		if f, ok := a.(float64); ok {
			res = append(res, int(f))
		}
	}
	return res
}
func (s Step) Has(k string) bool { _, ok := s[k]; return ok }

// parseLine decodes one emitted line.  TLC's CSVWrite prints the JSON text as a
// TLA+ string literal, i.e. a JSON string containing JSON; plain JSON is accepted too.
func parseLine(line []byte) (Behaviour, error) {
	var b Behaviour
	if len(line) > 0 && line[0] == '"' {
		var s string
		if err := json.Unmarshal(line, &s); err != nil {
			return nil, err
		}
		line = []byte(s)
	}
	if err := json.Unmarshal(line, &b); err != nil {
		return nil, err
	}
	return b, nil
}

func readBehaviours(path string) ([]Behaviour, int, error) {
	f, err := os.Open(path)
	if err != nil {
		return nil, 0, err
	}
	defer f.Close()
	sc := bufio.NewScanner(f)
	sc.Buffer(make([]byte, 1<<20), 1<<28)
	seen := map[[20]byte]bool{}
	var res []Behaviour
	total := 0
	for sc.Scan() {
		line := sc.Bytes()
		if len(line) == 0 {
			continue
		}
		total++
		h := sha1.Sum(line)
		if seen[h] {
			continue
		}
		seen[h] = true
		b, err := parseLine(line)
		if err != nil {
			return nil, 0, fmt.Errorf("line %d: %w", total, err)
		}
		res = append(res, b)
	}
	return res, total, sc.Err()
}

func runReplay(comp string, r Replayer, opt *Options) error {
	bs, total, err := readBehaviours(opt.In)
	if err != nil {
		return err
	}
	res := &ReplayResult{Component: comp, Variant: opt.Variant, Total: total, Distinct: len(bs)}
	var mu sync.Mutex
	var wg sync.WaitGroup
	ch := make(chan int, 1024)
	w := opt.Workers
	if w < 1 {
		w = 1
	}
	for i := 0; i < w; i++ {
		wg.Add(1)
		go func() {
			defer wg.Done()
			for idx := range ch {
				f := safeRun(r, bs[idx], opt)
				mu.Lock()
				res.Steps += len(bs[idx])
				if f == nil {
					res.Passed++
				} else {
					f.Index = idx
					f.Behaviour = bs[idx]
					if f.Kind == "drift" {
						res.NDrift++
					} else if f.Kind == "inconclusive" {
						// the run could not be judged (e.g. the host stalled during a timed step): never a verdict
						res.NInconcl++
					} else {
						f.Kind = "verdict"
						res.NFail++
					}
					res.Failures = append(res.Failures, f)
				}
				mu.Unlock()
			}
		}()
	}
	for i := range bs {
		ch <- i
	}
	close(ch)
	wg.Wait()
	sort.Slice(res.Failures, func(i, j int) bool {
		a, b := res.Failures[i], res.Failures[j]
		if len(a.Behaviour) != len(b.Behaviour) {
			return len(a.Behaviour) < len(b.Behaviour)
		}
		return a.Index < b.Index
	})
	// keep the report small: at most 50 failures per signature, shortest first
	perSig := map[string]int{}
	kept := res.Failures[:0]
	for _, f := range res.Failures {
		perSig[f.Kind+f.Sig]++
		if perSig[f.Kind+f.Sig] <= 20 {
			kept = append(kept, f)
		}
	}
	res.Failures = kept
	for i := 0; i < len(bs) && len(res.Samples) < 3; i += 1 + len(bs)/3 {
		res.Samples = append(res.Samples, bs[i])
	}
	out, _ := json.MarshalIndent(res, "", " ")
	if opt.Out == "" {
		fmt.Println(string(out))
		return nil
	}
	return os.WriteFile(opt.Out, out, 0o644)
}

// safeRun turns a panic that escapes the adapter (i.e. one the adapter did not
// expect at a call where the contract allows a panic) into a verdict failure.
func safeRun(r Replayer, b Behaviour, opt *Options) (f *Failure) {
	defer func() {
		if p := recover(); p != nil {
			f = &Failure{Step: -1, Sig: "panic escaped: " + firstLine(fmt.Sprint(p)), Got: fmt.Sprint(p)}
		}
	}()
	return r(b, opt)
}

func firstLine(s string) string {
	for i := 0; i < len(s); i++ {
		if s[i] == '\n' {
			return s[:i]
		}
	}
	if len(s) > 160 {
		return s[:160]
	}
	return s
}

// callPanics runs f and reports whether it panicked (with the panic value).
func callPanics(f func()) (panicked bool, val any) {
	defer func() {
		if p := recover(); p != nil {
			panicked, val = true, p
		}
	}()
	f()
	return
}

func hashOf(v any) string {
	b, _ := json.Marshal(v)
	h := sha1.Sum(b)
	return hex.EncodeToString(h[:8])
}

// TraceWriter writes ndjson trace events (code -> spec direction).
type TraceWriter struct {
	f  *os.File
	w  *bufio.Writer
	mu sync.Mutex
	n  int
}

func NewTraceWriter(path string) (*TraceWriter, error) {
	f, err := os.Create(path)
	if err != nil {
		return nil, err
	}
	return &TraceWriter{f: f, w: bufio.NewWriterSize(f, 1<<20)}, nil
}

func (t *TraceWriter) Emit(ev map[string]any) {
	t.mu.Lock()
	defer t.mu.Unlock()
	b, _ := json.Marshal(ev)
	t.w.Write(b)
	t.w.WriteByte('\n')
	t.n++
}

func (t *TraceWriter) Close() error {
	t.w.Flush()
	return t.f.Close()
}
