package main

import (
	"context"
	"errors"
	"fmt"
	"io"
	"io/fs"
	"math/rand"
	"os"
	"reflect"
	"sort"
	"strings"
	"syscall"

	gerrors "github.com/acquirecloud/golibs/errors"
	"google.golang.org/grpc/codes"
	"google.golang.org/grpc/status"
)

// C19: github.com/acquirecloud/golibs/errors against spec/errs/ErrClasses.tla.
//
//   vh drive  errs-probe -out <dir>/ErrTables.tla   extract the two tables from the compiled code
//   vh replay errs       -in emitted.ndjson         spec -> code: TLC-generated chains on the real functions
//   vh drive  errs       -out trace.ndjson          code -> spec: seeded random chains, recorded for ErrTrace.tla

func init() {
	replayers["errs"] = replayErrs
	drivers["errs"] = driveErrs
	drivers["errs-probe"] = driveErrsProbe
}

// The general error classes of errors.go, under the names ErrClasses.tla uses.
var errsClasses = []struct {
	name string
	err  error
}{
	{"Exist", gerrors.ErrExist},
	{"NotExist", gerrors.ErrNotExist},
	{"Closed", gerrors.ErrClosed},
	{"Invalid", gerrors.ErrInvalid},
	{"NotAuthorized", gerrors.ErrNotAuthorized},
	{"DataLoss", gerrors.ErrDataLoss},
	{"Communication", gerrors.ErrCommunication},
	{"Internal", gerrors.ErrInternal},
	{"Conflict", gerrors.ErrConflict},
	{"Exhausted", gerrors.ErrExhausted},
	{"Unimplemented", gerrors.ErrUnimplemented},
	{"Canceled", gerrors.ErrCanceled},
}

func errsSentinel(name string) error {
	for _, c := range errsClasses {
		if c.name == name {
			return c.err
		}
	}
	return nil
}

// errsClassName identifies an error returned by FromGRPCError: "nil", the name
// of the class it IS (pointer-equal sentinel), or "Other" for a non-nil error
// that is none of the twelve known sentinels (a class added later).
func errsClassName(e error) string {
	if e == nil {
		return "nil"
	}
	for _, c := range errsClasses {
		if e == c.err {
			return c.name
		}
	}
	return "Other"
}

const errsDefaultMarker = "\x1bjson"

// errsMarker finds the embed marker of the compiled library by embedding a
// known object into a known error: the text is <marker><json><marker>: <text>.
// The message texts below are "neighbours" of THIS marker; none contains it.
func errsMarker() (mk string, probed bool) {
	mk = errsDefaultMarker
	defer func() { recover() }()
	s := gerrors.EmbedObject(struct{ A int }{1}, errors.New("X")).Error()
	const js = `{"A":1}`
	i := strings.Index(s, js)
	if i <= 0 {
		return
	}
	m := s[:i]
	if strings.HasPrefix(s[i+len(js):], m) && !strings.ContainsAny(m, ": ") {
		return m, true
	}
	return
}

// errsTexts is the fixed list of message texts (msg id = index+1).  It holds
// JSON text, colons, text that looks like a gRPC status line, percent verbs,
// the empty text, non-ASCII text, a text of a few kilobytes and the marker's neighbours: every proper
// piece of the marker (its ESC character alone, the literal "json" alone, the
// marker minus its last character), the two halves in the wrong order, the
// halves separated by a blank, and the marker in upper case.  A text that
// contains the full marker is outside the property and is dropped here.
func errsTexts(mk string) []string {
	head, rest := mk[:1], mk[1:]
	cand := []string{
		"plain text",
		`{"code": 5, "message": "not found", "details": [1, 2, {"a": null}]}`,
		"open /tmp/x: rpc error: code = NotFound desc = a: b: c:",
		head,
		rest,
		mk[:len(mk)-1],
		rest + head,
		head + " " + rest,
		strings.ToUpper(mk),
		"",
		"100% %w %s %!v(MISSING) \\x1bjson \"quoted\"",
		"ошибка ✓ 文件",
		"{" + rest + "}" + head + "{",
		strings.Repeat("a long text: with colons, {\"json\": true} and "+rest+"; ", 60),
		// the complete text of somebody else's status error, quoted in front of the wrapped error
		"rpc error: code = NotFound desc = upstream: no such thing",
		"rpc error: code = AlreadyExists desc = upstream: taken",
		"rpc error: code = Internal desc = upstream: broke",
	}
	var res []string
	seen := map[string]bool{}
	for _, t := range cand {
		if strings.Contains(t, mk) || seen[t] {
			t = fmt.Sprintf("text #%d", len(res)+1) // keep the ids stable
		}
		seen[t] = true
		res = append(res, t)
	}
	return res
}

// errsObj is the object embedded by EmbedObject.
type errsObj struct {
	Name string   `json:"name"`
	N    int      `json:"n"`
	Tags []string `json:"tags"`
	Sub  *errsObj `json:"sub,omitempty"`
}

func errsMakeObj(text string, n int) errsObj {
	return errsObj{Name: text, N: n, Tags: []string{"a:b", text, "{}"}, Sub: &errsObj{Name: "inner " + text, N: -n}}
}

// errsWrap adds one fmt.Errorf %w layer.  form selects where the text goes.
func errsWrap(v error, text string, form int) error {
	switch form % 6 {
	case 0:
		return fmt.Errorf("%w | %s", v, text)
	case 1:
		return fmt.Errorf("%s: %w", text, v)
	case 2:
		return fmt.Errorf("[%s] %w (%d)", text, v, form)
	case 3: // a layer with two %w: an unrelated error next to the chain
		return fmt.Errorf("%w while handling %s: %w", errsSideOf(form, text), text, v)
	case 4: // errors.Join: the chain is one branch of a tree
		return errors.Join(v, errsSideOf(form, text))
	}
	return &errsLayer{text: text, inner: v} // a wrapper type with its own Unwrap
}

var errsSide = errors.New("side condition")

// errsSideOf: the unrelated sibling of a tree - a plain error, or one of the standard library's sentinels that
// none of the library's classes stands for (a context that ended, an end of file; NOT os.ErrNotExist and its
// relatives - those ARE the library's classes)
func errsSideOf(form int, text string) error {
	sides := []error{errsSide, context.Canceled, context.DeadlineExceeded, io.EOF, errsSide, io.ErrUnexpectedEOF}
	return sides[(form/6+len(text))%len(sides)]
}

type errsLayer struct {
	text  string
	inner error
}

func (l *errsLayer) Error() string { return l.text + " <" + l.inner.Error() + ">" }
func (l *errsLayer) Unwrap() error { return l.inner }

// errsObs is everything the property observes of an error value.
type errsObs struct {
	Code    int      `json:"code"`    // GRPCStatusCode(v)
	From    string   `json:"from"`    // FromGRPCError(v)
	Is      []string `json:"is"`      // classes c with Is(v, c), sorted
	Extract bool     `json:"extract"` // ExtractObject(v, &o)
	ObjEq   bool     `json:"objeq"`   // extracted value equals the embedded one
	Text    string   `json:"text"`    // v.Error()
}

func errsObserve(v error, want *errsObj) errsObs {
	o := errsObs{Code: int(gerrors.GRPCStatusCode(v)), From: errsClassName(gerrors.FromGRPCError(v)), Is: []string{}}
	for _, c := range errsClasses {
		if gerrors.Is(v, c.err) {
			o.Is = append(o.Is, c.name)
		}
	}
	sort.Strings(o.Is)
	var got errsObj
	o.Extract = gerrors.ExtractObject(v, &got)
	o.ObjEq = o.Extract && want != nil && reflect.DeepEqual(got, *want)
	if v != nil {
		o.Text = v.Error()
	}
	return o
}

func errsSameObs(a, b errsObs) bool { return reflect.DeepEqual(a, b) }

// errsChain is a value under construction together with what was put into it.
type errsChain struct {
	v     error
	obj   *errsObj // embedded object, if any
	depth int
}

func errsStrs(v any) []string {
	arr, _ := v.([]any)
	res := make([]string, 0, len(arr))
	for _, a := range arr {
		if s, ok := a.(string); ok {
			res = append(res, s)
		}
	}
	sort.Strings(res)
	return res
}

// replayErrs builds the value of one emitted behaviour with the real
// fmt.Errorf("%w"), EmbedObject and GRPCWrap and compares, after every step
// that carries a requirement, the real Is / GRPCStatusCode / FromGRPCError /
// ExtractObject results with
//
//	req   - what the PROPERTY requires (contract; a mismatch is a verdict),
//	model - what the table-driven model of the Go code predicts (a mismatch is drift).
func replayErrs(b Behaviour, opt *Options) *Failure {
	mk, _ := errsMarker()
	texts := errsTexts(mk)
	M := len(texts)
	if len(b) == 0 {
		return nil
	}
	msg := b[0].Int("msg")
	if msg < 1 || msg > M {
		return &Failure{Step: 0, Sig: "harness: message id out of range"}
	}
	text := func(i int) string { return texts[(msg-1+i)%M] }
	var ch errsChain
	var drift *Failure
	var prev *errsObs // observation of the previous gRPC-wrapped value
	for i, s := range b {
		op := s.Str("op")
		switch op {
		case "New":
			ch = errsChain{v: errsSentinel(s.Str("class"))}
			if ch.v == nil {
				return &Failure{Step: i, Sig: "harness: unknown class"}
			}
		case "Foreign":
			ch = errsChain{v: status.New(codes.Code(s.Int("code")), text(0)).Err()}
		case "Wrap":
			ch.v = errsWrap(ch.v, text(ch.depth), msg+ch.depth)
			ch.depth++
		case "Embed":
			o := errsMakeObj(text(0), 10*ch.depth+msg)
			var nv error
			if p, pv := callPanics(func() { nv = gerrors.EmbedObject(o, ch.v) }); p {
				return &Failure{Step: i, Sig: "errs: EmbedObject panicked on an error whose text does not contain the marker", Got: fmt.Sprint(pv)}
			}
			ch.v, ch.obj = nv, &o
		case "GRPCWrap":
			ch.v = gerrors.GRPCWrap(ch.v)
		default:
			return &Failure{Step: i, Sig: "harness: unknown op " + op}
		}
		if !s.Has("req") && !s.Has("model") {
			continue
		}
		obs := errsObserve(ch.v, ch.obj)
		if req, ok := s["req"].(map[string]any); ok {
			if f := errsCheckReq(i, op, Step(req), ch, obs, prev); f != nil {
				return f
			}
		}
		if mod, ok := s["model"].(map[string]any); ok && drift == nil {
			m := Step(mod)
			got := map[string]any{"code": obs.Code, "from": obs.From, "is": obs.Is, "extract": obs.Extract}
			if obs.Code != m.Int("code") || obs.From != m.Str("from") || !reflect.DeepEqual(obs.Is, errsStrs(m["is"])) || obs.Extract != m.Bool("extract") {
				drift = &Failure{Step: i, Kind: "drift", Sig: "errs: table-driven model predicts other results after " + op, Got: got, Want: mod}
			}
		}
		if op == "GRPCWrap" || op == "Foreign" {
			o := obs
			prev = &o
		}
	}
	return drift
}

// errsCheckReq compares the real observations with the requirement record of
// the step (fields are present only where the property requires something):
//
//	is      : exactly this set of classes c has Is(v, c)              (class kept, no other class)
//	same    : GRPCWrap(v) is observably v again (code, class, Is, object, text), and if the previous
//	          step already was a GRPCWrap, v is observably the previous value (idempotence)
//	extract : the embedded object is extracted from v, with the embedded value
//	nonnil  : FromGRPCError(v) is not nil
//	one     : FromGRPCError(v) is the one class the probe saw for this code (field from), and
//	          Is(v, c) holds for at most one class c
func errsCheckReq(i int, op string, req Step, ch errsChain, obs errsObs, prev *errsObs) *Failure {
	if req.Has("is") {
		want := errsStrs(req["is"])
		if !reflect.DeepEqual(obs.Is, want) {
			sig := "errs: Is(GRPCWrap(err), other class) is true"
			if len(want) == 1 && !containsStr(obs.Is, want[0]) {
				sig = "errs: Is(GRPCWrap(err), class of err) is false"
			}
			return &Failure{Step: i, Sig: sig, Got: obs, Want: req}
		}
	}
	if req.Bool("same") {
		again := errsObserve(gerrors.GRPCWrap(ch.v), ch.obj)
		if !errsSameObs(again, obs) {
			return &Failure{Step: i, Sig: "errs: GRPCWrap is not idempotent", Got: again, Want: obs}
		}
		if req.Bool("second") && prev != nil && !errsSameObs(*prev, obs) {
			return &Failure{Step: i, Sig: "errs: GRPCWrap is not idempotent", Got: obs, Want: *prev}
		}
	}
	if req.Bool("extract") {
		if !obs.Extract {
			return &Failure{Step: i, Sig: "errs: embedded object is not extractable after GRPCWrap", Got: obs, Want: req}
		}
		if !obs.ObjEq {
			return &Failure{Step: i, Sig: "errs: object extracted after GRPCWrap differs from the embedded one", Got: obs, Want: req}
		}
	}
	if req.Bool("nonnil") && obs.From == "nil" {
		return &Failure{Step: i, Sig: "errs: a non-OK gRPC code maps back to nil", Got: obs, Want: req}
	}
	if req.Bool("one") {
		if len(obs.Is) > 1 {
			return &Failure{Step: i, Sig: "errs: one gRPC code maps back to more than one class", Got: obs, Want: req}
		}
		if obs.From != req.Str("from") {
			return &Failure{Step: i, Sig: "errs: one gRPC code maps back to different classes for different message texts", Got: obs, Want: req}
		}
	}
	return nil
}

func containsStr(a []string, s string) bool {
	for _, x := range a {
		if x == s {
			return true
		}
	}
	return false
}

// ---------------------------------------------------------------- probe

type errsTables struct {
	ClassToCode map[string]int
	CodeToClass [17]string
	Fallback    int
	Marker      string
	MarkerOK    bool
	NMsgs       int
}

func errsProbe() errsTables {
	t := errsTables{ClassToCode: map[string]int{}}
	for _, c := range errsClasses {
		t.ClassToCode[c.name] = int(gerrors.GRPCStatusCode(c.err))
	}
	for code := 0; code <= 16; code++ {
		t.CodeToClass[code] = errsClassName(gerrors.FromGRPCError(status.New(codes.Code(code), "probe").Err()))
	}
	t.Fallback = int(gerrors.GRPCStatusCode(errors.New("an error of no class")))
	t.Marker, t.MarkerOK = errsMarker()
	t.NMsgs = len(errsTexts(t.Marker))
	return t
}

// driveErrsProbe writes the generated module ErrTables.tla (opt.Out) holding the
// two tables as TLA+ functions, exactly as the compiled library answers.
func driveErrsProbe(opt *Options) error {
	var t errsTables
	if p, pv := callPanics(func() { t = errsProbe() }); p {
		return fmt.Errorf("probe panicked: %v", pv)
	}
	var sb strings.Builder
	sb.WriteString("----------------------------- MODULE ErrTables -----------------------------\n")
	sb.WriteString("(* GENERATED by `vh drive errs-probe` from the compiled library: do not edit. *)\n")
	sb.WriteString("(* ProbedClassToCode[k] = GRPCStatusCode(Err<k>)                               *)\n")
	sb.WriteString("(* ProbedCodeToClass[c] = FromGRPCError(status.New(c, \"probe\").Err())          *)\n")
	sb.WriteString("(* ProbedFallbackCode   = GRPCStatusCode(errors.New(...)), an error of no class *)\n")
	sb.WriteString("EXTENDS TLC\n\n")
	sb.WriteString("ProbedClassToCode ==\n")
	for i, c := range errsClasses {
		sep := "    "
		if i > 0 {
			sep = " @@ "
		}
		fmt.Fprintf(&sb, "   %s(%q :> %d)\n", sep, c.name, t.ClassToCode[c.name])
	}
	sb.WriteString("\nProbedCodeToClass ==\n")
	for code := 0; code <= 16; code++ {
		sep := "    "
		if code > 0 {
			sep = " @@ "
		}
		fmt.Fprintf(&sb, "   %s(%d :> %q)\n", sep, code, t.CodeToClass[code])
	}
	fmt.Fprintf(&sb, "\nProbedFallbackCode == %d\n", t.Fallback)
	sb.WriteString("=============================================================================\n")
	if err := os.WriteFile(opt.Out, []byte(sb.String()), 0o644); err != nil {
		return err
	}
	// the same facts for the evidence file
	ev := map[string]any{"class_to_code": t.ClassToCode, "code_to_class": t.CodeToClass, "fallback_code": t.Fallback,
		"marker": fmt.Sprintf("%q", t.Marker), "marker_probed": t.MarkerOK, "n_msgs": t.NMsgs}
	tw, err := NewTraceWriter(opt.Out + ".json")
	if err != nil {
		return err
	}
	tw.Emit(ev)
	return tw.Close()
}

// ---------------------------------------------------------------- driver

// errsRandText draws a random message text over an alphabet made of the
// marker's characters, JSON punctuation, colons and a few others; texts that
// contain the full marker are outside the property and are redrawn.
func errsRandText(rnd *rand.Rand, mk string, fixed []string) string {
	for {
		var t string
		switch rnd.Intn(4) {
		case 0:
			t = fixed[rnd.Intn(len(fixed))]
		case 1: // two fixed texts glued together
			t = fixed[rnd.Intn(len(fixed))] + fixed[rnd.Intn(len(fixed))]
		default:
			alpha := []rune(mk + mk + strings.ToUpper(mk) + `{}[]":, %\/=é✓` + "\n\t")
			n := rnd.Intn(12)
			r := make([]rune, n)
			for i := range r {
				r[i] = alpha[rnd.Intn(len(alpha))]
			}
			t = string(r)
		}
		if !strings.Contains(t, mk) {
			return t
		}
	}
}

// driveErrs records, for seeded random chains (random class, depth 0..6, the
// object embedded below a random layer or not at all, random texts, random %w
// formats), what the real functions answer about GRPCWrap(chain); and for
// every gRPC code with random texts what FromGRPCError answers.  TLC validates
// the records against the contract (ErrTrace.tla).
func driveErrs(opt *Options) error {
	tw, err := NewTraceWriter(opt.Out)
	if err != nil {
		return err
	}
	defer tw.Close()
	rnd := rand.New(rand.NewSource(opt.Seed))
	mk, _ := errsMarker()
	fixed := errsTexts(mk)
	maxDepth := 6
	if s, ok := opt.Extra["maxdepth"]; ok {
		fmt.Sscan(s, &maxDepth)
	}
	for t := 0; t < opt.N; t++ {
		if t%8 == 7 {
			code := rnd.Intn(17)
			op := "Code"
			if rnd.Intn(6) == 0 {
				// a status code beyond the seventeen the library knows (a newer peer, a proxy): no class is promised for
				// it, but nothing may panic and a non-OK code never maps to nil
				code, op = []int{17, 18, 42, 99, 1000, 65535}[rnd.Intn(6)], "CodeX"
			}
			v := status.New(codes.Code(code), errsRandText(rnd, mk, fixed)).Err()
			var obs errsObs
			ev := map[string]any{"op": op, "code": code}
			if p, pv := callPanics(func() { obs = errsObserve(v, nil) }); p {
				ev["crash"] = fmt.Sprint(pv)
			} else {
				ev["from"], ev["is"] = obs.From, obs.Is
			}
			tw.Emit(ev)
			continue
		}
		c := errsClasses[rnd.Intn(len(errsClasses))]
		depth := rnd.Intn(maxDepth + 1)
		emb := rnd.Intn(depth+2) - 1 // -1: no object; k: embedded when k layers were on
		ev := map[string]any{"op": "Chain", "class": c.name, "depth": depth, "emb": emb}
		p, pv := callPanics(func() {
			v := c.err
			if rnd.Intn(4) == 0 {
				// the class reached through an Is METHOD, as the errors of the os package do (a syscall.Errno inside a
				// *fs.PathError), not through identity with the sentinel
				switch c.name {
				case "NotExist":
					v = &fs.PathError{Op: "open", Path: "/no/such/file", Err: syscall.ENOENT}
				case "Exist":
					v = &fs.PathError{Op: "mkdir", Path: "/tmp", Err: syscall.EEXIST}
				case "NotAuthorized":
					v = &fs.PathError{Op: "open", Path: "/root/x", Err: syscall.EACCES}
				}
			}
			var obj *errsObj
			for d := 0; d <= depth; d++ {
				if emb == d {
					o := errsMakeObj(errsRandText(rnd, mk, fixed), rnd.Intn(1<<30))
					v, obj = gerrors.EmbedObject(o, v), &o
				}
				if d < depth {
					v = errsWrap(v, errsRandText(rnd, mk, fixed), rnd.Intn(42))
				}
			}
			w := gerrors.GRPCWrap(v)
			obs := errsObserve(w, obj)
			again := errsObserve(gerrors.GRPCWrap(w), obj)
			ev["code"], ev["from"], ev["is"] = obs.Code, obs.From, obs.Is
			ev["extract"] = obs.Extract && obs.ObjEq
			ev["same"] = errsSameObs(obs, again)
		})
		if p {
			ev["crash"] = fmt.Sprint(pv)
		}
		tw.Emit(ev)
	}
	return nil
}
