package main

import (
	"errors"
	"fmt"
	"os"
	"path/filepath"

	cbytes "github.com/acquirecloud/golibs/container/bytes"
	gerrors "github.com/acquirecloud/golibs/errors"
	"github.com/acquirecloud/golibs/files"
)

// X09: the bytes.Buffer interface against spec/extras/BytesBuf.tla (spec -> code), for both implementations:
// variant "inmem" (container/bytes.NewInMemBytes, a cell is one byte) and variant "mmfile" (files.MMFile, a cell is
// one 4096-byte block).  After every step the whole content is read back through Buffer(0, Size) and the slice the
// harness keeps (Hold) is compared with the cells it aliases.

func init() {
	replayers["x-bytesbuf"] = replayBytesBuf
}

func xbbErr(err error) string {
	switch {
	case err == nil:
		return "nil"
	case errors.Is(err, gerrors.ErrInvalid):
		return "invalid"
	}
	return "error"
}

func xbbErrOK(got, want string) bool {
	switch want {
	case "any":
		return true
	case "error":
		return got != "nil"
	}
	return got == want
}

// xbbCells: the slice as cell values (-1: a cell whose bytes differ from each other); ok=false if it is not a whole number of cells
func xbbCells(data []byte, unit int) ([]int, bool) {
	if len(data)%unit != 0 {
		return nil, false
	}
	res := make([]int, 0, len(data)/unit)
	for i := 0; i < len(data); i += unit {
		v := int(data[i])
		for _, c := range data[i : i+unit] {
			if int(c) != v {
				v = -1
				break
			}
		}
		res = append(res, v)
	}
	return res, true
}

func replayBytesBuf(b Behaviour, opt *Options) *Failure {
	unit := 1
	var st cbytes.Buffer
	name := "in-memory storage"
	if opt.Variant == "mmfile" {
		unit = files.BlockSize
		name = "MMFile"
	}
	sig := func(s string) string { return "x-bytesbuf: " + s + " [" + name + "]" }
	var held []byte
	for i, s := range b {
		op := s.Str("op")
		var f *Failure
		where := op
		fail := func(what string, got any) {
			if f == nil {
				f = &Failure{Step: i, Sig: sig(what), Got: got, Want: s}
			}
		}
		p, pv := callPanics(func() {
			switch op {
			case "New":
				if opt.Variant == "mmfile" {
					dir, err := os.MkdirTemp("", "vh-bytesbuf-")
					if err != nil {
						f = &Failure{Kind: "inconclusive", Sig: "harness: no temp dir"}
						return
					}
					defer os.RemoveAll(dir) // the mapping keeps working on the unlinked file
					mm, err := files.NewMMFile(filepath.Join(dir, "f.dat"), int64(s.Int("size")*unit))
					if err != nil {
						fail("constructor failed", fmt.Sprint(err))
						return
					}
					st = mm
				} else {
					st = cbytes.NewInMemBytes(s.Int("size") * unit)
				}
			case "Size":
				if got := st.Size(); got != int64(s.Int("size")*unit) {
					fail("Size() differs from contract", got)
				}
			case "Grow":
				err := st.Grow(int64(s.Int("size") * unit))
				if len(s.Ints("heldw")) == 0 {
					held = nil // the contract gives the kept slice up
				}
				if g := xbbErr(err); !xbbErrOK(g, s.Str("err")) {
					what := "Grow error class differs from contract (" + g + " instead of " + s.Str("err") + ")"
					if s.Bool("closed") {
						what = "Grow on a closed storage does not fail"
					}
					fail(what, fmt.Sprint(err))
				}
			case "Write", "Read", "Hold":
				buf, err := st.Buffer(int64(s.Int("offs")*unit), s.Int("n")*unit)
				if s.Int("offs") < 0 {
					buf, err = st.Buffer(-1, s.Int("n")*unit)
				}
				if g := xbbErr(err); !xbbErrOK(g, s.Str("err")) {
					fail("Buffer error class differs from contract ("+g+" instead of "+s.Str("err")+")", fmt.Sprint(err))
					return
				}
				if err != nil {
					return
				}
				if len(buf) != s.Int("k")*unit {
					fail("Buffer returns a slice of a different length than the contract", len(buf))
					return
				}
				switch op {
				case "Write":
					for j := range buf {
						buf[j] = byte(s.Int("v"))
					}
				case "Read":
					if got, ok := xbbCells(buf, unit); !ok || !xmmSameInts(got, s.Ints("data")) {
						fail("Buffer content differs from what was written", got)
					}
				case "Hold":
					held = buf
				}
			case "WriteHeld":
				for j := range held {
					held[j] = byte(s.Int("v"))
				}
			case "ReadHeld":
				if got, ok := xbbCells(held, unit); !ok || !xmmSameInts(got, s.Ints("data")) {
					fail("a kept slice does not show what was written through later slices", got)
				}
			case "Close":
				err := st.Close()
				held = nil
				if g := xbbErr(err); !xbbErrOK(g, s.Str("err")) {
					fail("Close error class differs from contract ("+g+" instead of "+s.Str("err")+")", fmt.Sprint(err))
				}
			default:
				f = &Failure{Step: i, Sig: "harness: unknown op " + op}
			}
			if f != nil || st == nil {
				return
			}
			// ---- what can be observed after the step
			where = "Buffer / Size after " + op
			all := s.Ints("all")
			if !s.Bool("isopen") {
				if _, err := st.Buffer(0, unit); err == nil {
					fail("Buffer on a closed storage does not fail (after "+op+")", nil)
				}
				return
			}
			if got := st.Size(); got != int64(len(all)*unit) {
				fail("Size() after "+op+" differs from contract", got)
				return
			}
			if len(all) > 0 {
				more := 1 + 6*(i%2) // one byte / a few bytes more than there is
				buf, err := st.Buffer(0, len(all)*unit+more)
				if err != nil {
					fail("Buffer(0, more than Size) fails after "+op, fmt.Sprint(err))
					return
				}
				if got, ok := xbbCells(buf, unit); !ok || !xmmSameInts(got, all) {
					fail("content after "+op+" differs from contract", got)
					return
				}
			} else if _, err := st.Buffer(0, unit); xbbErr(err) != "invalid" {
				fail("Buffer on an empty storage is not ErrInvalid", fmt.Sprint(err))
				return
			}
			if hw := s.Ints("heldw"); len(hw) == 2 {
				if got, ok := xbbCells(held, unit); !ok || !xmmSameInts(got, all[hw[0]:hw[0]+hw[1]]) {
					fail("a kept slice and the storage disagree after "+op, got)
				}
			}
		})
		if p {
			return &Failure{Step: i, Sig: sig(where + " panicked"), Got: fmt.Sprint(pv), Want: s}
		}
		if f != nil {
			if mm, ok := st.(*files.MMFile); ok {
				mm.Close()
			}
			return f
		}
	}
	if mm, ok := st.(*files.MMFile); ok {
		mm.Close()
	}
	return nil
}
