package main

import (
	"context"
	"encoding/json"
	"errors"
	"fmt"
	"math/rand"
	"os"
	"runtime"
	"sync"
	"sync/atomic"
	"time"

	gctx "github.com/acquirecloud/golibs/context"
	gerrors "github.com/acquirecloud/golibs/errors"
)

// X01: context.WithCancelError against spec/extras/CancelErr.tla (sequential behaviours, spec -> code)
// and spec/extras/CancelErrTrace.tla (recorded concurrent executions, code -> spec).

func init() {
	replayers["x-cancelerr"] = replayCancelErr
	drivers["x-cancelerr"] = driveCancelErr
}

var xceErrs = map[string]error{
	"e1": errors.New("user error one"),
	"e2": errors.New("user error two"),
	"e3": errors.New("user error three"),
}

// xceName maps an error of the real code to the name the specification uses.  User errors are
// compared by identity (Err() must report the very value given to cancel).
func xceName(err error) string {
	switch {
	case err == nil:
		return "none"
	case err == context.Canceled:
		return "canceled"
	case err == context.DeadlineExceeded:
		return "deadline"
	}
	for n, e := range xceErrs {
		if err == e {
			return n
		}
	}
	if errors.Is(err, gerrors.ErrClosed) {
		return "closed"
	}
	return "other:" + err.Error()
}

func xceArg(a string) error {
	if a == "nil" {
		return nil
	}
	return xceErrs[a]
}

type xceKey string

// xceProxy delegates to the library's context.  The standard library derives contexts from it (it
// does not know the type, so it starts a goroutine that waits on Done() and then reads Err()); a nil
// Err() at that point would make the standard library panic in a goroutine of its own, which would
// take the harness down: the proxy records it as an observation and answers with a placeholder.
type xceProxy struct {
	context.Context
	nilAfterDone *int32
}

var errXcePlaceholder = errors.New("placeholder")

func (p xceProxy) Err() error {
	select {
	case <-p.Context.Done():
		if err := p.Context.Err(); err != nil {
			return err
		}
		atomic.StoreInt32(p.nilAfterDone, 1)
		return errXcePlaceholder
	default:
	}
	return p.Context.Err()
}

const xceBound = 10 * time.Second // generous one-sided bound on "the child is cancelled after its parent"

type xceObj struct {
	parent       context.Context
	pcancel      context.CancelFunc
	child        context.Context
	cancel       gctx.CancelErrFunc
	desc         context.Context
	dcancel      context.CancelFunc
	nilAfterDone int32
}

func xceNew(kind string) *xceObj {
	o := &xceObj{}
	switch kind {
	case "bg":
		o.parent = context.Background()
	case "cancel":
		o.parent, o.pcancel = context.WithCancel(context.Background())
	case "value":
		p, pc := context.WithCancel(context.Background())
		o.parent, o.pcancel = context.WithValue(p, xceKey("k1"), "v1"), pc
	case "deadline":
		o.parent, o.pcancel = context.WithDeadline(context.Background(), time.Now().Add(time.Hour))
	case "expired":
		o.parent, o.pcancel = context.WithDeadline(context.Background(), time.Now().Add(-time.Hour))
	}
	o.child, o.cancel = gctx.WithCancelError(o.parent)
	o.desc, o.dcancel = context.WithCancel(context.WithValue(xceProxy{o.child, &o.nilAfterDone}, xceKey("d"), 1))
	return o
}

func (o *xceObj) cleanup() {
	callPanics(func() { o.cancel(nil) })
	if o.pcancel != nil {
		o.pcancel()
	}
	o.dcancel()
}

func xceIsDone(c context.Context) bool {
	select {
	case <-c.Done():
		return true
	default:
		return false
	}
}

func xceWaitDone(c context.Context, d time.Duration) bool {
	select {
	case <-c.Done():
		return true
	case <-time.After(d):
		return false
	}
}

// observe compares what a reader sees with the contract's (err, done) after a call.
func (o *xceObj) observe(op string, wantErr string, wantDone bool) (string, any) {
	if wantDone {
		if !xceWaitDone(o.child, xceBound) {
			return "x-cancelerr: Done() still open after " + op + " although the contract has the context cancelled", "open"
		}
		if e := xceName(o.child.Err()); e != wantErr {
			return "x-cancelerr: Err() after " + op + " differs from contract (" + xceClass(e) + " instead of " + xceClass(wantErr) + ")", e
		}
		if !xceIsDone(o.child) {
			return "x-cancelerr: Done() open after Err() was non-nil (" + op + ")", "open"
		}
		if !xceWaitDone(o.desc, xceBound) {
			return "x-cancelerr: a context derived from the child is not done although the child is (" + op + ")", "open"
		}
		if o.desc.Err() == nil || atomic.LoadInt32(&o.nilAfterDone) != 0 {
			return "x-cancelerr: Err() nil while Done() closed, seen by a derived context (" + op + ")", "nil"
		}
		return "", nil
	}
	// order 1: Err() first, Done() second;  order 2: Done() first, Err() second
	if e := xceName(o.child.Err()); e != "none" {
		return "x-cancelerr: Err() non-nil after " + op + " although the contract has the context live", e
	}
	if xceIsDone(o.child) {
		return "x-cancelerr: Done() closed after " + op + " although the contract has the context live", "closed"
	}
	if e := xceName(o.child.Err()); e != "none" {
		return "x-cancelerr: Err() non-nil after " + op + " although the contract has the context live", e
	}
	if xceIsDone(o.desc) {
		return "x-cancelerr: a derived context is done although the child is live (" + op + ")", "closed"
	}
	return "", nil
}

// xceClass keeps signatures stable: user errors are one class
func xceClass(n string) string {
	switch n {
	case "e1", "e2", "e3":
		return "user-error"
	}
	if len(n) > 6 && n[:6] == "other:" {
		return "other"
	}
	return n
}

func replayCancelErr(b Behaviour, opt *Options) *Failure {
	if len(b) == 0 || b[0].Str("op") != "New" {
		return &Failure{Step: 0, Sig: "harness: behaviour does not start with New"}
	}
	var o *xceObj
	if p, pv := callPanics(func() { o = xceNew(b[0].Str("kind")) }); p {
		return &Failure{Step: 0, Sig: "x-cancelerr: WithCancelError panicked", Got: fmt.Sprint(pv)}
	}
	defer o.cleanup()
	for i, s := range b {
		op := s.Str("op")
		var sig string
		var got any
		switch op {
		case "New", "Look":
		case "Cancel":
			if p, pv := callPanics(func() { o.cancel(xceArg(s.Str("arg"))) }); p {
				return &Failure{Step: i, Sig: "x-cancelerr: cancel function panicked", Got: fmt.Sprint(pv), Want: s}
			}
		case "ParentCancel":
			o.pcancel()
			if pe := xceName(o.parent.Err()); pe != s.Str("perr") {
				return &Failure{Step: i, Kind: "drift", Sig: "harness: parent error not as modelled", Got: pe, Want: s}
			}
		case "Race":
			var wg sync.WaitGroup
			start := make(chan struct{})
			var panicked int32
			wg.Add(2)
			go func() { defer wg.Done(); <-start; o.pcancel() }()
			go func() {
				defer wg.Done()
				<-start
				if p, _ := callPanics(func() { o.cancel(xceArg(s.Str("arg"))) }); p {
					atomic.StoreInt32(&panicked, 1)
				}
			}()
			close(start)
			wg.Wait()
			if panicked != 0 {
				return &Failure{Step: i, Sig: "x-cancelerr: cancel function panicked", Want: s}
			}
			if !xceWaitDone(o.child, xceBound) {
				return &Failure{Step: i, Sig: "x-cancelerr: Done() still open after Race although the contract has the context cancelled", Want: s}
			}
			e := xceName(o.child.Err())
			okv := false
			for _, a := range s["allowed"].([]any) {
				if a == e {
					okv = true
				}
			}
			if !okv {
				return &Failure{Step: i, Sig: "x-cancelerr: Err() after Race is neither the parent's error nor the first cancel's (" + xceClass(e) + ")", Got: e, Want: s}
			}
			if e != s.Str("err") {
				// the other allowed winner: this behaviour's continuation assumes the other branch (not reproduced, not judged)
				if sig, got = o.observe(op, e, true); sig != "" {
					return &Failure{Step: i, Sig: sig, Got: got, Want: s}
				}
				return nil
			}
		case "Deadline":
			d1, ok1 := o.child.Deadline()
			d2, ok2 := o.parent.Deadline()
			if ok1 != ok2 || !d1.Equal(d2) || ok1 != s.Bool("has") {
				return &Failure{Step: i, Sig: "x-cancelerr: Deadline() is not the parent's", Got: fmt.Sprint(d1, ok1), Want: fmt.Sprint(d2, ok2)}
			}
		case "Value":
			v := o.child.Value(xceKey(s.Str("key")))
			g := "nil"
			if v != nil {
				g = fmt.Sprint(v)
			}
			if g != s.Str("val") {
				return &Failure{Step: i, Sig: "x-cancelerr: Value() is not the parent's", Got: g, Want: s}
			}
		default:
			return &Failure{Step: i, Sig: "harness: unknown op " + op}
		}
		if sig, got = o.observe(op, s.Str("err"), s.Bool("done")); sig != "" {
			return &Failure{Step: i, Sig: sig, Got: got, Want: s}
		}
	}
	return nil
}

// driveCancelErr: mode=stress (default) records concurrent histories; mode=leak measures whether the
// goroutine WithCancelError starts ends once the context is cancelled.
func driveCancelErr(opt *Options) error {
	if opt.Extra["mode"] == "leak" {
		return xceLeak(opt)
	}
	tw, err := NewTraceWriter(opt.Out)
	if err != nil {
		return err
	}
	defer tw.Close()
	rnd := rand.New(rand.NewSource(opt.Seed))
	maxT := 4
	args := []string{"nil", "e1", "e2", "e3"}
	for h := 0; h < opt.N; h++ {
		tw.Emit(map[string]any{"e": "reset"})
		parent, pcancel := context.WithCancel(context.Background())
		child, cancel := gctx.WithCancelError(parent)
		nT := 2 + rnd.Intn(maxT-1)
		progs := make([][]Step, nT)
		for t := range progs {
			n := 1 + rnd.Intn(3)
			for k := 0; k < n; k++ {
				var s Step
				switch r := rnd.Intn(10); {
				case r < 3:
					s = Step{"op": "cancel", "arg": args[rnd.Intn(len(args))]}
				case r < 4:
					s = Step{"op": "pcancel"}
				case r < 6:
					s = Step{"op": "err"}
				case r < 8:
					s = Step{"op": "done"}
				default:
					// a reader woken by Done() reads Err() at once: the window "closed but no error yet" if there is one
					progs[t] = append(progs[t], Step{"op": "wait"})
					s = Step{"op": "err"}
				}
				progs[t] = append(progs[t], s)
			}
		}
		// one thread certainly cancels and never blocks before it does, so that every wait ends
		{
			t := rnd.Intn(nT)
			var prog []Step
			for _, s := range progs[t] {
				if s.Str("op") != "wait" {
					prog = append(prog, s)
				}
			}
			if rnd.Intn(3) == 0 {
				prog = append(prog, Step{"op": "pcancel"})
			} else {
				prog = append(prog, Step{"op": "cancel", "arg": args[rnd.Intn(len(args))]})
			}
			progs[t] = prog
		}
		run := func(t int, s Step) {
			inv := map[string]any{"e": "inv", "t": t, "op": s.Str("op")}
			if s.Has("arg") {
				inv["arg"] = s.Str("arg")
			}
			tw.Emit(inv)
			ret := map[string]any{"e": "ret", "t": t}
			switch s.Str("op") {
			case "cancel":
				if p, pv := callPanics(func() { cancel(xceArg(s.Str("arg"))) }); p {
					ret["panic"] = fmt.Sprint(pv)
				}
			case "pcancel":
				pcancel()
			case "err":
				ret["err"] = xceName(child.Err())
			case "done":
				ret["done"] = xceIsDone(child)
			case "wait":
				if !xceWaitDone(child, xceBound) {
					ret["timeout"] = true
					ret["e"] = "ret-timeout" // no action of the trace specification consumes it
				}
			}
			tw.Emit(ret)
		}
		var wg sync.WaitGroup
		start := make(chan struct{})
		for t := range progs {
			wg.Add(1)
			go func(t int) {
				defer wg.Done()
				<-start
				for _, s := range progs[t] {
					run(t+1, s)
					if t%2 == 0 {
						runtime.Gosched()
					}
				}
			}(t)
		}
		close(start)
		wg.Wait()
		// epilogue: the context is cancelled for good, with one error for every reader
		for _, op := range []string{"wait", "done", "err", "cancel", "err"} {
			s := Step{"op": op}
			if op == "cancel" {
				s["arg"] = "e3"
			}
			run(1, s)
		}
		pcancel()
	}
	return nil
}

func xceLeak(opt *Options) error {
	n := opt.N
	time.Sleep(50 * time.Millisecond)
	base := runtime.NumGoroutine()
	var cancels []func()
	peak := base
	for i := 0; i < n; i++ {
		switch i % 3 {
		case 0: // live parent, cancel function called
			_, cancel := gctx.WithCancelError(context.Background())
			cancels = append(cancels, func() { cancel(nil) })
		case 1: // cancellable parent that stays live, cancel function called
			p, pc := context.WithCancel(context.Background())
			_, cancel := gctx.WithCancelError(p)
			cancels = append(cancels, func() { cancel(xceErrs["e1"]); _ = pc })
		default: // parent cancelled, then (as the documentation requires) the cancel function is called
			p, pc := context.WithCancel(context.Background())
			_, cancel := gctx.WithCancelError(p)
			cancels = append(cancels, func() { pc(); cancel(nil) })
		}
	}
	if g := runtime.NumGoroutine(); g > peak {
		peak = g
	}
	for _, c := range cancels {
		c()
	}
	deadline := time.Now().Add(xceBound)
	left := 0
	for {
		left = runtime.NumGoroutine() - base
		if left <= 2 || time.Now().After(deadline) {
			break
		}
		time.Sleep(5 * time.Millisecond)
	}
	out, _ := json.Marshal(map[string]any{"contexts": n, "goroutines_before": base, "goroutines_peak": peak, "goroutines_left": left})
	return os.WriteFile(opt.Out, out, 0o644)
}
