package main

import (
	"fmt"
	"sync/atomic"
	"time"

	"github.com/acquirecloud/golibs/chans"
)

// X02: chans.WriteToManyWithControl against spec/extras/ChanSelect.tla and chans.IsOpened against
// spec/extras/IsOpened.tla (spec -> code).  Which of several ready cases the real select takes, and
// whether IsOpened consumes, is OBSERVED: the real outcome must be one the contract allows; when it is
// not the one the behaviour continues with, the behaviour ends there (not reproduced, not judged).

func init() {
	replayers["x-chansel"] = replayChanSel
	replayers["x-isopened"] = replayIsOpened
}

// xBound is the generous one-sided bound on "it happens once it can".  After a few expiries in one
// process the verdict is established (each was judged with the full bound) and the remaining behaviours
// use a short bound so that a broken library does not cost hours.
var xExpired int32

func xBound() time.Duration {
	if atomic.LoadInt32(&xExpired) >= 3 {
		return 250 * time.Millisecond
	}
	return 10 * time.Second
}

func xExpire() { atomic.AddInt32(&xExpired, 1) }

const (
	xchWindow = 12 * time.Millisecond // how long a call that must block is watched (returning early is wrong at any time)
)

type xchRes struct {
	idx   int
	ok    bool
	panic bool
	pv    any
}

func replayChanSel(b Behaviour, opt *Options) *Failure {
	if len(b) == 0 || b[0].Str("op") != "New" {
		return &Failure{Step: 0, Sig: "harness: behaviour does not start with New"}
	}
	caps := b[0].Ints("caps")
	dnil, _ := b[0]["dnil"].([]any)
	n := len(caps)
	wch := make([]chan int, n)
	done := make([]chan struct{}, n)
	rcv := make([]chan int, n) // what parked receivers got
	descs := make([]chans.WriteDesc[int], n)
	for i := 0; i < n; i++ {
		wch[i] = make(chan int, caps[i])
		rcv[i] = make(chan int, 8)
		if nl, _ := dnil[i].(bool); !nl {
			done[i] = make(chan struct{})
		}
		descs[i] = chans.WriteDesc[int]{DoneChan: done[i], WrtChan: wch[i]}
	}
	closedDone := make([]bool, n)
	prevParked := make([]int, n)
	var pending chan xchRes
	defer func() { // let every goroutine of this behaviour end
		for i := 0; i < n; i++ {
			if done[i] != nil && !closedDone[i] {
				close(done[i])
			}
			select {
			case wch[i] <- -1:
			default:
			}
			select {
			case <-wch[i]:
			default:
			}
		}
	}()
	lens := func() []int {
		r := make([]int, n)
		for i := range wch {
			r[i] = len(wch[i])
		}
		return r
	}
	wait := func(ch chan xchRes, d time.Duration) (xchRes, bool) {
		select {
		case r := <-ch:
			return r, true
		case <-time.After(d):
			if d >= 250*time.Millisecond {
				xExpire()
			}
			return xchRes{}, false
		}
	}
	// checkRet: a blocked call must now return exactly (idx, ok) as the step says
	checkRet := func(i int, s Step) *Failure {
		r, ok := wait(pending, xBound())
		pending = nil
		if !ok {
			return &Failure{Step: i, Sig: "x-chansel: blocked call does not return after " + s.Str("op") + " made a case ready", Want: s}
		}
		if r.panic {
			return &Failure{Step: i, Sig: "x-chansel: call panicked", Got: fmt.Sprint(r.pv), Want: s}
		}
		if r.idx != s.Int("idx") || r.ok != s.Bool("ok") {
			return &Failure{Step: i, Sig: "x-chansel: blocked call released by " + s.Str("op") + " reports a different (index, flag)", Got: fmt.Sprint(r.idx, r.ok), Want: s}
		}
		return nil
	}
	for i := 1; i < len(b); i++ {
		s := b[i]
		op := s.Str("op")
		before := lens()
		switch op {
		case "Call":
			v := s.Int("v")
			ch := make(chan xchRes, 1)
			go func() {
				var r xchRes
				r.panic, r.pv = callPanics(func() { r.idx, r.ok = chans.WriteToManyWithControl(descs, v) })
				ch <- r
			}()
			if s.Bool("blocks") {
				if r, ok := wait(ch, xchWindow); ok {
					if r.panic {
						return &Failure{Step: i, Sig: "x-chansel: call panicked", Got: fmt.Sprint(r.pv), Want: s}
					}
					return &Failure{Step: i, Sig: "x-chansel: call returned although no case was ready", Got: fmt.Sprint(r.idx, r.ok), Want: s}
				}
				pending = ch
				break
			}
			r, ok := wait(ch, xBound())
			if !ok {
				return &Failure{Step: i, Sig: "x-chansel: call blocks although a case is ready", Want: s}
			}
			if r.panic {
				return &Failure{Step: i, Sig: "x-chansel: call panicked", Got: fmt.Sprint(r.pv), Want: s}
			}
			allowed := false
			for _, a := range s["allowed"].([]any) {
				m := a.(map[string]any)
				if int(m["idx"].(float64)) == r.idx && m["ok"].(bool) == r.ok {
					allowed = true
				}
			}
			if !allowed {
				kind := "a write channel that was not ready"
				if !r.ok {
					kind = "a done channel that is not closed"
				}
				if r.idx < 0 || r.idx >= n {
					kind = "an index out of range"
				}
				return &Failure{Step: i, Sig: "x-chansel: call reports " + kind, Got: fmt.Sprint(r.idx, r.ok), Want: s}
			}
			// exactly one place received the value, and it is the reported one (real observations only)
			after := lens()
			delivered := -1
			for j := 0; j < n; j++ {
				d := after[j] - before[j]
				if d != 0 && !(d == 1 && r.ok && j == r.idx) {
					return &Failure{Step: i, Sig: "x-chansel: a channel other than the reported one changed", Got: map[string]any{"before": before, "after": after, "ret": fmt.Sprint(r.idx, r.ok)}, Want: s}
				}
				if d == 1 {
					delivered = j
				}
			}
			if r.ok && (delivered < 0 || prevParked[r.idx] == 1) {
				// it went (directly, or through the buffer if the receiver was not blocked yet) to the receiver parked there
				select {
				case got := <-rcv[r.idx]:
					if got != v {
						return &Failure{Step: i, Sig: "x-chansel: receiver got a different value", Got: got, Want: s}
					}
				case <-time.After(xBound()):
					xExpire()
					return &Failure{Step: i, Sig: "x-chansel: write reported but the value arrived nowhere", Got: fmt.Sprint(r.idx, r.ok), Want: s}
				}
			}
			if r.idx != s.Int("idx") || r.ok != s.Bool("ok") {
				return nil // another allowed case was taken: the rest of this behaviour assumes the other branch
			}
		case "CallEmpty":
			if p, _ := callPanics(func() { chans.WriteToManyWithControl(descs, 1) }); !p {
				return &Failure{Step: i, Sig: "x-chansel: empty descriptor list does not panic", Want: s}
			}
		case "CloseDone":
			j := s.Int("i")
			close(done[j])
			closedDone[j] = true
			if s.Bool("ret") {
				if f := checkRet(i, s); f != nil {
					return f
				}
			}
		case "Recv":
			j := s.Int("i")
			select {
			case got := <-wch[j]:
				if got != s.Int("v") {
					return &Failure{Step: i, Sig: "x-chansel: channel holds a different value than the one sent to it", Got: got, Want: s}
				}
			default:
				return &Failure{Step: i, Sig: "x-chansel: reported write is not in the channel", Want: s}
			}
			if s.Bool("ret") {
				if f := checkRet(i, s); f != nil {
					return f
				}
			}
		case "Park":
			j := s.Int("i")
			go func() { rcv[j] <- <-wch[j] }()
			if s.Bool("ret") {
				if f := checkRet(i, s); f != nil {
					return f
				}
				select {
				case got := <-rcv[j]:
					if got != s.Int("got") {
						return &Failure{Step: i, Sig: "x-chansel: receiver got a different value", Got: got, Want: s}
					}
				case <-time.After(xBound()):
					xExpire()
					return &Failure{Step: i, Sig: "x-chansel: write reported but the value arrived nowhere", Want: s}
				}
			}
		default:
			return &Failure{Step: i, Sig: "harness: unknown op " + op}
		}
		// state after the step: buffer lengths as the contract has them; nothing delivered that was not reported
		if pending != nil && op != "Call" {
			select {
			case r := <-pending:
				return &Failure{Step: i, Sig: "x-chansel: call returned although no case was ready", Got: fmt.Sprint(r.idx, r.ok), Want: s}
			default:
			}
		}
		want := s.Ints("lens")
		got := lens()
		for j := range want {
			// a receiver that had not reached its receive yet takes the value out of the buffer a moment later
			for dl := time.Now().Add(2 * time.Second); got[j] != want[j] && prevParked[j] == 1 && time.Now().Before(dl); got = lens() {
				time.Sleep(100 * time.Microsecond)
			}
			if got[j] != want[j] {
				return &Failure{Step: i, Sig: "x-chansel: channel contents after " + op + " differ from contract", Got: got, Want: s}
			}
			select {
			case v := <-rcv[j]:
				return &Failure{Step: i, Sig: "x-chansel: a parked receiver got a value no call reported", Got: v, Want: s}
			default:
			}
		}
		prevParked = s.Ints("parked")
	}
	if pending != nil { // the last step left the call blocked: it must still be blocked
		if r, ok := wait(pending, xchWindow); ok {
			return &Failure{Step: len(b) - 1, Sig: "x-chansel: call returned although no case was ready", Got: fmt.Sprint(r.idx, r.ok)}
		}
	}
	return nil
}

// ---- IsOpened -----------------------------------------------------------------------------------------

func replayIsOpened(b Behaviour, opt *Options) *Failure {
	if len(b) == 0 || b[0].Str("op") != "New" {
		return &Failure{Step: 0, Sig: "harness: behaviour does not start with New"}
	}
	c := b[0].Int("cap")
	ch := make(chan int, c)
	var started, finished int32 // parked senders started / returned
	closed := false
	defer func() {
		for k := 0; k < 4; k++ { // release a parked sender
			select {
			case <-ch:
			default:
			}
		}
	}()
	parkedNow := func() int { return int(atomic.LoadInt32(&started) - atomic.LoadInt32(&finished)) }
	waitFinished := func(n int32, d time.Duration, count bool) bool {
		dl := time.Now().Add(d)
		for atomic.LoadInt32(&finished) < n {
			if time.Now().After(dl) {
				if count {
					xExpire()
				}
				return false
			}
			time.Sleep(50 * time.Microsecond)
		}
		return true
	}
	inflightPrev := 0
	for i := 1; i < len(b); i++ {
		s := b[i]
		op := s.Str("op")
		switch op {
		case "Send":
			v := s.Int("v")
			if s.Bool("parks") {
				ready := make(chan struct{})
				go func() {
					defer func() { recover(); atomic.AddInt32(&finished, 1) }()
					close(ready)
					ch <- v
				}()
				atomic.AddInt32(&started, 1)
				<-ready
				time.Sleep(500 * time.Microsecond) // let it reach the send
			} else {
				select {
				case ch <- v:
				default:
					return &Failure{Step: i, Kind: "drift", Sig: "harness: send would block where the model has room"}
				}
			}
		case "Close":
			close(ch)
			closed = true
		case "Recv":
			switch s.Str("got") {
			case "value":
				select {
				case v, ok := <-ch:
					if !ok || v != s.Int("v") {
						return &Failure{Step: i, Sig: "x-isopened: a value that IsOpened must have left in the channel is gone or out of order", Got: fmt.Sprint(v, ok), Want: s}
					}
				case <-time.After(xBound()):
					xExpire()
					return &Failure{Step: i, Sig: "x-isopened: a value that IsOpened must have left in the channel is gone or out of order", Got: "nothing to receive", Want: s}
				}
			default:
				select {
				case v, ok := <-ch:
					if ok {
						return &Failure{Step: i, Sig: "x-isopened: a value reappears that was consumed", Got: v, Want: s}
					}
					if s.Str("got") != "closed" {
						return &Failure{Step: i, Sig: "x-isopened: channel was closed by IsOpened", Want: s}
					}
				default:
					if s.Str("got") == "closed" {
						return &Failure{Step: i, Kind: "drift", Sig: "harness: closed channel does not report closed"}
					}
				}
			}
		case "IsOpened":
			before := len(ch)
			parkedBefore := inflightPrev > c
			finBefore := atomic.LoadInt32(&finished)
			var res bool
			if p, pv := callPanics(func() { res = chans.IsOpened(ch) }); p {
				return &Failure{Step: i, Sig: "x-isopened: IsOpened panicked", Got: fmt.Sprint(pv), Want: s}
			}
			after := len(ch)
			consumed := 0
			switch {
			case after < before:
				consumed = before - after
			case after > before:
				return &Failure{Step: i, Sig: "x-isopened: channel grew during IsOpened", Want: s}
			case parkedBefore:
				// the parked sender's value moved in if something was taken: it returns then
				if waitFinished(finBefore+1, 3*xBound()/10, false) {
					consumed = 1
				}
			}
			if consumed > 1 {
				return &Failure{Step: i, Sig: "x-isopened: more than one value consumed", Got: consumed, Want: s}
			}
			okRes := false
			for _, a := range s["resAllowed"].([]any) {
				if a == res {
					okRes = true
				}
			}
			if !okRes {
				return &Failure{Step: i, Sig: fmt.Sprintf("x-isopened: IsOpened answered %v (closed=%v, empty=%v)", res, closed, inflightPrev == 0), Got: res, Want: s}
			}
			if consumed == 1 && !s.Bool("mayConsume") {
				return &Failure{Step: i, Sig: "x-isopened: consumed from an empty channel", Want: s}
			}
			if res != s.Bool("res") || (consumed == 1) != s.Bool("consumed") {
				return nil // the other allowed outcome: the rest of the behaviour assumes the other branch
			}
		default:
			return &Failure{Step: i, Sig: "harness: unknown op " + op}
		}
		// values in flight = buffered + held by the parked sender
		want := s.Int("inflight")
		wantParked := 0
		if want > c {
			wantParked = 1
		}
		if wantParked == 0 && !waitFinished(atomic.LoadInt32(&started), xBound(), true) {
			return &Failure{Step: i, Sig: "x-isopened: parked sender not released although the channel has room", Want: s}
		}
		if got := len(ch) + parkedNow(); got != want {
			return &Failure{Step: i, Sig: "x-isopened: number of values in the channel after " + op + " differs from contract", Got: got, Want: s}
		}
		inflightPrev = want
	}
	return nil
}
