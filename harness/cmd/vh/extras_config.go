package main

import (
	"encoding/json"
	"fmt"
	"math/rand"
	"os"
	"path/filepath"
	"sort"
	"strconv"
	"strings"
	"sync"

	"github.com/acquirecloud/golibs/config"
	"github.com/acquirecloud/golibs/errors"
	"github.com/acquirecloud/golibs/logging"
)

// X07: the configuration enricher (config/enricher.go, config.go) against spec/extras/ConfigEnricher.tla.
//
// spec -> code: every behaviour TLC generated (New(value); then ApplyOther / key-value calls / document loads) is
// executed on a real Enricher[xcT]; after every call Value() must be the value the contract prescribes (or, in the
// corners the contract leaves open, one of the values it allows - the behaviour is then not continued).  Every call
// is also made through the other routes the contract declares equivalent, each on a fresh enricher holding a deep
// copy of the value before the call: ApplyEnvVariables (real environment variables) and LoadJSONAndApply for a
// key-value call, the other file format and the LoadFromJSONFile / LoadFromYAMLFile entry points for a document.
// Every behaviour ends with the probes of the clauses that change nothing (empty file name, missing file, unknown
// extension, ApplyOther of a zero value and of the value itself, an empty key-value map).
//
// code -> spec: drivers["x-config"] runs long random call sequences (random case of keys, prefix and separator)
// and records call + Value() for TLC (ConfigEnricherTrace.tla).

// xcT is the Go rendering of Schema in ConfigEnricher.tla - keep the two in step.
type xcLeaf struct {
	X int
}

type xcInner struct {
	Val  int
	Note string `json:"memo"`
	Sub  xcLeaf
}

type xcT struct {
	Port    int
	Name    string `json:"title"`
	NameSfx string
	Debug   bool
	In      xcInner
	Ptr     *xcInner `json:"ref,omitempty"` // the alias is what precedes the comma
	Opt     *string
	Tags    []string
	hidden  int
}

func init() {
	replayers["x-config"] = replayConfig
	drivers["x-config"] = driveConfig
}

var xcOnce sync.Once
var xcEnvMu sync.Mutex // the environment is process-wide

// ---- trees (the JSON form of the spec's struct values) <-> xcT ------------------------------------------------

func xcInt(v any) int {
	f, _ := v.(float64)
	return int(f)
}

func xcInnerFrom(m map[string]any) xcInner {
	s, _ := m["Note"].(string)
	sub, _ := m["Sub"].(map[string]any)
	return xcInner{Val: xcInt(m["Val"]), Note: s, Sub: xcLeaf{X: xcInt(sub["X"])}}
}

func xcFromTree(t any) xcT {
	m, _ := t.(map[string]any)
	var v xcT
	v.Port = xcInt(m["Port"])
	v.Name, _ = m["Name"].(string)
	v.NameSfx, _ = m["NameSfx"].(string)
	v.Debug, _ = m["Debug"].(bool)
	if in, ok := m["In"].(map[string]any); ok {
		v.In = xcInnerFrom(in)
	}
	if p, ok := m["Ptr"].([]any); ok && len(p) == 1 {
		in := xcInnerFrom(p[0].(map[string]any))
		v.Ptr = &in
	}
	if o, ok := m["Opt"].([]any); ok && len(o) == 1 {
		str, _ := o[0].(string)
		v.Opt = &str
	}
	if tg, ok := m["Tags"].([]any); ok && len(tg) > 0 {
		for _, x := range tg {
			s, _ := x.(string)
			v.Tags = append(v.Tags, s)
		}
	}
	v.hidden = xcInt(m["hidden"])
	return v
}

func xcInnerTree(in xcInner) map[string]any {
	return map[string]any{"Val": in.Val, "Note": in.Note, "Sub": map[string]any{"X": in.Sub.X}}
}

func xcToTree(v xcT) map[string]any {
	ptr := []any{}
	if v.Ptr != nil {
		ptr = append(ptr, xcInnerTree(*v.Ptr))
	}
	opt := []any{}
	if v.Opt != nil {
		opt = append(opt, *v.Opt)
	}
	tags := []any{} // nil and empty slices are not distinguished (left open by the contract)
	for _, s := range v.Tags {
		tags = append(tags, s)
	}
	return map[string]any{"Port": v.Port, "Name": v.Name, "NameSfx": v.NameSfx, "Debug": v.Debug, "In": xcInnerTree(v.In),
		"Ptr": ptr, "Opt": opt, "Tags": tags, "hidden": v.hidden}
}

// xcCanon: canonical text of a tree (encoding/json sorts map keys; numbers print alike for int and float64)
func xcCanon(t any) string {
	b, _ := json.Marshal(t)
	return string(b)
}

func xcClone(v xcT) xcT {
	c := v
	if v.Ptr != nil {
		in := *v.Ptr
		c.Ptr = &in
	}
	if v.Opt != nil {
		o := *v.Opt
		c.Opt = &o
	}
	if v.Tags != nil {
		c.Tags = append([]string{}, v.Tags...)
	}
	return c
}

// xcDiff names the top-level fields in which two trees differ (part of the failure signature)
func xcDiff(got, want map[string]any) string {
	var d []string
	for _, k := range []string{"Port", "Name", "NameSfx", "Debug", "In", "Ptr", "Opt", "Tags", "hidden"} {
		if xcCanon(got[k]) != xcCanon(want[k]) {
			d = append(d, k)
		}
	}
	return strings.Join(d, ",")
}

// ---- documents ---------------------------------------------------------------------------------------------------

func xcYAMLScalar(v any) string {
	switch x := v.(type) {
	case string:
		return strconv.Quote(x)
	case float64:
		return strconv.Itoa(int(x))
	case int:
		return strconv.Itoa(x)
	case bool:
		return strconv.FormatBool(x)
	}
	return "null"
}

// xcYAML renders a document (maps, lists of scalars, scalars) as block-style YAML
func xcYAML(doc map[string]any, indent string, sb *strings.Builder) {
	keys := make([]string, 0, len(doc))
	for k := range doc {
		keys = append(keys, k)
	}
	sort.Strings(keys)
	for _, k := range keys {
		switch x := doc[k].(type) {
		case map[string]any:
			if len(x) == 0 {
				sb.WriteString(indent + k + ": {}\n")
				continue
			}
			sb.WriteString(indent + k + ":\n")
			xcYAML(x, indent+"  ", sb)
		case []any:
			if len(x) == 0 {
				sb.WriteString(indent + k + ": []\n")
				continue
			}
			sb.WriteString(indent + k + ":\n")
			for _, it := range x {
				sb.WriteString(indent + "- " + xcYAMLScalar(it) + "\n")
			}
		default:
			sb.WriteString(indent + k + ": " + xcYAMLScalar(x) + "\n")
		}
	}
}

func xcDocTexts(doc map[string]any) (jsonText, yamlText string) {
	b, _ := json.Marshal(doc)
	var sb strings.Builder
	if len(doc) == 0 {
		sb.WriteString("{}\n")
	}
	xcYAML(doc, "", &sb)
	return string(b), sb.String()
}

// ---- the routes of a key-value call ---------------------------------------------------------------------------

func xcKVs(s Step) map[string]string {
	m, _ := s["kvs"].(map[string]any)
	r := map[string]string{}
	for k, v := range m {
		r[k], _ = v.(string)
	}
	return r
}

// xcEnvOK: can the map be handed over as environment variables without losing a key?
func xcEnvOK(kvs map[string]string) bool {
	seen := map[string]bool{}
	for k := range kvs {
		if k == "" || strings.ContainsAny(k, "=\x00") || seen[strings.ToLower(k)] {
			return false
		}
		seen[strings.ToLower(k)] = true
	}
	return true
}

// xcWithEnv runs f with exactly the given environment and restores the process environment afterwards
func xcWithEnv(kvs map[string]string, f func()) {
	xcEnvMu.Lock()
	defer xcEnvMu.Unlock()
	saved := os.Environ()
	os.Clearenv()
	defer func() {
		os.Clearenv()
		for _, kv := range saved {
			if i := strings.IndexByte(kv[1:], '='); i >= 0 {
				os.Setenv(kv[:i+1], kv[i+2:])
			}
		}
	}()
	for k, v := range kvs {
		os.Setenv(k, v)
	}
	f()
}

// ---- replay ------------------------------------------------------------------------------------------------------

type xcRun struct {
	dir   string
	nfile int
}

func (r *xcRun) file(name, text string) string {
	r.nfile++
	d := filepath.Join(r.dir, strconv.Itoa(r.nfile))
	os.MkdirAll(d, 0o755)
	p := filepath.Join(d, name)
	os.WriteFile(p, []byte(text), 0o644)
	return p
}

func xcAllowed(v xcT, s Step) (exact, allowed bool) {
	got := xcCanon(xcToTree(v))
	if got == xcCanon(s["tree"]) {
		return true, true
	}
	alts, _ := s["alts"].([]any)
	for _, a := range alts {
		if got == xcCanon(a) {
			return false, true
		}
	}
	return false, false
}

func replayConfig(b Behaviour, opt *Options) *Failure {
	xcOnce.Do(func() { logging.SetLevel(logging.ERROR) })
	dir, err := os.MkdirTemp("", "xcfg")
	if err != nil {
		return &Failure{Kind: "inconclusive", Sig: "harness: no temp dir"}
	}
	defer os.RemoveAll(dir)
	run := &xcRun{dir: dir}
	var e config.Enricher[xcT]
	for i, s := range b {
		op := s.Str("op")
		fail := func(route, what string, got any) *Failure {
			return &Failure{Step: i, Sig: "x-config: " + route + ": " + what, Got: got, Want: s}
		}
		// judge: the value a route left behind must be one the contract allows
		judge := func(route string, v xcT) *Failure {
			if _, ok := xcAllowed(v, s); !ok {
				want, _ := s["tree"].(map[string]any)
				return fail(route, "the value after the call is not one the contract allows (differs in "+xcDiff(xcToTree(v), want)+")", xcToTree(v))
			}
			return nil
		}
		if op == "New" {
			e = config.NewEnricher(xcFromTree(s["tree"]))
			if f := judge("NewEnricher", e.Value()); f != nil {
				return f
			}
			continue
		}
		prev := xcClone(e.Value())
		fresh := func() config.Enricher[xcT] { return config.NewEnricher(xcClone(prev)) }
		switch op {
		case "Other":
			other := config.NewEnricher(xcFromTree(s["other"]))
			var err error
			if p, pv := callPanics(func() { err = e.ApplyOther(other) }); p {
				if s.Bool("unexported") {
					return fail("ApplyOther", "panicked on a non-zero unexported field of the other value (contract: unexported fields are never updated)", fmt.Sprint(pv))
				}
				return fail("ApplyOther", "panicked", fmt.Sprint(pv))
			}
			if err != nil {
				return fail("ApplyOther", "returned an error for an enricher of the same type", err.Error())
			}
			if f := judge("ApplyOther", e.Value()); f != nil {
				return f
			}
			if xcCanon(xcToTree(other.Value())) != xcCanon(s["other"]) {
				return fail("ApplyOther", "changed the OTHER enricher's value", xcToTree(other.Value()))
			}
		case "KV":
			kvs := xcKVs(s)
			prefix, sep := s.Str("prefix"), s.Str("sep")
			panicSig := func(route string, pv any) *Failure {
				switch {
				case s.Bool("badvalue"):
					return fail(route, "panicked on a text the field cannot take (contract: that field is left alone, the other keys are applied)", fmt.Sprint(pv))
				case s.Bool("unexported"):
					return fail(route, "panicked on a key addressing an unexported field (contract: unexported fields are never updated)", fmt.Sprint(pv))
				}
				return fail(route, "panicked", fmt.Sprint(pv))
			}
			if p, pv := callPanics(func() { e.ApplyKeyValues(prefix, sep, kvs) }); p {
				return panicSig("ApplyKeyValues", pv)
			}
			if f := judge("ApplyKeyValues", e.Value()); f != nil {
				return f
			}
			if xcEnvOK(kvs) {
				c := fresh()
				var err error
				var p bool
				var pv any
				xcWithEnv(kvs, func() { p, pv = callPanics(func() { err = c.ApplyEnvVariables(prefix, sep) }) })
				if p {
					return panicSig("ApplyEnvVariables", pv)
				}
				if err != nil {
					return fail("ApplyEnvVariables", "returned an error", err.Error())
				}
				if f := judge("ApplyEnvVariables", c.Value()); f != nil {
					return f
				}
			}
			if prefix == "" && sep == "_" {
				c := fresh()
				txt, _ := json.Marshal(kvs)
				var err error
				if p, pv := callPanics(func() { err = config.LoadJSONAndApply(c, run.file("secrets", string(txt))) }); p {
					return panicSig("LoadJSONAndApply", pv)
				}
				if err != nil {
					return fail("LoadJSONAndApply", "returned an error for a readable JSON file", err.Error())
				}
				if f := judge("LoadJSONAndApply", c.Value()); f != nil {
					return f
				}
			}
		case "Load":
			doc, _ := s["doc"].(map[string]any)
			jt, yt := xcDocTexts(doc)
			type route struct {
				name string
				on   config.Enricher[xcT]
				load func(en config.Enricher[xcT]) error
			}
			mainJSON := (i+len(b))%2 == 0
			viaFile := func(ext, text string) func(en config.Enricher[xcT]) error {
				return func(en config.Enricher[xcT]) error { return en.LoadFromFile(run.file("doc"+ext, text)) }
			}
			routes := []route{
				{"LoadFromFile(.json)", nil, viaFile(".json", jt)},
				{"LoadFromFile(.yaml)", nil, viaFile(".yaml", yt)},
				{"LoadFromJSONFile", nil, func(en config.Enricher[xcT]) error { return en.LoadFromJSONFile(run.file("doc.cfg", jt)) }},
				{"LoadFromYAMLFile", nil, func(en config.Enricher[xcT]) error { return en.LoadFromYAMLFile(run.file("doc.cfg", yt)) }},
			}
			for k := range routes {
				routes[k].on = fresh()
			}
			if mainJSON {
				routes[0].on = e
			} else {
				routes[1].on = e
			}
			for _, r := range routes {
				var err error
				if p, pv := callPanics(func() { err = r.load(r.on) }); p {
					return fail(r.name, "panicked", fmt.Sprint(pv))
				}
				if err != nil {
					return fail(r.name, "returned an error for a well-formed document", err.Error())
				}
				if f := judge(r.name, r.on.Value()); f != nil {
					return f
				}
			}
		case "LoadBad":
			text := s.Str("text")
			for _, ext := range []string{".json", ".yaml"} {
				c := fresh()
				var err error
				if p, pv := callPanics(func() { err = c.LoadFromFile(run.file("bad"+ext, text)) }); p {
					return fail("LoadFromFile("+ext+")", "panicked on a document that cannot be parsed", fmt.Sprint(pv))
				}
				if err == nil {
					return fail("LoadFromFile("+ext+")", "returned nil for a document that cannot be parsed", nil)
				}
			}
		default:
			return fail("harness", "unknown op "+op, nil)
		}
		if s.Bool("open") {
			break
		}
		if exact, _ := xcAllowed(e.Value(), s); !exact {
			break // an allowed value, but not the one this behaviour continues with: another behaviour covers it
		}
	}
	if e == nil {
		return nil
	}
	return xcProbes(e, run, len(b)-1, b[len(b)-1])
}

// xcProbes: the clauses that change nothing, on the value the behaviour ended with
func xcProbes(e config.Enricher[xcT], run *xcRun, step int, last Step) *Failure {
	before := xcCanon(xcToTree(e.Value()))
	fail := func(route, what string, got any) *Failure {
		return &Failure{Step: step, Sig: "x-config: probe " + route + ": " + what, Got: got, Want: before}
	}
	type probe struct {
		name string
		call func() error
		want string // "nil", "notexist", "error"
	}
	zeroHidden := xcClone(e.Value())
	zeroHidden.hidden = 0
	probes := []probe{
		{"LoadFromFile(\"\")", func() error { return e.LoadFromFile("") }, "nil"},
		{"LoadFromJSONFile(\"\")", func() error { return e.LoadFromJSONFile("") }, "nil"},
		{"LoadFromYAMLFile(\"\")", func() error { return e.LoadFromYAMLFile("") }, "nil"},
		{"LoadFromFile(missing .json)", func() error { return e.LoadFromFile(filepath.Join(run.dir, "missing.json")) }, "notexist"},
		{"LoadFromFile(missing .yaml)", func() error { return e.LoadFromFile(filepath.Join(run.dir, "missing.yaml")) }, "notexist"},
		{"LoadFromFile(unknown extension)", func() error { return e.LoadFromFile(run.file("doc.txt", `{"port": 9}`)) }, "error"},
		{"ApplyOther(zero value)", func() error { return e.ApplyOther(config.NewEnricher(xcT{})) }, "nil"},
		{"ApplyOther(own value)", func() error { return e.ApplyOther(config.NewEnricher(zeroHidden)) }, "nil"},
		{"ApplyKeyValues(empty map)", func() error { e.ApplyKeyValues("app", "_", map[string]string{}); return nil }, "nil"},
		{"ApplyKeyValues(nil map)", func() error { e.ApplyKeyValues("", "_", nil); return nil }, "nil"},
	}
	for _, pr := range probes {
		var err error
		if p, pv := callPanics(func() { err = pr.call() }); p {
			return fail(pr.name, "panicked", fmt.Sprint(pv))
		}
		switch pr.want {
		case "nil":
			if err != nil {
				return fail(pr.name, "returned an error", err.Error())
			}
		case "notexist":
			if err == nil || !errors.Is(err, errors.ErrNotExist) {
				return fail(pr.name, "did not return an error of the ErrNotExist class", fmt.Sprint(err))
			}
		case "error":
			if err == nil {
				return fail(pr.name, "returned nil", nil)
			}
		}
		if after := xcCanon(xcToTree(e.Value())); after != before {
			return fail(pr.name, "changed the value", after)
		}
	}
	return nil
}

// ---- driver: long random call sequences, recorded for TLC ----------------------------------------------------------

// The driver draws its calls from a universe file the check script extracts from the behaviours TLC emitted (the
// spec's own other values, documents and key-value calls with their value texts - nothing is duplicated in Go).
// What is random: the sequence (40 calls per trace by default), the case of every letter of every key, prefix and
// separator, the file format and the route (ApplyKeyValues / ApplyEnvVariables / LoadJSONAndApply).  Every event
// carries the call as it was made and Value() after it; ConfigEnricherTrace.tla resolves the keys as written.
func xcRandCase(r *rand.Rand, s string) string {
	b := []byte(s)
	for i, c := range b {
		if c >= 'a' && c <= 'z' && r.Intn(2) == 0 {
			b[i] = c - 32
		} else if c >= 'A' && c <= 'Z' && r.Intn(2) == 0 {
			b[i] = c + 32
		}
	}
	return string(b)
}

func driveConfig(opt *Options) error {
	logging.SetLevel(logging.ERROR)
	raw, err := os.ReadFile(opt.Extra["universe"])
	if err != nil {
		return err
	}
	var uni struct {
		Inits  []map[string]any `json:"inits"`
		Others []map[string]any `json:"others"`
		Docs   []map[string]any `json:"docs"`
		KVs    []struct {
			Prefix string            `json:"prefix"`
			Sep    string            `json:"sep"`
			KVs    map[string]string `json:"kvs"`
			Skip   bool              `json:"skip"`
		} `json:"kvs"`
	}
	if err := json.Unmarshal(raw, &uni); err != nil {
		return err
	}
	tw, err := NewTraceWriter(opt.Out)
	if err != nil {
		return err
	}
	defer tw.Close()
	dir, err := os.MkdirTemp("", "xcfgd")
	if err != nil {
		return err
	}
	defer os.RemoveAll(dir)
	run := &xcRun{dir: dir}
	r := rand.New(rand.NewSource(opt.Seed))
	steps := 40
	if v, err := strconv.Atoi(opt.Extra["steps"]); err == nil {
		steps = v
	}
	for t := 0; t < opt.N; t++ {
		ii := r.Intn(len(uni.Inits))
		e := config.NewEnricher(xcFromTree(uni.Inits[ii]))
		tw.Emit(map[string]any{"op": "New", "tree": xcToTree(e.Value())})
		for k := 0; k < steps; k++ {
			ev := map[string]any{}
			var perr error
			p, pv := callPanics(func() {
				switch c := r.Intn(10); {
				case c < 2:
					j := r.Intn(len(uni.Others))
					if xcInt(uni.Others[j]["hidden"]) != 0 {
						j = 0
					}
					ev["op"], ev["other"] = "Other", uni.Others[j]
					perr = e.ApplyOther(config.NewEnricher(xcFromTree(uni.Others[j])))
				case c < 4:
					j := r.Intn(len(uni.Docs))
					ev["op"], ev["doc"] = "Load", uni.Docs[j]
					jt, yt := xcDocTexts(uni.Docs[j])
					switch r.Intn(4) {
					case 0:
						perr = e.LoadFromFile(run.file(xcRandCase(r, "d")+".json", jt))
					case 1:
						perr = e.LoadFromFile(run.file("d."+xcRandCase(r, "yaml"), yt))
					case 2:
						perr = e.LoadFromJSONFile(run.file("d", jt))
					default:
						perr = e.LoadFromYAMLFile(run.file("d", yt))
					}
				default:
					j := r.Intn(len(uni.KVs))
					for uni.KVs[j].Skip {
						j = r.Intn(len(uni.KVs))
					}
					c := uni.KVs[j]
					kvs := map[string]string{}
					for key, v := range c.KVs {
						kvs[xcRandCase(r, key)] = v
					}
					prefix, sep := xcRandCase(r, c.Prefix), xcRandCase(r, c.Sep)
					ev["op"], ev["prefix"], ev["sep"], ev["kvs"] = "KV", prefix, sep, kvs
					switch rt := r.Intn(3); {
					case rt == 0 && xcEnvOK(kvs):
						xcWithEnv(kvs, func() { perr = e.ApplyEnvVariables(prefix, sep) })
					case rt == 1 && prefix == "" && sep == "_":
						txt, _ := json.Marshal(kvs)
						perr = config.LoadJSONAndApply(e, run.file("secrets", string(txt)))
					default:
						e.ApplyKeyValues(prefix, sep, kvs)
					}
				}
			})
			if p {
				ev["e"], ev["crash"] = "crash", fmt.Sprint(pv)
			} else if perr != nil {
				ev["e"], ev["crash"] = "crash", "error: "+perr.Error()
			}
			ev["tree"] = xcToTree(e.Value())
			tw.Emit(ev)
		}
	}
	return nil
}
