package main

import (
	"context"
	"errors"
	"fmt"
	"math/rand"
	"sync"
	"sync/atomic"
	"time"

	gctx "github.com/acquirecloud/golibs/context"
	gerrors "github.com/acquirecloud/golibs/errors"
)

// X10: context.WrapChannel and context.Sleep against spec/extras/CtxWrap.tla (spec -> code) and
// spec/extras/CtxWrapTrace.tla (code -> spec: readers polling Err() while the channel is closed).
// Timing: only one-sided facts with generous bounds are judged (see the spec's header).

func init() {
	replayers["x-ctxwrap"] = replayCtxWrap
	drivers["x-ctxwrap"] = driveCtxWrap
}

const (
	xcwPrompt = 20 * time.Second // "promptly": the alternative is an hour
	xcwShort  = 20 * time.Millisecond
)

type xcwKey struct{ n int }

func xcwErrClass(err error) string {
	switch {
	case err == nil:
		return "nil"
	case errors.Is(err, gerrors.ErrClosed):
		return "closed"
	case errors.Is(err, context.Canceled):
		return "canceled"
	case errors.Is(err, context.DeadlineExceeded):
		return "deadline"
	}
	return "other:" + err.Error()
}

func xcwIsClosed(ch <-chan struct{}) bool {
	select {
	case <-ch:
		return true
	default:
		return false
	}
}

func xcwWaitClosed(ch <-chan struct{}, d time.Duration) bool {
	select {
	case <-ch:
		return true
	case <-time.After(d):
		return false
	}
}

type xcwKid struct {
	kind   string
	ctx    context.Context
	cancel context.CancelFunc
}

// after a few "does not return" verdicts the remaining behaviours are not run (each would wait for the bound again)
var xcwStuck int32

func replayCtxWrap(b Behaviour, opt *Options) *Failure {
	if atomic.LoadInt32(&xcwStuck) >= 3 {
		return &Failure{Kind: "inconclusive", Sig: "skipped after repeated Sleep calls that did not return"}
	}
	ch := make(chan struct{})
	chClosed := false
	var w context.Context
	var kids []xcwKid
	var sleeper chan error
	var errText string
	defer func() {
		if !chClosed {
			close(ch)
		}
		for _, k := range kids {
			if k.cancel != nil {
				k.cancel()
			}
		}
	}()
	ctxOf := func(c int) context.Context {
		if c == 0 {
			return w
		}
		return kids[c-1].ctx
	}
	for i, s := range b {
		op := s.Str("op")
		var f *Failure
		fail := func(what string, got any) {
			if f == nil {
				f = &Failure{Step: i, Sig: "x-ctxwrap: " + what, Got: got, Want: s}
			}
		}
		p, pv := callPanics(func() {
			switch op {
			case "Wrap":
				w = gctx.WrapChannel(ch)
			case "Err", "Deadline", "Value":
				// everything is read after every step, see below
			case "CloseCh":
				close(ch)
				chClosed = true
			case "Derive":
				var k xcwKid
				k.kind = s.Str("kind")
				switch k.kind {
				case "cancel":
					k.ctx, k.cancel = context.WithCancel(w)
				case "timeout":
					k.ctx, k.cancel = context.WithTimeout(w, time.Hour)
				case "value":
					k.ctx = context.WithValue(w, xcwKey{1}, "v")
				case "grand":
					k.ctx, k.cancel = context.WithCancel(context.WithValue(w, xcwKey{1}, "v"))
				}
				kids = append(kids, k)
			case "CancelKid":
				kids[s.Int("kid")-1].cancel()
			case "SleepStart":
				sleeper = make(chan error, 1)
				c := ctxOf(s.Int("on"))
				go func(res chan error) {
					defer func() {
						if p := recover(); p != nil {
							res <- fmt.Errorf("panic: %v", p)
						}
					}()
					res <- gctx.Sleep(c, time.Hour)
				}(sleeper)
			case "Sleep":
				d := map[string]time.Duration{"neg": -time.Second, "zero": 0, "short": xcwShort, "long": time.Hour}[s.Str("d")]
				c := ctxOf(s.Int("on"))
				res := make(chan error, 1)
				t0 := time.Now()
				go func() {
					defer func() {
						if p := recover(); p != nil {
							res <- fmt.Errorf("panic: %v", p)
						}
					}()
					res <- gctx.Sleep(c, d)
				}()
				var got string
				select {
				case err := <-res:
					got = xcwErrClass(err)
				case <-time.After(xcwPrompt):
					atomic.AddInt32(&xcwStuck, 1)
					fail("Sleep("+s.Str("d")+") does not return although it is due", nil)
					return
				}
				el := time.Since(t0)
				ok := false
				arr, _ := s["res"].([]any)
				for _, a := range arr {
					if a == got {
						ok = true
					}
				}
				if !ok {
					what := "Sleep on a done context returns " + got
					if len(arr) == 1 && arr[0] == "nil" {
						what = "Sleep on a live context returns " + got
					}
					fail(what, got)
					return
				}
				if got == "nil" && el < d {
					fail("Sleep returns nil before the duration has passed", el.String())
				}
			default:
				f = &Failure{Step: i, Sig: "harness: unknown op " + op}
			}
			if f != nil {
				return
			}
			// ---- a sleeper wakes up exactly when its context is done
			if s.Has("woke") {
				select {
				case err := <-sleeper:
					if g := xcwErrClass(err); g != s.Str("woke") {
						fail("Sleep interrupted by "+op+" returns "+g+" instead of the context's error", g)
					}
				case <-time.After(xcwPrompt):
					atomic.AddInt32(&xcwStuck, 1)
					fail("Sleep is not interrupted when its context is done by "+op, nil)
				}
				sleeper = nil
			} else if sleeper != nil {
				select {
				case err := <-sleeper:
					fail("Sleep(1h) on a live context returned", xcwErrClass(err))
					sleeper = nil
				default:
				}
			}
			if f != nil {
				return
			}
			// ---- what every reader must see after the step
			if w.Done() != (<-chan struct{})(ch) {
				fail("Done() is not the wrapped channel", nil)
				return
			}
			if dl, ok := w.Deadline(); ok || !dl.IsZero() {
				fail("Deadline() reports a deadline", dl.String())
				return
			}
			if v := w.Value(xcwKey{1}); v != nil {
				fail("Value() is not nil", fmt.Sprint(v))
				return
			}
			if v := w.Value("k"); v != nil {
				fail("Value() is not nil", fmt.Sprint(v))
				return
			}
			for r := 0; r < 2; r++ {
				err := w.Err()
				if g := xcwErrClass(err); g != s.Str("werr") {
					fail("Err() is "+g+" where the contract says "+s.Str("werr"), g)
					return
				}
				if err != nil {
					if errText == "" {
						errText = err.Error()
					} else if errText != err.Error() {
						fail("Err() reports different errors at different times", err.Error())
						return
					}
				}
			}
			if xcwIsClosed(w.Done()) != (s.Str("werr") != "nil") {
				fail("Done() and Err() disagree", nil)
				return
			}
			arr, _ := s["kerrs"].([]any)
			for j, a := range arr {
				want, _ := a.(string)
				k := kids[j]
				if want == "nil" {
					if xcwIsClosed(k.ctx.Done()) || k.ctx.Err() != nil {
						fail("a derived context ("+k.kind+") is done although neither it nor the channel was cancelled", xcwErrClass(k.ctx.Err()))
						return
					}
					continue
				}
				if !xcwWaitClosed(k.ctx.Done(), xcwPrompt) {
					fail("a derived context ("+k.kind+") is not done after the channel was closed / it was cancelled", nil)
					return
				}
				if g := xcwErrClass(k.ctx.Err()); g != want {
					fail("a derived context ("+k.kind+") reports "+g+" instead of "+want, g)
					return
				}
				if k.kind == "value" || k.kind == "grand" {
					if k.ctx.Value(xcwKey{1}) != "v" {
						fail("a derived value context lost its value", nil)
						return
					}
				}
			}
		})
		if p {
			return &Failure{Step: i, Sig: "x-ctxwrap: " + op + " panicked", Got: fmt.Sprint(pv), Want: s}
		}
		if f != nil {
			return f
		}
	}
	return nil
}

// driveCtxWrap: opt.N rounds; in each, R readers poll Err() (and Done) of one wrapper while the harness closes the
// channel at a random moment.  Events carry a global sequence (the order of the lines): "rb"/"re" = a read begins /
// ends with result, "cb"/"ce" = close begins / ends, "reset" starts a new round.
func driveCtxWrap(opt *Options) error {
	tw, err := NewTraceWriter(opt.Out)
	if err != nil {
		return err
	}
	defer tw.Close()
	rng := rand.New(rand.NewSource(opt.Seed))
	for round := 0; round < opt.N; round++ {
		tw.Emit(map[string]any{"op": "reset"})
		ch := make(chan struct{})
		w := gctx.WrapChannel(ch)
		readers := 2 + rng.Intn(2)
		reads := 2 + rng.Intn(3)
		spin := rng.Intn(200)
		var wg sync.WaitGroup
		start := make(chan struct{})
		for r := 1; r <= readers; r++ {
			wg.Add(1)
			go func(r int) {
				defer wg.Done()
				<-start
				for k := 0; k < reads; k++ {
					tw.Emit(map[string]any{"op": "rb", "r": r})
					var res string
					if p, pv := callPanics(func() { res = xcwErrClass(w.Err()) }); p {
						res = "panic:" + fmt.Sprint(pv)
					}
					done := xcwIsClosed(w.Done())
					tw.Emit(map[string]any{"op": "re", "r": r, "res": res, "done": done})
					if k%2 == 0 {
						time.Sleep(time.Duration(spin) * time.Microsecond)
					}
				}
			}(r)
		}
		close(start)
		time.Sleep(time.Duration(rng.Intn(300)) * time.Microsecond)
		tw.Emit(map[string]any{"op": "cb"})
		close(ch)
		tw.Emit(map[string]any{"op": "ce"})
		wg.Wait()
	}
	return nil
}
