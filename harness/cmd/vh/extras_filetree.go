package main

import (
	"bytes"
	"fmt"
	"io"
	"os"
	"path/filepath"
	"sort"
	"strings"

	"github.com/acquirecloud/golibs/files"
)

// X08: the directory-tree helpers of files/files.go against spec/extras/FileTree.tla (spec -> code).
// Every behaviour runs in a sandbox of its own (os.MkdirTemp): <tmp>/root is the abstract tree, <tmp>/zip holds
// archives.  Every path handed to the library or to an os call is checked to lie inside <tmp> first.  After every
// step the whole sandbox is read back and compared with the tree the contract prescribes.

func init() {
	replayers["x-files"] = replayFileTree
}

var xftLong = func() []byte {
	b := make([]byte, 70000)
	for i := range b {
		b[i] = byte('A' + i%23)
	}
	return b
}()

func xftData(c string) []byte {
	switch c {
	case "e":
		return []byte{}
	case "L":
		return xftLong
	}
	return []byte(c)
}

func xftClass(data []byte) string {
	for _, c := range []string{"e", "x", "L"} {
		if bytes.Equal(data, xftData(c)) {
			return c
		}
	}
	return fmt.Sprintf("?len=%d", len(data))
}

type xftBox struct {
	tmp, root, zip string
}

// inside panics (harness bug, never a verdict) when a path is not inside the sandbox
func (x *xftBox) inside(p string) string {
	c := filepath.Clean(p)
	if c != x.tmp && !strings.HasPrefix(c, x.tmp+string(os.PathSeparator)) {
		panic("harness: path outside the sandbox: " + p)
	}
	if !strings.HasPrefix(x.tmp, os.TempDir()) || len(x.tmp) <= len(os.TempDir())+1 {
		panic("harness: sandbox is not a temp dir: " + x.tmp)
	}
	return p
}

func xftSegs(v any) []string {
	arr, _ := v.([]any)
	res := make([]string, 0, len(arr))
	for _, a := range arr {
		s, _ := a.(string)
		if s == "" || strings.ContainsAny(s, "/\\.") {
			panic("harness: bad path segment")
		}
		res = append(res, s)
	}
	return res
}

// path of an abstract path in the given spelling
func (x *xftBox) path(v any, sp string) string {
	segs := xftSegs(v)
	rel := strings.Join(segs, string(os.PathSeparator))
	var p string
	switch sp {
	case "slash":
		p = filepath.Join(x.root, rel) + string(os.PathSeparator)
	case "dot":
		p = x.root + string(os.PathSeparator) + "." + string(os.PathSeparator) + rel
		if rel == "" {
			p = x.root + string(os.PathSeparator) + "."
		}
	default:
		p = filepath.Join(x.root, rel)
	}
	return x.inside(p)
}

// readTree: relative path -> "dir" | content class, of everything below root
func (x *xftBox) readTree() (map[string]string, error) {
	res := map[string]string{}
	var walk func(dir, rel string) error
	walk = func(dir, rel string) error {
		es, err := os.ReadDir(dir)
		if err != nil {
			return err
		}
		for _, e := range es {
			r := e.Name()
			if rel != "" {
				r = rel + "/" + e.Name()
			}
			full := filepath.Join(dir, e.Name())
			if e.IsDir() {
				res[r] = "dir"
				if len(res) > 200 {
					return fmt.Errorf("more than 200 entries")
				}
				if err := walk(full, r); err != nil {
					return err
				}
				continue
			}
			data, err := os.ReadFile(full)
			if err != nil {
				return err
			}
			res[r] = xftClass(data)
		}
		return nil
	}
	err := walk(x.root, "")
	return res, err
}

func xftWantTree(s Step) map[string]string {
	res := map[string]string{}
	arr, _ := s["tree"].([]any)
	for _, a := range arr {
		m, _ := a.(map[string]any)
		w, _ := m["w"].(string)
		res[strings.Join(xftSegs(m["p"]), "/")] = w
	}
	return res
}

func xftDiff(got, want map[string]string) string {
	var d []string
	for k, v := range want {
		if g, ok := got[k]; !ok {
			d = append(d, "missing "+k+"="+v)
		} else if g != v {
			d = append(d, k+" is "+g+" not "+v)
		}
	}
	for k, v := range got {
		if _, ok := want[k]; !ok {
			d = append(d, "unexpected "+k+"="+v)
		}
	}
	sort.Strings(d)
	return strings.Join(d, "; ")
}

// what kind of difference (stable part of a signature)
func xftDiffKind(got, want map[string]string) string {
	miss, extra, diff := false, false, false
	for k, v := range want {
		if g, ok := got[k]; !ok {
			miss = true
		} else if g != v {
			diff = true
		}
	}
	for k := range got {
		if _, ok := want[k]; !ok {
			extra = true
		}
	}
	var p []string
	if miss {
		p = append(p, "entries missing")
	}
	if extra {
		p = append(p, "unexpected entries")
	}
	if diff {
		p = append(p, "content or kind differs")
	}
	return strings.Join(p, ", ")
}

func xftErrClass(err error) string {
	if err == nil {
		return "nil"
	}
	return "error"
}

func xftErrOK(got, want string) bool { return want == "any" || got == want }

// chunkReader hands out the data in pieces (io.Copy must not depend on one big Read)
type chunkReader struct {
	data []byte
	n    int
}

func (c *chunkReader) Read(p []byte) (int, error) {
	if len(c.data) == 0 {
		return 0, io.EOF
	}
	k := c.n
	if k > len(p) {
		k = len(p)
	}
	if k > len(c.data) {
		k = len(c.data)
	}
	copy(p, c.data[:k])
	c.data = c.data[k:]
	return k, nil
}

func replayFileTree(b Behaviour, opt *Options) *Failure {
	tmp, err := os.MkdirTemp("", "vh-files-")
	if err != nil {
		return &Failure{Kind: "inconclusive", Sig: "harness: no temp dir"}
	}
	tmp, _ = filepath.EvalSymlinks(tmp)
	x := &xftBox{tmp: tmp, root: filepath.Join(tmp, "root"), zip: filepath.Join(tmp, "zip")}
	x.inside(x.root)
	defer func() {
		if strings.HasPrefix(x.tmp, os.TempDir()) && strings.Contains(filepath.Base(x.tmp), "vh-files-") {
			os.RemoveAll(x.tmp)
		}
	}()
	if os.Mkdir(x.root, 0o755) != nil || os.Mkdir(x.zip, 0o755) != nil {
		return &Failure{Kind: "inconclusive", Sig: "harness: cannot make the sandbox"}
	}
	for i := 1; i < len(b); i++ {
		s := b[i]
		op := s.Str("op")
		sp := s.Str("sp")
		spSfx := ""
		if sp == "dot" {
			spSfx = " (directory spelled with a '.' segment)"
		} else if sp == "slash" {
			spSfx = " (directory spelled with a trailing separator)"
		}
		var f *Failure
		fail := func(what string, got any) {
			if f == nil {
				f = &Failure{Step: i, Sig: "x-files: " + op + " " + what + spSfx, Got: got, Want: s}
			}
		}
		p, pv := callPanics(func() {
			switch op {
			case "Mk":
				pth := x.path(s["path"], "")
				var e error
				if s.Str("w") == "dir" {
					e = os.Mkdir(pth, 0o755)
				} else {
					e = os.WriteFile(pth, xftData(s.Str("w")), 0o644)
				}
				if e != nil {
					f = &Failure{Step: i, Kind: "inconclusive", Sig: "harness: cannot build the tree: " + e.Error()}
				}
			case "ListDir":
				fis := files.ListDir(x.path(s["path"], sp))
				got := []string{}
				for _, fi := range fis {
					if fi.IsDir() {
						got = append(got, fi.Name()+"=dir")
					} else {
						got = append(got, fmt.Sprintf("%s=file:%d", fi.Name(), fi.Size()))
					}
				}
				want := []string{}
				arr, _ := s["entries"].([]any)
				for _, a := range arr {
					m := a.(map[string]any)
					if m["w"] == "dir" {
						want = append(want, m["name"].(string)+"=dir")
					} else {
						want = append(want, fmt.Sprintf("%s=file:%d", m["name"], len(xftData(m["w"].(string)))))
					}
				}
				sort.Strings(got)
				sort.Strings(want)
				if strings.Join(got, ",") != strings.Join(want, ",") {
					what := "returns other entries than the directory holds"
					if len(got) < len(want) {
						what = "misses entries of the directory"
					} else if len(got) > len(want) {
						what = "returns entries that are not directly in the directory"
					}
					fail(what, got)
				}
			case "IsDirEmpty":
				empty, err := files.IsDirEmpty(x.path(s["path"], sp))
				if g := xftErrClass(err); !xftErrOK(g, s.Str("err")) {
					fail("error class differs from contract ("+g+" instead of "+s.Str("err")+")", fmt.Sprint(err))
				} else if empty != s.Bool("empty") {
					fail(fmt.Sprintf("answers %v for a directory where the contract says %v", empty, s.Bool("empty")), empty)
				}
			case "EnsureDirExists":
				err := files.EnsureDirExists(x.path(s["path"], sp))
				if g := xftErrClass(err); !xftErrOK(g, s.Str("err")) {
					w := ""
					if s.Has("why") {
						w = ", " + s.Str("why")
					}
					fail("error class differs from contract ("+g+" instead of "+s.Str("err")+w+")", fmt.Sprint(err))
				}
			case "WriteTo":
				err := files.WriteTo(x.path(s["path"], ""), &chunkReader{data: xftData(s.Str("data")), n: 1000})
				if g := xftErrClass(err); !xftErrOK(g, s.Str("err")) {
					fail("error class differs from contract ("+g+" instead of "+s.Str("err")+")", fmt.Sprint(err))
				}
			case "CreateRandom":
				dir := x.path(s["path"], "")
				before := map[string]bool{}
				if es, err := os.ReadDir(dir); err == nil {
					for _, e := range es {
						before[e.Name()] = true
					}
				}
				call := func() (string, error) {
					if s.Bool("mkdir") {
						return files.CreateRandomDir(dir, s.Str("prefix"))
					}
					return files.CreateRandomFileName(dir, s.Str("prefix"))
				}
				var names []string
				for k := 0; k < 2 && f == nil; k++ {
					name, err := call()
					if err != nil {
						fail("fails", fmt.Sprint(err))
						break
					}
					d, base := filepath.Split(name)
					switch {
					case filepath.Clean(d) != filepath.Clean(dir):
						fail("returns a name outside the given directory", name)
					case !strings.HasPrefix(base, s.Str("prefix")) || len(base) <= len(s.Str("prefix")):
						fail("returns a name without the prefix or without a random part", name)
					case before[base]:
						fail("returns the name of an existing entry", name)
					}
					if f != nil {
						break
					}
					x.inside(name)
					fi, serr := os.Stat(name)
					if s.Bool("mkdir") && (serr != nil || !fi.IsDir()) {
						fail("did not create the directory it names", name)
					} else if !s.Bool("mkdir") && serr == nil {
						fail("created something although it should only name it", name)
					}
					names = append(names, name)
				}
				if f == nil && len(names) == 2 && names[0] == names[1] {
					fail("returns the same name twice", names)
				}
				for _, nm := range names {
					if filepath.Clean(filepath.Dir(nm)) == filepath.Clean(dir) {
						os.Remove(x.inside(nm))
					}
				}
			case "RemoveFiles":
				start := x.path(s["path"], sp)
				var tf func(string, os.FileInfo) bool
				switch s.Str("test") {
				case "all":
					tf = func(string, os.FileInfo) bool { return true }
				case "files":
					tf = func(_ string, fi os.FileInfo) bool { return !fi.IsDir() }
				case "notb":
					tf = func(_ string, fi os.FileInfo) bool { return fi.Name() != "b" }
				case "top":
					tf = func(p string, _ os.FileInfo) bool { return filepath.Clean(p) == filepath.Clean(start) }
				}
				err := files.RemoveFiles(start, tf)
				if g := xftErrClass(err); !xftErrOK(g, s.Str("err")) {
					fail("error class differs from contract ("+g+" instead of "+s.Str("err")+")", fmt.Sprint(err))
				}
			case "CopyDir":
				err := files.CopyDir(x.path(s["from"], sp), x.path(s["to"], sp))
				if g := xftErrClass(err); !xftErrOK(g, s.Str("err")) {
					w := ""
					if s.Has("why") {
						w = ", " + s.Str("why")
					}
					fail("error class differs from contract ("+g+" instead of "+s.Str("err")+w+")", fmt.Sprint(err))
				}
			case "ZipUnzip":
				zf := x.inside(filepath.Join(x.zip, fmt.Sprintf("z%d.zip", i)))
				var filt func(string) bool
				if s.Bool("filter") {
					filt = func(p string) bool { return filepath.Base(p) != "b" }
				}
				zerr := files.ZipFolder(x.path(s["from"], ""), zf, filt, s.Bool("recursive"))
				if g := xftErrClass(zerr); !xftErrOK(g, s.Str("zerr")) {
					fail("ZipFolder error class differs from contract ("+g+" instead of "+s.Str("zerr")+")", fmt.Sprint(zerr))
					return
				}
				if zerr != nil {
					if _, e := os.Stat(zf); e == nil {
						fail("ZipFolder failed but left an archive behind", nil)
					}
					return
				}
				err := files.UnzipToFolder(zf, x.path(s["to"], ""))
				if g := xftErrClass(err); !xftErrOK(g, s.Str("err")) {
					w := ""
					if s.Has("why") {
						w = ", " + s.Str("why")
					}
					fail("UnzipToFolder error class differs from contract ("+g+" instead of "+s.Str("err")+w+")", fmt.Sprint(err))
				}
			case "GetRoot":
				segs := xftSegs(s["segs"])
				name := strings.Join(segs, "/")
				if s.Bool("trail") && len(segs) > 0 {
					name += "/"
				}
				if s.Bool("abs") {
					name = "/" + name
				}
				root, rest := files.GetRoot(name)
				wr, wt := strings.Join(xftSegs(s["root"]), "/"), strings.Join(xftSegs(s["rest"]), "/")
				if root != wr || rest != wt {
					fail("differs from the documented split", fmt.Sprintf("GetRoot(%q) = (%q, %q), want (%q, %q)", name, root, rest, wr, wt))
				}
			default:
				f = &Failure{Step: i, Sig: "harness: unknown op " + op}
			}
		})
		if p {
			if hs, ok := pv.(string); ok && strings.HasPrefix(hs, "harness:") {
				return &Failure{Step: i, Kind: "inconclusive", Sig: hs}
			}
			return &Failure{Step: i, Sig: "x-files: " + op + " panicked" + spSfx, Got: fmt.Sprint(pv), Want: s}
		}
		if f != nil {
			return f
		}
		if op == "Mk" && i+1 < len(b) && b[i+1].Str("op") == "Mk" {
			continue // the tree is read back once it is complete
		}
		if s.Bool("open") {
			return nil // the contract says nothing about what a failed copy leaves behind
		}
		got, err := x.readTree()
		if err != nil {
			return &Failure{Step: i, Kind: "inconclusive", Sig: "harness: cannot read the sandbox back: " + err.Error()}
		}
		want := xftWantTree(s)
		if d := xftDiff(got, want); d != "" {
			if op == "Mk" {
				return &Failure{Step: i, Kind: "inconclusive", Sig: "harness: built tree differs"}
			}
			return &Failure{Step: i, Sig: "x-files: tree after " + op + " differs from contract: " + xftDiffKind(got, want) + spSfx, Got: d, Want: s}
		}
		// nothing but root and zip in the sandbox
		if es, err := os.ReadDir(x.tmp); err == nil && len(es) != 2 {
			return &Failure{Step: i, Sig: "x-files: " + op + " created entries next to the tree" + spSfx, Got: len(es), Want: s}
		}
	}
	return nil
}
