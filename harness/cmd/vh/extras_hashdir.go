package main

import (
	"encoding/json"
	"fmt"
	"os"
	"path/filepath"
	"strings"
	"sync"

	"github.com/acquirecloud/golibs/files"
)

// X05: files.HashDir against spec/extras/HashDir.tla (spec -> code).  The hash is opaque; the binding
// "selected context <-> hash" is kept for the whole replay process (all behaviours, all directories):
// equal contexts must give equal hashes, different contexts different hashes.

func init() {
	replayers["x-hashdir"] = replayHashDir
}

var xhd = struct {
	sync.Mutex
	bySel  map[string]string
	byHash map[string]string
}{bySel: map[string]string{}, byHash: map[string]string{}}

func xhdFilter(fi os.FileInfo) bool { return !strings.HasSuffix(fi.Name(), ".skip") }

func xhdData(c string) []byte {
	if c == "e" {
		return nil
	}
	return []byte(c)
}

func replayHashDir(b Behaviour, opt *Options) *Failure {
	tmp, err := os.MkdirTemp("", "vh-hashdir-")
	if err != nil {
		return &Failure{Kind: "inconclusive", Sig: "harness: no temp dir"}
	}
	defer os.RemoveAll(tmp)
	root := filepath.Join(tmp, "root")
	pth := func(p string) string { return filepath.Join(root, filepath.FromSlash(p)) }
	for i, s := range b {
		op := s.Str("op")
		var oerr error
		switch op {
		case "HashMissingThenMkRoot":
			var h any
			var herr error
			if p, pv := callPanics(func() { h, herr = files.HashDir(root, nil, true) }); p {
				return &Failure{Step: i, Sig: "x-hashdir: HashDir panicked", Got: fmt.Sprint(pv)}
			}
			if herr != nil || !isNilHash(h) {
				return &Failure{Step: i, Sig: "x-hashdir: missing path does not give (nil, nil)", Got: fmt.Sprint(h, herr)}
			}
			oerr = os.Mkdir(root, 0o755)
		case "Put":
			oerr = os.WriteFile(pth(s.Str("path")), xhdData(s.Str("data")), 0o644)
		case "Mkdir":
			oerr = os.Mkdir(pth(s.Str("path")), 0o755)
		case "Remove":
			oerr = os.RemoveAll(pth(s.Str("path")))
		case "Rename":
			oerr = os.Rename(pth(s.Str("path")), pth(s.Str("to")))
		default:
			return &Failure{Step: i, Sig: "harness: unknown op " + op}
		}
		if oerr != nil {
			return &Failure{Step: i, Kind: "inconclusive", Sig: "harness: file operation failed: " + oerr.Error()}
		}
		for _, v := range []struct {
			f         string
			rec, filt bool
		}{{"s11", true, true}, {"s10", true, false}, {"s01", false, true}, {"s00", false, false}} {
			key, _ := json.Marshal(s[v.f])
			var tf func(os.FileInfo) bool
			if v.filt {
				tf = xhdFilter
			}
			dir := root
			if i%2 == 1 {
				dir = root + string(os.PathSeparator) // with and without trailing separator
			}
			var hs string
			var herr error
			if p, pv := callPanics(func() {
				h, e := files.HashDir(dir, tf, v.rec)
				herr = e
				if e == nil && h != nil {
					hs = h.String()
				}
			}); p {
				return &Failure{Step: i, Sig: "x-hashdir: HashDir panicked", Got: fmt.Sprint(pv), Want: s}
			}
			if herr != nil || hs == "" {
				return &Failure{Step: i, Sig: "x-hashdir: HashDir fails on an existing directory", Got: fmt.Sprint(herr), Want: s}
			}
			what := fmt.Sprintf("(recursive=%v, filter=%v)", v.rec, v.filt)
			xhd.Lock()
			prevH, okS := xhd.bySel[string(key)]
			prevS, okH := xhd.byHash[hs]
			if !okS {
				xhd.bySel[string(key)] = hs
			}
			if !okH {
				xhd.byHash[hs] = string(key)
			}
			xhd.Unlock()
			if okS && prevH != hs {
				return &Failure{Step: i, Sig: "x-hashdir: equal selected contexts, different hashes " + what, Got: hs, Want: map[string]any{"context": string(key), "hash_seen_before": prevH}}
			}
			if okH && prevS != string(key) {
				return &Failure{Step: i, Sig: "x-hashdir: different selected contexts, same hash " + what, Got: hs, Want: map[string]any{"context": string(key), "other_context_with_this_hash": prevS}}
			}
		}
	}
	return nil
}

func isNilHash(h any) bool {
	if h == nil {
		return true
	}
	return fmt.Sprint(h) == "<nil>"
}
