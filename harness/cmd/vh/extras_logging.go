package main

import (
	"bytes"
	"encoding/json"
	"fmt"
	"io"
	"os"
	"os/exec"
	"strings"
	"sync"

	"github.com/acquirecloud/golibs/logging"
)

// X11 (part 2): the logging facade against spec/extras/LogLevel.tla (spec -> code).
// The level and the configuration are process-wide: behaviours run one at a time (mutex), and a behaviour that calls
// SetConfig - which cannot be undone through the public API - runs in a child process of its own (vh re-executes
// itself with VH_LOGGING_CHILD=<result file> and the behaviour on stdin).
// The standard logger writes to what os.Stdout is when the logger is made: the harness points os.Stdout at a
// temporary file for the duration of NewLogger only.

func init() {
	replayers["x-logging"] = replayLogging
	if res := os.Getenv("VH_LOGGING_CHILD"); res != "" {
		data, _ := io.ReadAll(os.Stdin)
		var b Behaviour
		var f *Failure
		if err := json.Unmarshal(data, &b); err != nil {
			f = &Failure{Kind: "inconclusive", Sig: "harness: child cannot read the behaviour"}
		} else {
			f = xlgRun(b, true)
		}
		out, _ := json.Marshal(f)
		os.WriteFile(res, out, 0o644)
		os.Exit(0)
	}
}

var xlgMu sync.Mutex

var xlgNames = []string{"ERROR", "WARN", "INFO", "DEBUG", "TRACE"}

type xlgRec struct {
	name string
	got  *[]string
}

func (r *xlgRec) add(l, f string, a ...interface{}) {
	*r.got = append(*r.got, l+" "+r.name+" "+fmt.Sprintf(f, a...))
}
func (r *xlgRec) Warnf(f string, a ...interface{})  { r.add("WARN", f, a...) }
func (r *xlgRec) Infof(f string, a ...interface{})  { r.add("INFO", f, a...) }
func (r *xlgRec) Debugf(f string, a ...interface{}) { r.add("DEBUG", f, a...) }
func (r *xlgRec) Tracef(f string, a ...interface{}) { r.add("TRACE", f, a...) }
func (r *xlgRec) Errorf(f string, a ...interface{}) { r.add("ERROR", f, a...) }

func xlgCall(l logging.Logger, lvl int, f string, a ...interface{}) {
	switch lvl {
	case 0:
		l.Errorf(f, a...)
	case 1:
		l.Warnf(f, a...)
	case 2:
		l.Infof(f, a...)
	case 3:
		l.Debugf(f, a...)
	case 4:
		l.Tracef(f, a...)
	}
}

func replayLogging(b Behaviour, opt *Options) *Failure {
	swap := false
	for _, s := range b {
		if s.Str("op") == "SetConfig" {
			swap = true
		}
	}
	if !swap {
		xlgMu.Lock()
		defer xlgMu.Unlock()
		return xlgRun(b, false)
	}
	resf, err := os.CreateTemp("", "vh-logging-res-")
	if err != nil {
		return &Failure{Kind: "inconclusive", Sig: "harness: no temp file"}
	}
	resf.Close()
	defer os.Remove(resf.Name())
	data, _ := json.Marshal(b)
	cmd := exec.Command(os.Args[0], "replay", "x-logging")
	cmd.Env = append(os.Environ(), "VH_LOGGING_CHILD="+resf.Name())
	cmd.Stdin = bytes.NewReader(data)
	var stderr bytes.Buffer
	cmd.Stderr = &stderr
	if err := cmd.Run(); err != nil {
		return &Failure{Sig: "x-logging: the process died during a behaviour with SetConfig", Got: firstLine(stderr.String())}
	}
	out, err := os.ReadFile(resf.Name())
	if err != nil || len(out) == 0 {
		return &Failure{Kind: "inconclusive", Sig: "harness: child left no result"}
	}
	if string(out) == "null" {
		return nil
	}
	var f Failure
	if json.Unmarshal(out, &f) != nil {
		return &Failure{Kind: "inconclusive", Sig: "harness: child result unreadable"}
	}
	return &f
}

func xlgRun(b Behaviour, child bool) *Failure {
	tmp, err := os.CreateTemp("", "vh-logging-out-")
	if err != nil {
		return &Failure{Kind: "inconclusive", Sig: "harness: no temp file"}
	}
	defer os.Remove(tmp.Name())
	defer tmp.Close()
	var pos int64
	readNew := func() string {
		data, _ := os.ReadFile(tmp.Name())
		s := string(data[pos:])
		pos = int64(len(data))
		return s
	}
	var loggers []logging.Logger
	var names []string
	var recorded []string
	var custNames []string
	custSet := []int{}
	custLevel := logging.Level(-7)
	for i, s := range b {
		op := s.Str("op")
		var f *Failure
		fail := func(what string, got any) {
			if f == nil {
				f = &Failure{Step: i, Sig: "x-logging: " + what, Got: got, Want: s}
			}
		}
		p, pv := callPanics(func() {
			switch op {
			case "Start":
			case "SetLevel":
				before := len(custSet)
				logging.SetLevel(logging.Level(s.Int("lvl")))
				if s.Str("to") == "custom" {
					if len(custSet) != before+1 || custSet[len(custSet)-1] != s.Int("lvl") {
						fail("SetLevel does not reach the SetLevelF of the configuration in force", custSet)
					}
				} else if len(custSet) != before {
					fail("SetLevel reaches a configuration that is not in force", custSet)
				}
			case "GetLevel":
				if got := int(logging.GetLevel()); got != s.Int("lvl") {
					fail("GetLevel does not return the level set last ("+s.Str("from")+" configuration)", got)
				}
			case "NewLogger":
				name := fmt.Sprintf("lg%d", s.Int("id"))
				old := os.Stdout
				os.Stdout = tmp
				l := logging.NewLogger(name)
				os.Stdout = old
				if l == nil {
					fail("NewLogger returns nil", nil)
					return
				}
				_, isRec := l.(*xlgRec)
				if isRec != (s.Str("by") == "custom") {
					fail("NewLogger does not use the factory of the configuration in force", fmt.Sprintf("%T", l))
					return
				}
				if isRec && (len(custNames) == 0 || custNames[len(custNames)-1] != name) {
					fail("NewLogger does not hand the logger name to the factory", custNames)
				}
				loggers = append(loggers, l)
				names = append(names, name)
			case "SetConfig":
				if !child {
					f = &Failure{Step: i, Kind: "inconclusive", Sig: "harness: SetConfig outside a child process"}
					return
				}
				logging.SetConfig(logging.Config{
					NewLoggerF: func(n string) logging.Logger {
						custNames = append(custNames, n)
						return &xlgRec{name: n, got: &recorded}
					},
					SetLevelF: func(l logging.Level) { custSet = append(custSet, int(l)); custLevel = l },
					GetLevelF: func() logging.Level { return custLevel },
				})
			case "Log":
				id, lvl := s.Int("id"), s.Int("lvl")
				msg := fmt.Sprintf("m-%d-%d", i, lvl)
				nrec := len(recorded)
				xlgCall(loggers[id-1], lvl, "m-%d-%d", i, lvl)
				out := readNew()
				if s.Str("by") == "custom" {
					if len(recorded) != nrec+1 || recorded[nrec] != xlgNames[lvl]+" "+names[id-1]+" "+msg || out != "" {
						fail("a logger of the swapped-in configuration is not called as is", recorded[nrec:])
					}
					return
				}
				if len(recorded) != nrec {
					fail("a standard logger's message went to the swapped-in configuration", recorded[nrec:])
					return
				}
				if !s.Bool("emitted") {
					if out != "" {
						fail("a message above the configured level is written", out)
					}
					return
				}
				switch {
				case out == "":
					fail("a message at or below the configured level is not written", out)
				case strings.Count(out, "\n") != 1 || !strings.HasSuffix(out, "\n"):
					fail("a message is not written as exactly one line", out)
				case !strings.Contains(out, msg):
					fail("the line does not carry the formatted message", out)
				case !strings.Contains(out, names[id-1]):
					fail("the line does not carry the logger's name", out)
				case !strings.Contains(out, xlgNames[lvl]):
					fail("the line does not carry the level's name", out)
				default:
					for k, n := range xlgNames {
						if k != lvl && strings.Contains(out, n) {
							fail("the line carries another level's name", out)
						}
					}
				}
			default:
				f = &Failure{Step: i, Sig: "harness: unknown op " + op}
			}
			if f == nil && op != "Log" {
				if out := readNew(); out != "" {
					fail(op+" writes to the log", out)
				}
			}
		})
		if p {
			return &Failure{Step: i, Sig: "x-logging: " + op + " panicked", Got: fmt.Sprint(pv), Want: s}
		}
		if f != nil {
			return f
		}
	}
	return nil
}
