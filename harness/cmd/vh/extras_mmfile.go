package main

import (
	"errors"
	"fmt"
	"os"
	"path/filepath"

	gerrors "github.com/acquirecloud/golibs/errors"
	"github.com/acquirecloud/golibs/files"
)

// X04: files.MMFile against spec/extras/MMFile.tla (spec -> code).  Abstract position 4k+a is byte
// BlockSize*k + (0, 1, BlockSize/2, BlockSize-1)[a]; an abstract cell is the byte range between two
// consecutive positions.

func init() {
	replayers["x-mmfile"] = replayMMFile
}

func xmmPos(x int) int64 {
	if x < 0 {
		return int64(x)
	}
	in := [4]int64{0, 1, files.BlockSize / 2, files.BlockSize - 1}
	return int64(x/4)*files.BlockSize + in[x%4]
}

// xmmCells renders bytes that start at abstract position o as cell values (99: a cell with mixed bytes)
func xmmCells(data []byte, o int) ([]int, bool) {
	var res []int
	base := xmmPos(o)
	for x := o; ; x++ {
		lo, hi := xmmPos(x)-base, xmmPos(x+1)-base
		if lo == int64(len(data)) {
			return res, true
		}
		if hi > int64(len(data)) {
			return res, false // does not end at a cell boundary
		}
		v := int(data[lo])
		for _, c := range data[lo:hi] {
			if int(c) != v {
				v = 99
				break
			}
		}
		res = append(res, v)
	}
}

func xmmErr(err error) string {
	switch {
	case err == nil:
		return "nil"
	case errors.Is(err, gerrors.ErrInvalid):
		return "invalid"
	}
	return "error"
}

func xmmErrOK(got, want string) bool {
	switch want {
	case "anyerr", "error":
		return got != "nil"
	}
	return got == want
}

func replayMMFile(b Behaviour, opt *Options) *Failure {
	dir, err := os.MkdirTemp("", "vh-mmfile-")
	if err != nil {
		return &Failure{Kind: "inconclusive", Sig: "harness: no temp dir"}
	}
	defer os.RemoveAll(dir)
	fn := filepath.Join(dir, "f.dat")
	var mm *files.MMFile
	defer func() {
		if mm != nil {
			mm.Close()
		}
	}()
	for i := 1; i < len(b); i++ {
		s := b[i]
		op := s.Str("op")
		var f *Failure
		p, pv := callPanics(func() {
			switch op {
			case "New":
				sz := int64(s.Int("size"))
				if sz > 0 {
					sz = xmmPos(s.Int("size"))
				}
				m, err := files.NewMMFile(fn, sz)
				if g := xmmErr(err); !xmmErrOK(g, s.Str("err")) {
					f = &Failure{Step: i, Sig: "x-mmfile: NewMMFile error class differs from contract (" + g + " instead of " + s.Str("err") + ")", Got: fmt.Sprint(err), Want: s}
					if m != nil {
						m.Close()
					}
					return
				}
				if err == nil {
					mm = m
					if mm.Size() != xmmPos(s.Int("msize")) {
						f = &Failure{Step: i, Sig: "x-mmfile: Size() after NewMMFile differs from contract", Got: mm.Size(), Want: s}
					}
				}
			case "Grow":
				err := mm.Grow(xmmPos(s.Int("size")))
				if g := xmmErr(err); !xmmErrOK(g, s.Str("err")) {
					f = &Failure{Step: i, Sig: "x-mmfile: Grow error class differs from contract (" + g + " instead of " + s.Str("err") + ")", Got: fmt.Sprint(err), Want: s}
					return
				}
				if mm.Size() != xmmPos(s.Int("msize")) {
					f = &Failure{Step: i, Sig: "x-mmfile: Size() after Grow differs from contract", Got: mm.Size(), Want: s}
				}
			case "Write", "Read":
				if mm == nil {
					return
				}
				o, n := s.Int("offs"), s.Int("n")
				rn := int64(n)
				if o >= 0 {
					rn = xmmPos(o+n) - xmmPos(o)
				}
				buf, err := mm.Buffer(xmmPos(o), int(rn))
				if g := xmmErr(err); !xmmErrOK(g, s.Str("err")) {
					f = &Failure{Step: i, Sig: "x-mmfile: Buffer error class differs from contract (" + g + " instead of " + s.Str("err") + ")", Got: fmt.Sprint(err), Want: s}
					return
				}
				if err != nil {
					return
				}
				if want := xmmPos(o+s.Int("k")) - xmmPos(o); int64(len(buf)) != want {
					f = &Failure{Step: i, Sig: "x-mmfile: Buffer returns a slice of a different length than the contract", Got: len(buf), Want: want}
					return
				}
				if op == "Write" {
					for j := range buf {
						buf[j] = byte(s.Int("v"))
					}
					return
				}
				cells, ok := xmmCells(buf, o)
				if !ok || !xmmSameInts(cells, s.Ints("cells")) {
					f = &Failure{Step: i, Sig: "x-mmfile: Buffer content differs from what was written", Got: cells, Want: s}
				}
			case "Size":
				if mm.Size() != xmmPos(s.Int("msize")) {
					f = &Failure{Step: i, Sig: "x-mmfile: Size() differs from contract", Got: mm.Size(), Want: s}
				}
			case "Close":
				if mm == nil {
					return
				}
				if err := mm.Close(); err != nil {
					f = &Failure{Step: i, Sig: "x-mmfile: Close failed", Got: fmt.Sprint(err), Want: s}
					return
				}
				data, err := os.ReadFile(fn)
				if err != nil {
					f = &Failure{Step: i, Sig: "x-mmfile: file unreadable after Close", Got: fmt.Sprint(err)}
					return
				}
				cells, ok := xmmCells(data, 0)
				if !ok || !xmmSameInts(cells, s.Ints("disk")) {
					f = &Failure{Step: i, Sig: "x-mmfile: file content after Close differs from what was written", Got: cells, Want: s}
				}
			case "ExtTruncate":
				if err := os.Truncate(fn, xmmPos(s.Int("size"))); err != nil {
					f = &Failure{Step: i, Kind: "inconclusive", Sig: "harness: truncate failed"}
				}
			default:
				f = &Failure{Step: i, Sig: "harness: unknown op " + op}
			}
		})
		if p {
			return &Failure{Step: i, Sig: "x-mmfile: " + op + " panicked", Got: fmt.Sprint(pv), Want: s}
		}
		if f != nil {
			return f
		}
		// the file's length (never shortened, extended with the window)
		if fi, err := os.Stat(fn); err == nil {
			if fi.Size() != xmmPos(s.Int("flen")) {
				return &Failure{Step: i, Sig: "x-mmfile: file length after " + op + " differs from contract", Got: fi.Size(), Want: s}
			}
		} else if s.Int("flen") != 0 {
			return &Failure{Step: i, Sig: "x-mmfile: file missing after " + op, Want: s}
		}
	}
	return nil
}

func xmmSameInts(a, b []int) bool {
	if len(a) != len(b) {
		return false
	}
	for i := range a {
		if a[i] != b[i] {
			return false
		}
	}
	return true
}
