package main

import (
	"encoding/json"
	"fmt"
	"net"
	"strings"

	"github.com/acquirecloud/golibs/transport"
)

// X11 (part 1): transport.Config against spec/extras/TransportCfg.tla (spec -> code).

func init() {
	replayers["x-transport"] = replayTransport
}

func xtrCfg(v any) *transport.Config {
	m, _ := v.(map[string]any)
	if m == nil || m["nil"] == true {
		return nil
	}
	p, _ := m["port"].(float64)
	n, _ := m["net"].(string)
	a, _ := m["addr"].(string)
	return &transport.Config{Network: n, Address: a, Port: int(p)}
}

func replayTransport(b Behaviour, opt *Options) *Failure {
	var c *transport.Config
	for i, s := range b {
		op := s.Str("op")
		var f *Failure
		fail := func(what string, got any) {
			if f == nil {
				f = &Failure{Step: i, Sig: "x-transport: " + what, Got: got, Want: s}
			}
		}
		p, pv := callPanics(func() {
			switch op {
			case "New":
				if s.Str("kind") == "default" {
					d := transport.GetDefaultGRPCConfig()
					d.Network, d.Address, d.Port = "x", "y", 1
					c = transport.GetDefaultGRPCConfig()
					if c == d {
						fail("GetDefaultGRPCConfig returns the same object twice", nil)
					}
				} else {
					c = &transport.Config{}
				}
			case "Apply":
				o := xtrCfg(s["other"])
				if o == nil {
					c.Apply(nil)
					return
				}
				keep := *o
				c.Apply(o)
				if *o != keep {
					fail("Apply changed its argument", fmt.Sprintf("%+v", *o))
				}
			case "Scan":
				got, err := transport.ScanAddr(s.Str("text"))
				if (err == nil) != (s.Str("err") == "nil") {
					if err == nil {
						fail("ScanAddr accepts a port that is not a 32-bit decimal number", fmt.Sprintf("%+v", got))
					} else {
						fail("ScanAddr rejects a well-formed address", err.Error())
					}
					return
				}
				if err == nil && (got.Address != s.Str("saddr") || got.Port != s.Int("sport") || got.Network != "") {
					fail("ScanAddr splits the text differently from the contract", fmt.Sprintf("%+v", got))
				}
			case "Listen":
				ln, err := transport.NewServerListener(*c)
				if err != nil {
					f = &Failure{Step: i, Kind: "inconclusive", Sig: "harness: cannot listen on the loopback interface: " + err.Error()}
					return
				}
				defer ln.Close()
				host, _, _ := net.SplitHostPort(ln.Addr().String())
				if ln.Addr().Network() != "tcp" || host != "127.0.0.1" {
					fail("NewServerListener listens somewhere else", ln.Addr().String())
				}
			default:
				f = &Failure{Step: i, Sig: "harness: unknown op " + op}
			}
			if f != nil {
				return
			}
			// ---- the config as every accessor shows it after the step
			what := "after " + op
			if c.Network != s.Str("net") || c.Address != s.Str("addr") || c.Port != s.Int("port") {
				var d []string
				if c.Network != s.Str("net") {
					d = append(d, "Network")
				}
				if c.Address != s.Str("addr") {
					d = append(d, "Address")
				}
				if c.Port != s.Int("port") {
					d = append(d, "Port")
				}
				fail("config "+what+" differs from contract in "+strings.Join(d, ", "), fmt.Sprintf("%+v", *c))
				return
			}
			if a := c.Addr(); a != s.Str("addrstr") {
				fail("Addr() is not Address:Port", a)
				return
			}
			var m map[string]any
			if err := json.Unmarshal([]byte(c.String()), &m); err != nil || len(m) != 3 || m["Network"] != c.Network || m["Address"] != c.Address || m["Port"] != float64(c.Port) {
				fail("String() is not the JSON form of the config", c.String())
				return
			}
			back, err := transport.ScanAddr(c.Addr())
			if err != nil || back.Address != c.Address || back.Port != c.Port || back.Network != "" {
				fail("ScanAddr(c.Addr()) does not give the address and port back", fmt.Sprintf("%+v %v", back, err))
			}
		})
		if p {
			return &Failure{Step: i, Sig: "x-transport: " + op + " panicked", Got: fmt.Sprint(pv), Want: s}
		}
		if f != nil {
			return f
		}
	}
	return nil
}
