package main

import (
	"runtime/debug"
	"sync"
	"syscall"
)

// A guarded arena (C16 "never over-read"): pages of ordinary memory between two pages that may not be touched at all.
// An input placed right before the upper guard page (or right behind the lower one) turns any read beyond the input
// into a fault, which - with debug.SetPanicOnFault - arrives as a panic carrying the faulting address.

type guardArena struct {
	mem  []byte // the whole mapping
	page int
	room int // usable bytes between the guards
}

var guardPool = sync.Pool{}

func getGuardArena() *guardArena {
	if g, _ := guardPool.Get().(*guardArena); g != nil {
		return g
	}
	page := syscall.Getpagesize()
	room := 16 * page
	mem, err := syscall.Mmap(-1, 0, room+2*page, syscall.PROT_READ|syscall.PROT_WRITE, syscall.MAP_ANON|syscall.MAP_PRIVATE)
	if err != nil {
		return nil
	}
	if syscall.Mprotect(mem[:page], syscall.PROT_NONE) != nil || syscall.Mprotect(mem[page+room:], syscall.PROT_NONE) != nil {
		syscall.Munmap(mem)
		return nil
	}
	return &guardArena{mem: mem, page: page, room: room}
}

func putGuardArena(g *guardArena) { guardPool.Put(g) }

// place copies in into the arena so that it ends at the upper guard (atEnd) or starts behind the lower one
func (g *guardArena) place(in []byte, atEnd bool) []byte {
	if len(in) > g.room {
		return nil
	}
	lo := g.page
	if atEnd {
		lo = g.page + g.room - len(in)
	}
	dst := g.mem[lo : lo+len(in) : lo+len(in)]
	copy(dst, in)
	return dst
}

// guardFault tells whether the recovered panic value is a fault on one of the guard pages
func (g *guardArena) guardFault(p any) (uintptr, bool) {
	a, ok := p.(interface{ Addr() uintptr })
	if !ok {
		return 0, false
	}
	base := uintptr(unsafePtr(g.mem))
	addr := a.Addr()
	if (addr >= base && addr < base+uintptr(g.page)) || (addr >= base+uintptr(g.page+g.room) && addr < base+uintptr(len(g.mem))) {
		return addr, true
	}
	return addr, false
}

// withFaultsAsPanics runs f on this goroutine with unexpected faults delivered as panics
func withFaultsAsPanics(f func()) {
	old := debug.SetPanicOnFault(true)
	defer debug.SetPanicOnFault(old)
	f()
}
