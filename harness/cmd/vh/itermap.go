package main

import (
	"runtime/debug"
	"fmt"
	"math/rand"
	"runtime"
	"time"

	"github.com/acquirecloud/golibs/container/iterable"
)

// C10 / C11: iterable.Map against spec/itermap/OrderedMap.tla (contract) and
// IterMapImpl.tla (test generator).  Option -x check=c10 reports reply/panic
// disagreements, -x check=c11 reports the retention predicate only.

func init() {
	replayers["itermap"] = replayIterMap
	drivers["itermap"] = driveIterMap
}

type imObj struct {
	m    *iterable.Map[string, int]
	its  map[int]iterable.Iterator[iterable.MapEntry[string, int]]
	open int
}

func newImObj() *imObj {
	return &imObj{m: iterable.NewMap[string, int](), its: map[int]iterable.Iterator[iterable.MapEntry[string, int]]{}}
}

// apply performs one call; the reply has the shape of OrderedMap!Apply's res.
func (o *imObj) apply(s Step) Step {
	got := Step{"op": s.Str("op")}
	switch s.Str("op") {
	case "Add":
		err := o.m.Add(s.Str("k"), s.Int("v"))
		got["k"], got["v"], got["err"] = s.Str("k"), s.Int("v"), err != nil
	case "Remove":
		o.m.Remove(s.Str("k"))
		got["k"] = s.Str("k")
	case "Get":
		v, ok := o.m.Get(s.Str("k"))
		got["k"], got["ok"], got["v"] = s.Str("k"), ok, v
	case "Len":
		got["n"] = o.m.Len()
	case "First":
		k, ok := o.m.First()
		got["ok"] = ok
		if ok {
			got["k"] = k
		} else {
			got["k"] = ""
		}
	case "Iterator":
		o.its[s.Int("i")] = o.m.Iterator()
		o.open++
		got["i"] = s.Int("i")
	case "HasNext":
		got["i"], got["ok"] = s.Int("i"), o.its[s.Int("i")].HasNext()
	case "Next":
		e, ok := o.its[s.Int("i")].Next()
		got["i"], got["ok"] = s.Int("i"), ok
		if ok {
			got["k"], got["v"] = e.Key, e.Value
		} else { // the contract does not say what the entry is when ok is false
			got["k"], got["v"] = "", 0
		}
	case "Close":
		o.its[s.Int("i")].Close()
		delete(o.its, s.Int("i"))
		o.open--
		got["i"] = s.Int("i")
	case "NextN": // n calls of Next in a row, summarised
		n, oks := s.Int("n"), 0
		var e iterable.MapEntry[string, int]
		ok := false
		for j := 0; j < n; j++ {
			if e, ok = o.its[s.Int("i")].Next(); ok {
				oks++
			}
		}
		got["i"], got["n"], got["oks"], got["ok"] = s.Int("i"), n, oks, ok
		if ok {
			got["k"], got["v"] = e.Key, e.Value
		} else {
			got["k"], got["v"] = "", 0
		}
	case "Drop": // forget the iterator without closing it
		delete(o.its, s.Int("i"))
		got["i"] = s.Int("i")
	}
	return got
}

func sameReply(got, want Step) bool {
	for k, w := range want {
		g, ok := got[k]
		if !ok {
			return false
		}
		switch wv := w.(type) {
		case float64:
			gi, ok := g.(int)
			if !ok || gi != int(wv) {
				return false
			}
		case int:
			if g != wv {
				return false
			}
		case string:
			if g != wv {
				return false
			}
		case bool:
			if g != wv {
				return false
			}
		}
	}
	return true
}

// retention evaluates the C11 predicate on the real list: what is linked is
// bounded by live entries + one sentinel + the entries pinned by open iterators,
// and with no iterator open no removed entry is retained.
func (o *imObj) retention() (bool, map[string]int) {
	nodes, deleted, refSum, stale := iterable.VerifListStats2(o.m)
	st := map[string]int{"nodes": nodes, "deleted": deleted, "refsum": refSum, "len": o.m.Len(), "open": o.open, "stale": stale}
	if nodes > o.m.Len()+1+o.open {
		return false, st
	}
	if o.open == 0 && stale != 0 { // with no iterator open, no node outside the live entries may still reference a value
		return false, st
	}
	if o.open == 0 && (nodes > o.m.Len()+1 || deleted != 0) {
		return false, st
	}
	return true, st
}

func replayIterMap(b Behaviour, opt *Options) *Failure {
	mode := opt.Extra["check"]
	o := newImObj()
	for i := 1; i < len(b); i++ {
		var got Step
		p, pv := callPanics(func() { got = o.apply(b[i]) })
		if p {
			if mode == "c11" {
				return nil
			}
			return &Failure{Step: i, Sig: "itermap: " + b[i].Str("op") + " panicked", Got: firstLine(fmt.Sprint(pv)), Want: b[i]}
		}
		if !sameReply(got, b[i]) {
			if mode == "c11" {
				return nil // a wrong reply is C10's business; the retention predicate is judged up to here
			}
			return &Failure{Step: i, Sig: "itermap: " + b[i].Str("op") + " reply differs from contract", Got: got, Want: b[i]}
		}
		if mode != "c10" {
			if ok, st := o.retention(); !ok {
				return &Failure{Step: i, Sig: "retention: list keeps more than live entries + pinned entries after " + b[i].Str("op"),
					Got: st, Want: "nodes <= len+1+open, and open=0 => nodes <= len+1, deleted=0 and no value referenced by a non-live node"}
			}
		}
	}
	return nil
}

// driveIterMap: long seeded histories with many keys and iterators and re-added
// keys; every call is recorded with its real reply and the real list statistics.
func driveIterMap(opt *Options) error {
	tw, err := NewTraceWriter(opt.Out)
	if err != nil {
		return err
	}
	defer tw.Close()
	rnd := rand.New(rand.NewSource(opt.Seed))
	steps := 300
	if s, ok := opt.Extra["steps"]; ok {
		fmt.Sscan(s, &steps)
	}
	keys := []string{"a", "b", "c", "d", "e", "f"}
	nIt := 8
	driveIterMapTypes(tw)
	driveIterMapLarge(tw, rnd)
	for v := 0; v < 4; v++ {
		driveIterMapManyIters(tw, rnd, v)
	}
	driveIterMapCycles(tw, rnd)
	for _, total := range []int{255, 256, 257, 65535, 65536, 65537} {
		driveIterMapWrap(tw, total)
	}
	for _, n := range []int{255, 256, 65535, 65536, 65537} {
		driveIterMapCrowd(tw, n)
	}
	storms := 12
	if opt.N > 200 {
		storms = 100
	}
	for v := 0; v < storms; v++ {
		if !driveIterMapGcStorm(tw, rnd) {
			break
		}
	}
	for t := 0; t < opt.N; t++ {
		o := newImObj()
		tw.Emit(map[string]any{"op": "New"})
		nextID := 1
		nk := 2 + rnd.Intn(len(keys)-1)
		for i := 0; i < steps; i++ {
			var s Step
			k := keys[rnd.Intn(nk)]
			it := 1 + rnd.Intn(nIt)
			_, isOpen := o.its[it]
			switch r := rnd.Intn(100); {
			case r < 22:
				s = Step{"op": "Add", "k": k, "v": nextID}
			case r < 40:
				s = Step{"op": "Remove", "k": k}
			case r < 45:
				s = Step{"op": "Get", "k": k}
			case r < 48:
				s = Step{"op": "Len"}
			case r < 53:
				s = Step{"op": "First"}
			default:
				if !isOpen {
					s = Step{"op": "Iterator", "i": it}
				} else {
					switch q := rnd.Intn(10); {
					case q < 3:
						s = Step{"op": "HasNext", "i": it}
					case q < 8:
						s = Step{"op": "Next", "i": it}
					default:
						s = Step{"op": "Close", "i": it}
					}
				}
			}
			var got Step
			p, pv := callPanics(func() { got = o.apply(s) })
			if p {
				tw.Emit(map[string]any{"op": s.Str("op"), "crash": firstLine(fmt.Sprint(pv))})
				break
			}
			if s.Str("op") == "Add" && got["err"] == false {
				nextID++
			}
			_, st := o.retention()
			got["nodes"], got["deleted"], got["open"], got["len"], got["stale"] = st["nodes"], st["deleted"], st["open"], st["len"], st["stale"]
			tw.Emit(got)
		}
		// close everything: with no iterator open nothing removed may be retained
		for it := 1; it <= nIt; it++ {
			if _, ok := o.its[it]; !ok {
				continue
			}
			var got Step
			if p, pv := callPanics(func() { got = o.apply(Step{"op": "Close", "i": it}) }); p {
				tw.Emit(map[string]any{"op": "Close", "crash": firstLine(fmt.Sprint(pv))})
				break
			}
			_, st := o.retention()
			got["nodes"], got["deleted"], got["open"], got["len"], got["stale"] = st["nodes"], st["deleted"], st["open"], st["len"], st["stale"]
			tw.Emit(got)
		}
	}
	return nil
}

// driveIterMapLarge: one history on a map that grows beyond a thousand entries and is drained again
// while iterators are parked on removed entries (growth / shrink paths of the implementation).
func driveIterMapLarge(tw *TraceWriter, rnd *rand.Rand) {
	o := newImObj()
	tw.Emit(map[string]any{"op": "New"})
	nextID := 1
	do := func(s Step) bool {
		var got Step
		if p, pv := callPanics(func() { got = o.apply(s) }); p {
			tw.Emit(map[string]any{"op": s.Str("op"), "crash": firstLine(fmt.Sprint(pv))})
			return false
		}
		if s.Str("op") == "Add" && got["err"] == false {
			nextID++
		}
		_, st := o.retention()
		got["nodes"], got["deleted"], got["open"], got["len"], got["stale"] = st["nodes"], st["deleted"], st["open"], st["len"], st["stale"]
		tw.Emit(got)
		return true
	}
	key := func(i int) string { return fmt.Sprintf("k%d", i) }
	n := 1100 + rnd.Intn(300)
	for i := 0; i < n; i++ {
		if !do(Step{"op": "Add", "k": key(i), "v": nextID}) {
			return
		}
	}
	// two iterators parked a few entries in, the entries under them removed
	for it := 1; it <= 2; it++ {
		do(Step{"op": "Iterator", "i": it})
		for j := 0; j < it*2; j++ {
			do(Step{"op": "Next", "i": it})
		}
	}
	do(Step{"op": "Remove", "k": key(2)})
	do(Step{"op": "Remove", "k": key(4)})
	// drain to well below a quarter of the peak, in a shuffled order
	order := rnd.Perm(n)
	left := n
	for _, i := range order {
		if left <= n/8 {
			break
		}
		if i < 8 {
			continue
		}
		if !do(Step{"op": "Remove", "k": key(i)}) {
			return
		}
		left--
	}
	do(Step{"op": "Len"})
	for _, i := range []int{0, 2, 4, 5, order[0], order[1]} {
		do(Step{"op": "Get", "k": key(i)})
	}
	do(Step{"op": "Next", "i": 1})
	do(Step{"op": "Next", "i": 2})
	do(Step{"op": "Close", "i": 1})
	do(Step{"op": "Close", "i": 2})
	for _, i := range []int{0, 2, 4, 5} {
		do(Step{"op": "Get", "k": key(i)})
	}
	do(Step{"op": "Add", "k": key(2), "v": nextID})
	do(Step{"op": "Get", "k": key(2)})
	do(Step{"op": "Remove", "k": key(2)})
	do(Step{"op": "Len"})
	do(Step{"op": "First"})
	// a full iteration must return exactly the live entries in insertion order
	do(Step{"op": "Iterator", "i": 3})
	for j := 0; j < left+12; j++ {
		if !do(Step{"op": "Next", "i": 3}) {
			return
		}
	}
	do(Step{"op": "Close", "i": 3})
}

// imDo performs one logged call with the list statistics attached; false after a crash.
func imDo(tw *TraceWriter, o *imObj, nextID *int, s Step) bool {
	var got Step
	if p, pv := callPanics(func() { got = o.apply(s) }); p {
		tw.Emit(map[string]any{"op": s.Str("op"), "crash": firstLine(fmt.Sprint(pv))})
		return false
	}
	if s.Str("op") == "Add" && got["err"] == false {
		*nextID++
	}
	_, st := o.retention()
	got["nodes"], got["deleted"], got["open"], got["len"], got["stale"] = st["nodes"], st["deleted"], st["open"], st["len"], st["stale"]
	tw.Emit(got)
	return true
}

// driveIterMapManyIters: dozens of iterators parked on dozens of distinct entries, every entry (or all but one)
// removed under them, new entries added: every parked iterator, First and a new iterator must see exactly the
// new entries, in order.
func driveIterMapManyIters(tw *TraceWriter, rnd *rand.Rand, variant int) {
	o := newImObj()
	tw.Emit(map[string]any{"op": "New"})
	nextID := 1
	do := func(s Step) bool { return imDo(tw, o, &nextID, s) }
	key := func(i int) string { return fmt.Sprintf("m%d", i) }
	n := 34 + rnd.Intn(60)
	if variant == 2 {
		// hundreds of removed entries in a row, each still held by an iterator of its own (iterator i is advanced
		// i-1 times in one go: a NextN line)
		n = 260 + rnd.Intn(12)
		for i := 0; i < n; i++ {
			do(Step{"op": "Add", "k": key(i), "v": nextID})
		}
		for it := 1; it <= n; it++ {
			do(Step{"op": "Iterator", "i": it})
			if it > 1 && !do(Step{"op": "NextN", "i": it, "n": it - 1}) {
				return
			}
		}
		for i := 0; i < n; i++ {
			if !do(Step{"op": "Remove", "k": key(i)}) {
				return
			}
		}
		// the map is empty: no iterator has anything left
		for _, it := range []int{1, 2, n / 2, n - 1, n} {
			do(Step{"op": "HasNext", "i": it})
			do(Step{"op": "Next", "i": it})
		}
		do(Step{"op": "Len"})
		do(Step{"op": "First"})
		do(Step{"op": "Add", "k": key(n), "v": nextID})
		for _, it := range []int{1, 2, n / 2, n} {
			do(Step{"op": "HasNext", "i": it})
			do(Step{"op": "Next", "i": it})
			do(Step{"op": "Next", "i": it})
		}
		for it := 1; it <= n; it++ {
			if !do(Step{"op": "Close", "i": it}) {
				return
			}
		}
		do(Step{"op": "First"})
		do(Step{"op": "Len"})
		return
	}
	for i := 0; i < n; i++ {
		do(Step{"op": "Add", "k": key(i), "v": nextID})
	}
	for it := 1; it <= n; it++ { // iterator `it` is parked after `it-1` entries: one on every entry, one before the first
		do(Step{"op": "Iterator", "i": it})
		for j := 0; j < it-1; j++ {
			if !do(Step{"op": "Next", "i": it}) {
				return
			}
		}
	}
	order := rnd.Perm(n)
	switch variant % 4 {
	case 1:
		for i := range order {
			order[i] = i
		}
	case 2:
		for i := range order {
			order[i] = n - 1 - i
		}
	}
	keep := -1
	if variant%2 == 1 {
		keep = rnd.Intn(n)
	}
	for _, i := range order {
		if i == keep {
			continue
		}
		if !do(Step{"op": "Remove", "k": key(i)}) {
			return
		}
	}
	do(Step{"op": "Len"})
	do(Step{"op": "First"})
	m := 1 + rnd.Intn(4)
	for i := 0; i < m; i++ {
		do(Step{"op": "Add", "k": key(n + i), "v": nextID})
	}
	do(Step{"op": "First"})
	do(Step{"op": "Len"})
	for it := 1; it <= n; it++ {
		do(Step{"op": "HasNext", "i": it})
		for j := 0; j < m+2; j++ {
			if !do(Step{"op": "Next", "i": it}) {
				return
			}
		}
		if it%3 == 0 {
			do(Step{"op": "Close", "i": it})
		}
	}
	do(Step{"op": "Iterator", "i": 300})
	for j := 0; j < m+3; j++ {
		do(Step{"op": "Next", "i": 300})
	}
	do(Step{"op": "Add", "k": key(n + m), "v": nextID})
	for it := 1; it <= n; it++ {
		if _, ok := o.its[it]; ok {
			do(Step{"op": "Next", "i": it})
			do(Step{"op": "Close", "i": it})
		}
	}
	do(Step{"op": "Next", "i": 300})
	do(Step{"op": "Close", "i": 300})
	do(Step{"op": "First"})
}

// driveIterMapGcStorm: iterators that are forgotten without Close, under garbage-collection pressure, while the
// single-threaded owner goes on using the map.  Creating an iterator and forgetting it at once has no observable
// effect, so those calls are not logged (stuttering steps); whatever the library does behind the owner's back with
// forgotten iterators must not disturb the owner's history.  Returns false after a crash.
func driveIterMapGcStorm(tw *TraceWriter, rnd *rand.Rand) bool {
	o := newImObj()
	tw.Emit(map[string]any{"op": "New"})
	nextID := 1
	do := func(s Step) bool { return imDo(tw, o, &nextID, s) }
	key := func(i int) string { return fmt.Sprintf("g%d", i) }
	const nk = 16
	for i := 0; i < nk; i++ {
		do(Step{"op": "Add", "k": key(i), "v": nextID})
	}
	id := 1
	for i := 0; i < nk; i++ { // 4 kept iterators parked on every entry
		for c := 0; c < 4; c++ {
			do(Step{"op": "Iterator", "i": id})
			for j := 0; j <= i; j++ {
				do(Step{"op": "Next", "i": id})
			}
			id++
		}
	}
	ok := true
	noise := func(n int) {
		p, pv := callPanics(func() {
			for i := 0; i < n; i++ {
				if i%50000 == 0 {
					go runtime.GC() // the owner goes on while the collector (and whatever it triggers) runs
				}
				it := o.m.Iterator()
				o.open++ // never closed by the user: it counts as open for ever (retention bound of C11)
				for j := i % nk; j > 0; j-- {
					it.Next()
				}
				_ = it
			}
		})
		if p {
			tw.Emit(map[string]any{"op": "Iterator", "crash": firstLine(fmt.Sprint(pv))})
			ok = false
		}
	}
	// some kept iterators are forgotten as well (at most one per entry)
	for i := 0; i < 5 && ok; i++ {
		it := 1 + 4*rnd.Intn(nk)
		if _, open := o.its[it]; open {
			ok = do(Step{"op": "Drop", "i": it})
		}
	}
	noise(100000) // one uninterrupted run of short-lived iterators; collections happen while the owner goes on
	ok = ok && do(Step{"op": "First"}) && do(Step{"op": "Len"})
	runtime.GC()
	time.Sleep(20 * time.Millisecond)
	runtime.GC()
	time.Sleep(10 * time.Millisecond)
	if !ok {
		return false
	}
	// entries are removed from the back, the kept iterators parked on them move on: each reports what the contract
	// says (nothing is left behind it), and a node that is still pinned must not have been recycled
	for j := nk - 1; j >= 0; j-- {
		if !do(Step{"op": "Remove", "k": key(j)}) {
			return false
		}
		for c := 0; c < 4; c++ {
			it := 1 + 4*j + c
			if _, open := o.its[it]; open {
				if !do(Step{"op": "Next", "i": it}) {
					return false
				}
			}
		}
	}
	do(Step{"op": "Len"})
	do(Step{"op": "Add", "k": key(nk), "v": nextID})
	for it := 1; it < id; it++ {
		if _, open := o.its[it]; open {
			if !do(Step{"op": "Next", "i": it}) || !do(Step{"op": "Close", "i": it}) {
				return false
			}
		}
	}
	do(Step{"op": "Iterator", "i": 100})
	for j := 0; j < nk+2; j++ {
		if !do(Step{"op": "Next", "i": 100}) {
			return false
		}
	}
	return do(Step{"op": "Close", "i": 100})
}

// driveIterMapCycles: an iterator stays parked on a removed entry while one other key is added and removed
// thousands of times (counters, thresholds and clean-up passes of the implementation see a long history on a
// tiny map); then the iterator is closed: nothing of the history may be left, Get / Len / First / a full
// iteration report the live entries only.
func driveIterMapCycles(tw *TraceWriter, rnd *rand.Rand) {
	o := newImObj()
	tw.Emit(map[string]any{"op": "New"})
	nextID := 1
	do := func(s Step) bool { return imDo(tw, o, &nextID, s) }
	do(Step{"op": "Add", "k": "a", "v": nextID})
	do(Step{"op": "Add", "k": "b", "v": nextID})
	do(Step{"op": "Iterator", "i": 1})
	if rnd.Intn(2) == 0 {
		do(Step{"op": "Next", "i": 1})
	}
	do(Step{"op": "Remove", "k": "a"})
	do(Step{"op": "Remove", "k": "b"})
	n := 4200 + rnd.Intn(1200)
	for i := 0; i < n; i++ {
		if !do(Step{"op": "Add", "k": "x", "v": nextID}) || !do(Step{"op": "Remove", "k": "x"}) {
			return
		}
		if i%1000 == 999 {
			do(Step{"op": "Len"})
			do(Step{"op": "Get", "k": "a"})
		}
	}
	do(Step{"op": "Add", "k": "y", "v": nextID})
	do(Step{"op": "Close", "i": 1})
	for _, k := range []string{"a", "b", "x", "y"} {
		do(Step{"op": "Get", "k": k})
	}
	do(Step{"op": "Len"})
	do(Step{"op": "First"})
	do(Step{"op": "Iterator", "i": 2})
	for j := 0; j < 3; j++ {
		do(Step{"op": "Next", "i": 2})
	}
	do(Step{"op": "Close", "i": 2})
}

// driveIterMapWrap: HasNext says there is an entry; the entry is removed; then the map goes through a precise number
// of further changes (add / remove of another key - unobservable, hence not logged) so that the TOTAL number of changes
// since HasNext is `total`; then Next.  Whatever the implementation counts, a count that happens to come round
// (2^8, 2^16) must not make it miss the removal.
func driveIterMapWrap(tw *TraceWriter, total int) {
	o := newImObj()
	tw.Emit(map[string]any{"op": "New"})
	nextID := 1
	do := func(s Step) bool { return imDo(tw, o, &nextID, s) }
	do(Step{"op": "Add", "k": "a", "v": nextID})
	do(Step{"op": "Add", "k": "b", "v": nextID})
	do(Step{"op": "Iterator", "i": 1})
	do(Step{"op": "HasNext", "i": 1})
	do(Step{"op": "Remove", "k": "a"}) // change 1
	changes := 1
	p, pv := callPanics(func() {
		for ; changes+2 <= total; changes += 2 {
			o.m.Add("w", 0)
			o.m.Remove("w")
		}
	})
	if p {
		tw.Emit(map[string]any{"op": "Add", "crash": firstLine(fmt.Sprint(pv))})
		return
	}
	if changes < total { // an odd one out: a logged Add that stays
		do(Step{"op": "Add", "k": "c", "v": nextID})
	}
	do(Step{"op": "Next", "i": 1})
	do(Step{"op": "Next", "i": 1})
	do(Step{"op": "Next", "i": 1})
	do(Step{"op": "Close", "i": 1})
	do(Step{"op": "Len"})
}

// driveIterMapCrowd: n iterators are open on the oldest entry (created and never used: not logged, nothing observable
// depends on them), one more is logged; then the oldest entry is removed.  Whatever the implementation counts about
// its iterators, a count that comes round (2^8, 2^16) must not make First / a new iterator / Len go wrong.
func driveIterMapCrowd(tw *TraceWriter, n int) {
	o := newImObj()
	tw.Emit(map[string]any{"op": "New"})
	nextID := 1
	do := func(s Step) bool { return imDo(tw, o, &nextID, s) }
	do(Step{"op": "Add", "k": "a", "v": nextID})
	do(Step{"op": "Add", "k": "b", "v": nextID})
	crowd := make([]iterable.Iterator[iterable.MapEntry[string, int]], 0, n)
	if p, pv := callPanics(func() {
		for i := 0; i < n-1; i++ {
			crowd = append(crowd, o.m.Iterator())
			o.open++
		}
	}); p {
		tw.Emit(map[string]any{"op": "Iterator", "crash": firstLine(fmt.Sprint(pv))})
		return
	}
	do(Step{"op": "Iterator", "i": 1}) // the n-th
	do(Step{"op": "Remove", "k": "a"})
	do(Step{"op": "First"})
	do(Step{"op": "Len"})
	do(Step{"op": "Get", "k": "a"})
	do(Step{"op": "Iterator", "i": 2})
	do(Step{"op": "Next", "i": 2})
	do(Step{"op": "Next", "i": 1})
	do(Step{"op": "Next", "i": 1})
	do(Step{"op": "Close", "i": 1})
	do(Step{"op": "Close", "i": 2})
	do(Step{"op": "First"})
	for _, it := range crowd {
		it.Close()
		o.open--
	}
	do(Step{"op": "First"})
	do(Step{"op": "Len"})
}

// ---- other instantiations in the same process -------------------------------------------------------
// The traces drive Map[string,int].  A process usually holds maps of several instantiations at once - also with
// interface-typed keys or values - and whatever the instantiations share behind the scenes must not mix them up.
// One fixed script (adds, a refused duplicate, gets, removals during an iteration, First, Len) runs on each
// instantiation, interleaved with the others, and is compared with a plain slice; the Types line of the trace carries
// the number of replies that differed.

type imTypedRun struct {
	step  func(i int) int // runs step i of the script, returns the number of wrong replies
	steps int
}

func imTyped[K comparable, V any](mkK func(int) K, mkV func(int) V, eqV func(a, b V) bool) imTypedRun {
	m := iterable.NewMap[K, V]()
	type kv struct {
		k K
		v V
	}
	var ref []kv
	find := func(k K) int {
		for i, e := range ref {
			if e.k == k {
				return i
			}
		}
		return -1
	}
	var it iterable.Iterator[iterable.MapEntry[K, V]]
	pos := 0 // index in ref of the next element the open iterator will deliver
	script := []func() int{}
	add := func(n int) {
		script = append(script, func() int {
			k, v := mkK(n), mkV(n)
			err := m.Add(k, v)
			if find(k) >= 0 {
				return b2i(err == nil)
			}
			ref = append(ref, kv{k, v})
			return b2i(err != nil)
		})
	}
	get := func(n int) {
		script = append(script, func() int {
			v, ok := m.Get(mkK(n))
			i := find(mkK(n))
			if (i >= 0) != ok || ok && !eqV(v, ref[i].v) {
				return 1
			}
			return b2i(m.Len() != len(ref))
		})
	}
	remove := func(n int) {
		script = append(script, func() int {
			m.Remove(mkK(n))
			if i := find(mkK(n)); i >= 0 {
				ref = append(ref[:i:i], ref[i+1:]...)
				if it != nil && i < pos {
					pos--
				}
			}
			return b2i(m.Len() != len(ref))
		})
	}
	open := func() { script = append(script, func() int { it = m.Iterator(); pos = 0; return 0 }) }
	next := func() {
		script = append(script, func() int {
			has := it.HasNext()
			e, ok := it.Next()
			if has != (pos < len(ref)) || ok != has {
				return 1
			}
			if ok {
				w := b2i(e.Key != ref[pos].k || !eqV(e.Value, ref[pos].v))
				pos++
				return w
			}
			return 0
		})
	}
	closeIt := func() { script = append(script, func() int { it.Close(); it = nil; return 0 }) }
	first := func() {
		script = append(script, func() int {
			k, ok := m.First()
			return b2i(ok != (len(ref) > 0) || ok && k != ref[0].k)
		})
	}
	for n := 1; n <= 6; n++ {
		add(n)
	}
	add(3)
	get(2)
	get(9)
	open()
	next()
	next()
	remove(2)
	remove(3)
	next()
	add(7)
	first()
	remove(1)
	first()
	next()
	next()
	next()
	next()
	next()
	closeIt()
	for n := 1; n <= 7; n++ {
		remove(n)
		get(n)
	}
	first()
	add(8)
	add(9)
	open()
	next()
	closeIt()
	get(8)
	return imTypedRun{step: func(i int) int { return script[i]() }, steps: len(script)}
}

type imStringer struct{ n int }

func (s imStringer) String() string { return fmt.Sprint(s.n) }

type imErr struct{ n int }

func (e imErr) Error() string { return fmt.Sprint("e", e.n) }

func driveIterMapTypes(tw *TraceWriter) {
	wrong := 0
	p, pv := callPanics(func() {
		runs := []imTypedRun{
			imTyped(func(n int) string { return fmt.Sprint("k", n) }, func(n int) any { return n }, func(a, b any) bool { return a == b }),
			imTyped(func(n int) string { return fmt.Sprint("k", n) }, func(n int) error { return imErr{n} }, func(a, b error) bool { return a == b }),
			imTyped(func(n int) string { return fmt.Sprint("k", n) }, func(n int) fmt.Stringer { return imStringer{n} }, func(a, b fmt.Stringer) bool { return a == b }),
			imTyped(func(n int) any { return n }, func(n int) int { return n }, func(a, b int) bool { return a == b }),
			imTyped(func(n int) fmt.Stringer { return imStringer{n} }, func(n int) string { return fmt.Sprint(n) }, func(a, b string) bool { return a == b }),
			imTyped(func(n int) int { return n }, func(n int) *int { return &n }, func(a, b *int) bool { return *a == *b }),
			imTyped(func(n int) [2]int { return [2]int{n, -n} }, func(n int) []byte { return []byte{byte(n)} }, func(a, b []byte) bool { return string(a) == string(b) }),
			imTyped(func(n int) string { return fmt.Sprint(n) }, func(n int) string { return fmt.Sprint("v", n) }, func(a, b string) bool { return a == b }),
			imTyped(func(n int) string { return fmt.Sprint(n) }, func(n int) struct{} { return struct{}{} }, func(a, b struct{}) bool { return true }),
		}
		for i := 0; i < runs[0].steps; i++ {
			for _, r := range runs { // step i of every instantiation, then step i+1 ...
				wrong += r.step(i)
			}
		}
	})
	ev := map[string]any{"op": "Types", "instantiations": 9, "wrong": wrong}
	if p {
		ev["crash"] = firstLine(fmt.Sprint(pv))
	}
	tw.Emit(ev)
}

// itermap-cyclic: values that reach themselves (a map holding itself, a slice holding itself, a struct pointing to itself
// through an interface) - legal Go values a container of `any` may be given.  The map stores and returns them and refuses a
// second Add of a live key like any other; whatever it does with a value (format it, compare it, walk it) must end.  A
// runaway recursion ends the PROCESS (stack overflow is not a panic), so this runs in a process of its own.
func init() { drivers["itermap-cyclic"] = driveIterMapCyclic }

type imSelfRef struct {
	name string
	me   any
}

func driveIterMapCyclic(opt *Options) error {
	tw, err := NewTraceWriter(opt.Out)
	if err != nil {
		return err
	}
	defer tw.Close()
	debug.SetMaxStack(64 << 20) // a runaway recursion shows after a fraction of a second instead of after a gigabyte
	wrong := 0
	p, pv := callPanics(func() {
		cm := map[string]any{"name": "root"}
		cm["self"] = cm
		child := map[string]any{"parent": cm}
		cm["child"] = child
		cs := []any{1, nil}
		cs[1] = cs
		sr := &imSelfRef{name: "s"}
		sr.me = sr
		vals := []any{cm, cs, sr, child}
		m := iterable.NewMap[string, any]()
		for i, v := range vals {
			k := fmt.Sprint("k", i)
			if m.Add(k, v) != nil {
				wrong++
			}
			if m.Add(k, v) == nil { // the key is live: refused
				wrong++
			}
			if m.Add(k, vals[(i+1)%len(vals)]) == nil {
				wrong++
			}
		}
		if m.Len() != len(vals) {
			wrong++
		}
		it := m.Iterator()
		n := 0
		for it.HasNext() {
			e, ok := it.Next()
			if !ok {
				break
			}
			if e.Key != fmt.Sprint("k", n) {
				wrong++
			}
			n++
			m.Remove(e.Key)
		}
		it.Close()
		if n != len(vals) || m.Len() != 0 {
			wrong++
		}
	})
	ev := map[string]any{"op": "Types", "instantiations": 1, "what": "values that reach themselves", "wrong": wrong}
	if p {
		ev["crash"] = firstLine(fmt.Sprint(pv))
	}
	tw.Emit(ev)
	return nil
}
