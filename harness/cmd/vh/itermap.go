package main

import (
	"fmt"
	"math/rand"

	"github.com/acquirecloud/golibs/container/iterable"
)

// C10 / C11: iterable.Map against spec/itermap/OrderedMap.tla (contract) and
// IterMapImpl.tla (test generator).  Option -x check=c10 reports reply/panic
// disagreements, -x check=c11 reports the retention predicate only.

func init() {
	replayers["itermap"] = replayIterMap
	drivers["itermap"] = driveIterMap
}

type imObj struct {
	m    *iterable.Map[string, int]
	its  map[int]iterable.Iterator[iterable.MapEntry[string, int]]
	open int
}

func newImObj() *imObj {
	return &imObj{m: iterable.NewMap[string, int](), its: map[int]iterable.Iterator[iterable.MapEntry[string, int]]{}}
}

// apply performs one call; the reply has the shape of OrderedMap!Apply's res.
func (o *imObj) apply(s Step) Step {
	got := Step{"op": s.Str("op")}
	switch s.Str("op") {
	case "Add":
		err := o.m.Add(s.Str("k"), s.Int("v"))
		got["k"], got["v"], got["err"] = s.Str("k"), s.Int("v"), err != nil
	case "Remove":
		o.m.Remove(s.Str("k"))
		got["k"] = s.Str("k")
	case "Get":
		v, ok := o.m.Get(s.Str("k"))
		got["k"], got["ok"], got["v"] = s.Str("k"), ok, v
	case "Len":
		got["n"] = o.m.Len()
	case "First":
		k, ok := o.m.First()
		got["ok"] = ok
		if ok {
			got["k"] = k
		} else {
			got["k"] = ""
		}
	case "Iterator":
		o.its[s.Int("i")] = o.m.Iterator()
		o.open++
		got["i"] = s.Int("i")
	case "HasNext":
		got["i"], got["ok"] = s.Int("i"), o.its[s.Int("i")].HasNext()
	case "Next":
		e, ok := o.its[s.Int("i")].Next()
		got["i"], got["ok"] = s.Int("i"), ok
		if ok {
			got["k"], got["v"] = e.Key, e.Value
		} else { // the contract does not say what the entry is when ok is false
			got["k"], got["v"] = "", 0
		}
	case "Close":
		o.its[s.Int("i")].Close()
		delete(o.its, s.Int("i"))
		o.open--
		got["i"] = s.Int("i")
	}
	return got
}

func sameReply(got, want Step) bool {
	for k, w := range want {
		g, ok := got[k]
		if !ok {
			return false
		}
		switch wv := w.(type) {
		case float64:
			gi, ok := g.(int)
			if !ok || gi != int(wv) {
				return false
			}
		case int:
			if g != wv {
				return false
			}
		case string:
			if g != wv {
				return false
			}
		case bool:
			if g != wv {
				return false
			}
		}
	}
	return true
}

// retention evaluates the C11 predicate on the real list: what is linked is
// bounded by live entries + one sentinel + the entries pinned by open iterators,
// and with no iterator open no removed entry is retained.
func (o *imObj) retention() (bool, map[string]int) {
	nodes, deleted, refSum, stale := iterable.VerifListStats2(o.m)
	st := map[string]int{"nodes": nodes, "deleted": deleted, "refsum": refSum, "len": o.m.Len(), "open": o.open, "stale": stale}
	if nodes > o.m.Len()+1+o.open {
		return false, st
	}
	if o.open == 0 && stale != 0 { // with no iterator open, no node outside the live entries may still reference a value
		return false, st
	}
	if o.open == 0 && (nodes > o.m.Len()+1 || deleted != 0) {
		return false, st
	}
	return true, st
}

func replayIterMap(b Behaviour, opt *Options) *Failure {
	mode := opt.Extra["check"]
	o := newImObj()
	for i := 1; i < len(b); i++ {
		var got Step
		p, pv := callPanics(func() { got = o.apply(b[i]) })
		if p {
			if mode == "c11" {
				return nil
			}
			return &Failure{Step: i, Sig: "itermap: " + b[i].Str("op") + " panicked", Got: firstLine(fmt.Sprint(pv)), Want: b[i]}
		}
		if !sameReply(got, b[i]) {
			if mode == "c11" {
				return nil // a wrong reply is C10's business; the retention predicate is judged up to here
			}
			return &Failure{Step: i, Sig: "itermap: " + b[i].Str("op") + " reply differs from contract", Got: got, Want: b[i]}
		}
		if mode != "c10" {
			if ok, st := o.retention(); !ok {
				return &Failure{Step: i, Sig: "retention: list keeps more than live entries + pinned entries after " + b[i].Str("op"),
					Got: st, Want: "nodes <= len+1+open, and open=0 => nodes <= len+1, deleted=0 and no value referenced by a non-live node"}
			}
		}
	}
	return nil
}

// driveIterMap: long seeded histories with many keys and iterators and re-added
// keys; every call is recorded with its real reply and the real list statistics.
func driveIterMap(opt *Options) error {
	tw, err := NewTraceWriter(opt.Out)
	if err != nil {
		return err
	}
	defer tw.Close()
	rnd := rand.New(rand.NewSource(opt.Seed))
	steps := 300
	if s, ok := opt.Extra["steps"]; ok {
		fmt.Sscan(s, &steps)
	}
	keys := []string{"a", "b", "c", "d", "e", "f"}
	nIt := 8
	driveIterMapLarge(tw, rnd)
	for t := 0; t < opt.N; t++ {
		o := newImObj()
		tw.Emit(map[string]any{"op": "New"})
		nextID := 1
		nk := 2 + rnd.Intn(len(keys)-1)
		for i := 0; i < steps; i++ {
			var s Step
			k := keys[rnd.Intn(nk)]
			it := 1 + rnd.Intn(nIt)
			_, isOpen := o.its[it]
			switch r := rnd.Intn(100); {
			case r < 22:
				s = Step{"op": "Add", "k": k, "v": nextID}
			case r < 40:
				s = Step{"op": "Remove", "k": k}
			case r < 45:
				s = Step{"op": "Get", "k": k}
			case r < 48:
				s = Step{"op": "Len"}
			case r < 53:
				s = Step{"op": "First"}
			default:
				if !isOpen {
					s = Step{"op": "Iterator", "i": it}
				} else {
					switch q := rnd.Intn(10); {
					case q < 3:
						s = Step{"op": "HasNext", "i": it}
					case q < 8:
						s = Step{"op": "Next", "i": it}
					default:
						s = Step{"op": "Close", "i": it}
					}
				}
			}
			var got Step
			p, pv := callPanics(func() { got = o.apply(s) })
			if p {
				tw.Emit(map[string]any{"op": s.Str("op"), "crash": firstLine(fmt.Sprint(pv))})
				break
			}
			if s.Str("op") == "Add" && got["err"] == false {
				nextID++
			}
			_, st := o.retention()
			got["nodes"], got["deleted"], got["open"], got["len"], got["stale"] = st["nodes"], st["deleted"], st["open"], st["len"], st["stale"]
			tw.Emit(got)
		}
		// close everything: with no iterator open nothing removed may be retained
		for it := 1; it <= nIt; it++ {
			if _, ok := o.its[it]; !ok {
				continue
			}
			var got Step
			if p, pv := callPanics(func() { got = o.apply(Step{"op": "Close", "i": it}) }); p {
				tw.Emit(map[string]any{"op": "Close", "crash": firstLine(fmt.Sprint(pv))})
				break
			}
			_, st := o.retention()
			got["nodes"], got["deleted"], got["open"], got["len"], got["stale"] = st["nodes"], st["deleted"], st["open"], st["len"], st["stale"]
			tw.Emit(got)
		}
	}
	return nil
}

// driveIterMapLarge: one history on a map that grows beyond a thousand entries and is drained again
// while iterators are parked on removed entries (growth / shrink paths of the implementation).
func driveIterMapLarge(tw *TraceWriter, rnd *rand.Rand) {
	o := newImObj()
	tw.Emit(map[string]any{"op": "New"})
	nextID := 1
	do := func(s Step) bool {
		var got Step
		if p, pv := callPanics(func() { got = o.apply(s) }); p {
			tw.Emit(map[string]any{"op": s.Str("op"), "crash": firstLine(fmt.Sprint(pv))})
			return false
		}
		if s.Str("op") == "Add" && got["err"] == false {
			nextID++
		}
		_, st := o.retention()
		got["nodes"], got["deleted"], got["open"], got["len"], got["stale"] = st["nodes"], st["deleted"], st["open"], st["len"], st["stale"]
		tw.Emit(got)
		return true
	}
	key := func(i int) string { return fmt.Sprintf("k%d", i) }
	n := 1100 + rnd.Intn(300)
	for i := 0; i < n; i++ {
		if !do(Step{"op": "Add", "k": key(i), "v": nextID}) {
			return
		}
	}
	// two iterators parked a few entries in, the entries under them removed
	for it := 1; it <= 2; it++ {
		do(Step{"op": "Iterator", "i": it})
		for j := 0; j < it*2; j++ {
			do(Step{"op": "Next", "i": it})
		}
	}
	do(Step{"op": "Remove", "k": key(2)})
	do(Step{"op": "Remove", "k": key(4)})
	// drain to well below a quarter of the peak, in a shuffled order
	order := rnd.Perm(n)
	left := n
	for _, i := range order {
		if left <= n/8 {
			break
		}
		if i < 8 {
			continue
		}
		if !do(Step{"op": "Remove", "k": key(i)}) {
			return
		}
		left--
	}
	do(Step{"op": "Len"})
	for _, i := range []int{0, 2, 4, 5, order[0], order[1]} {
		do(Step{"op": "Get", "k": key(i)})
	}
	do(Step{"op": "Next", "i": 1})
	do(Step{"op": "Next", "i": 2})
	do(Step{"op": "Close", "i": 1})
	do(Step{"op": "Close", "i": 2})
	for _, i := range []int{0, 2, 4, 5} {
		do(Step{"op": "Get", "k": key(i)})
	}
	do(Step{"op": "Add", "k": key(2), "v": nextID})
	do(Step{"op": "Get", "k": key(2)})
	do(Step{"op": "Remove", "k": key(2)})
	do(Step{"op": "Len"})
	do(Step{"op": "First"})
	// a full iteration must return exactly the live entries in insertion order
	do(Step{"op": "Iterator", "i": 3})
	for j := 0; j < left+12; j++ {
		if !do(Step{"op": "Next", "i": 3}) {
			return
		}
	}
	do(Step{"op": "Close", "i": 3})
}
