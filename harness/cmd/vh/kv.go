package main

import (
	"context"
	"fmt"
	"sort"
	"strings"
	"sync"
	"sync/atomic"
	"time"

	"github.com/acquirecloud/golibs/errors"
	"github.com/acquirecloud/golibs/kvs"
	"github.com/acquirecloud/golibs/kvs/inmem"
	kvredis "github.com/acquirecloud/golibs/kvs/redis"
	"github.com/alicebob/miniredis/v2"
	"github.com/go-redis/redis/v8"
)

// C03 / C06: the two kvs.Storage backends against spec/kv/KvStore.tla.
// Variants: "inmem" (real clock, short ticks) and "redis" (the Redis client
// over an in-process miniredis whose clock is moved with FastForward).

func init() {
	replayers["kv"] = replayKv
}

const unknownVersion = "00000000000000000000000000" // a version string no backend ever hands out

// unknownVersions: strings no backend ever hands out - shaped like a version that sorts before every real one, like
// one that sorts after every real one, and the empty string
var unknownVersions = []string{unknownVersion, "7ZZZZZZZZZZZZZZZZZZZZZZZZZ", ""}
var unknownCtr int64

func someUnknownVersion() string {
	return unknownVersions[int(atomic.AddInt64(&unknownCtr, 1))%len(unknownVersions)]
}
func isUnknownVersion(v string) bool {
	for _, u := range unknownVersions {
		if v == u {
			return true
		}
	}
	return false
}

type kvBackend struct {
	st      kvs.Storage
	mr      *miniredis.Miniredis
	closeFn func()
}

var redisPool = sync.Pool{}

func newRedisBackend() (*kvBackend, error) {
	if v := redisPool.Get(); v != nil {
		b := v.(*kvBackend)
		b.mr.FlushAll()
		return b, nil
	}
	mr, err := miniredis.Run()
	if err != nil {
		return nil, err
	}
	st := kvredis.New(&redis.Options{Addr: mr.Addr()})
	return &kvBackend{st: st, mr: mr}, nil
}

// kvRun is the state of one behaviour being replayed.
type kvRun struct {
	be        *kvBackend
	redis     bool
	tick      time.Duration
	start     time.Time
	now       int               // model time (even)
	bound     map[int]string    // model version -> real version string
	seen      map[string]bool   // every real version string observed so far
	expOf     map[int]time.Time // model version -> expiration instant written
	stalled   bool
	verList   []string // real version strings in the order they were handed out
	expStamp  time.Time // Redis: when the expiration of the write under way was computed
	pastCount int
	wrotePast bool // a record with an expiration in the past was just written
}

func keyOf(v any) string {
	arr, _ := v.([]any)
	var sb strings.Builder
	for _, c := range arr {
		s, _ := c.(string)
		sb.WriteString(s)
	}
	return sb.String()
}

func valOf(s string) []byte {
	switch s {
	case "nil":
		return nil
	case "empty", "":
		return []byte{}
	}
	return []byte(s)
}

func sameVal(real []byte, model string) bool {
	if model == "nil" || model == "empty" {
		model = ""
	}
	if i := strings.Index(string(real), "|prev="); i >= 0 {
		real = real[:i]
	}
	return string(real) == model
}

// expTime maps a model expiration class to the real instant to write.
func (r *kvRun) expTime(class string) *time.Time {
	var d int
	switch class {
	case "none":
		return nil
	case "s1":
		d = 1
	case "s3":
		d = 3
	case "f23":
		d = 23
	case "f27":
		d = 27
	case "past": // already expired when written
		t := time.Now().Add(-time.Second)
		if !r.redis {
			t = r.start.Add(time.Duration(r.now-1) * r.tick)
		}
		r.pastCount++
		if r.pastCount%2 == 0 {
			t = time.Time{} // ... every other time by ages: the zero time (1 January of year 1)
		}
		r.wrotePast = true
		return &t
	case "far": // "never": far beyond what fits a 64-bit nanosecond count
		t := time.Date(9999, 12, 31, 23, 59, 59, 0, time.UTC)
		return &t
	default: // long
		t := time.Now().Add(time.Hour)
		return &t
	}
	var t time.Time
	if r.redis {
		// miniredis time is virtual: the client turns ExpiresAt into a TTL relative to the real clock - the real time
		// that passes between here and the client's own look at the clock shortens the TTL (see checkWindow)
		t = time.Now().Add(time.Duration(d) * r.tick)
		if r.expStamp.IsZero() {
			r.expStamp = time.Now()
		}
	} else {
		t = r.start.Add(time.Duration(r.now+d) * r.tick)
	}
	return &t
}

func errClass(err error) string {
	switch {
	case err == nil:
		return "nil"
	case errors.Is(err, errors.ErrExist):
		return "exist"
	case errors.Is(err, errors.ErrNotExist):
		return "notexist"
	case errors.Is(err, errors.ErrConflict):
		return "conflict"
	}
	return "other: " + firstLine(err.Error())
}

// matchVer checks a real version string against the model version: equal to the
// string already bound to it, or - at first appearance - a string never seen before.
func (r *kvRun) matchVer(model int, real string) bool {
	if real == "" {
		return false
	}
	if b, ok := r.bound[model]; ok {
		return b == real
	}
	if r.seen[real] {
		return false // not fresh: this string already names another version
	}
	r.seen[real] = true
	r.bound[model] = real
	r.verList = append(r.verList, real)
	return true
}

// valOf: the bytes written for a model value.  A non-empty value also QUOTES the version strings handed out so far (the
// last four), the way records that link to their predecessors do ("prev=<version>"): what a value contains is the
// caller's business and must never be taken for the record's version.  sameVal compares the part before the quote.
func (r *kvRun) valOf(s string) []byte {
	b := valOf(s)
	if len(b) == 0 || len(r.verList) == 0 {
		return b
	}
	from := len(r.verList) - 4
	if from < 0 {
		from = 0
	}
	return []byte(s + "|prev=" + strings.Join(r.verList[from:], ","))
}

func (r *kvRun) argVer(model int) string {
	if model == 0 {
		return someUnknownVersion()
	}
	if b, ok := r.bound[model]; ok {
		return b
	}
	return unknownVersion + "x" // cannot happen: the model only uses versions the client has seen
}

func (r *kvRun) checkRec(rec kvs.Record, want map[string]any) string {
	if rec.Key != keyOf(want["k"]) {
		return "key differs"
	}
	if !sameVal(rec.Value, want["val"].(string)) {
		return "value differs"
	}
	mv := int(want["ver"].(float64))
	if !r.matchVer(mv, rec.Version) {
		return "version is not the stored record's version"
	}
	exp := int(want["exp"].(float64))
	if exp == 0 {
		if rec.ExpiresAt != nil {
			return "expiry present on a record written without one"
		}
	} else {
		if rec.ExpiresAt == nil {
			return "expiry missing"
		}
		if w, ok := r.expOf[mv]; ok && !rec.ExpiresAt.Equal(w) {
			return "expiry differs from the one written"
		}
	}
	return ""
}

func fail(i int, s Step, why string, got any) *Failure {
	return &Failure{Step: i, Sig: "kv: " + s.Str("op") + ": " + why, Got: got, Want: s}
}

func (r *kvRun) step(i int, s Step) *Failure {
	ctx := context.Background()
	st := r.be.st
	k := keyOf(s["k"])
	switch s.Str("op") {
	case "Create":
		e := r.expTime(s.Str("exp"))
		ver, err := st.Create(ctx, kvs.Record{Key: k, Value: r.valOf(s.Str("val")), ExpiresAt: e})
		if errClass(err) != s.Str("err") {
			return fail(i, s, "error class differs (want "+s.Str("err")+")", errClass(err))
		}
		if err == nil {
			if r.seen[ver] || ver == "" {
				return fail(i, s, "version of the new record is not fresh", ver)
			}
			r.matchVer(s.Int("ver"), ver)
			if e != nil {
				r.expOf[s.Int("ver")] = *e
			}
		} else if !r.matchVer(s.Int("ver"), ver) {
			return fail(i, s, "ErrExist does not report the stored record's version", ver)
		}
	case "Get":
		rec, err := st.Get(ctx, k)
		if errClass(err) != s.Str("err") {
			return fail(i, s, "error class differs (want "+s.Str("err")+")", errClass(err))
		}
		if err == nil {
			if why := r.checkRec(rec, s["rec"].(map[string]any)); why != "" {
				return fail(i, s, why, fmt.Sprintf("%+v", rec))
			}
		}
	case "GetMany":
		var keys []string
		for _, kk := range s["ks"].([]any) {
			keys = append(keys, keyOf(kk))
		}
		recs, err := st.GetMany(ctx, keys...)
		if err != nil {
			return fail(i, s, "unexpected error", err.Error())
		}
		want := s["recs"].([]any)
		if len(recs) != len(want) {
			return fail(i, s, "result length differs from the number of keys", len(recs))
		}
		for j, w := range want {
			wm := w.(map[string]any)
			if _, none := wm["none"]; none {
				if recs[j] != nil {
					return fail(i, s, "record returned for a missing key", fmt.Sprintf("%+v", *recs[j]))
				}
				continue
			}
			if recs[j] == nil {
				return fail(i, s, "present record not returned", j)
			}
			if why := r.checkRec(*recs[j], wm); why != "" {
				return fail(i, s, why, fmt.Sprintf("%+v", *recs[j]))
			}
		}
	case "Put":
		e := r.expTime(s.Str("exp"))
		rec, err := st.Put(ctx, kvs.Record{Key: k, Value: r.valOf(s.Str("val")), Version: r.anyOldVersion(), ExpiresAt: e})
		if err != nil {
			return fail(i, s, "unexpected error", err.Error())
		}
		if r.seen[rec.Version] || rec.Version == "" {
			return fail(i, s, "version of the written record is not fresh", rec.Version)
		}
		r.matchVer(s.Int("ver"), rec.Version)
		if e != nil {
			r.expOf[s.Int("ver")] = *e
		}
		if rec.Key != k || !sameVal(rec.Value, s.Str("val")) || (e == nil) != (rec.ExpiresAt == nil) || (e != nil && !rec.ExpiresAt.Equal(*e)) {
			return fail(i, s, "returned record differs from the one written", fmt.Sprintf("%+v", rec))
		}
	case "PutMany":
		var recs []kvs.Record
		first := s.Int("first")
		for j, w := range s["recs"].([]any) {
			wm := w.(map[string]any)
			e := r.expTime(wm["exp"].(string))
			if e != nil {
				r.expOf[first+j] = *e
			}
			recs = append(recs, kvs.Record{Key: keyOf(wm["k"]), Value: r.valOf(wm["val"].(string)), Version: r.anyOldVersion(), ExpiresAt: e})
		}
		if err := st.PutMany(ctx, recs); err != nil {
			return fail(i, s, "unexpected error", err.Error())
		}
	case "Cas":
		e := r.expTime(s.Str("exp"))
		rec, err := st.CasByVersion(ctx, kvs.Record{Key: k, Value: r.valOf(s.Str("val")), Version: r.argVer(s.Int("arg")), ExpiresAt: e})
		if errClass(err) != s.Str("err") {
			return fail(i, s, "error class differs (want "+s.Str("err")+")", errClass(err))
		}
		if err == nil {
			if r.seen[rec.Version] || rec.Version == "" {
				return fail(i, s, "version of the written record is not fresh", rec.Version)
			}
			r.matchVer(s.Int("ver"), rec.Version)
			if e != nil {
				r.expOf[s.Int("ver")] = *e
			}
			if rec.Key != k || !sameVal(rec.Value, s.Str("val")) {
				return fail(i, s, "returned record differs from the one written", fmt.Sprintf("%+v", rec))
			}
		}
	case "Delete":
		err := st.Delete(ctx, k)
		if errClass(err) != s.Str("err") {
			return fail(i, s, "error class differs (want "+s.Str("err")+")", errClass(err))
		}
	case "ListKeys":
		it, err := st.ListKeys(ctx, keyOf(s["pat"]))
		if err != nil {
			return fail(i, s, "unexpected error", err.Error())
		}
		got := map[string]bool{}
		for it.HasNext() {
			kk, ok := it.Next()
			if !ok {
				break
			}
			got[kk] = true
		}
		it.Close()
		want := map[string]bool{}
		for _, kk := range s["keys"].([]any) {
			want[keyOf(kk)] = true
		}
		var gl []string
		for kk := range got {
			gl = append(gl, kk)
		}
		sort.Strings(gl)
		for kk := range want {
			if !got[kk] {
				return fail(i, s, "a present matching key is missing from the listing", gl)
			}
		}
		for kk := range got {
			if !want[kk] {
				return fail(i, s, "listing contains a key that is absent or does not match", gl)
			}
		}
	case "Wait":
		cctx, cancel := context.WithTimeout(ctx, 3*time.Second)
		err := st.WaitForVersionChange(cctx, k, r.argVer(s.Int("arg")))
		cancel()
		if errClass(err) != s.Str("err") && cctx.Err() != nil {
			return fail(i, s, "blocked although the version differs or the key is absent", errClass(err))
		}
		if errClass(err) != s.Str("err") {
			return fail(i, s, "result differs (want "+s.Str("err")+")", errClass(err))
		}
	case "Advance":
		r.now = s.Int("now")
		if r.redis {
			r.be.mr.FastForward(2 * r.tick)
		} else {
			time.Sleep(time.Until(r.start.Add(time.Duration(r.now) * r.tick)))
		}
	}
	if r.redis && r.wrotePast {
		// the Redis client gives an already expired record a TTL of 1 ms; miniredis time only moves when told to
		r.be.mr.FastForward(3 * time.Millisecond)
	}
	r.wrotePast = false
	return nil
}

// checkWindow: every call at model time `now` must have run inside the real window around it (expirations sit at odd
// ticks, calls at even ones).  Evaluated after EVERY step - a step that disagrees with the contract because the host
// stalled past an expiration must not be judged either.
func (r *kvRun) checkWindow() {
	if !r.redis && time.Since(r.start) > time.Duration(r.now+1)*r.tick-r.tick/4 {
		r.stalled = true
	}
	if r.redis && !r.expStamp.IsZero() {
		// Redis, virtual clock: a write with an expiration took so long in REAL time (host stall between the harness's
		// and the client's look at the clock) that the TTL the server got may be a tick short: not judged
		if time.Since(r.expStamp) > r.tick/4 {
			r.stalled = true
		}
		r.expStamp = time.Time{}
	}
}

// anyOldVersion returns some previously handed out version: Put/PutMany must ignore the
// Version field of their argument ("it is ignored in Create and update operations").
func (r *kvRun) anyOldVersion() string {
	best := 0
	for m := range r.bound {
		if m > best {
			best = m
		}
	}
	return r.bound[best]
}

func replayKv(b Behaviour, opt *Options) *Failure {
	isRedis := opt.Variant == "redis"
	hasTime := false
	for _, s := range b {
		if s.Str("op") == "Advance" {
			hasTime = true
		}
	}
	tick := 30 * time.Millisecond
	if t, ok := opt.Extra["tick_ms"]; ok {
		var ms int
		fmt.Sscan(t, &ms)
		tick = time.Duration(ms) * time.Millisecond
	}
	if isRedis {
		tick = time.Second
		if t, ok := opt.Extra["redis_tick_ms"]; ok {
			var ms int
			fmt.Sscan(t, &ms)
			tick = time.Duration(ms) * time.Millisecond
		}
	}
	_ = hasTime
	for attempt := 0; ; attempt++ {
		var be *kvBackend
		if isRedis {
			var err error
			be, err = newRedisBackend()
			if err != nil {
				return &Failure{Kind: "inconclusive", Sig: "harness: miniredis: " + err.Error()}
			}
		} else {
			be = &kvBackend{st: inmem.New()}
		}
		r := &kvRun{be: be, redis: isRedis, tick: tick, start: time.Now(), bound: map[int]string{}, seen: map[string]bool{}, expOf: map[int]time.Time{}}
		var f *Failure
		for i := 1; i < len(b); i++ {
			// (through callPanics: the replay watchdog then knows how long this one call has been in flight)
			if p, pv := callPanics(func() { f = r.step(i, b[i]) }); p {
				f = &Failure{Step: i, Sig: "kv: " + b[i].Str("op") + " panicked", Got: firstLine(fmt.Sprint(pv)), Want: b[i]}
			}
			r.checkWindow()
			if f != nil {
				break
			}
		}
		if isRedis {
			redisPool.Put(be)
		}
		if !r.stalled {
			return f
		}
		// the host stalled during a timed run: the outcome is not judged; try again, then give up
		if attempt >= 3 {
			return &Failure{Kind: "inconclusive", Sig: "timing window missed (host stall)"}
		}
		tick *= 2
	}
}
