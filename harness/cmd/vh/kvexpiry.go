package main

import (
	"context"
	"fmt"
	"math/rand"
	"sync"
	"time"

	"github.com/acquirecloud/golibs/kvs"
	"github.com/acquirecloud/golibs/kvs/inmem"
)

// C06, in-memory backend: writes racing the expiration of a record on which waiters are parked.
// A long PutMany on other keys keeps the store busy across the expiry instant, a writer
// (Put / Create / PutMany / CasByVersion) of a record WITHOUT expiration queues up behind it, and
// the waiters' expiry wake-up arrives while both are queued.  Whatever the interleaving, the record
// written without expiration must be there afterwards ("a record whose expiration lies in the
// future, or that has none, is never dropped").  Events are validated by spec/kv/ExpiryRaceTrace.tla.

func init() { drivers["kvexpiry"] = driveKvExpiry }

func driveKvExpiry(opt *Options) error {
	tw, err := NewTraceWriter(opt.Out)
	if err != nil {
		return err
	}
	defer tw.Close()
	rnd := rand.New(rand.NewSource(opt.Seed))
	filler := make([]kvs.Record, 40000)
	for i := range filler {
		filler[i] = kvs.Record{Key: fmt.Sprintf("filler/%d", i), Value: []byte("f")}
	}
	ctx := context.Background()
	for round := 0; round < opt.N; round++ {
		st := inmem.New()
		lease := time.Duration(20+rnd.Intn(15)) * time.Millisecond
		exp := time.Now().Add(lease)
		old, err := st.Put(ctx, kvs.Record{Key: "k", Value: []byte("old"), ExpiresAt: &exp})
		if err != nil {
			return err
		}
		kind := []string{"put", "create", "putmany", "cas"}[rnd.Intn(4)]
		tw.Emit(map[string]any{"e": "round", "writer": kind})
		var wg sync.WaitGroup
		nw := 1 + rnd.Intn(3)
		for w := 0; w < nw; w++ {
			wg.Add(1)
			go func(w int) {
				defer wg.Done()
				c, cancel := context.WithTimeout(ctx, 3*time.Second)
				defer cancel()
				var werr error
				callPanics(func() { werr = st.WaitForVersionChange(c, "k", old.Version) })
				tw.Emit(map[string]any{"e": "waitret", "w": w, "res": errClass(werr)})
			}(w)
		}
		// keep the store busy across the expiry instant
		busyAt := exp.Add(-time.Duration(2000+rnd.Intn(3000)) * time.Microsecond)
		time.Sleep(time.Until(busyAt))
		wg.Add(1)
		go func() {
			defer wg.Done()
			st.PutMany(ctx, filler)
		}()
		// the writer: queued behind the busy call, before or just after the expiry instant
		offs := time.Duration(rnd.Intn(2500)-1500) * time.Microsecond
		if kind == "create" {
			offs = time.Duration(100+rnd.Intn(800)) * time.Microsecond // only after the expiry can Create succeed
		}
		time.Sleep(time.Until(exp.Add(offs)))
		wres := "nil"
		switch kind {
		case "put":
			_, e := st.Put(ctx, kvs.Record{Key: "k", Value: []byte("new")})
			wres = errClass(e)
		case "create":
			_, e := st.Create(ctx, kvs.Record{Key: "k", Value: []byte("new")})
			wres = errClass(e)
		case "putmany":
			wres = errClass(st.PutMany(ctx, []kvs.Record{{Key: "k", Value: []byte("new")}}))
		case "cas":
			_, e := st.CasByVersion(ctx, kvs.Record{Key: "k", Value: []byte("new"), Version: old.Version})
			wres = errClass(e)
		}
		tw.Emit(map[string]any{"e": "write", "kind": kind, "res": wres})
		wg.Wait()
		rec, gerr := st.Get(ctx, "k")
		tw.Emit(map[string]any{"e": "final", "present": gerr == nil, "val": string(rec.Value), "noexp": rec.ExpiresAt == nil})
	}
	return nil
}
