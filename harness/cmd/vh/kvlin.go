package main

import (
	"context"
	"encoding/json"
	stderrors "errors"
	"fmt"
	"github.com/acquirecloud/golibs/container/iterable"
	"math/rand"
	"os"
	"runtime"
	"strconv"
	"strings"
	"sync"
	"sync/atomic"
	"time"

	"github.com/acquirecloud/golibs/kvs"
	"github.com/acquirecloud/golibs/kvs/inmem"
	kvredis "github.com/acquirecloud/golibs/kvs/redis"
	"github.com/alicebob/miniredis/v2"
	"github.com/go-redis/redis/v8"
)

// C02: concurrent histories of one kvs.Storage, recorded for spec/kv/KvLinTrace.tla.
//
//	vh drive kvlin -variant inmem|redis -seed S -n N -out trace.ndjson [-x threads=4] [-x ops=6]
//
// N histories are run one after the other, each on a fresh storage (inmem.New(), or the Redis
// client(s) over a flushed in-process miniredis), by up to 4 goroutines that really run
// concurrently (no gates).  Every call becomes an {"e":"inv"} event placed at a global sequence
// number drawn immediately before the call and an {"e":"ret"} event at a number drawn immediately
// after it returned (see linHistory); the output lines are in sequence-number order.  The logged
// interval therefore contains the real one, which is what makes "TLC finds no linearization" a
// sound verdict.  Real version strings are replaced by small integers in order of first
// appearance in that order ("" and the bogus CAS argument are 0).
//
// History kinds (chosen by the seed):
//
//	chain        after a common start every thread loops Get(a); CasByVersion(a, version read) (some
//	             threads Put(a) or Delete(a); Create(a) instead) for 2..K rounds without any barrier
//	random       every thread performs 3..K randomly chosen operations over keys a, b
//	many         the same, biased to GetMany/PutMany (with and without expirations)
//	create-race  all threads fire Create(a) at once (on a missing / just deleted / present key)
//	cas-race     all threads read a, then fire CasByVersion(a, version read) at once; twice
//	delete-cas   all threads read a, then some fire Delete(a), the others CasByVersion(a, ..)
//	put-cas      all threads read a, then some fire Put(a), the others CasByVersion(a, ..)
//
// CAS arguments are versions the calling thread has observed itself (latest / an older one /
// one of the other key) or a bogus string.  The Version field of records given to Create, Put
// and PutMany carries the last version the thread saw for that key, as a read-modify-write
// caller would leave it: the storage must ignore it.
func init() {
	drivers["kvlin"] = driveKvLin
}

var linKeys = []string{"a", "b"}

const linMaxThreads = 4

// linHistory is the recorder of one history.  The global sequence number is an atomic counter:
// a thread draws one number immediately before it calls (s1) and one immediately after the call
// returned (s2) and keeps the raw arguments and results in a thread-local list; nothing is
// formatted, allocated or locked inside the interval, so recording disturbs the contention between
// the calls as little as possible.  Atomic increments are totally ordered in real time, hence
// "ret of A has a smaller number than inv of B" implies that A had returned before B was called:
// the logged interval contains the real one.  When the history is complete the per-thread lists
// are merged by sequence number, and version strings are replaced by small integers in order of
// first appearance in that order.
type linHistory struct {
	seq int64
}

type linPut struct{ k, val, exp string }

// linOp is one completed call.
type linOp struct {
	t        int
	s1, s2   int64
	op, k    string
	val, exp string   // value class / expiration class of the written record
	arg      string   // CAS: the version string given
	keys     []string // GetMany
	puts     []linPut // PutMany
	cctx     bool     // the context passed to the call was already cancelled
	pn       string   // the call panicked: text
	err      error
	ver      string        // Create: version returned
	rec      kvs.Record    // Get / Put / Cas: record returned
	recs     []*kvs.Record // GetMany
}

func recEvent(r *kvs.Record, id func(string) int) map[string]any {
	if r == nil {
		return map[string]any{"none": true}
	}
	return map[string]any{"val": linStripPrev(r.Value), "ver": id(r.Version), "exp": expFlag(r.ExpiresAt)}
}

func (o *linOp) invEvent(id func(string) int) map[string]any {
	ev := map[string]any{"e": "inv", "t": o.t, "op": o.op}
	if o.cctx {
		ev["cctx"] = true
	}
	switch o.op {
	case "Create", "Put":
		ev["k"], ev["val"], ev["exp"] = o.k, o.val, o.exp
	case "Cas":
		ev["k"], ev["val"], ev["exp"], ev["arg"] = o.k, o.val, o.exp, id(o.arg)
	case "Get", "Delete":
		ev["k"] = o.k
	case "GetMany":
		ev["ks"] = o.keys
	case "PutMany":
		var l []any
		for _, p := range o.puts {
			l = append(l, map[string]any{"k": p.k, "val": p.val, "exp": p.exp})
		}
		ev["recs"] = l
	}
	return ev
}

func (o *linOp) retEvent(id func(string) int) map[string]any {
	ev := map[string]any{"e": "ret", "t": o.t, "err": errClass(o.err)}
	if o.cctx && stderrors.Is(o.err, context.Canceled) {
		ev["err"] = "ctxerr"
	}
	if o.pn != "" {
		ev["err"] = o.pn
	}
	ok := o.pn == "" && o.err == nil
	switch o.op {
	case "Create":
		ev["ver"] = 0
		if o.pn == "" && (o.err == nil || errClass(o.err) == "exist") {
			ev["ver"] = id(o.ver)
		}
	case "Put", "Cas":
		ev["ver"], ev["val"] = 0, ""
		if ok {
			ev["ver"], ev["val"] = id(o.rec.Version), linStripPrev(o.rec.Value)
		}
	case "Get":
		if ok {
			ev["rec"] = recEvent(&o.rec, id)
		}
	case "GetMany":
		out := []any{}
		if ok {
			for _, r := range o.recs {
				out = append(out, recEvent(r, id))
			}
		}
		ev["recs"] = out
	}
	return ev
}

// events merges the per-thread lists into the log: (number of invocations that found another call in flight, events)
func linEvents(threads []*linThread) (int, []map[string]any) {
	type slot struct {
		o   *linOp
		ret bool
	}
	var n int64
	for _, th := range threads {
		n += int64(2 * len(th.ops))
	}
	slots := make([]slot, n+1)
	for _, th := range threads {
		for i := range th.ops {
			o := &th.ops[i]
			slots[o.s1] = slot{o, false}
			slots[o.s2] = slot{o, true}
		}
	}
	ids := map[string]int{}
	id := func(v string) int {
		if isUnknownVersion(v) {
			return 0
		}
		if x, ok := ids[v]; ok {
			return x
		}
		ids[v] = len(ids) + 1
		return len(ids)
	}
	var evs []map[string]any
	open, ovl := 0, 0
	for _, sl := range slots[1:] {
		if sl.o == nil {
			continue // cannot happen: every number drawn belongs to one event
		}
		if sl.ret {
			open--
			evs = append(evs, sl.o.retEvent(id))
		} else {
			if open > 0 {
				ovl++
			}
			open++
			evs = append(evs, sl.o.invEvent(id))
		}
	}
	return ovl, evs
}

// linBarrier releases all parties at once when the last one has arrived.
type linBarrier struct {
	mu    sync.Mutex
	n     int
	count int
	ch    chan struct{}
	spin  int64
}

func newLinBarrier(n int) *linBarrier { return &linBarrier{n: n, ch: make(chan struct{})} }

func (b *linBarrier) wait() {
	b.mu.Lock()
	ch := b.ch
	b.count++
	if b.count == b.n {
		b.count = 0
		b.ch = make(chan struct{})
		close(ch)
	}
	b.mu.Unlock()
	<-ch
}

// fire is the "all fire at once" barrier: the parties first meet at the sleeping barrier, then at
// a spinning one, so that they leave within nanoseconds of each other (the calls of the in-memory
// store take well under a microsecond; a channel wake-up alone would spread them too far apart).
func (b *linBarrier) fire() {
	b.wait()
	arrive := atomic.AddInt64(&b.spin, 1)
	target := ((arrive-1)/int64(b.n) + 1) * int64(b.n)
	for i := 0; atomic.LoadInt64(&b.spin) < target; i++ {
		if i%2000 == 1999 {
			runtime.Gosched()
		}
	}
}

// linStep is one step of a thread's program.
type linStep struct {
	kind string // "rand", "barrier", or an operation name
	k    string
	sel  string // CAS argument: "latest", "stale", "other", "bogus", "" = seeded choice
	many bool   // "rand" biased to GetMany/PutMany
	fire bool   // log inv, meet the other threads at the barrier, then call: all calls start at once
}

// linThread is the per-thread state: what it has observed, its private random source.
type linThread struct {
	id   int
	st   kvs.Storage
	rnd  *rand.Rand
	obs  map[string][]string // key -> versions this thread has observed for it, oldest first
	h    *linHistory
	bar  *linBarrier
	nval int
	ops  []linOp
}

func (th *linThread) saw(k, ver string) {
	if ver == "" {
		return
	}
	o := th.obs[k]
	if len(o) > 0 && o[len(o)-1] == ver {
		return
	}
	th.obs[k] = append(o, ver)
}

func (th *linThread) latest(k string) string {
	o := th.obs[k]
	if len(o) == 0 {
		return ""
	}
	return o[len(o)-1]
}

func (th *linThread) pickKey() string {
	if th.rnd.Intn(100) < 65 {
		return linKeys[0]
	}
	return linKeys[1]
}

func otherKey(k string) string {
	if k == linKeys[0] {
		return linKeys[1]
	}
	return linKeys[0]
}

// newVal returns (model value class, bytes): a value unique to this write (a read then tells which
// write it saw), or one of two common values (so that a record is also rewritten with the value it
// already has), or nil / empty.
func (th *linThread) newVal() (string, []byte) {
	switch x := th.rnd.Intn(20); {
	case x == 0:
		return "nil", nil
	case x == 1:
		return "empty", []byte{}
	case x < 7:
		return "x", []byte("x")
	case x < 9:
		return "y", []byte("y")
	}
	th.nval++
	b := strconv.AppendInt(append(strconv.AppendInt([]byte{'v'}, int64(th.id), 10), '.'), int64(th.nval), 10)
	return string(b), b
}

func (th *linThread) newExp() (string, *time.Time) {
	if th.rnd.Intn(4) == 0 {
		t := time.Now().Add(time.Hour)
		return "long", &t
	}
	return "none", nil
}

func expFlag(t *time.Time) int {
	if t == nil {
		return 0
	}
	return 99
}

// casArg chooses the version argument of a CAS on key k.
func (th *linThread) casArg(k, sel string) string {
	if sel == "" {
		switch x := th.rnd.Intn(10); {
		case x < 6:
			sel = "latest"
		case x < 8:
			sel = "stale"
		case x < 9:
			sel = "other"
		default:
			sel = "bogus"
		}
	}
	switch sel {
	case "latest":
		if v := th.latest(k); v != "" {
			return v
		}
	case "stale":
		if o := th.obs[k]; len(o) > 1 {
			return o[th.rnd.Intn(len(o)-1)]
		} else if len(o) == 1 {
			return o[0]
		}
	case "other":
		if v := th.latest(otherKey(k)); v != "" {
			return v
		}
	}
	return someUnknownVersion()
}

// do performs one operation: draw s1, call, draw s2.  A panic of the library is a reply ("other: panic").
// With fire set, the thread meets the others between drawing s1 and calling (the logged interval
// still contains the real one), so that all calls start at once.
func (th *linThread) do(op, k, sel string, fire bool) {
	ctx := context.Background()
	st := th.st
	o := linOp{t: th.id, op: op, k: k}
	if op != "GetMany" && op != "PutMany" && th.rnd.Intn(12) == 0 {
		// the caller's context is ALREADY done: the call may ignore that (and answer as usual) or refuse with the
		// context's error - but a call that reports an error has not changed anything
		c, cancel := context.WithCancel(ctx)
		cancel()
		ctx, o.cctx = c, true
	}
	var et *time.Time
	var vb []byte
	var recs []kvs.Record
	switch op {
	case "Create", "Put", "Cas":
		o.val, vb = th.newVal()
		o.exp, et = th.newExp()
		if op == "Cas" {
			o.arg = th.casArg(k, sel)
			if len(vb) > 0 && o.arg != "" {
				// the new value links to the record it replaces ("prev=<version>"): what a value contains is never the version
				vb = []byte(string(vb) + "|prev=" + o.arg)
			}
		}
	case "GetMany":
		o.keys = th.manyKeys(true)
	case "PutMany":
		// either no record has an expiration (the Redis client then uses MSET) or some have
		// (it then writes them one by one)
		withExp := th.rnd.Intn(2) == 0
		keys := th.manyKeys(false)
		for _, kk := range keys {
			vc, b := th.newVal()
			ec, e := "none", (*time.Time)(nil)
			if withExp && (th.rnd.Intn(2) == 0 || kk == keys[len(keys)-1]) {
				tt := time.Now().Add(time.Hour)
				ec, e = "long", &tt
			}
			recs = append(recs, kvs.Record{Key: kk, Value: b, Version: th.latest(kk), ExpiresAt: e})
			o.puts = append(o.puts, linPut{kk, vc, ec})
		}
	}
	func() {
		defer func() {
			if p := recover(); p != nil {
				o.s2 = atomic.AddInt64(&th.h.seq, 1)
				o.pn = "other: panic: " + firstLine(fmt.Sprint(p))
			}
		}()
		o.s1 = atomic.AddInt64(&th.h.seq, 1)
		if fire {
			th.bar.fire()
		}
		switch op {
		case "Create":
			o.ver, o.err = st.Create(ctx, kvs.Record{Key: k, Value: vb, Version: th.latest(k), ExpiresAt: et})
		case "Get":
			o.rec, o.err = st.Get(ctx, k)
		case "Put":
			o.rec, o.err = st.Put(ctx, kvs.Record{Key: k, Value: vb, Version: th.latest(k), ExpiresAt: et})
		case "Cas":
			o.rec, o.err = st.CasByVersion(ctx, kvs.Record{Key: k, Value: vb, Version: o.arg, ExpiresAt: et})
		case "Delete":
			o.err = st.Delete(ctx, k)
		case "GetMany":
			o.recs, o.err = st.GetMany(ctx, o.keys...)
		case "PutMany":
			o.err = st.PutMany(ctx, recs)
		}
		o.s2 = atomic.AddInt64(&th.h.seq, 1)
	}()
	th.ops = append(th.ops, o)
	if o.pn != "" {
		return
	}
	// what the thread has learned (CAS arguments are versions the thread has observed itself)
	switch op {
	case "Create":
		if o.err == nil || errClass(o.err) == "exist" {
			th.saw(k, o.ver)
		}
	case "Get", "Put", "Cas":
		if o.err == nil {
			th.saw(k, o.rec.Version)
		}
	case "GetMany":
		if o.err == nil && len(o.recs) == len(o.keys) {
			for i, r := range o.recs {
				if r != nil {
					th.saw(o.keys[i], r.Version)
				}
			}
		}
	}
}

// manyKeys: 1..2 keys for PutMany (no repetition: one write per key and call), 1..3 for GetMany
// (repetitions allowed: every slot is its own read).
func (th *linThread) manyKeys(repeat bool) []string {
	first := th.pickKey()
	switch x := th.rnd.Intn(10); {
	case x < 2:
		return []string{first}
	case x < 8 || !repeat:
		return []string{first, otherKey(first)}
	case x < 9:
		return []string{first, otherKey(first), first}
	}
	return []string{first, first}
}

func (th *linThread) randOp(many bool) {
	k := th.pickKey()
	x := th.rnd.Intn(100)
	if many {
		switch {
		case x < 30:
			th.do("PutMany", k, "", false)
		case x < 55:
			th.do("GetMany", k, "", false)
		case x < 65:
			th.do("Get", k, "", false)
		case x < 75:
			th.do("Cas", k, "", false)
		case x < 83:
			th.do("Put", k, "", false)
		case x < 91:
			th.do("Delete", k, "", false)
		default:
			th.do("Create", k, "", false)
		}
		return
	}
	switch {
	case x < 15:
		th.do("Create", k, "", false)
	case x < 35:
		th.do("Get", k, "", false)
	case x < 50:
		th.do("Put", k, "", false)
	case x < 72:
		th.do("Cas", k, "", false)
	case x < 84:
		th.do("Delete", k, "", false)
	case x < 92:
		th.do("GetMany", k, "", false)
	default:
		th.do("PutMany", k, "", false)
	}
}

// linPrograms builds the per-thread programs of one history.
func linPrograms(rnd *rand.Rand, maxT, maxK int) (kind string, progs [][]linStep) {
	T := 2 + rnd.Intn(maxT-1)
	rands := func(n int, many bool) []linStep {
		var s []linStep
		for i := 0; i < n; i++ {
			s = append(s, linStep{kind: "rand", many: many})
		}
		return s
	}
	bar := linStep{kind: "barrier"}
	progs = make([][]linStep, T)
	switch x := rnd.Intn(100); {
	case x < 26:
		kind = "random"
		for i := range progs {
			progs[i] = rands(3+rnd.Intn(maxK-2), false)
		}
	case x < 36:
		kind = "many"
		for i := range progs {
			progs[i] = rands(3+rnd.Intn(maxK-2), true)
		}
	case x < 50:
		// no barrier after the start: every thread keeps reading a and writing it back by CAS (some
		// threads put / delete+create instead), so the calls contend for as long as the history lasts
		kind = "chain"
		rounds := 2 + rnd.Intn(maxK-1)
		for i := range progs {
			if i == 0 {
				progs[i] = append(progs[i], linStep{kind: "Put", k: "a"})
			}
			progs[i] = append(progs[i], bar)
			role := rnd.Intn(6)
			for r := 0; r < rounds; r++ {
				switch {
				case role == 0 && i > 0:
					progs[i] = append(progs[i], linStep{kind: "Put", k: "a"})
				case role == 1 && i > 0:
					progs[i] = append(progs[i], linStep{kind: "Delete", k: "a"}, linStep{kind: "Create", k: "a"})
				default:
					progs[i] = append(progs[i], linStep{kind: "Get", k: "a"}, linStep{kind: "Cas", k: "a", sel: "latest"})
				}
			}
		}
		for i := range progs {
			// the threads leave the start together: the first call after the barrier is a fire step
			for j := range progs[i] {
				if progs[i][j].kind == "barrier" {
					progs[i] = append(progs[i][:j], progs[i][j+1:]...)
					progs[i][j].fire = true
					break
				}
			}
		}
	case x < 62:
		kind = "create-race"
		// thread 0 prepares the key: missing, created then deleted, or present
		var pre []linStep
		switch rnd.Intn(4) {
		case 1:
			pre = []linStep{{kind: "Put", k: "a"}, {kind: "Delete", k: "a"}}
		case 2:
			pre = []linStep{{kind: "Create", k: "a"}}
		}
		second := rnd.Intn(2) == 0
		for i := range progs {
			if i == 0 {
				progs[i] = append(progs[i], pre...)
			}
			progs[i] = append(progs[i], bar, linStep{kind: "Create", k: "a", fire: true})
			if second {
				// a second round: one thread deletes, everybody creates again at once
				if i == 0 {
					progs[i] = append(progs[i], bar, linStep{kind: "Delete", k: "a"}, bar, linStep{kind: "Create", k: "a", fire: true})
				} else {
					progs[i] = append(progs[i], bar, bar, linStep{kind: "Create", k: "a", fire: true})
				}
			}
			progs[i] = append(progs[i], linStep{kind: "Cas", k: "a", sel: "latest"}, linStep{kind: "Get", k: "a"})
		}
		progs = alignBarriers(progs)
	default:
		racer := "Cas"
		switch {
		case x < 78:
			kind = "cas-race"
		case x < 88:
			kind, racer = "delete-cas", "Delete"
		default:
			kind, racer = "put-cas", "Put"
		}
		rounds := 1 + rnd.Intn(2)
		nCas := 1 + rnd.Intn(T-1) // delete-cas / put-cas: threads 0..nCas-1 fire the CAS, the others the Delete / Put
		for i := range progs {
			if i == 0 {
				if rnd.Intn(2) == 0 {
					progs[i] = append(progs[i], linStep{kind: "Put", k: "a"})
				} else {
					progs[i] = append(progs[i], linStep{kind: "Create", k: "a"})
				}
			}
			progs[i] = append(progs[i], bar)
			for r := 0; r < rounds; r++ {
				progs[i] = append(progs[i], linStep{kind: "Get", k: "a"}, bar)
				if racer != "Cas" && i >= nCas {
					progs[i] = append(progs[i], linStep{kind: racer, k: "a", fire: true})
				} else {
					progs[i] = append(progs[i], linStep{kind: "Cas", k: "a", sel: "latest", fire: true})
				}
				if kind == "delete-cas" && i == 0 {
					progs[i] = append(progs[i], linStep{kind: "Create", k: "a"})
				}
				progs[i] = append(progs[i], bar)
			}
			progs[i] = append(progs[i], rands(1+rnd.Intn(2), false)...)
		}
	}
	return kind, progs
}

// alignBarriers pads programs so that all of them contain the same number of barriers.
func alignBarriers(progs [][]linStep) [][]linStep {
	max := 0
	cnt := make([]int, len(progs))
	for i, p := range progs {
		for _, s := range p {
			if s.kind == "barrier" || s.fire {
				cnt[i]++
			}
		}
		if cnt[i] > max {
			max = cnt[i]
		}
	}
	for i := range progs {
		for ; cnt[i] < max; cnt[i]++ {
			progs[i] = append(progs[i], linStep{kind: "barrier"})
		}
	}
	return progs
}

// linRedis is one miniredis server with one client per thread (plus a shared one), reused across histories.
type linRedis struct {
	mr      *miniredis.Miniredis
	clients []kvs.Storage
}

func newLinRedis() (*linRedis, error) {
	mr, err := miniredis.Run()
	if err != nil {
		return nil, err
	}
	lr := &linRedis{mr: mr}
	for i := 0; i < linMaxThreads; i++ {
		lr.clients = append(lr.clients, kvredis.New(&redis.Options{Addr: mr.Addr()}))
	}
	return lr, nil
}

func (lr *linRedis) close() {
	for _, c := range lr.clients {
		if cl, ok := c.(interface{ Close() error }); ok {
			cl.Close()
		}
	}
	lr.mr.Close()
}

func driveKvLin(opt *Options) error {
	isRedis := opt.Variant == "redis"
	if !isRedis && opt.Variant != "inmem" && opt.Variant != "" {
		return fmt.Errorf("kvlin: unknown variant %q", opt.Variant)
	}
	maxT, maxK := linMaxThreads, 6
	if s, ok := opt.Extra["threads"]; ok {
		fmt.Sscan(s, &maxT)
	}
	if s, ok := opt.Extra["ops"]; ok {
		fmt.Sscan(s, &maxK)
	}
	if maxT < 2 || maxT > linMaxThreads || maxK < 3 {
		return fmt.Errorf("kvlin: need 2 <= threads <= %d and ops >= 3", linMaxThreads)
	}
	tw, err := NewTraceWriter(opt.Out)
	if err != nil {
		return err
	}
	defer tw.Close()
	var lr *linRedis
	if isRedis {
		if lr, err = newLinRedis(); err != nil {
			return err
		}
		defer lr.close()
	}
	rnd := rand.New(rand.NewSource(opt.Seed*7919 + 17))
	kinds := map[string]int{}
	events, overlaps, ops := 0, 0, 0
	variant := "inmem"
	if isRedis {
		variant = "redis"
	}
	for hi := 0; hi < opt.N; hi++ {
		kind, progs := linPrograms(rnd, maxT, maxK)
		kinds[kind]++
		T := len(progs)
		h := &linHistory{}
		threads := make([]*linThread, T)
		var shared kvs.Storage
		perThread := false
		if isRedis {
			lr.mr.FlushAll()
			shared = lr.clients[0]
			perThread = rnd.Intn(2) == 0 // one client per thread (separate processes in real life) or one shared client
		} else {
			shared = inmem.New()
		}
		bar := newLinBarrier(T)
		var wg sync.WaitGroup
		// in every other history the keys carry leading slashes on their way to the store (the lock uses such keys)
		slashes := []string{"", "/", "", "//dir/"}[rnd.Intn(4)]
		for i := 0; i < T; i++ {
			th := &linThread{id: i + 1, st: shared, rnd: rand.New(rand.NewSource(rnd.Int63())), obs: map[string][]string{}, h: h, bar: bar, ops: make([]linOp, 0, 40)}
			if perThread {
				th.st = lr.clients[i]
			}
			if slashes != "" {
				th.st = &prefixStore{in: th.st, pre: slashes}
			}
			threads[i] = th
			wg.Add(1)
			go func(th *linThread, prog []linStep) {
				defer wg.Done()
				// one OS thread per history thread: goroutines woken by the barrier's channel would otherwise
				// start on the waker's P one after the other, and "all fire at once" would be a queue
				runtime.LockOSThread()
				defer runtime.UnlockOSThread()
				for _, s := range prog {
					switch s.kind {
					case "barrier":
						bar.wait()
					case "rand":
						th.randOp(s.many)
					default:
						th.do(s.kind, s.k, s.sel, s.fire)
					}
				}
			}(th, progs[i])
		}
		done := make(chan struct{})
		go func() { wg.Wait(); close(done) }()
		select {
		case <-done:
		case <-time.After(60 * time.Second):
			return fmt.Errorf("kvlin: history %d (%s, %s) did not complete within 60 s: some call never returned", hi, kind, variant)
		}
		ovl, evs := linEvents(threads)
		tw.Emit(map[string]any{"e": "reset", "h": hi, "kind": kind, "variant": variant, "threads": T, "clients": map[bool]string{true: "per-thread", false: "shared"}[perThread]})
		for _, ev := range evs {
			tw.Emit(ev)
		}
		events += len(evs) + 1
		ops += len(evs) / 2
		overlaps += ovl
	}
	sum, _ := json.Marshal(map[string]any{"histories": opt.N, "events": events, "ops": ops, "invocations_overlapping_another_call": overlaps, "kinds": kinds, "variant": variant})
	fmt.Fprintln(os.Stdout, string(sum))
	return nil
}

// prefixStore puts a prefix in front of every key on its way to the store and takes it off the keys that come back.
type prefixStore struct {
	in  kvs.Storage
	pre string
}

func (p *prefixStore) k(k string) string { return p.pre + k }
func (p *prefixStore) r(r kvs.Record) kvs.Record {
	r.Key = p.pre + r.Key
	return r
}
func (p *prefixStore) back(r kvs.Record) kvs.Record {
	// (the Redis client reports keys without their leading slashes: take off whatever part of the prefix is there)
	pre := p.pre
	for len(pre) > 0 && !strings.HasPrefix(r.Key, pre) {
		pre = pre[1:]
	}
	r.Key = strings.TrimPrefix(r.Key, pre)
	return r
}
func (p *prefixStore) Create(ctx context.Context, r kvs.Record) (string, error) {
	return p.in.Create(ctx, p.r(r))
}
func (p *prefixStore) Get(ctx context.Context, key string) (kvs.Record, error) {
	r, err := p.in.Get(ctx, p.k(key))
	return p.back(r), err
}
func (p *prefixStore) GetMany(ctx context.Context, keys ...string) ([]*kvs.Record, error) {
	ks := make([]string, len(keys))
	for i, k := range keys {
		ks[i] = p.k(k)
	}
	rs, err := p.in.GetMany(ctx, ks...)
	for _, r := range rs {
		if r != nil {
			*r = p.back(*r)
		}
	}
	return rs, err
}
func (p *prefixStore) Put(ctx context.Context, r kvs.Record) (kvs.Record, error) {
	x, err := p.in.Put(ctx, p.r(r))
	return p.back(x), err
}
func (p *prefixStore) PutMany(ctx context.Context, rs []kvs.Record) error {
	xs := make([]kvs.Record, len(rs))
	for i, r := range rs {
		xs[i] = p.r(r)
	}
	return p.in.PutMany(ctx, xs)
}
func (p *prefixStore) CasByVersion(ctx context.Context, r kvs.Record) (kvs.Record, error) {
	x, err := p.in.CasByVersion(ctx, p.r(r))
	return p.back(x), err
}
func (p *prefixStore) Delete(ctx context.Context, key string) error {
	return p.in.Delete(ctx, p.k(key))
}
func (p *prefixStore) WaitForVersionChange(ctx context.Context, key, ver string) error {
	return p.in.WaitForVersionChange(ctx, p.k(key), ver)
}
func (p *prefixStore) ListKeys(ctx context.Context, pattern string) (iterable.Iterator[string], error) {
	return p.in.ListKeys(ctx, p.pre+pattern)
}


// linStripPrev: the value as the model knows it (without the link to the predecessor a Cas appends)
func linStripPrev(b []byte) string {
	if i := strings.Index(string(b), "|prev="); i >= 0 {
		return string(b[:i])
	}
	return string(b)
}
