package main

import (
	"context"
	stderrors "errors"
	"fmt"
	"math/rand"
	"runtime"
	"sort"
	"strings"
	"sync"
	"sync/atomic"
	"time"

	"github.com/acquirecloud/golibs/errors"
	"github.com/acquirecloud/golibs/kvs"
	"github.com/acquirecloud/golibs/kvs/inmem"
)

// C07: kvs.Storage.WaitForVersionChange against spec/kv/KvWait.tla.
//
// replay (spec -> code): one TLC-generated script per behaviour.  The harness
// serialises the commands and SETTLES after each one: every waiter the contract
// says is overdue must return (generous bound, seconds; `stuck` otherwise) with a
// reply from its `may` set, every other waiter must still be blocked.  Variants:
// "inmem" (the waiter table accessor tells when a started waiter is parked and
// must be empty whenever no call is in progress) and "redis" (polling client over
// an in-process miniredis; no accessor).
//
// drive (code -> spec): free-running rounds of many waiters against many writers
// with random cancels, recorded as invocation / response events in the order of a
// global mutex and judged by spec/kv/KvWaitTrace.tla.  -x mode=gated: rounds under a
// seeded scheduler that holds calls at the gate of their context (gatedCtx), i.e.
// between registration and parking.  -x hunt=M: M further rounds that are recorded
// only if they look suspicious (a call the harness gave up on, a panic); TLC judges.

func init() {
	replayers["kvwait"] = replayKvWait
	drivers["kvwait"] = driveKvWait
}

// waitClass projects the result of a WaitForVersionChange call onto the contract's replies.
func waitClass(err error, ctx context.Context) string {
	switch {
	case err == nil:
		return "nil"
	case errors.Is(err, errors.ErrNotExist):
		return "notexist"
	case ctx.Err() != nil && stderrors.Is(err, ctx.Err()):
		return "ctx"
	case stderrors.Is(err, context.Canceled) || stderrors.Is(err, context.DeadlineExceeded):
		return "ctx-not-done" // a context error although this call's context is not done
	}
	return "other"
}

type waitCall struct {
	w      int
	key    string
	ctx    context.Context
	gate   *gatedCtx // in-memory backend only: tells when the call has registered (see gatedCtx)
	cancel context.CancelFunc
	res    chan string // buffered: the class of the reply, or "panic"
	got    string      // reply once received
}

func startWait(st kvs.Storage, w int, key, ver string, pre, gated bool) *waitCall {
	ctx, cancel := context.WithCancel(context.Background())
	if pre {
		cancel()
	}
	c := &waitCall{w: w, key: key, ctx: ctx, cancel: cancel, res: make(chan string, 1)}
	if gated {
		c.gate = &gatedCtx{Context: ctx, release: make(chan struct{}, 1), open: make(chan struct{})}
		ctx = c.gate
		c.ctx = ctx
	}
	go func() {
		defer func() {
			if p := recover(); p != nil {
				c.res <- "panic"
			}
		}()
		err := st.WaitForVersionChange(ctx, key, ver)
		c.res <- waitClass(err, ctx)
	}()
	return c
}

// returned reports, without blocking, whether the call has returned.
func (c *waitCall) returned() bool {
	if c.got != "" {
		return true
	}
	select {
	case r := <-c.res:
		c.got = r
		return true
	default:
		return false
	}
}

// await waits for the call to return, at most d.
func (c *waitCall) await(d time.Duration) bool {
	if c.got != "" {
		return true
	}
	t := time.NewTimer(d)
	defer t.Stop()
	select {
	case r := <-c.res:
		c.got = r
		return true
	case <-t.C:
		return false
	}
}

type kvwRun struct {
	be      *kvBackend
	redis   bool
	bound   time.Duration  // how long an overdue waiter may take (generous)
	grace   time.Duration  // how long blocked waiters are observed at the end
	expD    time.Duration  // real life time of a record written with expiry class s1
	vers    map[int]string // model version -> real version string
	calls   map[int]*waitCall
	expAt   map[string]time.Time // inmem: key -> real expiration instant of its record
	stalled bool                 // a timed step ran too late to be judged
	drift   string               // implementation-level observation that differs from InmemWaitImpl (never a verdict)
	leaked  bool                 // some call never returned: do not reuse the backend
}

func (r *kvwRun) argVer(model int) string {
	if model == 0 {
		return someUnknownVersion()
	}
	if b, ok := r.vers[model]; ok {
		return b
	}
	return unknownVersion + "x" // cannot happen: scripts only use versions the harness has seen
}

func kvwFail(i int, s Step, why string, got any) *Failure {
	return &Failure{Step: i, Sig: "kvwait: " + s.Str("op") + ": " + why, Got: got, Want: s}
}

func mayOf(o map[string]any) []string {
	var res []string
	arr, _ := o["may"].([]any)
	for _, a := range arr {
		if s, ok := a.(string); ok {
			res = append(res, s)
		}
	}
	sort.Strings(res)
	return res
}

func inList(l []string, s string) bool {
	for _, x := range l {
		if x == s {
			return true
		}
	}
	return false
}

// table returns the in-memory waiter table (nil for the Redis backend).
func (r *kvwRun) table() map[string]int {
	if r.redis {
		return nil
	}
	return inmem.VerifWaiterTable(r.be.st)
}

// tooLate marks the run as not judgeable if a record written with an expiration is about
// to expire in real time although the script has not advanced the time yet.
func (r *kvwRun) checkClock() {
	for _, t := range r.expAt {
		if time.Until(t) < r.expD/4 {
			r.stalled = true
		}
	}
}

// settle compares every waiter with the outcome the contract prescribes after step i.
func (r *kvwRun) settle(i int, s Step) *Failure {
	ws, _ := s["ws"].([]any)
	blockedOn := map[string]int{}
	anyBlocked := false
	for _, o := range ws {
		if om, _ := o.(map[string]any); om["st"] == "blocked" {
			anyBlocked = true
			blockedOn[keyOf(om["k"])]++
		}
	}
	// 1. the call started by this step runs until it returns or has registered
	if s.Str("op") == "Start" {
		if c := r.calls[s.Int("w")]; c != nil {
			if c.gate == nil {
				time.Sleep(2 * time.Millisecond)
			} else {
				// the call reaches the gate of its context when it has registered (or the accessor
				// shows it registered); going on earlier would be harmless for the verdict - every
				// interleaving has to satisfy the contract - it only makes the run less deterministic
				deadline := time.Now().Add(250 * time.Millisecond)
				for n := 0; !c.returned() && c.gate.state.Load() != 1 && time.Now().Before(deadline); n++ {
					runtime.Gosched()
					if n%64 == 63 && blockedOn[c.key] > 0 && r.table()[c.key] >= blockedOn[c.key] {
						break
					}
				}
				close(c.gate.open) // from now on the gate stays open
			}
		}
	}
	// 2. overdue waiters must return, with a reply whose condition has held
	for idx, o := range ws {
		om, _ := o.(map[string]any)
		w := idx + 1
		if om["st"] != "ret" {
			continue
		}
		c := r.calls[w]
		if c == nil {
			return &Failure{Kind: "inconclusive", Sig: "harness: script returns a waiter that was not started"}
		}
		may := mayOf(om)
		if !c.await(r.bound) {
			r.leaked = true
			return kvwFail(i, s, "waiter stuck: "+strings.Join(may, "/")+" holds but the call does not return", "blocked")
		}
		if r.redis && c.got == "other" {
			// no fault is injected here: a hiccup of the in-process server, not the library's doing
			return &Failure{Step: i, Kind: "inconclusive", Sig: "kvwait: unexpected storage error from miniredis"}
		}
		if !inList(may, c.got) {
			return kvwFail(i, s, "waiter returned "+c.got+" but only "+strings.Join(may, "/")+" has held", c.got)
		}
		delete(r.calls, w)
	}
	// 3. everybody else must still be blocked
	for idx, o := range ws {
		om, _ := o.(map[string]any)
		if om["st"] != "blocked" {
			continue
		}
		c := r.calls[idx+1]
		if c == nil {
			return &Failure{Kind: "inconclusive", Sig: "harness: script blocks a waiter that was not started"}
		}
		if c.returned() {
			if r.redis && c.got == "other" {
				return &Failure{Step: i, Kind: "inconclusive", Sig: "kvwait: unexpected storage error from miniredis"}
			}
			return kvwFail(i, s, "waiter returned "+c.got+" while none of its conditions has held", c.got)
		}
		if c.gate != nil && c.gate.passes.Load() > 1 && r.drift == "" {
			// InmemWaitImpl: a call that is still blocked has registered exactly once (nothing has
			// closed its group).  A second registration is a wake-up without a change - harmless
			// for the contract, but not what the model of the code says.
			r.drift = "kvwait: " + s.Str("op") + ": a blocked call was woken without a change and registered again"
		}
	}
	// 4. no bookkeeping is left behind when all waiters are gone
	if !anyBlocked && !r.redis {
		if t := r.table(); len(t) != 0 {
			return kvwFail(i, s, "waiter table not empty although no call is in progress", t)
		}
	}
	return nil
}

// storeCall runs one store mutation of the script.  A reply that differs from KvStore.tla
// is the business of C03: the script cannot be continued, the run is not judged here.
func (r *kvwRun) storeCall(i int, s Step) *Failure {
	ctx := context.Background()
	st := r.be.st
	k := keyOf(s["k"])
	var class string
	var f *Failure
	expOf := func(class string) *time.Time {
		if class != "s1" {
			return nil
		}
		t := time.Now().Add(r.expD)
		return &t
	}
	panicked, pv := callPanics(func() {
		switch s.Str("op") {
		case "Put":
			e := expOf(s.Str("exp"))
			rec, err := st.Put(ctx, kvs.Record{Key: k, Value: []byte("x"), ExpiresAt: e})
			class = errClass(err)
			if err == nil {
				r.vers[s.Int("ver")] = rec.Version
				delete(r.expAt, k)
				if e != nil && !r.redis {
					r.expAt[k] = *e
				}
			}
		case "PutMany":
			var recs []kvs.Record
			last := map[string]int{}
			first := s.Int("first")
			for j, w := range s["recs"].([]any) {
				wm := w.(map[string]any)
				kk := keyOf(wm["k"])
				recs = append(recs, kvs.Record{Key: kk, Value: []byte("x")})
				last[kk] = first + j
			}
			err := st.PutMany(ctx, recs)
			class = errClass(err)
			if err == nil {
				// PutMany returns no versions: read them (a plain read; no record has an expiration here)
				for kk, mv := range last {
					delete(r.expAt, kk)
					rec, err := st.Get(ctx, kk)
					if err != nil {
						class = "get after PutMany: " + errClass(err)
						continue
					}
					r.vers[mv] = rec.Version
				}
			}
		case "Cas":
			rec, err := st.CasByVersion(ctx, kvs.Record{Key: k, Value: []byte("x"), Version: r.argVer(s.Int("arg"))})
			class = errClass(err)
			if err == nil {
				r.vers[s.Int("ver")] = rec.Version
				delete(r.expAt, k)
			}
		case "Delete":
			class = errClass(st.Delete(ctx, k))
			if class == "nil" {
				delete(r.expAt, k)
			}
		case "Create":
			ver, err := st.Create(ctx, kvs.Record{Key: k, Value: []byte("x")})
			class = errClass(err)
			if err == nil {
				r.vers[s.Int("ver")] = ver
				delete(r.expAt, k)
			}
		default:
			f = &Failure{Kind: "inconclusive", Sig: "harness: unknown script command " + s.Str("op")}
		}
	})
	if panicked {
		return kvwFail(i, s, "store call panicked", firstLine(fmt.Sprint(pv)))
	}
	if f != nil {
		return f
	}
	if class != s.Str("err") {
		return &Failure{Step: i, Kind: "inconclusive", Sig: "kvwait: " + s.Str("op") + ": store reply differs from KvStore.tla (judged by C03, not here)", Got: class, Want: s}
	}
	return nil
}

func (r *kvwRun) step(i int, s Step) *Failure {
	switch s.Str("op") {
	case "Start":
		w := s.Int("w")
		r.checkClock()
		r.calls[w] = startWait(r.be.st, w, keyOf(s["k"]), r.argVer(s.Int("arg")), s.Bool("pre"), !r.redis)
	case "Cancel":
		c := r.calls[s.Int("w")]
		if c == nil {
			return &Failure{Kind: "inconclusive", Sig: "harness: script cancels a waiter that was not started"}
		}
		r.checkClock()
		c.cancel()
	case "Advance":
		// time passes the expiration of every record written with one
		if r.redis {
			r.be.mr.FastForward(2 * r.expD)
		} else {
			var last time.Time
			for _, t := range r.expAt {
				if t.After(last) {
					last = t
				}
			}
			time.Sleep(time.Until(last.Add(3 * time.Millisecond)))
			r.expAt = map[string]time.Time{}
		}
	default:
		r.checkClock()
		if f := r.storeCall(i, s); f != nil {
			return f
		}
	}
	f := r.settle(i, s)
	if s.Str("op") != "Advance" {
		r.checkClock()
	}
	return f
}

// epilogue: observe the blocked waiters for a grace period, then (Redis, every second
// behaviour) make the storage fail, then cancel everybody: each call must return its
// context's error, and nothing may be left in the waiter table.
func (r *kvwRun) epilogue(b Behaviour) *Failure {
	n := len(b)
	last := b[n-1]
	ids := make([]int, 0, len(r.calls))
	for w := range r.calls {
		ids = append(ids, w)
	}
	sort.Ints(ids)
	if len(ids) > 0 {
		time.Sleep(r.grace)
		r.checkClock()
		if r.stalled {
			return nil
		}
		for _, w := range ids {
			if c := r.calls[w]; c.returned() {
				if r.redis && c.got == "other" {
					return &Failure{Step: n, Kind: "inconclusive", Sig: "kvwait: unexpected storage error from miniredis"}
				}
				return kvwFail(n-1, last, "waiter returned "+c.got+" while none of its conditions has held", c.got)
			}
		}
	}
	fault := r.redis && len(ids) > 0 && n%2 == 0
	if fault {
		// a failing storage is no change: nil / ErrNotExist / ctx error are not explainable
		r.be.mr.SetError("LOADING injected by the harness")
		time.Sleep(150 * time.Millisecond)
		for _, w := range ids {
			if c := r.calls[w]; c.returned() && c.got != "other" {
				r.be.mr.SetError("")
				return &Failure{Step: n, Sig: "kvwait: storage failure: waiter returned " + c.got + " while none of its conditions has held", Got: c.got, Want: last}
			}
		}
		r.be.mr.SetError("")
	}
	for _, w := range ids {
		c := r.calls[w]
		if c.got == "" {
			c.cancel()
		}
	}
	for _, w := range ids {
		c := r.calls[w]
		if c.got == "other" {
			continue // ended by the injected storage failure
		}
		if !c.await(r.bound) {
			r.leaked = true
			return &Failure{Step: n, Sig: "kvwait: final Cancel: waiter stuck: ctx holds but the call does not return", Got: "blocked", Want: last}
		}
		if c.got == "other" && fault {
			continue // its last poll hit the injected failure
		}
		if r.redis && c.got == "other" {
			return &Failure{Step: n, Kind: "inconclusive", Sig: "kvwait: unexpected storage error from miniredis"}
		}
		if c.got != "ctx" {
			return &Failure{Step: n, Sig: "kvwait: final Cancel: waiter returned " + c.got + " but only ctx has held", Got: c.got, Want: last}
		}
	}
	if t := r.table(); len(t) != 0 {
		return &Failure{Step: n, Sig: "kvwait: final Cancel: waiter table not empty although no call is in progress", Got: t, Want: last}
	}
	return nil
}

func extraMs(opt *Options, key string, def int) time.Duration {
	ms := def
	if v, ok := opt.Extra[key]; ok {
		fmt.Sscan(v, &ms)
	}
	return time.Duration(ms) * time.Millisecond
}

// kvwStuck counts the behaviours that ended with a stuck waiter: each costs the full bound, so
// after a number of them (the verdict is settled long before) the rest is not run any more.
var kvwStuck atomic.Int32

func replayKvWait(b Behaviour, opt *Options) *Failure {
	if kvwStuck.Load() >= 24 {
		return &Failure{Kind: "inconclusive", Sig: "not run: 24 behaviours already ended with a stuck waiter"}
	}
	isRedis := opt.Variant == "redis"
	bound := extraMs(opt, "bound_ms", 5000)
	grace := extraMs(opt, "grace_ms", 25)
	expD := extraMs(opt, "exp_ms", 300)
	if isRedis {
		expD = time.Second // virtual: moved with FastForward
	}
	for attempt := 0; ; attempt++ {
		var be *kvBackend
		if isRedis {
			var err error
			be, err = newRedisBackend()
			if err != nil {
				return &Failure{Kind: "inconclusive", Sig: "harness: miniredis: " + err.Error()}
			}
		} else {
			be = &kvBackend{st: inmem.New()}
		}
		r := &kvwRun{be: be, redis: isRedis, bound: bound, grace: grace, expD: expD,
			vers: map[int]string{}, calls: map[int]*waitCall{}, expAt: map[string]time.Time{}}
		var f *Failure
		for i := 1; i < len(b) && f == nil && !r.stalled; i++ {
			f = r.step(i, b[i])
			if f != nil {
				// a disagreement is judged only if, even now, no record is about to expire in real time (the clock was
				// checked before the call; the host may have stalled between that check and the call itself)
				r.checkClock()
			}
		}
		if f == nil && !r.stalled {
			f = r.epilogue(b)
		}
		if f == nil && !r.stalled && r.drift != "" {
			f = &Failure{Kind: "drift", Sig: r.drift}
		}
		// never leave a call behind
		for _, c := range r.calls {
			c.cancel()
		}
		if r.leaked {
			kvwStuck.Add(1)
		}
		if isRedis {
			be.mr.SetError("")
			if !r.leaked {
				for _, c := range r.calls {
					c.await(2 * time.Second)
				}
				redisPool.Put(be)
			}
		}
		if !r.stalled {
			return f
		}
		// a step ran too close to a real expiration instant (host stall): not judged; retry slower
		if attempt >= 3 {
			return &Failure{Kind: "inconclusive", Sig: "timing window missed (host stall)"}
		}
		expD *= 2
	}
}

// ---------------------------------------------------------------------------
// drive: free-running stress, recorded for KvWaitTrace.tla
// ---------------------------------------------------------------------------

// kvwLog is the trace of one round: events in the order of the mutex, real version
// strings replaced by small integers in order of first appearance.
type kvwLog struct {
	mu     sync.Mutex
	events []map[string]any
	vers   map[string]int
	known  map[string][]string // key -> versions the harness has learned, oldest first
	closed bool                // the round is over: late events are dropped
	bad    bool                // the round cannot be judged (unexpected storage error)
	stuck  bool
	odd    bool // a reply outside nil / notexist / ctx, or a panic: worth recording
}

func (l *kvwLog) verInt(v string) int {
	if isUnknownVersion(v) {
		return 0
	}
	if n, ok := l.vers[v]; ok {
		return n
	}
	n := len(l.vers) + 1
	l.vers[v] = n
	return n
}

// add appends one event; build runs under the mutex (it may bind versions and learn them).
func (l *kvwLog) add(build func() map[string]any) {
	l.mu.Lock()
	defer l.mu.Unlock()
	if l.closed {
		return
	}
	l.events = append(l.events, build())
}

// pickVer returns a version argument for key: mostly the newest one the harness has learned.
func (l *kvwLog) pickVer(r *rand.Rand, key string) string {
	l.mu.Lock()
	defer l.mu.Unlock()
	kn := l.known[key]
	switch c := r.Intn(20); {
	case len(kn) == 0 || c == 0:
		return someUnknownVersion()
	case c <= 2:
		return kn[r.Intn(len(kn))]
	}
	return kn[len(kn)-1]
}

type stressCall struct {
	id     int
	key    string
	ver    string
	ctx    context.Context
	cancel context.CancelFunc
	done   chan struct{}
	mu     sync.Mutex
	cancld bool
}

func (c *stressCall) isDone() bool {
	select {
	case <-c.done:
		return true
	default:
		return false
	}
}

type kvwStress struct {
	st      kvs.Storage
	redis   bool
	lg      *kvwLog
	keys    []string
	bound   time.Duration
	callsMu sync.Mutex
	calls   []*stressCall
	gate    sync.RWMutex // new calls are registered under RLock; closing the round takes Lock
	closing bool
	bg      sync.WaitGroup // delayed cancellations
}

func (s *kvwStress) snapshot() []*stressCall {
	s.callsMu.Lock()
	defer s.callsMu.Unlock()
	return append([]*stressCall(nil), s.calls...)
}

// newCall registers a call unless the round is closing.
func (s *kvwStress) newCall(key, ver string, pre bool) *stressCall {
	s.gate.RLock()
	defer s.gate.RUnlock()
	if s.closing {
		return nil
	}
	ctx, cancel := context.WithCancel(context.Background())
	c := &stressCall{key: key, ver: ver, ctx: ctx, cancel: cancel, done: make(chan struct{})}
	s.callsMu.Lock()
	c.id = len(s.calls) + 1
	s.calls = append(s.calls, c)
	s.callsMu.Unlock()
	if pre {
		c.cancld = true
		cancel()
	}
	return c
}

// run logs the invocation, performs the call, logs the response.
func (s *kvwStress) run(c *stressCall, pre bool) string {
	lg := s.lg
	lg.add(func() map[string]any {
		return map[string]any{"op": "inv", "w": c.id, "k": c.key, "ver": lg.verInt(c.ver), "pre": pre}
	})
	var class string
	func() {
		defer func() {
			if p := recover(); p != nil {
				class = "panic"
			}
		}()
		class = waitClass(s.st.WaitForVersionChange(c.ctx, c.key, c.ver), c.ctx)
	}()
	lg.add(func() map[string]any {
		if class == "other" && s.redis {
			lg.bad = true // a connection problem of the in-process server: not judged
		}
		if class != "nil" && class != "notexist" && class != "ctx" {
			lg.odd = true
		}
		return map[string]any{"op": "ret", "w": c.id, "r": class}
	})
	close(c.done)
	return class
}

// cancelCall logs the cancellation BEFORE cancelling: the context is done at some point after the event.
func (s *kvwStress) cancelCall(c *stressCall) {
	c.mu.Lock()
	defer c.mu.Unlock()
	if c.cancld {
		return
	}
	c.cancld = true
	s.lg.add(func() map[string]any { return map[string]any{"op": "cancel", "w": c.id} })
	c.cancel()
}

// logged store calls of thread t --------------------------------------------------
func (s *kvwStress) minv(t int, ev map[string]any) {
	lg := s.lg
	lg.add(func() map[string]any {
		ev["op"], ev["t"] = "minv", t
		if a, ok := ev["arg"].(string); ok {
			ev["arg"] = lg.verInt(a)
		}
		return ev
	})
}

// mret logs the reply; ver (if any) is the version the reply carries; it becomes known for learnKey.
func (s *kvwStress) mret(t int, err error, ver, learnKey string) {
	lg := s.lg
	lg.add(func() map[string]any {
		cl := errClass(err)
		if strings.HasPrefix(cl, "other") {
			if s.redis {
				lg.bad = true
			}
			cl = "other"
		}
		ev := map[string]any{"op": "mret", "t": t, "err": cl, "ver": 0}
		if ver != "" {
			ev["ver"] = lg.verInt(ver)
			if learnKey != "" {
				lg.known[learnKey] = append(lg.known[learnKey], ver)
			}
		}
		return ev
	})
}

func (s *kvwStress) loggedGet(t int, key string) (string, bool) {
	s.minv(t, map[string]any{"call": "Get", "k": key})
	rec, err := s.st.Get(context.Background(), key)
	if err == nil {
		s.mret(t, err, rec.Version, key)
		return rec.Version, true
	}
	s.mret(t, err, "", "")
	return "", false
}

func (s *kvwStress) storeOp(t int, rng *rand.Rand) {
	ctx := context.Background()
	key := s.keys[rng.Intn(len(s.keys))]
	defer func() {
		if p := recover(); p != nil {
			s.lg.add(func() map[string]any {
				s.lg.odd = true
				return map[string]any{"op": "mret", "t": t, "err": "panic", "ver": 0}
			})
		}
	}()
	switch kind := rng.Intn(100); {
	case kind < 30:
		s.minv(t, map[string]any{"call": "Put", "k": key})
		rec, err := s.st.Put(ctx, kvs.Record{Key: key, Value: []byte("x")})
		s.mret(t, err, rec.Version, key)
	case kind < 42:
		ks := []string{key}
		if rng.Intn(2) == 0 {
			ks = append(ks, s.keys[rng.Intn(len(s.keys))])
		}
		var recs []kvs.Record
		for _, k := range ks {
			recs = append(recs, kvs.Record{Key: k, Value: []byte("x")})
		}
		s.minv(t, map[string]any{"call": "PutMany", "ks": ks})
		s.mret(t, s.st.PutMany(ctx, recs), "", "")
	case kind < 62:
		arg := s.lg.pickVer(rng, key)
		s.minv(t, map[string]any{"call": "Cas", "k": key, "arg": arg})
		rec, err := s.st.CasByVersion(ctx, kvs.Record{Key: key, Value: []byte("x"), Version: arg})
		if err != nil {
			s.mret(t, err, "", "")
		} else {
			s.mret(t, err, rec.Version, key)
		}
	case kind < 77:
		s.minv(t, map[string]any{"call": "Delete", "k": key})
		s.mret(t, s.st.Delete(ctx, key), "", "")
	case kind < 90:
		s.minv(t, map[string]any{"call": "Create", "k": key})
		ver, err := s.st.Create(ctx, kvs.Record{Key: key, Value: []byte("x")})
		if err == nil || errors.Is(err, errors.ErrExist) {
			s.mret(t, err, ver, key)
		} else {
			s.mret(t, err, "", "")
		}
	default:
		s.loggedGet(t, key)
	}
}

// waitCalls waits until no call selected by filter is in progress, at most until deadline.
func (s *kvwStress) waitCalls(deadline time.Time, filter func(c *stressCall) bool) {
	for {
		pending := 0
		for _, c := range s.snapshot() {
			if !c.isDone() && filter(c) {
				pending++
			}
		}
		if pending == 0 || time.Now().After(deadline) {
			return
		}
		time.Sleep(50 * time.Microsecond)
	}
}

// round: nWaiters goroutines (up to three calls each) against nWriters goroutines (1..3 store
// calls each), all released at once on a fresh store; then the store is quiescent and every
// overdue call must return; the rest is cancelled and must return; the table must be empty.
func (s *kvwStress) round(rng *rand.Rand, nWaiters, nWriters int) {
	lg := s.lg
	s.setup(rng)
	start := make(chan struct{})
	var wgW, wgC sync.WaitGroup
	for i := 0; i < nWaiters; i++ {
		seed := rng.Int63()
		wgC.Add(1)
		go func() {
			defer wgC.Done()
			r := rand.New(rand.NewSource(seed))
			key := s.keys[r.Intn(len(s.keys))]
			<-start
			for n := 0; n < 3; n++ {
				pre := r.Intn(25) == 0
				c := s.newCall(key, lg.pickVer(r, key), pre)
				if c == nil {
					return
				}
				if !pre && r.Intn(6) == 0 { // give up at a random moment
					d := time.Duration(r.Intn(300)) * time.Microsecond
					s.bg.Add(1)
					go func() {
						defer s.bg.Done()
						time.Sleep(d)
						s.cancelCall(c)
					}()
				}
				if s.run(c, pre) != "nil" {
					return
				}
			}
		}()
	}
	for t := 1; t <= nWriters; t++ {
		seed := rng.Int63()
		t := t
		wgW.Add(1)
		go func() {
			defer wgW.Done()
			r := rand.New(rand.NewSource(seed))
			<-start
			for n := 1 + r.Intn(3); n > 0; n-- {
				if r.Intn(3) == 0 {
					runtime.Gosched()
				}
				s.storeOp(t, r)
			}
		}()
	}
	close(start)
	wgW.Wait()
	s.finish()
}

// setup logs the start of a round on a fresh store; most keys exist when the round starts.
func (s *kvwStress) setup(rng *rand.Rand) {
	s.lg.add(func() map[string]any { return map[string]any{"op": "New", "keys": s.keys} })
	for _, k := range s.keys {
		if rng.Intn(5) != 0 {
			s.minv(0, map[string]any{"call": "Put", "k": k})
			rec, err := s.st.Put(context.Background(), kvs.Record{Key: k, Value: []byte("x")})
			s.mret(0, err, rec.Version, k)
		}
	}
}

// finish: the writers are done.  Every overdue call must return; the rest is cancelled and
// must return; then the waiter table must be empty.
func (s *kvwStress) finish() {
	lg := s.lg
	s.gate.Lock()
	s.closing = true // no new calls from here on
	s.gate.Unlock()
	s.bg.Wait() // all delayed cancellations have been issued
	// the store is quiescent: read it (logged) to know which calls are overdue
	cur := map[string]string{}
	for _, k := range s.keys {
		if v, ok := s.loggedGet(0, k); ok {
			cur[k] = v
		}
	}
	overdue := func(c *stressCall) bool {
		c.mu.Lock()
		defer c.mu.Unlock()
		v, present := cur[c.key]
		return c.cancld || !present || v != c.ver
	}
	s.waitCalls(time.Now().Add(s.bound), overdue)
	for _, c := range s.snapshot() {
		if !c.isDone() && overdue(c) {
			lg.add(func() map[string]any { lg.stuck = true; return map[string]any{"op": "stuck", "w": c.id} })
		}
	}
	if !lg.stuck {
		// everybody left is blocked for a reason: give up; each must return its context's error
		for _, c := range s.snapshot() {
			if !c.isDone() {
				s.cancelCall(c)
			}
		}
		s.waitCalls(time.Now().Add(s.bound), func(*stressCall) bool { return true })
		left := 0
		for _, c := range s.snapshot() {
			if !c.isDone() {
				left++
				lg.add(func() map[string]any { lg.stuck = true; return map[string]any{"op": "stuck", "w": c.id} })
			}
		}
		if left == 0 && !s.redis {
			n := len(inmem.VerifWaiterTable(s.st))
			lg.add(func() map[string]any { return map[string]any{"op": "table", "n": n} })
		}
	}
	lg.mu.Lock()
	lg.closed = true
	// convenience for the trace spec: every minv event also carries the reply its thread got
	// (fields rerr, rver copied from the thread's next mret event)
	open := map[int]map[string]any{}
	for _, ev := range lg.events {
		switch ev["op"] {
		case "minv":
			open[ev["t"].(int)] = ev
		case "mret":
			if iv := open[ev["t"].(int)]; iv != nil {
				iv["rerr"], iv["rver"] = ev["err"], ev["ver"]
				delete(open, ev["t"].(int))
			}
		}
	}
	for _, iv := range open { // cannot happen: every writer has returned
		iv["rerr"], iv["rver"] = "missing", 0
	}
	lg.mu.Unlock()
	for _, c := range s.snapshot() { // never leave goroutines behind
		c.cancel()
	}
}

// gatedCtx is a context whose Done() method is a gate.  The in-memory WaitForVersionChange
// calls ctx.Done() once per loop iteration, when it enters its select - i.e. after it has
// registered in the key's waiters group and released the lock, before it parks.  Holding a
// call there lets the scheduler place mutations, cancellations and other registrations
// between "registered" and "parked / woken", which free-running goroutines hit only by luck.
// Only the context is instrumented - an interface the harness owns; the library is untouched.
type gatedCtx struct {
	context.Context
	state   atomic.Int32  // 0 running, 1 held at the gate
	passes  atomic.Int32  // how often Done() has been called (= loop iterations that registered)
	release chan struct{} // one token lets the call pass the gate once
	open    chan struct{} // closed: the gate stays open
}

func (g *gatedCtx) Done() <-chan struct{} {
	g.passes.Add(1)
	select {
	case <-g.open:
		return g.Context.Done()
	default:
	}
	g.state.Store(1)
	select {
	case <-g.release:
	case <-g.open:
	}
	g.state.Store(0)
	return g.Context.Done()
}

// gatedRound: one scheduler thread issues a seeded random sequence of commands - start a call
// (it runs until it returns or is held at its gate), release a held call, run a store call,
// cancel a call - and then opens all gates and finishes the round like a free-running one.
func (s *kvwStress) gatedRound(rng *rand.Rand, maxCalls, steps int) {
	s.setup(rng)
	type gcall struct {
		c *stressCall
		g *gatedCtx
	}
	var calls []*gcall
	open := make(chan struct{})
	// wait until call x has returned or is held at its gate (it gets there in microseconds)
	settle := func(x *gcall, d time.Duration) {
		deadline := time.Now().Add(d)
		for !x.c.isDone() && x.g.state.Load() != 1 && time.Now().Before(deadline) {
			runtime.Gosched()
		}
	}
	for i := 0; i < steps; i++ {
		var held, live []*gcall
		for _, x := range calls {
			if x.c.isDone() {
				continue
			}
			live = append(live, x)
			if x.g.state.Load() == 1 {
				held = append(held, x)
			}
		}
		switch k := rng.Intn(10); {
		case k < 3 && len(calls) < maxCalls:
			key := s.keys[rng.Intn(len(s.keys))]
			pre := rng.Intn(12) == 0
			c := s.newCall(key, s.lg.pickVer(rng, key), pre)
			g := &gatedCtx{Context: c.ctx, release: make(chan struct{}, 1), open: open}
			c.ctx = g
			x := &gcall{c: c, g: g}
			calls = append(calls, x)
			go s.run(c, pre)
			settle(x, 2*time.Second)
		case k < 5 && len(held) > 0:
			x := held[rng.Intn(len(held))]
			x.g.state.Store(0)
			x.g.release <- struct{}{}
			// it parks, or takes a ready branch and returns or comes around to the gate again
			settle(x, 200*time.Microsecond)
		case k < 7 && len(live) > 0:
			s.cancelCall(live[rng.Intn(len(live))].c)
		default:
			s.storeOp(0, rng)
		}
	}
	close(open)
	s.finish()
}

// driveKvWait: -n rounds are recorded in full; -x hunt=M further rounds are run and recorded
// only if the harness gave up waiting for some call (`stuck`) - TLC still judges them.
func driveKvWait(opt *Options) error {
	tw, err := NewTraceWriter(opt.Out)
	if err != nil {
		return err
	}
	defer tw.Close()
	geti := func(k string, def int) int {
		if v, ok := opt.Extra[k]; ok {
			fmt.Sscan(v, &def)
		}
		return def
	}
	nWaiters, nWriters, nKeys, hunt := geti("waiters", 32), geti("writers", 8), geti("keys", 2), geti("hunt", 0)
	bound := extraMs(opt, "bound_ms", 5000)
	isRedis := opt.Variant == "redis"
	gated := opt.Extra["mode"] == "gated" && !isRedis
	rng := rand.New(rand.NewSource(opt.Seed))
	var be *kvBackend
	if isRedis {
		if be, err = newRedisBackend(); err != nil {
			return err
		}
	}
	recorded, dropped, stuckRounds, events := 0, 0, 0, 0
	for round := 0; round < opt.N+hunt; round++ {
		keys := make([]string, nKeys)
		for i := range keys {
			keys[i] = fmt.Sprintf("r%d/k%d", round, i)
		}
		var st kvs.Storage
		if isRedis {
			be.mr.FlushAll()
			st = be.st
		} else {
			st = inmem.New()
		}
		s := &kvwStress{st: st, redis: isRedis, keys: keys, bound: bound,
			lg: &kvwLog{vers: map[string]int{}, known: map[string][]string{}}}
		if gated {
			s.gatedRound(rng, 2+rng.Intn(3), 8+rng.Intn(10))
		} else {
			s.round(rng, nWaiters, nWriters)
		}
		if s.lg.bad {
			dropped++ // an unexpected storage error: the round is not judged
			continue
		}
		if s.lg.stuck {
			stuckRounds++
		}
		if stuckRounds > 3 {
			break // each such round costs the full bound; TLC has enough to judge
		}
		if round < opt.N || s.lg.stuck || s.lg.odd {
			for _, ev := range s.lg.events {
				tw.Emit(ev)
			}
			events += len(s.lg.events)
			recorded++
		}
	}
	fmt.Printf("{\"rounds\": %d, \"recorded\": %d, \"events\": %d, \"dropped\": %d, \"stuck_rounds\": %d}\n",
		opt.N+hunt, recorded, events, dropped, stuckRounds)
	return nil
}
