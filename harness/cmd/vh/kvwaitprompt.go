package main

import (
	"runtime"
	"context"
	"fmt"
	stderrors "errors"
	"math/rand"
	"strconv"
	"sync"
	"sync/atomic"
	"time"

	"github.com/acquirecloud/golibs/kvs"
	"github.com/acquirecloud/golibs/kvs/inmem"
	kvredis "github.com/acquirecloud/golibs/kvs/redis"
	"github.com/alicebob/miniredis/v2"
	"github.com/go-redis/redis/v8"
)

// C07, "it does return promptly", Redis backend (polling implementation): a waiter that has been
// idle for a while must still notice a change within the documented poll cap.  Real time; a stall
// detector runs alongside and a stalled scenario is repeated, not judged.  The recorded latencies
// are validated by spec/kv/PromptTrace.tla with a generous one-sided bound.

func init() { drivers["kvwait-prompt"] = driveKvWaitPrompt }

func driveKvWaitPrompt(opt *Options) error {
	tw, err := NewTraceWriter(opt.Out)
	if err != nil {
		return err
	}
	defer tw.Close()
	if opt.Extra["only"] == "brief" {
		// (C06) the scenarios about records that RUN OUT under parked waiters: deadlines + expiry, then microsecond lifetimes
		if err := driveKvWaitDeadline(tw); err != nil {
			return err
		}
		return driveKvWaitBrief(tw, opt.Seed)
	}
	idle := 2200 * time.Millisecond
	type sc struct{ change string }
	for _, s := range []sc{{"put"}, {"delete"}, {"putprev"}} {
		for attempt := 0; attempt < 3; attempt++ {
			mr, err := miniredis.Run()
			if err != nil {
				return err
			}
			st := kvredis.New(&redis.Options{Addr: mr.Addr()})
			ctx := context.Background()
			rec, err := st.Put(ctx, kvs.Record{Key: "k", Value: []byte("v1")})
			if err != nil {
				return err
			}
			var stall int64
			stop := make(chan struct{})
			go func() {
				last := time.Now()
				for {
					select {
					case <-stop:
						return
					default:
					}
					time.Sleep(2 * time.Millisecond)
					n := time.Now()
					if over := n.Sub(last) - 2*time.Millisecond; over.Milliseconds() > atomic.LoadInt64(&stall) {
						atomic.StoreInt64(&stall, over.Milliseconds())
					}
					last = n
				}
			}()
			done := make(chan time.Time, 1)
			var werr error
			go func() {
				c, cancel := context.WithTimeout(ctx, 20*time.Second)
				defer cancel()
				werr = st.WaitForVersionChange(c, "k", rec.Version)
				done <- time.Now()
			}()
			time.Sleep(idle)
			t0 := time.Now()
			if s.change == "put" {
				st.Put(ctx, kvs.Record{Key: "k", Value: []byte("v2")})
			} else if s.change == "putprev" {
				// the new value MENTIONS the version it replaces (a "previous version" link)
				st.Put(ctx, kvs.Record{Key: "k", Value: []byte(`{"prev":"` + rec.Version + `"}`)})
			} else {
				st.Delete(ctx, "k")
			}
			t1 := <-done
			close(stop)
			mr.Close()
			late := t1.Sub(t0).Milliseconds()
			if atomic.LoadInt64(&stall) > 150 && attempt < 2 {
				continue // the host stalled: not judged, try again
			}
			tw.Emit(map[string]any{"e": "prompt", "change": s.change, "idle_ms": idle.Milliseconds(), "late_ms": late,
				"stall_ms": atomic.LoadInt64(&stall), "res": errClass(werr)})
			break
		}
	}
	if err := driveKvWaitDeadline(tw); err != nil {
		return err
	}
	if err := driveKvWaitWrites(tw); err != nil {
		return err
	}
	driveKvWaitAroundExpiry(tw)
	return driveKvWaitBrief(tw, opt.Seed)
}

// Records that live for 0-30 MICROseconds with a waiter arriving in the last instants of their life: the record may
// run out between the waiter's look at it and whatever the waiter arms to be woken.  Nobody touches the keys
// afterwards; every waiter must come back with ErrNotExist (one summary line; stalled runs are repeated).
func driveKvWaitBrief(tw *TraceWriter, seed int64) error {
	rnd := rand.New(rand.NewSource(seed))
	for attempt := 0; attempt < 3; attempt++ {
		st := inmem.New()
		ctx := context.Background()
		const n = 3000
		var hung, wrong int64
		var wg sync.WaitGroup
		t0 := time.Now()
		var maxGap int64
		for i := 0; i < n; i++ {
			key := "brief/" + strconv.Itoa(i)
			exp := time.Now().Add(time.Duration(rnd.Intn(30000)) * time.Nanosecond)
			rec, err := st.Put(ctx, kvs.Record{Key: key, Value: []byte("v"), ExpiresAt: &exp})
			if err != nil {
				return err
			}
			wg.Add(1)
			go func() {
				defer wg.Done()
				c, cancel := context.WithTimeout(ctx, 2*time.Second)
				defer cancel()
				var werr error
				callPanics(func() { werr = st.WaitForVersionChange(c, key, rec.Version) })
				switch {
				case c.Err() != nil:
					atomic.AddInt64(&hung, 1)
				case errClass(werr) != "notexist":
					atomic.AddInt64(&wrong, 1)
				}
			}()
			if i%64 == 63 {
				t := time.Now()
				time.Sleep(200 * time.Microsecond)
				if g := time.Since(t).Milliseconds(); g > maxGap {
					maxGap = g
				}
			}
		}
		wg.Wait()
		if maxGap > 150 && attempt < 2 {
			continue // the host stalled: not judged
		}
		tw.Emit(map[string]any{"e": "brief", "n": n, "hung": atomic.LoadInt64(&hung), "wrong": atomic.LoadInt64(&wrong),
			"stall_ms": maxGap, "ms": time.Since(t0).Milliseconds()})
		break
	}
	return nil
}

// Waiters whose context carries a DEADLINE (not only a cancel function), on both backends:
//
//	none    nothing changes: the call returns the context's error, and only once the context is done;
//	expire  (in-memory) the record runs out long before the deadline and nobody touches the key: ErrNotExist, promptly.
func driveKvWaitDeadline(tw *TraceWriter) error {
	type sc struct {
		backend, change string
		timeout         time.Duration
	}
	var scs []sc
	for _, be := range []string{"inmem", "redis"} {
		for _, d := range []time.Duration{35 * time.Millisecond, 120 * time.Millisecond, 333 * time.Millisecond} {
			scs = append(scs, sc{be, "none", d})
		}
	}
	scs = append(scs, sc{"inmem", "expire", 2500 * time.Millisecond}, sc{"inmem", "expire", 1500 * time.Millisecond},
		sc{"inmem", "expire2", 2500 * time.Millisecond}, sc{"inmem", "expire2", 1500 * time.Millisecond})
	for _, s := range scs {
		for attempt := 0; attempt < 3; attempt++ {
			var st kvs.Storage
			var mr *miniredis.Miniredis
			if s.backend == "redis" {
				var err error
				if mr, err = miniredis.Run(); err != nil {
					return err
				}
				st = kvredis.New(&redis.Options{Addr: mr.Addr()})
			} else {
				st = inmem.New()
			}
			ctx := context.Background()
			r := kvs.Record{Key: "k", Value: []byte("v1")}
			expireIn := 60 * time.Millisecond
			var expAt time.Time
			if s.change == "expire" || s.change == "expire2" {
				expAt = time.Now().Add(expireIn)
				r.ExpiresAt = &expAt
			}
			rec, err := st.Put(ctx, r)
			if err != nil {
				return err
			}
			var stall int64
			stop := make(chan struct{})
			go func() {
				last := time.Now()
				for {
					select {
					case <-stop:
						return
					default:
					}
					time.Sleep(2 * time.Millisecond)
					n := time.Now()
					if over := n.Sub(last) - 2*time.Millisecond; over.Milliseconds() > atomic.LoadInt64(&stall) {
						atomic.StoreInt64(&stall, over.Milliseconds())
					}
					last = n
				}
			}()
			if s.change == "expire2" {
				// another waiter registers first, ours joins it, then the first one gives up - long before the record runs out
				c1, cancel1 := context.WithCancel(ctx)
				go func() {
					callPanics(func() { st.WaitForVersionChange(c1, "k", rec.Version) })
				}()
				time.Sleep(10 * time.Millisecond)
				time.AfterFunc(12*time.Millisecond, cancel1)
			}
			c, cancel := context.WithTimeout(ctx, s.timeout)
			t0 := time.Now()
			var werr error
			callPanics(func() { werr = st.WaitForVersionChange(c, "k", rec.Version) })
			t1 := time.Now()
			ctxDone := c.Err() != nil // read right after the return: "the context's error only if the context is done"
			cancel()
			close(stop)
			if mr != nil {
				mr.Close()
			}
			if atomic.LoadInt64(&stall) > 150 && attempt < 2 {
				continue
			}
			res := errClass(werr)
			if stderrors.Is(werr, context.DeadlineExceeded) || stderrors.Is(werr, context.Canceled) {
				res = "ctxerr"
			}
			late := t1.Sub(t0.Add(s.timeout)).Milliseconds()
			if s.change == "expire" || s.change == "expire2" {
				late = t1.Sub(expAt).Milliseconds()
			}
			tw.Emit(map[string]any{"e": "deadline", "backend": s.backend, "change": s.change, "timeout_ms": s.timeout.Milliseconds(),
				"late_ms": late, "ctxdone": ctxDone, "stall_ms": atomic.LoadInt64(&stall), "res": res})
			break
		}
	}
	return nil
}


// driveKvWaitWrites: two waiters parked on a live record; the record is then replaced or removed by EVERY kind of write
// there is - also by writes of a record that is already expired when it arrives (in-memory backend; on Redis such a record
// lives for a millisecond, which makes the reply a race).  Each waiter returns promptly: nil when a live record of another
// version is there, ErrNotExist when the key is gone ("prompt" lines of PromptTrace.tla).
func driveKvWaitWrites(tw *TraceWriter) error {
	past := time.Now().Add(-time.Hour)
	for _, backend := range []string{"inmem", "redis"} {
		kinds := []string{"put", "putmany", "cas", "delete", "recreate"}
		if backend == "inmem" {
			kinds = append(kinds, "put-past", "putmany-past", "cas-past")
		}
		for _, kind := range kinds {
			for attempt := 0; attempt < 3; attempt++ {
				var st kvs.Storage
				var mr *miniredis.Miniredis
				if backend == "redis" {
					var err error
					if mr, err = miniredis.Run(); err != nil {
						return err
					}
					st = kvredis.New(&redis.Options{Addr: mr.Addr()})
				} else {
					st = inmem.New()
				}
				ctx := context.Background()
				rec, err := st.Put(ctx, kvs.Record{Key: "k", Value: []byte("v1")})
				if err != nil {
					return err
				}
				st.Put(ctx, kvs.Record{Key: "other", Value: []byte("o")})
				type wres struct {
					at  time.Time
					err error
				}
				done := make(chan wres, 2)
				for w := 0; w < 2; w++ {
					go func() {
						c, cancel := context.WithTimeout(ctx, 8*time.Second)
						defer cancel()
						err := st.WaitForVersionChange(c, "k", rec.Version)
						done <- wres{time.Now(), err}
					}()
				}
				time.Sleep(60 * time.Millisecond)
				t0 := time.Now()
				var werr error
				switch kind {
				case "put":
					_, werr = st.Put(ctx, kvs.Record{Key: "k", Value: []byte("v2")})
				case "put-past":
					_, werr = st.Put(ctx, kvs.Record{Key: "k", Value: []byte("v2"), ExpiresAt: &past})
				case "putmany":
					werr = st.PutMany(ctx, []kvs.Record{{Key: "other", Value: []byte("o2")}, {Key: "k", Value: []byte("v2")}})
				case "putmany-past":
					werr = st.PutMany(ctx, []kvs.Record{{Key: "other", Value: []byte("o2")}, {Key: "k", Value: []byte("v2"), ExpiresAt: &past}})
				case "cas":
					_, werr = st.CasByVersion(ctx, kvs.Record{Key: "k", Value: []byte("v2"), Version: rec.Version})
				case "cas-past":
					_, werr = st.CasByVersion(ctx, kvs.Record{Key: "k", Value: []byte("v2"), Version: rec.Version, ExpiresAt: &past})
				case "delete":
					werr = st.Delete(ctx, "k")
				case "recreate":
					if werr = st.Delete(ctx, "k"); werr == nil {
						_, werr = st.Create(ctx, kvs.Record{Key: "k", Value: []byte("v2")})
					}
				}
				if werr != nil {
					return fmt.Errorf("kvwait writes: %s on %s: %v", kind, backend, werr)
				}
				t1 := time.Now()
				res, late := "", int64(0)
				for w := 0; w < 2; w++ {
					r := <-done
					if rc := errClass(r.err); res == "" || rc != res && (rc != "nil" && rc != "notexist") {
						res = rc
					} else if rc != res {
						res = rc + "+" + res
					}
					if l := r.at.Sub(t0).Milliseconds(); l > late {
						late = l
					}
				}
				if mr != nil {
					mr.Close()
				}
				stall := t1.Sub(t0).Milliseconds() // the write itself taking long is the host's doing
				if stall > 150 && attempt < 2 {
					continue
				}
				change := kind
				if kind == "recreate" {
					// after Delete + Create either answer is right for a waiter that looks in between or afterwards
					if res == "nil" || res == "notexist" || res == "nil+notexist" || res == "notexist+nil" {
						res = "nil"
					}
					change = "put"
				}
				tw.Emit(map[string]any{"e": "prompt", "change": change, "backend": backend, "idle_ms": 60, "late_ms": late, "stall_ms": stall, "res": res})
				break
			}
		}
	}
	return nil
}


// driveKvWaitAroundExpiry (in-memory backend, one processor): a waiter on an expiring record is woken by a WRITE that
// lands within microseconds of the record's expiration (swept from 400 us before to 1.6 ms after it, so that whatever
// timer the waiter had armed fires just then); immediately afterwards another waiter waits, with a 25 ms deadline, on
// a record that lives for an hour and does not change: it must sit out its deadline ("deadline / none" lines) - whatever
// the first waiter left behind.
func driveKvWaitAroundExpiry(tw *TraceWriter) {
	old := runtime.GOMAXPROCS(1)
	defer runtime.GOMAXPROCS(old)
	st := inmem.New()
	ctx := context.Background()
	hour := time.Now().Add(time.Hour)
	live, err := st.Put(ctx, kvs.Record{Key: "live", Value: []byte("v"), ExpiresAt: &hour})
	if err != nil {
		return
	}
	for round := 0; round < 100; round++ {
		off := time.Duration(-400+20*round) * time.Microsecond
		expAt := time.Now().Add(8 * time.Millisecond)
		k := "x" + strconv.Itoa(round)
		rec, err := st.Put(ctx, kvs.Record{Key: k, Value: []byte("v1"), ExpiresAt: &expAt})
		if err != nil {
			return
		}
		w1 := make(chan struct{})
		go func() {
			defer close(w1)
			c, cancel := context.WithTimeout(ctx, time.Second)
			defer cancel()
			callPanics(func() { st.WaitForVersionChange(c, k, rec.Version) })
		}()
		for time.Until(expAt.Add(off)) > 0 { // spin: a sleep would be far too coarse
			runtime.Gosched()
		}
		st.Put(ctx, kvs.Record{Key: k, Value: []byte("v2")})
		<-w1
		const d = 25 * time.Millisecond
		c, cancel := context.WithTimeout(ctx, d)
		t0 := time.Now()
		var werr error
		callPanics(func() { werr = st.WaitForVersionChange(c, "live", live.Version) })
		t1 := time.Now()
		ctxDone := c.Err() != nil
		cancel()
		res := errClass(werr)
		if stderrors.Is(werr, context.DeadlineExceeded) || stderrors.Is(werr, context.Canceled) {
			res = "ctxerr"
		}
		late := t1.Sub(t0.Add(d)).Milliseconds()
		stall := int64(0)
		if late > 150 {
			stall = late // the host stalled while nothing but a timer was awaited: not judged
		}
		tw.Emit(map[string]any{"e": "deadline", "backend": "inmem", "change": "none", "timeout_ms": d.Milliseconds(), "after": "a waiter woken at its record's expiry",
			"late_ms": late, "ctxdone": ctxDone, "stall_ms": stall, "res": res})
		if res != "ctxerr" {
			break
		}
	}
}
