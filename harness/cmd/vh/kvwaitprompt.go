package main

import (
	"context"
	"sync/atomic"
	"time"

	"github.com/acquirecloud/golibs/kvs"
	kvredis "github.com/acquirecloud/golibs/kvs/redis"
	"github.com/alicebob/miniredis/v2"
	"github.com/go-redis/redis/v8"
)

// C07, "it does return promptly", Redis backend (polling implementation): a waiter that has been
// idle for a while must still notice a change within the documented poll cap.  Real time; a stall
// detector runs alongside and a stalled scenario is repeated, not judged.  The recorded latencies
// are validated by spec/kv/PromptTrace.tla with a generous one-sided bound.

func init() { drivers["kvwait-prompt"] = driveKvWaitPrompt }

func driveKvWaitPrompt(opt *Options) error {
	tw, err := NewTraceWriter(opt.Out)
	if err != nil {
		return err
	}
	defer tw.Close()
	idle := 2200 * time.Millisecond
	type sc struct{ change string }
	for _, s := range []sc{{"put"}, {"delete"}} {
		for attempt := 0; attempt < 3; attempt++ {
			mr, err := miniredis.Run()
			if err != nil {
				return err
			}
			st := kvredis.New(&redis.Options{Addr: mr.Addr()})
			ctx := context.Background()
			rec, err := st.Put(ctx, kvs.Record{Key: "k", Value: []byte("v1")})
			if err != nil {
				return err
			}
			var stall int64
			stop := make(chan struct{})
			go func() {
				last := time.Now()
				for {
					select {
					case <-stop:
						return
					default:
					}
					time.Sleep(2 * time.Millisecond)
					n := time.Now()
					if over := n.Sub(last) - 2*time.Millisecond; over.Milliseconds() > atomic.LoadInt64(&stall) {
						atomic.StoreInt64(&stall, over.Milliseconds())
					}
					last = n
				}
			}()
			done := make(chan time.Time, 1)
			var werr error
			go func() {
				c, cancel := context.WithTimeout(ctx, 20*time.Second)
				defer cancel()
				werr = st.WaitForVersionChange(c, "k", rec.Version)
				done <- time.Now()
			}()
			time.Sleep(idle)
			t0 := time.Now()
			if s.change == "put" {
				st.Put(ctx, kvs.Record{Key: "k", Value: []byte("v2")})
			} else {
				st.Delete(ctx, "k")
			}
			t1 := <-done
			close(stop)
			mr.Close()
			late := t1.Sub(t0).Milliseconds()
			if atomic.LoadInt64(&stall) > 150 && attempt < 2 {
				continue // the host stalled: not judged, try again
			}
			tw.Emit(map[string]any{"e": "prompt", "change": s.change, "idle_ms": idle.Milliseconds(), "late_ms": late,
				"stall_ms": atomic.LoadInt64(&stall), "res": errClass(werr)})
			break
		}
	}
	return nil
}
