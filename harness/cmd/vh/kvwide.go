package main

import (
	"context"
	"fmt"
	kvredis "github.com/acquirecloud/golibs/kvs/redis"
	"github.com/alicebob/miniredis/v2"
	"github.com/go-redis/redis/v8"
	"math/rand"
	"sync"
	"sync/atomic"
	"time"

	"github.com/acquirecloud/golibs/kvs"
	"github.com/acquirecloud/golibs/kvs/inmem"
)

// kvwide (C03): GetMany / PutMany with MANY keys in one call (implementations batch such calls).
// kvreaders (C02): many concurrent readers on records that expire while they are being read - a
// scenario that can only end in a correct reply or in the death of the process (a Go map written
// under a read lock is a fatal error), so it runs in a process of its own.

func init() {
	drivers["kvwide"] = driveKvWide
	drivers["kvreaders"] = driveKvReaders
}

func driveKvWide(opt *Options) error {
	tw, err := NewTraceWriter(opt.Out)
	if err != nil {
		return err
	}
	defer tw.Close()
	rnd := rand.New(rand.NewSource(opt.Seed))
	ctx := context.Background()
	for _, n := range []int{3, 63, 64, 65, 128, 129, 200, 1000} {
		var st kvs.Storage
		if opt.Variant == "redis" {
			be, err := newRedisBackend()
			if err != nil {
				return err
			}
			st = be.st
			defer redisPool.Put(be)
		} else {
			st = inmem.New()
		}
		key := func(i int) string { return fmt.Sprintf("wide/%04d", i) }
		recs := make([]kvs.Record, n)
		for i := range recs {
			recs[i] = kvs.Record{Key: key(i), Value: []byte(fmt.Sprint(i))}
		}
		if err := st.PutMany(ctx, recs); err != nil {
			return err
		}
		present := make([]bool, n+10)
		for i := 0; i < n; i++ {
			present[i] = true
		}
		for round := 0; round < 3; round++ {
			// ask for every key, in a shuffled order, with a few unknown keys and a few repetitions mixed in
			order := rnd.Perm(n + 10)
			for r := 0; r < 5; r++ {
				order = append(order, rnd.Intn(n))
			}
			keys := make([]string, len(order))
			for j, i := range order {
				keys[j] = key(i)
			}
			got, err := st.GetMany(ctx, keys...)
			ev := map[string]any{"op": "WideGet", "n": len(keys), "err": errClass(err), "len": len(got)}
			slots := make([][]int, 0, len(keys))
			for j, i := range order {
				s := []int{b2i(present[i]), 0, i, -1}
				if j < len(got) && got[j] != nil {
					s[1] = 1
					var v int
					fmt.Sscan(string(got[j].Value), &v)
					s[3] = v
					if got[j].Key != keys[j] {
						s[3] = -2
					}
				}
				if !present[i] {
					s[2] = -1
				}
				slots = append(slots, s)
			}
			ev["slots"] = slots
			tw.Emit(ev)
			// delete a few, overwrite a few, then look again
			for d := 0; d < 1+n/10; d++ {
				i := rnd.Intn(n)
				if present[i] {
					st.Delete(ctx, key(i))
					present[i] = false
				}
			}
		}
	}
	return nil
}

func b2i(b bool) int {
	if b {
		return 1
	}
	return 0
}

func driveKvReaders(opt *Options) error {
	tw, err := NewTraceWriter(opt.Out)
	if err != nil {
		return err
	}
	defer tw.Close()
	st := inmem.New()
	ctx := context.Background()
	stop := time.Now().Add(1200 * time.Millisecond)
	var wg sync.WaitGroup
	key := func(i int) string { return fmt.Sprintf("r/%d", i) }
	wg.Add(1)
	go func() { // writer: keeps re-creating short-lived records
		defer wg.Done()
		r := rand.New(rand.NewSource(opt.Seed))
		for time.Now().Before(stop) {
			e := time.Now().Add(time.Duration(200+r.Intn(1500)) * time.Microsecond)
			st.Put(ctx, kvs.Record{Key: key(r.Intn(32)), Value: []byte("v"), ExpiresAt: &e})
		}
	}()
	var reads int64
	var mu sync.Mutex
	for g := 0; g < 8; g++ {
		wg.Add(1)
		go func(g int) {
			defer wg.Done()
			r := rand.New(rand.NewSource(opt.Seed*31 + int64(g)))
			n := int64(0)
			for time.Now().Before(stop) {
				switch r.Intn(3) {
				case 0:
					st.Get(ctx, key(r.Intn(32)))
				case 1:
					st.GetMany(ctx, key(r.Intn(32)), key(r.Intn(32)), key(r.Intn(32)))
				default:
					if it, err := st.ListKeys(ctx, "r/*"); err == nil {
						for it.HasNext() {
							it.Next()
						}
						it.Close()
					}
				}
				n++
			}
			mu.Lock()
			reads += n
			mu.Unlock()
		}(g)
	}
	wg.Wait()
	tw.Emit(map[string]any{"op": "Readers", "reads": reads})
	return driveKvFresh(tw)
}

// driveKvFresh: sixteen goroutines write at once; every version that comes back must be different from every other
// (in-memory store; Redis client shared by all goroutines; one Redis client per goroutine).
func driveKvFresh(tw *TraceWriter) error {
	const G, N = 16, 1500
	for _, backend := range []string{"inmem", "redis-shared", "redis-each"} {
		var sts []kvs.Storage
		var mr *miniredis.Miniredis
		if backend == "inmem" {
			st := inmem.New()
			for g := 0; g < G; g++ {
				sts = append(sts, st)
			}
		} else {
			var err error
			if mr, err = miniredis.Run(); err != nil {
				return err
			}
			shared := kvredis.New(&redis.Options{Addr: mr.Addr()})
			for g := 0; g < G; g++ {
				if backend == "redis-shared" {
					sts = append(sts, shared)
				} else {
					sts = append(sts, kvredis.New(&redis.Options{Addr: mr.Addr()}))
				}
			}
		}
		vers := make([][]string, G)
		var errs int64
		var wg sync.WaitGroup
		start := make(chan struct{})
		for g := 0; g < G; g++ {
			wg.Add(1)
			go func(g int) {
				defer wg.Done()
				<-start
				ctx := context.Background()
				for i := 0; i < N; i++ {
					r, err := sts[g].Put(ctx, kvs.Record{Key: fmt.Sprintf("f/%d/%d", g, i%8), Value: []byte("v")})
					if err != nil {
						atomic.AddInt64(&errs, 1)
						continue
					}
					vers[g] = append(vers[g], r.Version)
				}
			}(g)
		}
		close(start)
		wg.Wait()
		seen := map[string]bool{}
		dups, n := 0, 0
		for _, vs := range vers {
			for _, v := range vs {
				n++
				if seen[v] {
					dups++
				}
				seen[v] = true
			}
		}
		if mr != nil {
			mr.Close()
		}
		tw.Emit(map[string]any{"op": "Fresh", "backend": backend, "n": n, "dups": dups, "errs": errs})
	}
	return nil
}
