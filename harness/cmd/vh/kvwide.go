package main

import (
	"context"
	"fmt"
	kvredis "github.com/acquirecloud/golibs/kvs/redis"
	"github.com/alicebob/miniredis/v2"
	"github.com/alicebob/miniredis/v2/server"
	"github.com/go-redis/redis/v8"
	"math/rand"
	"strconv"
	"strings"
	"sync"
	"sync/atomic"
	"time"

	"github.com/acquirecloud/golibs/kvs"
	"github.com/acquirecloud/golibs/kvs/inmem"
)

// kvwide (C03): GetMany / PutMany with MANY keys in one call (implementations batch such calls).
// kvreaders (C02): many concurrent readers on records that expire while they are being read - a
// scenario that can only end in a correct reply or in the death of the process (a Go map written
// under a read lock is a fatal error), so it runs in a process of its own.

func init() {
	drivers["kvwide"] = driveKvWide
	drivers["kvreaders"] = driveKvReaders
	drivers["kvfar"] = driveKvFar
}

func driveKvWide(opt *Options) error {
	tw, err := NewTraceWriter(opt.Out)
	if err != nil {
		return err
	}
	defer tw.Close()
	rnd := rand.New(rand.NewSource(opt.Seed))
	ctx := context.Background()
	// {number of records in the one PutMany, index of the first record that carries an expiration (-1: none does)}
	shapes := [][2]int{{3, -1}, {63, -1}, {64, 60}, {65, -1}, {128, 0}, {129, -1}, {200, 199}, {1000, -1}, {610, 505}, {1100, 1001},
		{1000, 999}, {300 + rnd.Intn(1500), -2}, {300 + rnd.Intn(1500), -2}}
	for _, sh := range shapes {
		n, expFrom := sh[0], sh[1]
		if expFrom == -2 {
			expFrom = rnd.Intn(n)
		}
		if expFrom < 0 {
			expFrom = n
		}
		var st kvs.Storage
		if opt.Variant == "redis" {
			be, err := newRedisBackend()
			if err != nil {
				return err
			}
			st = be.st
			defer redisPool.Put(be)
		} else {
			st = inmem.New()
		}
		key := func(i int) string { return fmt.Sprintf("wide/%04d", i) }
		recs := make([]kvs.Record, n)
		for i := range recs {
			recs[i] = kvs.Record{Key: key(i), Value: []byte(fmt.Sprint(i))}
			if i >= expFrom && (i == expFrom || i%3 != 0) {
				// an expiration that lies weeks ahead: the record is there for the whole run
				t := time.Now().Add(time.Duration(30+i%20) * 24 * time.Hour)
				recs[i].ExpiresAt = &t
			}
		}
		if err := st.PutMany(ctx, recs); err != nil {
			return err
		}
		present := make([]bool, n+10)
		for i := 0; i < n; i++ {
			present[i] = true
		}
		for round := 0; round < 3; round++ {
			// ask for every key, in a shuffled order, with a few unknown keys and a few repetitions mixed in
			order := rnd.Perm(n + 10)
			for r := 0; r < 5; r++ {
				order = append(order, rnd.Intn(n))
			}
			keys := make([]string, len(order))
			for j, i := range order {
				keys[j] = key(i)
			}
			got, err := st.GetMany(ctx, keys...)
			ev := map[string]any{"op": "WideGet", "n": len(keys), "err": errClass(err), "len": len(got), "batch": n, "exp_from": expFrom}
			slots := make([][]int, 0, len(keys))
			for j, i := range order {
				s := []int{b2i(present[i]), 0, i, -1}
				if j < len(got) && got[j] != nil {
					s[1] = 1
					var v int
					fmt.Sscan(string(got[j].Value), &v)
					s[3] = v
					if got[j].Key != keys[j] {
						s[3] = -2
					}
				}
				if !present[i] {
					s[2] = -1
				}
				slots = append(slots, s)
			}
			ev["slots"] = slots
			tw.Emit(ev)
			// delete a few, overwrite a few, then look again
			for d := 0; d < 1+n/10; d++ {
				i := rnd.Intn(n)
				if present[i] {
					st.Delete(ctx, key(i))
					present[i] = false
				}
			}
		}
	}
	// one storage instance asked for MANY different ListKeys patterns, the early ones again at the end (an implementation may
	// keep what it prepared for a pattern): 40 keys in 4 groups, 1500 patterns (some 850 distinct ones) of simple shapes whose answer the
	// driver can tell itself (group/*, group/0?, literal keys, *suffix, patterns that match nothing)
	{
		var st kvs.Storage
		if opt.Variant == "redis" {
			// a server of its own that answers SCAN the way a real one may: a few keys examined per call (COUNT is a
			// hint), so that many replies carry no key at all and a cursor that says "go on"
			mr, err := miniredis.Run()
			if err != nil {
				return err
			}
			defer mr.Close()
			mr.Server().SetPreHook(pagedScanHook(mr, 7))
			st = kvredis.New(&redis.Options{Addr: mr.Addr()})
		} else {
			st = inmem.New()
		}
		var keys []string
		for g := 0; g < 4; g++ {
			for i := 0; i < 10; i++ {
				k := fmt.Sprintf("pat/g%d/%02d", g, i)
				keys = append(keys, k)
				if _, err := st.Put(ctx, kvs.Record{Key: k, Value: []byte("v")}); err != nil {
					return err
				}
			}
		}
		type pq struct {
			pat  string
			want func(k string) bool
		}
		var pats []pq
		for g := 0; g < 4; g++ {
			g := g
			pats = append(pats, pq{fmt.Sprintf("pat/g%d/*", g), func(k string) bool { return strings.HasPrefix(k, fmt.Sprintf("pat/g%d/", g)) }})
		}
		for i := 0; len(pats) < 1500; i++ {
			i := i
			switch i % 6 {
			case 0: // a literal key, present or not
				lit := fmt.Sprintf("pat/g%d/%02d", i%5, (i/5)%14)
				pats = append(pats, pq{lit, func(k string) bool { return k == lit }})
			case 1: // all keys with one suffix
				suf := fmt.Sprintf("%02d", (i/4)%12)
				pats = append(pats, pq{"pat/*/" + suf, func(k string) bool { return strings.HasSuffix(k, "/"+suf) }})
			case 2, 4, 5: // nothing at all, every time another pattern
				pats = append(pats, pq{fmt.Sprintf("none-%d/*", i), func(string) bool { return false }})
			default: // one group, one leading digit
				g, d := i%4, (i/4)%3
				pre := fmt.Sprintf("pat/g%d/%d", g, d)
				pats = append(pats, pq{pre + "?", func(k string) bool { return strings.HasPrefix(k, pre) && len(k) == len(pre)+1 }})
			}
		}
		seenPat := map[string]bool{}
		distinct := 0
		wrong, firstWrong := 0, ""
		ask := func(q pq) error {
			if !seenPat[q.pat] {
				seenPat[q.pat] = true
				distinct++
			}
			it, err := st.ListKeys(ctx, q.pat)
			if err != nil {
				return err
			}
			got := map[string]bool{}
			for it.HasNext() {
				k, ok := it.Next()
				if !ok {
					break
				}
				got[k] = true
			}
			it.Close()
			bad := false
			for _, k := range keys {
				if got[k] != q.want(k) {
					bad = true
				}
				delete(got, k)
			}
			if bad || len(got) > 0 {
				wrong++
				if firstWrong == "" {
					firstWrong = q.pat
				}
			}
			return nil
		}
		for _, q := range pats {
			if err := ask(q); err != nil {
				return err
			}
		}
		for _, q := range pats[:300] { // ... and the early ones again
			if err := ask(q); err != nil {
				return err
			}
		}
		tw.Emit(map[string]any{"op": "ManyPatterns", "distinct": distinct, "asked": len(pats) + 300, "wrong": wrong, "first_wrong": firstWrong})
	}
	return nil
}

func b2i(b bool) int {
	if b {
		return 1
	}
	return 0
}

func driveKvReaders(opt *Options) error {
	tw, err := NewTraceWriter(opt.Out)
	if err != nil {
		return err
	}
	defer tw.Close()
	if opt.Extra["only"] == "overdead" {
		return driveKvOverDead(tw)
	}
	st := inmem.New()
	ctx := context.Background()
	stop := time.Now().Add(1200 * time.Millisecond)
	var wg sync.WaitGroup
	key := func(i int) string { return fmt.Sprintf("r/%d", i) }
	wg.Add(1)
	go func() { // writer: keeps re-creating short-lived records
		defer wg.Done()
		r := rand.New(rand.NewSource(opt.Seed))
		for time.Now().Before(stop) {
			e := time.Now().Add(time.Duration(200+r.Intn(1500)) * time.Microsecond)
			st.Put(ctx, kvs.Record{Key: key(r.Intn(32)), Value: []byte("v"), ExpiresAt: &e})
		}
	}()
	var reads int64
	var mu sync.Mutex
	for g := 0; g < 8; g++ {
		wg.Add(1)
		go func(g int) {
			defer wg.Done()
			r := rand.New(rand.NewSource(opt.Seed*31 + int64(g)))
			n := int64(0)
			for time.Now().Before(stop) {
				switch r.Intn(3) {
				case 0:
					st.Get(ctx, key(r.Intn(32)))
				case 1:
					st.GetMany(ctx, key(r.Intn(32)), key(r.Intn(32)), key(r.Intn(32)))
				default:
					if it, err := st.ListKeys(ctx, "r/*"); err == nil {
						for it.HasNext() {
							it.Next()
						}
						it.Close()
					}
				}
				n++
			}
			mu.Lock()
			reads += n
			mu.Unlock()
		}(g)
	}
	wg.Wait()
	tw.Emit(map[string]any{"op": "Readers", "reads": reads})
	if err := driveKvFresh(tw); err != nil {
		return err
	}
	return driveKvOverDead(tw)
}

// driveKvOverDead: a record that has run out but was not looked at yet (written already expired) is read and
// overwritten AT THE SAME INSTANT, hundreds of thousands of times: the write succeeded, so whatever the read did about the
// dead record, the next Get finds what was written (a successful write is never lost; KvLinTrace's rule, here as a count).
func driveKvOverDead(tw *TraceWriter) error {
	st := inmem.New()
	ctx := context.Background()
	past := time.Now().Add(-time.Hour)
	rounds := 300000
	lost, werrs := 0, 0
	var phase int64 // spin barrier: the two parties leave it within nanoseconds of each other
	type req struct{ k string }
	reads := make(chan req)
	done := make(chan struct{})
	go func() {
		i := 0
		for r := range reads {
			for atomic.LoadInt64(&phase) == 0 {
			}
			if i%2 == 0 {
				st.Get(ctx, r.k)
			} else {
				st.GetMany(ctx, r.k, "od/none")
			}
			i++
			done <- struct{}{}
		}
	}()
	t0 := time.Now()
	n := 0
	for ; n < rounds && time.Since(t0) < 20*time.Second; n++ {
		k := fmt.Sprintf("od/%d", n%64)
		if _, err := st.Put(ctx, kvs.Record{Key: k, Value: []byte("dead"), ExpiresAt: &past}); err != nil {
			werrs++
			continue
		}
		atomic.StoreInt64(&phase, 0)
		reads <- req{k}
		atomic.StoreInt64(&phase, 1)
		w, err := st.Put(ctx, kvs.Record{Key: k, Value: []byte("fresh")})
		<-done
		if err != nil {
			werrs++
			continue
		}
		g, err := st.Get(ctx, k)
		if err != nil || g.Version != w.Version {
			lost++
		}
	}
	close(reads)
	tw.Emit(map[string]any{"op": "OverDead", "rounds": n, "lost": lost, "errs": werrs})
	// the same with ListKeys as the reader, over a store of 200 000 other records: the walk takes milliseconds, the
	// write lands in the middle of it
	big := inmem.New()
	filler := make([]kvs.Record, 0, 1000)
	for i := 0; i < 200000; i++ {
		filler = append(filler, kvs.Record{Key: fmt.Sprintf("fill/%06d", i), Value: []byte("f")})
		if len(filler) == cap(filler) {
			if err := big.PutMany(ctx, filler); err != nil {
				return err
			}
			filler = filler[:0]
		}
	}
	lost, werrs, n = 0, 0, 0
	for t1 := time.Now(); n < 40 && time.Since(t1) < 20*time.Second; n++ {
		k := fmt.Sprintf("od/%d", n)
		if _, err := big.Put(ctx, kvs.Record{Key: k, Value: []byte("dead"), ExpiresAt: &past}); err != nil {
			werrs++
			continue
		}
		started := make(chan struct{})
		listed := make(chan struct{})
		go func() {
			close(started)
			if it, err := big.ListKeys(ctx, "od/*"); err == nil {
				for it.HasNext() {
					if _, ok := it.Next(); !ok {
						break
					}
				}
				it.Close()
			}
			close(listed)
		}()
		<-started
		time.Sleep(time.Duration(200+n*100) * time.Microsecond) // somewhere inside the walk
		w, err := big.Put(ctx, kvs.Record{Key: k, Value: []byte("fresh")})
		<-listed
		if err != nil {
			werrs++
			continue
		}
		g, err := big.Get(ctx, k)
		if err != nil || g.Version != w.Version {
			lost++
		}
	}
	tw.Emit(map[string]any{"op": "OverDead", "reader": "ListKeys over 200000 records", "rounds": n, "lost": lost, "errs": werrs})
	return nil
}

// driveKvFresh: sixteen goroutines write at once; every version that comes back must be different from every other
// (in-memory store; Redis client shared by all goroutines; one Redis client per goroutine).
func driveKvFresh(tw *TraceWriter) error {
	const G, N = 16, 1500
	for _, backend := range []string{"inmem", "redis-shared", "redis-each"} {
		var sts []kvs.Storage
		var mr *miniredis.Miniredis
		if backend == "inmem" {
			st := inmem.New()
			for g := 0; g < G; g++ {
				sts = append(sts, st)
			}
		} else {
			var err error
			if mr, err = miniredis.Run(); err != nil {
				return err
			}
			shared := kvredis.New(&redis.Options{Addr: mr.Addr()})
			for g := 0; g < G; g++ {
				if backend == "redis-shared" {
					sts = append(sts, shared)
				} else {
					sts = append(sts, kvredis.New(&redis.Options{Addr: mr.Addr()}))
				}
			}
		}
		vers := make([][]string, G)
		var errs int64
		var wg sync.WaitGroup
		start := make(chan struct{})
		for g := 0; g < G; g++ {
			wg.Add(1)
			go func(g int) {
				defer wg.Done()
				<-start
				ctx := context.Background()
				for i := 0; i < N; i++ {
					r, err := sts[g].Put(ctx, kvs.Record{Key: fmt.Sprintf("f/%d/%d", g, i%8), Value: []byte("v")})
					if err != nil {
						atomic.AddInt64(&errs, 1)
						continue
					}
					vers[g] = append(vers[g], r.Version)
				}
			}(g)
		}
		close(start)
		wg.Wait()
		seen := map[string]bool{}
		dups, n := 0, 0
		for _, vs := range vers {
			for _, v := range vs {
				n++
				if seen[v] {
					dups++
				}
				seen[v] = true
			}
		}
		if mr != nil {
			mr.Close()
		}
		tw.Emit(map[string]any{"op": "Fresh", "backend": backend, "n": n, "dups": dups, "errs": errs})
	}
	return nil
}

// kvfar (C06, Redis backend, virtual clock in DAYS): records whose expiration lies days, weeks, years ahead, written by
// every kind of write; the clock is moved on by whole days; after every move the store is asked what it still holds.
// A record is there exactly as long as its expiration lies ahead - however far that is (FarTrace.tla).
func driveKvFar(opt *Options) error {
	tw, err := NewTraceWriter(opt.Out)
	if err != nil {
		return err
	}
	defer tw.Close()
	rnd := rand.New(rand.NewSource(opt.Seed))
	ctx := context.Background()
	const day = 24 * time.Hour
	horizons := []int{1, 2, 7, 20, 24, 25, 26, 30, 40, 49, 50, 100, 365, 400, 3650, 36500}
	rounds := 6
	if opt.N > 0 {
		rounds = opt.N
	}
	for round := 0; round < rounds; round++ {
		be, err := newRedisBackend()
		if err != nil {
			return err
		}
		st := be.st
		tw.Emit(map[string]any{"op": "FarBegin"})
		now := 0 // days moved so far
		nkeys := 0
		write := func() error {
			// a handful of new records (some replacing older ones), each by a write of another kind
			var many []kvs.Record
			used := map[int]bool{} // one write per key and batch: the PutMany goes out last
			for j := 0; j < 3+rnd.Intn(5); j++ {
				k := nkeys
				if nkeys > 0 && rnd.Intn(4) == 0 {
					k = rnd.Intn(nkeys)
				} else {
					nkeys++
				}
				if used[k] {
					continue
				}
				used[k] = true
				key := fmt.Sprintf("far/%03d", k)
				h := 0 // no expiration
				var eat *time.Time
				if rnd.Intn(6) > 0 {
					h = now + horizons[rnd.Intn(len(horizons))]
					// the clock of the server is moved by whole days: the expiration sits half a day away from every instant looked at
					t := time.Now().Add(time.Duration(h-now)*day + 12*time.Hour)
					eat = &t
				}
				rec := kvs.Record{Key: key, Value: []byte("v"), ExpiresAt: eat}
				via := []string{"put", "create", "cas", "putmany"}[rnd.Intn(4)]
				var err error
				switch via {
				case "put":
					_, err = st.Put(ctx, rec)
				case "create":
					st.Delete(ctx, key)
					_, err = st.Create(ctx, rec)
				case "cas":
					var cur kvs.Record
					if cur, err = st.Put(ctx, kvs.Record{Key: key, Value: []byte("old")}); err == nil {
						rec.Version = cur.Version
						_, err = st.CasByVersion(ctx, rec)
					}
				case "putmany":
					many = append(many, rec)
				}
				if err != nil {
					return fmt.Errorf("kvfar: %s: %v", via, err)
				}
				tw.Emit(map[string]any{"op": "FarPut", "k": k, "until": h, "via": via})
			}
			if len(many) > 0 {
				if err := st.PutMany(ctx, many); err != nil {
					return fmt.Errorf("kvfar: putmany: %v", err)
				}
			}
			return nil
		}
		look := func() error {
			keys := make([]string, nkeys)
			for k := range keys {
				keys[k] = fmt.Sprintf("far/%03d", k)
			}
			got, err := st.GetMany(ctx, keys...)
			if err != nil {
				return err
			}
			listed, err := st.ListKeys(ctx, "far/*")
			if err != nil {
				return err
			}
			inList := map[string]bool{}
			for listed.HasNext() {
				k, ok := listed.Next()
				if !ok {
					break
				}
				inList[k] = true
			}
			listed.Close()
			seen := []int{}
			disagree := 0
			for k, key := range keys {
				_, gerr := st.Get(ctx, key)
				a, b, c := gerr == nil, k < len(got) && got[k] != nil, inList[key]
				if a != b || a != c {
					disagree++
				}
				if a {
					seen = append(seen, k)
				}
			}
			tw.Emit(map[string]any{"op": "FarSee", "seen": seen, "disagree": disagree})
			return nil
		}
		for step := 0; step < 8; step++ {
			if err := write(); err != nil {
				return err
			}
			if err := look(); err != nil {
				return err
			}
			d := []int{1, 3, 5, 10, 25, 30, 60, 300, 1000, 30000}[rnd.Intn(10)]
			be.mr.FastForward(time.Duration(d) * day)
			now += d
			tw.Emit(map[string]any{"op": "FarAdvance", "days": d})
			if err := look(); err != nil {
				return err
			}
		}
		redisPool.Put(be)
	}
	return nil
}


// pagedScanHook serves SCAN cursor [MATCH p] [COUNT n] over the sorted key space, `page` keys examined per call
// (patterns of the shapes this driver uses: literals, * and ?).
func pagedScanHook(m *miniredis.Miniredis, page int) server.Hook {
	var match func(p, k string) bool
	match = func(p, k string) bool {
		for len(p) > 0 {
			switch p[0] {
			case '*':
				for i := 0; i <= len(k); i++ {
					if match(p[1:], k[i:]) {
						return true
					}
				}
				return false
			case '?':
				if len(k) == 0 {
					return false
				}
			default:
				if len(k) == 0 || k[0] != p[0] {
					return false
				}
			}
			p, k = p[1:], k[1:]
		}
		return len(k) == 0
	}
	return func(c *server.Peer, cmd string, args ...string) bool {
		if strings.ToUpper(cmd) != "SCAN" || len(args) == 0 {
			return false
		}
		cursor, err := strconv.Atoi(args[0])
		if err != nil {
			return false
		}
		pat := "*"
		for i := 1; i+1 < len(args); i += 2 {
			if strings.ToLower(args[i]) == "match" {
				pat = args[i+1]
			}
		}
		if strings.ContainsAny(pat, "[]\\{}") {
			return false // not a shape this hook knows: the server's own SCAN answers
		}
		keys := m.Keys()
		if cursor > len(keys) {
			cursor = len(keys)
		}
		end := cursor + page
		if end > len(keys) {
			end = len(keys)
		}
		var out []string
		for _, k := range keys[cursor:end] {
			if match(pat, k) {
				out = append(out, k)
			}
		}
		next := end
		if end >= len(keys) {
			next = 0
		}
		c.WriteLen(2)
		c.WriteBulk(strconv.Itoa(next))
		c.WriteLen(len(out))
		for _, k := range out {
			c.WriteBulk(k)
		}
		return true
	}
}
