package main

import (
	"bufio"
	"context"
	"encoding/json"
	"fmt"
	"math/rand"
	"os"
	"sync"
	"sync/atomic"
	"time"

	"github.com/acquirecloud/golibs/container/iterable"
	"github.com/acquirecloud/golibs/errors"
	"github.com/acquirecloud/golibs/kvs"
	dist "github.com/acquirecloud/golibs/kvs/distlock"
	"github.com/acquirecloud/golibs/kvs/inmem"
	"github.com/acquirecloud/golibs/logging"
	gsync "github.com/acquirecloud/golibs/sync"
	"github.com/acquirecloud/golibs/timeout"
)

// C05: the lease of the distributed lock, observed in real time.
//
// Each caller has its own provider over a RECORDING (ungated) facade of one real
// in-memory store.  The facade stamps every storage call with the harness's
// monotonic clock (microseconds since the scenario started), injects a fault on
// the k-th renewal CAS (request lost / reply lost) and simulates the death of a
// holder (from the death instant every storage call of that caller is lost and
// Unlock is never called).  The timed event log is validated by TLC against
// spec/lock/LeaseTrace.tla.  A stall detector runs next to every scenario; a
// scenario during which the host stalled is repeated and never judged.

func init() { drivers["lease"] = driveLease }

type leaseSys struct {
	mu      sync.Mutex
	start   time.Time
	backing kvs.Storage
	key     string
	events  []map[string]any
	stall   int64 // max overshoot of the stall detector, microseconds
	stop    chan struct{}
}

func (s *leaseSys) now() int64 { return time.Since(s.start).Microseconds() }
func (s *leaseSys) log(e map[string]any) {
	s.mu.Lock()
	e["t"] = s.now()
	s.events = append(s.events, e)
	s.mu.Unlock()
}
func (s *leaseSys) us(t *time.Time) int64 {
	if t == nil {
		return 0
	}
	return t.Sub(s.start).Microseconds()
}

type leaseFacade struct {
	s         *leaseSys
	p         int
	dead      int32
	casCount  int32
	faultAt   int32  // inject on the k-th CAS (1-based), 0 = never
	faultOdd  bool   // inject on every odd CAS (each failed renewal is followed by a successful retry)
	faultPair bool   // inject on the k-th AND the (k+1)-th CAS (two failed attempts in a row)
	faultKnd  string // "lost" or "replylost"
	// a renewal call / a Create can be held back inside the facade (the call has been issued by the library
	// but has not reached the store yet), to put a renewal of a finished tenure in front of the next acquisition
	holdCas    int32
	casArrived chan struct{}
	casGo      chan struct{}
	holdCreate int32
	createGo   chan struct{}
	// the REPLY of the k-th renewal call can be held back: the call has taken effect in the store, the library
	// has not seen its result yet
	delReplyLost int32 // the reply of the next Delete is lost (the Delete itself is applied)
	holdDelReply  int32 // the next Delete takes effect at once, its reply arrives delReplyDelay later
	casLatency    int64 // nanoseconds every CasByVersion takes before it is served
	delReplyDelay time.Duration
	holdDel      int32 // the next Delete is held back before it reaches the store
	delArrived   chan struct{}
	delGo        chan struct{}
	holdCasReply int32
	casApplied   chan struct{}
	casReplyGo   chan struct{}
}

func (f *leaseFacade) Create(ctx context.Context, r kvs.Record) (string, error) {
	if atomic.CompareAndSwapInt32(&f.holdCreate, 1, 0) {
		<-f.createGo
	}
	if atomic.LoadInt32(&f.dead) == 1 {
		f.s.log(map[string]any{"e": "create", "p": f.p, "res": "dead", "exp": 0})
		return "", errInjected
	}
	f.s.mu.Lock() // the store call and its log entry are one step of the history
	ver, err := f.s.backing.Create(ctx, r)
	res := "ok"
	if err != nil {
		res = errClass(err)
	}
	f.s.events = append(f.s.events, map[string]any{"e": "create", "p": f.p, "res": res, "exp": f.s.us(r.ExpiresAt), "t": f.s.now()})
	f.s.mu.Unlock()
	return ver, err
}

func (f *leaseFacade) CasByVersion(ctx context.Context, r kvs.Record) (kvs.Record, error) {
	n := atomic.AddInt32(&f.casCount, 1)
	if n == atomic.LoadInt32(&f.holdCas) {
		close(f.casArrived)
		<-f.casGo
	}
	if atomic.LoadInt32(&f.dead) == 1 {
		f.s.log(map[string]any{"e": "cas", "p": f.p, "res": "dead", "exp": 0, "n": n})
		return kvs.Record{}, errInjected
	}
	if fa := atomic.LoadInt32(&f.faultAt); (n == fa || f.faultPair && n == fa+1 || f.faultOdd && n%2 == 1) && f.faultKnd == "lost" {
		f.s.log(map[string]any{"e": "cas", "p": f.p, "res": "lost", "exp": 0, "n": n})
		return kvs.Record{}, errInjected
	}
	if lat := time.Duration(atomic.LoadInt64(&f.casLatency)); lat > 0 {
		// a store that takes its time to answer, and gives a call up when the caller's context ends meanwhile
		select {
		case <-time.After(lat):
		case <-ctx.Done():
			f.s.log(map[string]any{"e": "cas", "p": f.p, "res": "ctxdone", "exp": 0, "n": n})
			return kvs.Record{}, ctx.Err()
		}
	}
	if err := ctx.Err(); err != nil {
		// a store that looks at the caller's context first, as every network client does: nothing reaches it
		f.s.log(map[string]any{"e": "cas", "p": f.p, "res": "ctxdone", "exp": 0, "n": n})
		return kvs.Record{}, err
	}
	f.s.mu.Lock()
	rec, err := f.s.backing.CasByVersion(ctx, r)
	res := "ok"
	if err != nil {
		res = errClass(err)
	}
	lost := n == f.faultAt && f.faultKnd == "replylost"
	if lost && err == nil {
		res = "replylost"
	}
	f.s.events = append(f.s.events, map[string]any{"e": "cas", "p": f.p, "res": res, "exp": f.s.us(r.ExpiresAt), "n": n, "t": f.s.now()})
	f.s.mu.Unlock()
	if n == atomic.LoadInt32(&f.holdCasReply) {
		close(f.casApplied)
		<-f.casReplyGo
	}
	if lost {
		return kvs.Record{}, errInjected
	}
	return rec, err
}

func (f *leaseFacade) Delete(ctx context.Context, key string) error {
	if atomic.LoadInt32(&f.dead) == 1 {
		return errInjected
	}
	if atomic.CompareAndSwapInt32(&f.holdDel, 1, 0) {
		close(f.delArrived)
		<-f.delGo
	}
	f.s.mu.Lock()
	err := f.s.backing.Delete(ctx, key)
	res := errClass(err)
	lost := err == nil && atomic.CompareAndSwapInt32(&f.delReplyLost, 1, 0)
	if lost {
		res = "replylost" // the Delete took effect, its reply does not arrive
	}
	f.s.events = append(f.s.events, map[string]any{"e": "del", "p": f.p, "res": res, "t": f.s.now()})
	f.s.mu.Unlock()
	if lost {
		return errInjected
	}
	if atomic.CompareAndSwapInt32(&f.holdDelReply, 1, 0) {
		time.Sleep(f.delReplyDelay) // the Delete took effect; its reply is slow
	}
	return err
}

func (f *leaseFacade) WaitForVersionChange(ctx context.Context, key, ver string) error {
	if atomic.LoadInt32(&f.dead) == 1 {
		return errInjected
	}
	return f.s.backing.WaitForVersionChange(ctx, key, ver)
}
func (f *leaseFacade) Get(ctx context.Context, key string) (kvs.Record, error) {
	return f.s.backing.Get(ctx, key)
}
func (f *leaseFacade) GetMany(ctx context.Context, keys ...string) ([]*kvs.Record, error) {
	return f.s.backing.GetMany(ctx, keys...)
}
func (f *leaseFacade) Put(ctx context.Context, r kvs.Record) (kvs.Record, error) {
	return f.s.backing.Put(ctx, r)
}
func (f *leaseFacade) PutMany(ctx context.Context, rs []kvs.Record) error {
	return f.s.backing.PutMany(ctx, rs)
}
func (f *leaseFacade) ListKeys(ctx context.Context, pattern string) (iterable.Iterator[string], error) {
	return f.s.backing.ListKeys(ctx, pattern)
}

type leaseParty struct {
	fac    *leaseFacade
	prov   dist.LockProvider
	locker gsync.Locker
}

func newLeaseSys(ttl time.Duration, n int, mix int) (*leaseSys, []*leaseParty) {
	s := &leaseSys{start: time.Now(), backing: inmem.New(), key: "/locks/L", stop: make(chan struct{})}
	var ps []*leaseParty
	for i := 1; i <= n; i++ {
		f := &leaseFacade{s: s, p: i}
		pr := dist.NewKvsLockProvider(f, "/locks/")
		switch {
		case mix == 1 && i > 1:
			// the other parties run providers configured with a three times longer lease (their timers sit
			// later in the process-wide timer queue than the holder's renewals)
			dist.VerifSetLeaseTTL(pr, 3*ttl)
		case mix == 2 && i > 1:
			// ... or with a much shorter one: how long THEY would hold a record says nothing about the holder's
			dist.VerifSetLeaseTTL(pr, ttl/4)
		default:
			dist.VerifSetLeaseTTL(pr, ttl)
		}
		ps = append(ps, &leaseParty{fac: f, prov: pr, locker: pr.NewLocker("L")})
	}
	s.events = append(s.events, map[string]any{"e": "reset", "ttl": ttl.Microseconds(), "t": 0})
	go func() { // stall detector
		const step = 2 * time.Millisecond
		last := time.Now()
		for {
			select {
			case <-s.stop:
				return
			default:
			}
			time.Sleep(step)
			n := time.Now()
			if over := n.Sub(last) - step; over.Microseconds() > atomic.LoadInt64(&s.stall) {
				atomic.StoreInt64(&s.stall, over.Microseconds())
			}
			last = n
		}
	}()
	return s, ps
}

func (s *leaseSys) probe() {
	s.mu.Lock()
	_, err := s.backing.Get(context.Background(), s.key)
	s.events = append(s.events, map[string]any{"e": "probe", "present": err == nil, "t": s.now()})
	s.mu.Unlock()
}

func (s *leaseSys) sleepUntil(us int64) {
	d := time.Duration(us-s.now()) * time.Microsecond
	if d > 0 {
		time.Sleep(d)
	}
}

// leaseScenario describes one run.
type leaseScenario struct {
	Kind    string // hold | death | unlockrace
	TTL     time.Duration
	Periods int    // hold duration in lease periods
	FaultAt int    // k-th CAS
	Fault   string // lost | replylost | ""
	Phase   int    // death / unlock offset inside the renewal cycle, in 1/8 of TTL/2
	Pair    bool   // the fault hits two consecutive renewal calls
	Mix     int    // lease lengths of the other parties: 0 same, 1 three times longer, 2 four times shorter
	Distant bool   // an unrelated, much later timer is pending (and the dispatcher asleep towards it) when the lock is acquired
	SlowCas bool   // the store serves every renewal only after 3/16 of a lease period (well before the lease runs out)
	CtxAcq  bool   // the holder acquires through LockWithCtx and its context ends right after the lock was granted (the usual
	// "wait at most so long for the lock" idiom): the lock is held until Unlock all the same, its lease is kept
	Down    bool   // the holder's provider is shut down while the lock is held; the next renewal then fails transiently
}

func runLeaseScenario(sc leaseScenario) (*leaseSys, bool) {
	mix := sc.Mix
	if mix == 0 && sc.Phase%2 == 1 {
		mix = 1
	}
	s, ps := newLeaseSys(sc.TTL, 3, mix)
	defer close(s.stop)
	ttl := sc.TTL.Microseconds()
	holder, contender, waiter := ps[0], ps[1], ps[2]
	holder.fac.faultAt, holder.fac.faultKnd = int32(sc.FaultAt), sc.Fault
	holder.fac.faultOdd = sc.FaultAt < 0
	holder.fac.faultPair = sc.Pair
	s.events[0]["kind"] = sc.Kind
	s.events[0]["fault"] = sc.Fault
	if sc.Distant {
		fu := timeout.Call(func() {}, 20*sc.TTL)
		defer fu.Cancel()
		time.Sleep(30 * time.Millisecond) // let the dispatcher go to sleep towards it
	}
	holderDown := false
	if sc.SlowCas {
		atomic.StoreInt64(&holder.fac.casLatency, int64(sc.TTL*3/16))
	}
	if sc.CtxAcq {
		cctx, ccancel := context.WithTimeout(context.Background(), 5*time.Second)
		err := holder.locker.LockWithCtx(cctx)
		ccancel()
		if err != nil {
			s.log(map[string]any{"e": "harness-error", "what": "initial LockWithCtx failed"})
			return s, false
		}
	} else if !holder.locker.TryLock(context.Background()) {
		s.log(map[string]any{"e": "harness-error", "what": "initial TryLock failed"})
		return s, false
	}
	s.log(map[string]any{"e": "acq", "p": 1})
	t0 := s.now()
	// observation loop: probes and contender attempts while the lock is held
	observe := func(until int64, contend bool) {
		i := 0
		for s.now() < until {
			s.sleepUntil(min64(until, s.now()+ttl/5))
			s.probe()
			if contend && i%2 == 1 {
				ok := contender.locker.TryLock(context.Background())
				s.log(map[string]any{"e": "try", "p": 2, "ok": ok})
				if ok {
					s.log(map[string]any{"e": "rel", "p": 2})
					contender.locker.Unlock()
					s.log(map[string]any{"e": "unlocked", "p": 2})
				}
			}
			i++
		}
	}
	switch sc.Kind {
	case "hold":
		if sc.Down {
			// Shutdown stops new acquisitions; the lock that is held stays held until Unlock, so its lease must be kept -
			// also across a renewal attempt that fails transiently afterwards
			observe(t0+ttl+ttl/5, true)
			holder.prov.Shutdown()
			holderDown = true
			holder.fac.faultKnd = "lost"
			atomic.StoreInt32(&holder.fac.faultAt, atomic.LoadInt32(&holder.fac.casCount)+1)
		}
		observe(t0+int64(sc.Periods)*ttl, true)
		s.log(map[string]any{"e": "rel", "p": 1})
		holder.locker.Unlock()
		s.log(map[string]any{"e": "unlocked", "p": 1})
		// after the release: renewal of this tenure must die out
		observe(s.now()+2*ttl, false)
		ok := contender.locker.TryLock(context.Background())
		s.log(map[string]any{"e": "try", "p": 2, "ok": ok})
		if ok {
			s.log(map[string]any{"e": "rel", "p": 2})
			contender.locker.Unlock()
			s.log(map[string]any{"e": "unlocked", "p": 2})
		}
	case "longhold":
		// the DEFAULT lease of the provider (10 s) and leases beyond it: held for two thirds of a lease period (the first
		// renewal falls into it), the record must be there all along; then released, and free
		observe(t0+13*ttl/20, true)
		s.log(map[string]any{"e": "rel", "p": 1})
		holder.locker.Unlock()
		s.log(map[string]any{"e": "unlocked", "p": 1})
		observe(s.now()+ttl/20, false)
		ok := contender.locker.TryLock(context.Background())
		s.log(map[string]any{"e": "freetry", "p": 2, "ok": ok})
		if ok {
			contender.locker.Unlock()
		}
	case "unlockrace":
		// Unlock lands around the instant a renewal fires (ttl/2 after the last one)
		observe(t0+int64(sc.Periods)*ttl/2-ttl/8, true)
		s.sleepUntil(t0 + int64(sc.Periods)*ttl/2 + int64(sc.Phase-4)*ttl/400)
		s.log(map[string]any{"e": "rel", "p": 1})
		holder.locker.Unlock()
		s.log(map[string]any{"e": "unlocked", "p": 1})
		if sc.Periods%2 == 0 {
			// the same Locker object is used again at once (a renewal of the previous tenure may still be in flight):
			// nobody holds the lock, so it must be acquired, held and released like the first time
			rctx, rcancel := context.WithTimeout(context.Background(), time.Duration(3*ttl)*time.Microsecond+2*time.Second)
			err := holder.locker.LockWithCtx(rctx)
			rcancel()
			if err != nil {
				s.log(map[string]any{"e": "reacqfail", "p": 1})
			} else {
				s.log(map[string]any{"e": "acq", "p": 1})
				observe(s.now()+3*ttl/2, true)
				s.log(map[string]any{"e": "rel", "p": 1})
				holder.locker.Unlock()
				s.log(map[string]any{"e": "unlocked", "p": 1})
			}
		}
		observe(s.now()+2*ttl, false)
		// in the end the lock is free: the contender gets it
		ok := contender.locker.TryLock(context.Background())
		s.log(map[string]any{"e": "freetry", "p": 2, "ok": ok})
		if ok {
			contender.locker.Unlock()
		}
	case "unlockmid":
		// The renewal call is on its way to the store when Unlock starts; Unlock has reached its Delete (held back)
		// when the renewal takes effect - and arms the one further attempt (c) allows; then the Delete lands.  The SAME
		// Locker is locked again and held for three lease periods: the stale attempt fires during the new tenure, finds
		// nothing of its own, and must leave the new tenure's renewal alone.
		holder.fac.casArrived, holder.fac.casGo = make(chan struct{}), make(chan struct{})
		holder.fac.delArrived, holder.fac.delGo = make(chan struct{}), make(chan struct{})
		atomic.StoreInt32(&holder.fac.holdCas, 1)
		select {
		case <-holder.fac.casArrived:
		case <-time.After(time.Duration(2*ttl)*time.Microsecond + 2*time.Second):
			s.log(map[string]any{"e": "harness-error", "what": "renewal never issued"})
			close(holder.fac.casGo)
			return s, false
		}
		atomic.StoreInt32(&holder.fac.holdDel, 1)
		s.log(map[string]any{"e": "rel", "p": 1})
		unlocked := make(chan struct{})
		go func() { holder.locker.Unlock(); close(unlocked) }()
		select {
		case <-holder.fac.delArrived:
		case <-time.After(2 * time.Second):
			s.log(map[string]any{"e": "harness-error", "what": "Unlock never reached its Delete"})
			close(holder.fac.casGo)
			return s, false
		}
		close(holder.fac.casGo)
		time.Sleep(time.Duration(ttl/20) * time.Microsecond)
		close(holder.fac.delGo)
		<-unlocked
		s.log(map[string]any{"e": "unlocked", "p": 1})
		rctx, rcancel := context.WithTimeout(context.Background(), time.Duration(3*ttl)*time.Microsecond+2*time.Second)
		err := holder.locker.LockWithCtx(rctx)
		rcancel()
		if err != nil {
			s.log(map[string]any{"e": "reacqfail", "p": 1})
			break
		}
		s.log(map[string]any{"e": "acq", "p": 1})
		observe(s.now()+3*ttl, true)
		s.log(map[string]any{"e": "rel", "p": 1})
		holder.locker.Unlock()
		s.log(map[string]any{"e": "unlocked", "p": 1})
		observe(s.now()+2*ttl, false)
		ok := contender.locker.TryLock(context.Background())
		s.log(map[string]any{"e": "freetry", "p": 2, "ok": ok})
		if ok {
			contender.locker.Unlock()
		}
	case "delreplylost":
		// Unlock's Delete takes effect but its reply is lost; the lock is handed over at once.  Whatever Unlock does
		// about the error, the new holder's record must stay and nobody else may acquire for well over lease/8.
		observe(t0+ttl/2+ttl/5, true)
		atomic.StoreInt32(&holder.fac.delReplyLost, 1)
		s.log(map[string]any{"e": "rel", "p": 1})
		callPanics(func() { holder.locker.Unlock() })
		s.log(map[string]any{"e": "unlocked", "p": 1})
		if !contender.locker.TryLock(context.Background()) {
			s.log(map[string]any{"e": "freetry", "p": 2, "ok": false})
			break
		}
		s.log(map[string]any{"e": "acq", "p": 2})
		for i := 0; i < 8; i++ {
			time.Sleep(time.Duration(ttl/10) * time.Microsecond)
			s.probe()
			ok := waiter.locker.TryLock(context.Background())
			s.log(map[string]any{"e": "try", "p": 3, "ok": ok})
			if ok {
				waiter.locker.Unlock()
			}
		}
		s.log(map[string]any{"e": "rel", "p": 2})
		contender.locker.Unlock()
		s.log(map[string]any{"e": "unlocked", "p": 2})
		observe(s.now()+ttl, false)
		ok := waiter.locker.TryLock(context.Background())
		s.log(map[string]any{"e": "freetry", "p": 3, "ok": ok})
		if ok {
			waiter.locker.Unlock()
		}
	case "slowreply":
		// The k-th renewal has taken effect in the store but its reply is still on its way when the holder unlocks.
		// Unlock must leave nothing behind: the record is gone at once, the lock is free, renewal dies out.
		holder.fac.casApplied, holder.fac.casReplyGo = make(chan struct{}), make(chan struct{})
		atomic.StoreInt32(&holder.fac.holdCasReply, int32(sc.Periods))
		select {
		case <-holder.fac.casApplied:
		case <-time.After(time.Duration(int64(sc.Periods+1)*ttl)*time.Microsecond + 2*time.Second):
			s.log(map[string]any{"e": "harness-error", "what": "renewal never issued"})
			close(holder.fac.casReplyGo)
			return s, false
		}
		s.log(map[string]any{"e": "rel", "p": 1})
		holder.locker.Unlock()
		s.log(map[string]any{"e": "unlocked", "p": 1})
		s.probe()
		if sc.Phase == 3 {
			// the SAME Locker is locked again while the reply of the first tenure's renewal is still in flight; the reply
			// then arrives: whatever the old renewal attempt does with it, the new tenure's lease must be kept
			rctx, rcancel := context.WithTimeout(context.Background(), time.Duration(3*ttl)*time.Microsecond+2*time.Second)
			err := holder.locker.LockWithCtx(rctx)
			rcancel()
			if err != nil {
				s.log(map[string]any{"e": "reacqfail", "p": 1})
				close(holder.fac.casReplyGo)
				break
			}
			s.log(map[string]any{"e": "acq", "p": 1})
			close(holder.fac.casReplyGo)
			observe(s.now()+5*ttl/2, true)
			s.log(map[string]any{"e": "rel", "p": 1})
			holder.locker.Unlock()
			s.log(map[string]any{"e": "unlocked", "p": 1})
			observe(s.now()+2*ttl, false)
			ok := contender.locker.TryLock(context.Background())
			s.log(map[string]any{"e": "freetry", "p": 2, "ok": ok})
			if ok {
				contender.locker.Unlock()
			}
			break
		}
		if sc.Phase >= 2 {
			// hand-off while the old tenure's renewal reply is still in flight: the contender acquires and is the holder
			// under observation when the reply arrives; its record must stay, nobody else may acquire
			if !contender.locker.TryLock(context.Background()) {
				s.log(map[string]any{"e": "freetry", "p": 2, "ok": false})
				close(holder.fac.casReplyGo)
				break
			}
			s.log(map[string]any{"e": "acq", "p": 2})
			close(holder.fac.casReplyGo)
			for i := 0; i < 6; i++ {
				time.Sleep(time.Duration(ttl/12) * time.Microsecond)
				s.probe()
				ok := waiter.locker.TryLock(context.Background())
				s.log(map[string]any{"e": "try", "p": 3, "ok": ok})
				if ok {
					waiter.locker.Unlock()
				}
			}
			s.log(map[string]any{"e": "rel", "p": 2})
			contender.locker.Unlock()
			s.log(map[string]any{"e": "unlocked", "p": 2})
			observe(s.now()+2*ttl, false)
			ok := waiter.locker.TryLock(context.Background())
			s.log(map[string]any{"e": "freetry", "p": 3, "ok": ok})
			if ok {
				waiter.locker.Unlock()
			}
			break
		}
		if sc.Phase%2 == 0 {
			close(holder.fac.casReplyGo)
			time.Sleep(2 * time.Millisecond)
			s.probe()
		}
		ok := contender.locker.TryLock(context.Background())
		s.log(map[string]any{"e": "freetry", "p": 2, "ok": ok})
		if ok {
			contender.locker.Unlock()
		}
		if sc.Phase%2 == 1 {
			close(holder.fac.casReplyGo)
		}
		observe(s.now()+2*ttl, false)
		ok = contender.locker.TryLock(context.Background())
		s.log(map[string]any{"e": "freetry", "p": 2, "ok": ok})
		if ok {
			contender.locker.Unlock()
		}
	case "stalecas":
		// The first renewal call of the tenure is issued by the library but held back on its way to the store;
		// meanwhile the holder unlocks and the SAME Locker is used again; the old renewal reaches the store before
		// the new acquisition's Create does.  Nobody holds the lock: the acquisition must succeed, its lease must be
		// kept, and afterwards the lock must be free again.
		holder.fac.casArrived, holder.fac.casGo, holder.fac.createGo = make(chan struct{}), make(chan struct{}), make(chan struct{})
		atomic.StoreInt32(&holder.fac.holdCas, 1)
		select {
		case <-holder.fac.casArrived:
		case <-time.After(time.Duration(2*ttl)*time.Microsecond + 2*time.Second):
			s.log(map[string]any{"e": "harness-error", "what": "renewal never issued"})
			return s, false
		}
		s.log(map[string]any{"e": "rel", "p": 1})
		holder.locker.Unlock()
		s.log(map[string]any{"e": "unlocked", "p": 1})
		if sc.Pair {
			// variant: another party takes the lock in between and is the one observed from now on; the held-back
			// renewal of the first tenure then FAILS transiently while the first Locker is busy acquiring again.
			// The new holder's own renewals must go on finding its record.
			if !contender.locker.TryLock(context.Background()) {
				s.log(map[string]any{"e": "harness-error", "what": "contender could not take the free lock"})
				return s, false
			}
			s.log(map[string]any{"e": "acq", "p": 2})
			racq := make(chan error, 1)
			rctx, rcancel := context.WithTimeout(context.Background(), time.Duration(6*ttl)*time.Microsecond+3*time.Second)
			go func() { racq <- holder.locker.LockWithCtx(rctx) }()
			time.Sleep(5 * time.Millisecond)
			close(holder.fac.casGo) // (fails: FaultAt = 1)
			i := 0
			for until := s.now() + 2*ttl; s.now() < until; i++ {
				s.sleepUntil(min64(until, s.now()+ttl/5))
				s.probe()
			}
			s.log(map[string]any{"e": "rel", "p": 2})
			contender.locker.Unlock()
			s.log(map[string]any{"e": "unlocked", "p": 2})
			if err := <-racq; err != nil {
				s.log(map[string]any{"e": "reacqfail", "p": 1})
			} else {
				holder.locker.Unlock()
			}
			rcancel()
			observe(s.now()+3*ttl/2, false)
			ok := contender.locker.TryLock(context.Background())
			s.log(map[string]any{"e": "freetry", "p": 2, "ok": ok})
			if ok {
				contender.locker.Unlock()
			}
			break
		}
		racq := make(chan error, 1)
		if sc.Phase == 1 {
			// variant: the old renewal reaches the store only AFTER the same Locker holds again (it finds a record that
			// is not the one it was sent for: ErrConflict).  That is no news about the new tenure: its record is kept
			// and, at Unlock, removed like any other.
			rctx, rcancel := context.WithTimeout(context.Background(), time.Duration(3*ttl)*time.Microsecond+2*time.Second)
			racq <- holder.locker.LockWithCtx(rctx)
			rcancel()
			close(holder.fac.casGo)
			time.Sleep(10 * time.Millisecond)
		} else {
			atomic.StoreInt32(&holder.fac.holdCreate, 1)
			go func() {
				rctx, rcancel := context.WithTimeout(context.Background(), time.Duration(3*ttl)*time.Microsecond+2*time.Second)
				defer rcancel()
				racq <- holder.locker.LockWithCtx(rctx)
			}()
			time.Sleep(5 * time.Millisecond) // the acquisition is past its local phase, its Create is held back
			close(holder.fac.casGo)          // the old renewal reaches the store (record gone: ErrNotExist)
			time.Sleep(10 * time.Millisecond)
			close(holder.fac.createGo)
		}
		if err := <-racq; err != nil {
			s.log(map[string]any{"e": "reacqfail", "p": 1})
		} else {
			s.log(map[string]any{"e": "acq", "p": 1})
			observe(s.now()+3*ttl/2, true)
			s.log(map[string]any{"e": "rel", "p": 1})
			holder.locker.Unlock()
			s.log(map[string]any{"e": "unlocked", "p": 1})
		}
		observe(s.now()+3*ttl/2, false)
		ok := contender.locker.TryLock(context.Background())
		s.log(map[string]any{"e": "freetry", "p": 2, "ok": ok})
		if ok {
			contender.locker.Unlock()
		}
	case "handoff":
		// a waiter blocks in LockWithCtx for most of a lease period, the holder unlocks, the waiter acquires and
		// holds: the new holder's lease must be in order although it waited long for the lock
		ctx, cancel := context.WithTimeout(context.Background(), time.Duration(8*ttl)*time.Microsecond+5*time.Second)
		done := make(chan struct{})
		go func() {
			defer close(done)
			if err := waiter.locker.LockWithCtx(ctx); err != nil {
				s.log(map[string]any{"e": "wfail", "p": 3})
				return
			}
			s.log(map[string]any{"e": "wacq", "p": 3})
			if sc.Mix != 2 { // (a party with a very short lease of its own is not observed as a holder: too timing-sensitive)
				s.log(map[string]any{"e": "acq", "p": 3})
			}
		}()
		observe(t0+int64(4+sc.Phase)*ttl/8, false) // the holder keeps the lock for 0.5 .. 1.4 lease periods
		s.log(map[string]any{"e": "rel", "p": 1})
		holder.locker.Unlock()
		s.log(map[string]any{"e": "unlocked", "p": 1})
		select {
		case <-done:
		case <-time.After(3 * time.Second):
		}
		if sc.Mix == 2 {
			observe(s.now()+ttl/4, false)
		} else {
			observe(s.now()+2*ttl, true) // contender polls while the new holder holds
		}
		cancel()
		<-done
		s.mu.Lock()
		acquired := false
		for _, e := range s.events {
			if e["e"] == "wacq" {
				acquired = true
			}
		}
		s.mu.Unlock()
		if acquired {
			s.log(map[string]any{"e": "rel", "p": 3})
			waiter.locker.Unlock()
			s.log(map[string]any{"e": "unlocked", "p": 3})
		}
	case "sharedhandoff":
		// Two goroutines share ONE Locker: the second one waits in LockWithCtx while the first holds.  The reply of the
		// Unlock's Delete is slow (the Delete itself is applied at once).  Whenever the second goroutine gets the lock,
		// it holds it from then on: its record must be kept for two lease periods, nobody else acquires.
		ctx, cancel := context.WithTimeout(context.Background(), time.Duration(8*ttl)*time.Microsecond+5*time.Second)
		done := make(chan error, 1)
		go func() {
			err := holder.locker.LockWithCtx(ctx)
			if err == nil {
				s.log(map[string]any{"e": "acq", "p": 1})
			}
			done <- err
		}()
		observe(t0+int64(4+sc.Phase)*ttl/8, true)
		holder.fac.delReplyDelay = time.Duration(ttl/4) * time.Microsecond
		atomic.StoreInt32(&holder.fac.holdDelReply, 1)
		s.log(map[string]any{"e": "rel", "p": 1})
		holder.locker.Unlock()
		s.log(map[string]any{"e": "unlocked", "p": 1})
		var err error
		select {
		case err = <-done:
		case <-time.After(time.Duration(2*ttl)*time.Microsecond + 3*time.Second):
			err = context.DeadlineExceeded
		}
		cancel()
		if err != nil {
			s.log(map[string]any{"e": "reacqfail", "p": 1})
			break
		}
		observe(s.now()+2*ttl, true)
		s.log(map[string]any{"e": "rel", "p": 1})
		holder.locker.Unlock()
		s.log(map[string]any{"e": "unlocked", "p": 1})
		observe(s.now()+ttl, false)
		ok := contender.locker.TryLock(context.Background())
		s.log(map[string]any{"e": "freetry", "p": 2, "ok": ok})
		if ok {
			contender.locker.Unlock()
		}
	case "death":
		// a waiter blocks in LockWithCtx before the holder dies
		if sc.Phase%2 == 0 {
			// ... and another caller waits as well and gives up shortly AFTER the holder died (no renewal wakes the
			// waiters any more), well before the record runs out
			early := make(chan struct{})
			go func() {
				defer close(early)
				giveUp := t0 + int64(sc.Periods)*ttl/2 + int64(sc.Phase)*ttl/16 + ttl/8 - s.now()
				ectx, ecancel := context.WithTimeout(context.Background(), time.Duration(giveUp)*time.Microsecond)
				defer ecancel()
				err := contender.locker.LockWithCtx(ectx)
				s.log(map[string]any{"e": "try", "p": 2, "ok": err == nil})
				if err == nil {
					contender.locker.Unlock()
				}
			}()
			defer func() { <-early }()
			time.Sleep(5 * time.Millisecond)
		}
		ctx, cancel := context.WithTimeout(context.Background(), time.Duration(8*ttl)*time.Microsecond+5*time.Second)
		done := make(chan struct{})
		go func() {
			err := waiter.locker.LockWithCtx(ctx)
			if err == nil {
				s.log(map[string]any{"e": "wacq", "p": 3})
				// the new holder waited a long time for the lock: its own lease must be in order from now on
				s.log(map[string]any{"e": "acq", "p": 3})
				until := s.now() + 3*ttl/2
				for s.now() < until {
					s.sleepUntil(min64(until, s.now()+ttl/5))
					s.probe()
				}
				s.log(map[string]any{"e": "rel", "p": 3})
				waiter.locker.Unlock()
				s.log(map[string]any{"e": "unlocked", "p": 3})
			} else {
				s.log(map[string]any{"e": "wfail", "p": 3})
			}
			close(done)
		}()
		observe(t0+int64(sc.Periods)*ttl/2+int64(sc.Phase)*ttl/16, false)
		s.mu.Lock()
		atomic.StoreInt32(&holder.fac.dead, 1)
		s.events = append(s.events, map[string]any{"e": "die", "p": 1, "t": s.now()})
		s.mu.Unlock()
		select {
		case <-done:
		case <-time.After(time.Duration(4*ttl)*time.Microsecond + 4*time.Second):
		}
		cancel()
		<-done
		s.probe()
	}
	s.log(map[string]any{"e": "end"})
	for i, p := range ps {
		if i == 0 && holderDown {
			continue // (Shutdown closes a channel: once only)
		}
		p.prov.Shutdown()
	}
	stalled := atomic.LoadInt64(&s.stall) > ttl/8
	return s, !stalled
}

func min64(a, b int64) int64 {
	if a < b {
		return a
	}
	return b
}

func driveLease(opt *Options) error {
	logging.SetLevel(logging.Level(-1))
	rnd := rand.New(rand.NewSource(opt.Seed))
	var scs []leaseScenario
	ttls := []time.Duration{200 * time.Millisecond, 400 * time.Millisecond}
	if opt.Extra["tier"] == "thorough" {
		ttls = []time.Duration{150 * time.Millisecond, 250 * time.Millisecond, 500 * time.Millisecond, 1500 * time.Millisecond}
	}
	switch opt.Extra["mode"] {
	case "replylost": // the recorded finding: a renewal whose reply is lost
		scs = append(scs, leaseScenario{Kind: "hold", TTL: 200 * time.Millisecond, Periods: 4, FaultAt: 2, Fault: "replylost"})
	case "stale": // C04 under real leases: a renewal of a finished tenure must leave nothing behind
		for _, ttl := range ttls {
			scs = append(scs, leaseScenario{Kind: "stalecas", TTL: ttl})
			scs = append(scs, leaseScenario{Kind: "stalecas", TTL: ttl, Phase: 1})
			scs = append(scs, leaseScenario{Kind: "unlockmid", TTL: ttl})
			scs = append(scs, leaseScenario{Kind: "stalecas", TTL: ttl, Pair: true, FaultAt: 1, Fault: "lost"})
			for ph := 0; ph < 8; ph += 2 {
				scs = append(scs, leaseScenario{Kind: "unlockrace", TTL: ttl, Periods: 2, Phase: ph})
			}
			scs = append(scs, leaseScenario{Kind: "delreplylost", TTL: ttl})
			for k := 1; k <= 2; k++ {
				scs = append(scs, leaseScenario{Kind: "slowreply", TTL: ttl, Periods: k, Phase: 0})
				scs = append(scs, leaseScenario{Kind: "slowreply", TTL: ttl, Periods: k, Phase: 1})
				scs = append(scs, leaseScenario{Kind: "slowreply", TTL: ttl, Periods: k, Phase: 2})
				scs = append(scs, leaseScenario{Kind: "slowreply", TTL: ttl, Periods: k, Phase: 3})
			}
		}
	case "handoff": // C01 under real leases: a caller that waited long acquires and holds
		for _, ttl := range ttls {
			for ph := 0; ph < 8; ph += 2 {
				scs = append(scs, leaseScenario{Kind: "handoff", TTL: ttl, Phase: ph})
			}
			scs = append(scs, leaseScenario{Kind: "handoff", TTL: ttl, Phase: 6, Mix: 2})
			scs = append(scs, leaseScenario{Kind: "handoff", TTL: ttl, Phase: 2, Mix: 2})
			scs = append(scs, leaseScenario{Kind: "delreplylost", TTL: ttl})
			scs = append(scs, leaseScenario{Kind: "sharedhandoff", TTL: ttl, Phase: 2})
			scs = append(scs, leaseScenario{Kind: "sharedhandoff", TTL: ttl, Phase: 4})
			// hand-off while the reply of the old holder's renewal is in flight
			scs = append(scs, leaseScenario{Kind: "slowreply", TTL: ttl, Periods: 1, Phase: 2})
			scs = append(scs, leaseScenario{Kind: "slowreply", TTL: ttl, Periods: 2, Phase: 2})
		}
	default:
		// a long tenure: dozens of renewals in a row (quick: 30 lease periods of 200 ms; thorough: 60 of 150 ms)
		scs = append(scs, leaseScenario{Kind: "hold", TTL: ttls[0], Periods: map[bool]int{false: 30, true: 60}[opt.Extra["tier"] == "thorough"]})
		scs = append(scs, leaseScenario{Kind: "longhold", TTL: 10 * time.Second, Phase: 2})
		if opt.Extra["tier"] == "thorough" {
			scs = append(scs, leaseScenario{Kind: "longhold", TTL: 30 * time.Second, Phase: 2})
			scs = append(scs, leaseScenario{Kind: "longhold", TTL: 4 * time.Second, Phase: 2})
		}
		for _, ttl := range ttls {
			scs = append(scs, leaseScenario{Kind: "hold", TTL: ttl, Periods: 6 + rnd.Intn(6)})
			for k := 1; k <= 5; k++ {
				scs = append(scs, leaseScenario{Kind: "hold", TTL: ttl, Periods: 5, FaultAt: k, Fault: "lost"})
			}
			for _, k := range []int{1, 3} { // two failed renewal attempts in a row
				scs = append(scs, leaseScenario{Kind: "hold", TTL: ttl, Periods: 5, FaultAt: k, Fault: "lost", Pair: true})
			}
			scs = append(scs, leaseScenario{Kind: "stalecas", TTL: ttl})
			scs = append(scs, leaseScenario{Kind: "stalecas", TTL: ttl, Phase: 1})
			scs = append(scs, leaseScenario{Kind: "stalecas", TTL: ttl, Pair: true, FaultAt: 1, Fault: "lost"})
			scs = append(scs, leaseScenario{Kind: "hold", TTL: ttl, Periods: 4, Mix: 2})
			scs = append(scs, leaseScenario{Kind: "handoff", TTL: ttl, Phase: 6, Mix: 2})
			scs = append(scs, leaseScenario{Kind: "hold", TTL: ttl, Periods: 5, Down: true})
			scs = append(scs, leaseScenario{Kind: "hold", TTL: ttl, Periods: 4, CtxAcq: true})
			scs = append(scs, leaseScenario{Kind: "hold", TTL: ttl, Periods: 4, SlowCas: true})
			scs = append(scs, leaseScenario{Kind: "slowreply", TTL: ttl, Periods: 1, Phase: 3})
			scs = append(scs, leaseScenario{Kind: "unlockmid", TTL: ttl})
			scs = append(scs, leaseScenario{Kind: "sharedhandoff", TTL: ttl, Phase: 2})
			// every other renewal call fails transiently, over a long hold
			scs = append(scs, leaseScenario{Kind: "hold", TTL: ttl, Periods: 10, FaultAt: -1, Fault: "lost"})
			for ph := 0; ph < 8; ph++ {
				scs = append(scs, leaseScenario{Kind: "death", TTL: ttl, Periods: 2 + rnd.Intn(3), Phase: ph})
				scs = append(scs, leaseScenario{Kind: "unlockrace", TTL: ttl, Periods: 1 + rnd.Intn(3), Phase: ph})
			}
			for ph := 1; ph < 8; ph += 3 {
				scs = append(scs, leaseScenario{Kind: "handoff", TTL: ttl, Phase: ph})
			}
		}
	}
	out, err := os.Create(opt.Out)
	if err != nil {
		return err
	}
	defer out.Close()
	w := bufio.NewWriterSize(out, 1<<20)
	defer w.Flush()
	var wmu sync.Mutex
	stats := map[string]int{}
	// solo phase: the lock is the only user of the timer package besides one distant timer
	if opt.Extra["mode"] == "" {
		for _, ttl := range ttls[:1] {
			sc := leaseScenario{Kind: "hold", TTL: ttl, Periods: 3, Distant: true}
			for attempt := 0; attempt < 3; attempt++ {
				s, ok := runLeaseScenario(sc)
				if ok {
					stats["scenarios"]++
					for _, e := range s.events {
						b, _ := json.Marshal(e)
						w.Write(b)
						w.WriteByte('\n')
						stats["events"]++
					}
					break
				}
				stats["stalled_discarded"]++
			}
		}
	}
	var wg sync.WaitGroup
	sem := make(chan struct{}, 6) // few at a time: these runs are timing-sensitive
	for _, sc := range scs {
		wg.Add(1)
		sem <- struct{}{}
		go func(sc leaseScenario) {
			defer wg.Done()
			defer func() { <-sem }()
			for attempt := 0; attempt < 3; attempt++ {
				s, ok := runLeaseScenario(sc)
				wmu.Lock()
				if ok {
					stats["scenarios"]++
					for _, e := range s.events {
						b, _ := json.Marshal(e)
						w.Write(b)
						w.WriteByte('\n')
						stats["events"]++
					}
					wmu.Unlock()
					return
				}
				stats["stalled_discarded"]++
				wmu.Unlock()
			}
			wmu.Lock()
			stats["not_judged"]++
			wmu.Unlock()
		}(sc)
	}
	wg.Wait()
	sb, _ := json.Marshal(stats)
	_ = fmt.Sprint
	_ = errors.ErrClosed
	return os.WriteFile(opt.Out+".stats", sb, 0o644)
}
