package main

import (
	"bufio"
	"context"
	"encoding/json"
	stderrors "errors"
	"fmt"
	"math/rand"
	"os"
	"runtime"
	"strconv"
	"strings"
	"sync"
	"sync/atomic"
	"time"

	gctx "github.com/acquirecloud/golibs/context"
	"github.com/acquirecloud/golibs/container/iterable"
	"github.com/acquirecloud/golibs/errors"
	"github.com/acquirecloud/golibs/kvs"
	dist "github.com/acquirecloud/golibs/kvs/distlock"
	"github.com/acquirecloud/golibs/kvs/inmem"
	kvredis "github.com/acquirecloud/golibs/kvs/redis"
	"github.com/acquirecloud/golibs/logging"
	gsync "github.com/acquirecloud/golibs/sync"
	"github.com/alicebob/miniredis/v2"
	"github.com/go-redis/redis/v8"
)

// C01 / C04: real kvsLock objects over a gated kvs.Storage facade.
//
// The harness owns every point where the lock library calls out: each storage
// call of a caller parks at a gate until the schedule grants it (optionally
// with a fault).  A schedule is a sequence of commands (start a call, unlock,
// grant, cancel, shutdown, expire) - emitted by TLC from spec/lock/KvLock.tla
// or drawn from a seeded generator.  Whatever really happens is recorded as
// events, in the order they happened (under the system mutex), and TLC decides
// with spec/lock/LockTrace.tla whether the recorded history is allowed by the
// contract.  The verdict never depends on the schedule having been reproduced.

func init() {
	drivers["lock"] = driveLock
}

var errInjected = stderrors.New("injected storage fault")

// ------------------------------------------------------------------ goroutine ids

func goid() int64 {
	var buf [64]byte
	n := runtime.Stack(buf[:], false)
	// "goroutine 123 [running]:..."
	s := string(buf[:n])
	s = strings.TrimPrefix(s, "goroutine ")
	if i := strings.IndexByte(s, ' '); i > 0 {
		id, _ := strconv.ParseInt(s[:i], 10, 64)
		return id
	}
	return -1
}

// ------------------------------------------------------------------ the system

type lockGate struct {
	op      string
	release chan string // fault kind: "none", "reqlost", "replylost"
}

type lockProc struct {
	id       int
	locker   int
	inCall   bool
	kind     string
	holding  bool
	unlock   bool // Unlock in progress
	acquired bool // the storage Create of the current call succeeded
	cancel   context.CancelFunc
	gate     *lockGate
	inWait   bool // inside the backing store's WaitForVersionChange
	calls    int
}

type lockSys struct {
	mu         sync.Mutex
	backing    kvs.Storage
	mr         *miniredis.Miniredis
	key        string
	lockerOf   []int // proc (1-based) -> locker
	provOf     []int // locker (1-based) -> provider
	provs      []dist.LockProvider
	provDown   []bool
	lockers    []gsync.Locker
	bystanders []gsync.Locker // lockers of other names handed out by the same providers
	procs      []*lockProc
	byGo       sync.Map // goroutine id -> proc id
	events     []map[string]any
	seq        int
	faults     int
	auto       bool // gates pass through (quiescence probes, ungated stress)
	gateWrites bool // directed scenarios: writes the protocol model does not know park at a gate "Write"
	diverged   bool
	tick       chan struct{}
}

func (s *lockSys) ev(e map[string]any) {
	// caller holds s.mu
	s.events = append(s.events, e)
	s.seq++
	select {
	case s.tick <- struct{}{}:
	default:
	}
}

func (s *lockSys) curProc() *lockProc {
	if v, ok := s.byGo.Load(goid()); ok {
		return s.procs[v.(int)]
	}
	return nil
}

// ---- kvs.Storage facade --------------------------------------------------------

type lockFacade struct{ s *lockSys }

func (f *lockFacade) arrive(op string) string {
	s := f.s
	p := s.curProc()
	s.mu.Lock()
	if s.auto || p == nil {
		s.mu.Unlock()
		return "none"
	}
	g := &lockGate{op: op, release: make(chan string, 1)}
	p.gate = g
	s.ev(map[string]any{"e": "info", "what": "arrive", "p": p.id, "call": op})
	s.mu.Unlock()
	return <-g.release
}

func (f *lockFacade) Create(ctx context.Context, r kvs.Record) (string, error) {
	fault := f.arrive("Create")
	if fault == "reqlost" {
		return "", errInjected
	}
	// the store operation and the harness's knowledge of it change together (see cmdExpire)
	p := f.s.curProc()
	f.s.mu.Lock()
	ver, err := f.s.backing.Create(ctx, r)
	if p != nil && err == nil {
		p.acquired = fault == "none" || fault == "midcancel"
	}
	if fault == "midcancel" && p != nil && p.cancel != nil {
		// the caller's context ends while the request is in the store: past the store's own look at the context, before
		// the reply is back with the caller
		f.s.ev(map[string]any{"e": "cancel", "p": p.id, "acq": p.acquired})
		p.cancel()
	}
	f.s.mu.Unlock()
	if fault == "replylost" {
		return "", errInjected
	}
	return ver, err
}

func (f *lockFacade) Delete(ctx context.Context, key string) error {
	fault := f.arrive("Delete")
	if fault == "reqlost" {
		return errInjected
	}
	f.s.mu.Lock()
	err := f.s.backing.Delete(ctx, key)
	f.s.mu.Unlock()
	if fault == "replylost" {
		return errInjected
	}
	return err
}

func (f *lockFacade) WaitForVersionChange(ctx context.Context, key, ver string) error {
	fault := f.arrive("Wait")
	if fault != "none" {
		return errInjected
	}
	p := f.s.curProc()
	if p != nil {
		f.s.mu.Lock()
		p.inWait = true
		f.s.mu.Unlock()
	}
	err := f.s.backing.WaitForVersionChange(ctx, key, ver)
	if p != nil {
		f.s.mu.Lock()
		p.inWait = false
		f.s.ev(map[string]any{"e": "info", "what": "waitret", "p": p.id})
		f.s.mu.Unlock()
	}
	return err
}

// the renewal path and everything else passes through ungated - except in the directed scenarios that set
// gateWrites: there a write the protocol model does not know (Put / PutMany / CasByVersion issued by an acquiring or
// releasing call) parks at a gate of its own ("Write"), so that the scenario can let things happen before it lands
func (f *lockFacade) unexpectedWrite() {
	if f.s.gateWrites {
		f.arrive("Write")
	}
}
func (f *lockFacade) CasByVersion(ctx context.Context, r kvs.Record) (kvs.Record, error) {
	f.unexpectedWrite()
	return f.s.backing.CasByVersion(ctx, r)
}
func (f *lockFacade) Get(ctx context.Context, key string) (kvs.Record, error) {
	return f.s.backing.Get(ctx, key)
}
func (f *lockFacade) GetMany(ctx context.Context, keys ...string) ([]*kvs.Record, error) {
	return f.s.backing.GetMany(ctx, keys...)
}
func (f *lockFacade) Put(ctx context.Context, r kvs.Record) (kvs.Record, error) {
	f.unexpectedWrite()
	return f.s.backing.Put(ctx, r)
}
func (f *lockFacade) PutMany(ctx context.Context, rs []kvs.Record) error {
	f.unexpectedWrite()
	return f.s.backing.PutMany(ctx, rs)
}
func (f *lockFacade) ListKeys(ctx context.Context, pattern string) (iterable.Iterator[string], error) {
	return f.s.backing.ListKeys(ctx, pattern)
}

// ---- construction ----------------------------------------------------------------

func newLockSys(lockerOf, provOf []int, variant string, lease time.Duration) (*lockSys, error) {
	s := &lockSys{lockerOf: lockerOf, provOf: provOf, key: "/locks/L", tick: make(chan struct{}, 1)}
	if variant == "redis" {
		mr, err := miniredis.Run()
		if err != nil {
			return nil, err
		}
		s.mr = mr
		s.backing = kvredis.New(&redis.Options{Addr: mr.Addr()})
	} else {
		s.backing = inmem.New()
	}
	nprov := 0
	for _, pr := range provOf {
		if pr > nprov {
			nprov = pr
		}
	}
	fac := &lockFacade{s: s}
	for i := 0; i < nprov; i++ {
		p := dist.NewKvsLockProvider(fac, "/locks/")
		dist.VerifSetLeaseTTL(p, lease)
		s.provs = append(s.provs, p)
		s.provDown = append(s.provDown, false)
	}
	// a provider hands out lockers for OTHER names too (never used here, only held): before the ones for "L" by the
	// providers with an even number, afterwards by the others - lockers of one name share a lock whatever else their
	// providers were asked for, in whatever order
	for i, p := range s.provs {
		if i%2 == 1 {
			s.bystanders = append(s.bystanders, p.NewLocker("A"), p.NewLocker("L2"))
		}
	}
	for _, pr := range provOf {
		s.lockers = append(s.lockers, s.provs[pr-1].NewLocker("L"))
	}
	for i, p := range s.provs {
		if i%2 == 0 {
			s.bystanders = append(s.bystanders, p.NewLocker("B"), p.NewLocker("M"))
		}
	}
	s.procs = append(s.procs, nil) // 1-based
	for i, l := range lockerOf {
		s.procs = append(s.procs, &lockProc{id: i + 1, locker: l})
	}
	s.events = append(s.events, map[string]any{"e": "reset", "lockerOf": lockerOf, "provOf": provOf})
	return s, nil
}

func (s *lockSys) close() {
	if c, ok := s.backing.(interface{ Close() error }); ok {
		c.Close()
	}
	if s.mr != nil {
		s.mr.Close()
	}
}

// ---- commands ------------------------------------------------------------------------

var errLockCallerGone = stderrors.New("harness: the caller lost interest")

// lockCtxOfFlavor: the contexts callers hand to TryLock / LockWithCtx are not all of the standard library's making.
// 0: context.WithCancel; 1: the library's own WithCancelError below a LIVE cancellable parent, ended with nil (its Err is
// of the ErrClosed class); 2: the same, ended with an error of the caller's; 3: the library's WrapChannel around a channel
// that gets closed (ErrClosed class again).  Whatever the flavour: a context that is done means the attempt is given up,
// its error is what LockWithCtx returns, and nothing of the attempt stays behind.
func lockCtxOfFlavor(f int) (context.Context, context.CancelFunc) {
	switch f {
	case 1, 2:
		parent, pcancel := context.WithCancel(context.Background())
		c, cf := gctx.WithCancelError(parent)
		var once sync.Once
		return c, func() {
			once.Do(func() {
				if f == 1 {
					cf(nil)
				} else {
					cf(errLockCallerGone)
				}
				time.AfterFunc(5*time.Second, pcancel) // the parent lives on for a while (it must not matter)
			})
		}
	case 3:
		ch := make(chan struct{})
		var once sync.Once
		return gctx.WrapChannel(ch), func() { once.Do(func() { close(ch) }) }
	}
	return context.WithCancel(context.Background())
}

func classifyLockErr(err error) string {
	switch {
	case err == nil:
		return "ok"
	case stderrors.Is(err, context.Canceled) || stderrors.Is(err, context.DeadlineExceeded):
		return "ctxerr"
	case errors.Is(err, errors.ErrClosed):
		return "closed"
	case stderrors.Is(err, errInjected):
		return "err"
	}
	return "othererr"
}

func (s *lockSys) cmdStart(pid int, kind string) bool {
	s.mu.Lock()
	p := s.procs[pid]
	if p.inCall || p.holding || p.unlock {
		s.mu.Unlock()
		return false
	}
	p.calls++
	ctx, cancel := lockCtxOfFlavor((pid + p.calls) % 4)
	p.inCall, p.kind, p.cancel, p.acquired = true, kind, cancel, false
	late := s.provDown[s.provOf[p.locker-1]-1]
	s.ev(map[string]any{"e": "call", "p": pid, "kind": kind, "late": late})
	s.mu.Unlock()
	l := s.lockers[p.locker-1]
	go func() {
		s.byGo.Store(goid(), pid)
		defer s.byGo.Delete(goid())
		res := "ok"
		panicked, _ := callPanics(func() {
			switch kind {
			case "lock":
				l.Lock()
			case "try":
				if !l.TryLock(ctx) {
					res = "false"
				}
			default:
				err := l.LockWithCtx(ctx)
				if ce := ctx.Err(); err != nil && ce != nil && (err == ce || err.Error() == ce.Error()) {
					res = "ctxerr" // the context's own error, whatever class it is of
				} else {
					res = classifyLockErr(err)
				}
			}
		})
		if panicked {
			res = "panic"
		}
		s.mu.Lock()
		p.inCall = false
		p.holding = res == "ok"
		p.gate = nil
		s.ev(map[string]any{"e": "ret", "p": pid, "res": res}) // logged AFTER the call returned
		s.mu.Unlock()
	}()
	return true
}

func (s *lockSys) cmdUnlock(pid int) bool {
	s.mu.Lock()
	p := s.procs[pid]
	if !p.holding || p.unlock {
		s.mu.Unlock()
		return false
	}
	p.holding, p.unlock = false, true
	s.ev(map[string]any{"e": "unlock", "p": pid}) // logged BEFORE Unlock is invoked
	s.mu.Unlock()
	l := s.lockers[p.locker-1]
	go func() {
		s.byGo.Store(goid(), pid)
		defer s.byGo.Delete(goid())
		panicked, _ := callPanics(func() { l.Unlock() })
		s.mu.Lock()
		p.unlock = false
		p.gate = nil
		s.ev(map[string]any{"e": "unlocked", "p": pid, "panic": panicked})
		s.mu.Unlock()
	}()
	return true
}

func (s *lockSys) cmdGrant(pid int, call, fault string) bool {
	s.mu.Lock()
	p := s.procs[pid]
	g := p.gate
	if g == nil || (call != "" && g.op != call) {
		s.mu.Unlock()
		return false
	}
	p.gate = nil
	if fault == "midcancel" {
		// not a storage fault: the request is served, the caller's context ends while it is (see lockFacade.Create)
		s.ev(map[string]any{"e": "info", "what": "grant", "p": pid, "call": g.op})
	} else if fault != "none" {
		s.faults++
		s.ev(map[string]any{"e": "fault", "p": pid, "call": g.op, "kind": fault})
	} else {
		s.ev(map[string]any{"e": "info", "what": "grant", "p": pid, "call": g.op})
	}
	s.mu.Unlock()
	g.release <- fault
	return true
}

func (s *lockSys) cmdCancel(pid int) bool {
	s.mu.Lock()
	p := s.procs[pid]
	if !p.inCall || p.kind == "lock" {
		s.mu.Unlock()
		return false
	}
	s.ev(map[string]any{"e": "cancel", "p": pid, "acq": p.acquired})
	c := p.cancel
	s.mu.Unlock()
	c()
	return true
}

func (s *lockSys) cmdShutdown(pr int) bool {
	s.mu.Lock()
	if s.provDown[pr-1] {
		s.mu.Unlock()
		return false
	}
	s.provDown[pr-1] = true
	s.ev(map[string]any{"e": "shutdown", "prov": pr})
	s.mu.Unlock()
	s.provs[pr-1].Shutdown()
	return true
}

// cmdExpire lets the lease of a record nobody renews run out: the harness removes it from
// the backing store (the lease itself is long, so real time plays no role).  Only when no
// caller holds the lock and no release is on its way.
func (s *lockSys) cmdExpire() bool {
	s.mu.Lock()
	defer s.mu.Unlock()
	for _, p := range s.procs[1:] {
		if p.holding || p.unlock || p.acquired && p.inCall {
			return false
		}
	}
	if _, err := s.backing.Get(context.Background(), s.key); err != nil {
		return false
	}
	s.ev(map[string]any{"e": "expire", "faults": s.faults})
	s.backing.Delete(context.Background(), s.key)
	return true
}

// settle waits until the system has been quiet (no event) for `quiet`.
func (s *lockSys) settle(needEvent bool, quiet time.Duration) {
	s.mu.Lock()
	last := s.seq
	s.mu.Unlock()
	start := time.Now()
	if needEvent {
		for time.Since(start) < 2*time.Second {
			s.mu.Lock()
			cur := s.seq
			s.mu.Unlock()
			if cur != last {
				break
			}
			select {
			case <-s.tick:
			case <-time.After(200 * time.Microsecond):
			}
		}
	}
	qs := time.Now()
	for {
		select {
		case <-s.tick:
		case <-time.After(100 * time.Microsecond):
		}
		s.mu.Lock()
		cur := s.seq
		s.mu.Unlock()
		if cur != last {
			last = cur
			qs = time.Now()
			continue
		}
		if time.Since(qs) >= quiet {
			return
		}
	}
}

func (s *lockSys) exec(c Step, quiet time.Duration) bool {
	ok := false
	need := false
	switch c.Str("op") {
	case "start":
		// a blocking acquire produces an event at once unless the token of its locker is out
		need = true
		s.mu.Lock()
		for _, q := range s.procs[1:] {
			if q.id != c.Int("p") && q.locker == s.procs[c.Int("p")].locker && (q.inCall || q.holding || q.unlock) {
				need = c.Str("kind") == "try"
			}
		}
		s.mu.Unlock()
		ok = s.cmdStart(c.Int("p"), c.Str("kind"))
	case "unlock":
		ok = s.cmdUnlock(c.Int("p"))
		need = true
	case "grant":
		ok = s.cmdGrant(c.Int("p"), c.Str("call"), c.Str("fault"))
		need = c.Str("call") != "Wait"
	case "cancel":
		ok = s.cmdCancel(c.Int("p"))
	case "shutdown":
		ok = s.cmdShutdown(c.Int("prov"))
	case "expire":
		ok = s.cmdExpire()
	case "New":
		return true
	}
	if ok {
		s.settle(need, quiet)
	}
	return ok
}

// drain lets every call finish: holders unlock, pending storage calls are granted, a record
// nobody owns expires.  If callers stay blocked although the lock is free and nothing is
// pending, that is a lost wake-up: a `stuck` event is logged (the contract rejects it).
func (s *lockSys) drain(quiet time.Duration) {
	lastProgress := time.Now()
	for {
		s.mu.Lock()
		var acts []Step
		busy := false
		for _, p := range s.procs[1:] {
			if p.holding && !p.unlock {
				acts = append(acts, Step{"op": "unlock", "p": p.id})
			}
			if p.gate != nil {
				acts = append(acts, Step{"op": "grant", "p": p.id, "call": "", "fault": "none"})
			}
			if p.inCall || p.unlock || p.holding {
				busy = true
			}
		}
		seq := s.seq
		s.mu.Unlock()
		if !busy {
			return
		}
		if len(acts) > 0 {
			for _, a := range acts {
				s.exec(a, quiet)
			}
			lastProgress = time.Now()
			continue
		}
		// nothing to command: callers are blocked (token wait / storage wait) or still running
		s.settle(false, 2*quiet)
		s.mu.Lock()
		moved := s.seq != seq
		s.mu.Unlock()
		if moved {
			lastProgress = time.Now()
			continue
		}
		if s.cmdExpire() {
			s.settle(false, quiet)
			lastProgress = time.Now()
			continue
		}
		if time.Since(lastProgress) > 3*time.Second {
			s.mu.Lock()
			var ps []int
			for _, p := range s.procs[1:] {
				if p.inCall {
					ps = append(ps, p.id)
				}
			}
			s.ev(map[string]any{"e": "stuck", "ps": ps})
			// release whoever is stuck so the goroutines end: cancel contexts, shut down providers
			for _, p := range s.procs[1:] {
				if p.inCall && p.cancel != nil {
					p.cancel()
				}
			}
			s.mu.Unlock()
			for i := range s.provs {
				if !s.provDown[i] {
					s.provDown[i] = true
					s.provs[i].Shutdown()
				}
			}
			time.Sleep(20 * time.Millisecond)
			return
		}
		time.Sleep(time.Millisecond)
	}
}

// quiesce: every call returned, nobody holds.  The record must be gone and every locker of a
// live provider must be acquirable again (probed with TryLock/Unlock, gates passing through).
func (s *lockSys) quiesce() {
	s.mu.Lock()
	for _, e := range s.events {
		if e["e"] == "stuck" {
			s.mu.Unlock()
			return
		}
	}
	s.auto = true
	s.mu.Unlock()
	_, err := s.backing.Get(context.Background(), s.key)
	recPresent := err == nil
	if recPresent {
		s.backing.Delete(context.Background(), s.key) // so that the probes test the lockers, not the record
	}
	probes := make([]string, len(s.lockers))
	for i, l := range s.lockers {
		if s.provDown[s.provOf[i]-1] {
			probes[i] = "down"
			continue
		}
		ok := false
		panicked, _ := callPanics(func() {
			ok = l.TryLock(context.Background())
			if ok {
				l.Unlock()
			}
		})
		switch {
		case panicked:
			probes[i] = "panic"
		case ok:
			probes[i] = "ok"
		default:
			probes[i] = "fail"
		}
	}
	s.mu.Lock()
	s.ev(map[string]any{"e": "quiesce", "rec": recPresent, "probes": probes, "faults": s.faults})
	s.mu.Unlock()
}

func (s *lockSys) runSchedule(cmds Behaviour, quiet time.Duration) (reproduced bool) {
	reproduced = true
	for _, c := range cmds {
		if !s.exec(c, quiet) {
			reproduced = false
			s.mu.Lock()
			s.ev(map[string]any{"e": "info", "what": "diverged", "cmd": c})
			s.mu.Unlock()
			break
		}
	}
	s.drain(quiet)
	s.quiesce()
	return
}

// ---- random schedules -------------------------------------------------------------------

func randomTopology(rnd *rand.Rand) ([]int, []int) {
	np := 2 + rnd.Intn(3)
	nl := 1 + rnd.Intn(np)
	lockerOf := make([]int, np)
	for i := range lockerOf {
		if i < nl {
			lockerOf[i] = i + 1
		} else {
			lockerOf[i] = 1 + rnd.Intn(nl)
		}
	}
	nprov := 1 + rnd.Intn(nl)
	provOf := make([]int, nl)
	for i := range provOf {
		if i < nprov {
			provOf[i] = i + 1
		} else {
			provOf[i] = 1 + rnd.Intn(nprov)
		}
	}
	return lockerOf, provOf
}

// runRandom plays a seeded random schedule: at each step one applicable command.
func (s *lockSys) runRandom(rnd *rand.Rand, steps int, quiet time.Duration, maxFaults int, allowShutdown bool) {
	kinds := []string{"lock", "try", "ctx", "ctx"}
	faults := 0
	for i := 0; i < steps; i++ {
		s.mu.Lock()
		var cands []Step
		for _, p := range s.procs[1:] {
			switch {
			case p.gate != nil:
				cands = append(cands, Step{"op": "grant", "p": p.id, "call": p.gate.op, "fault": "none"},
					Step{"op": "grant", "p": p.id, "call": p.gate.op, "fault": "none"})
				if faults < maxFaults && rnd.Intn(4) == 0 {
					f := "reqlost"
					if rnd.Intn(2) == 0 {
						f = "replylost"
					}
					cands = append(cands, Step{"op": "grant", "p": p.id, "call": p.gate.op, "fault": f})
				}
			case p.holding && !p.unlock:
				cands = append(cands, Step{"op": "unlock", "p": p.id}, Step{"op": "unlock", "p": p.id})
			case !p.inCall && !p.unlock && p.calls < 4:
				cands = append(cands, Step{"op": "start", "p": p.id, "kind": kinds[rnd.Intn(len(kinds))]})
			}
			if p.inCall && p.kind == "ctx" && rnd.Intn(3) == 0 {
				cands = append(cands, Step{"op": "cancel", "p": p.id})
			}
		}
		if allowShutdown && rnd.Intn(25) == 0 {
			cands = append(cands, Step{"op": "shutdown", "prov": 1 + rnd.Intn(len(s.provs))})
		}
		if rnd.Intn(10) == 0 {
			cands = append(cands, Step{"op": "expire"})
		}
		s.mu.Unlock()
		if len(cands) == 0 {
			break
		}
		c := cands[rnd.Intn(len(cands))]
		if c.Str("op") == "grant" && c.Str("fault") != "none" {
			faults++
		}
		s.exec(c, quiet)
	}
	s.drain(quiet)
	s.quiesce()
}

// ---- ungated stress ------------------------------------------------------------------------

func (s *lockSys) runStress(rnd *rand.Rand, rounds int) {
	s.auto = true
	var wg sync.WaitGroup
	for pid := 1; pid < len(s.procs); pid++ {
		wg.Add(1)
		seed := rnd.Int63()
		go func(pid int) {
			defer wg.Done()
			r := rand.New(rand.NewSource(seed))
			p := s.procs[pid]
			l := s.lockers[p.locker-1]
			for i := 0; i < rounds; i++ {
				kind := []string{"lock", "try", "ctx"}[r.Intn(3)]
				ctx, cancel := context.WithCancel(context.Background())
				if kind == "ctx" && r.Intn(3) == 0 {
					d := time.Duration(r.Intn(300)) * time.Microsecond
					ctx, cancel = context.WithTimeout(context.Background(), d)
				}
				dead := kind == "try" && r.Intn(3) == 0 // TryLock with a context that is already done
				if dead {
					cancel()
				}
				s.mu.Lock()
				s.ev(map[string]any{"e": "call", "p": pid, "kind": kind, "late": false})
				if dead {
					s.ev(map[string]any{"e": "cancel", "p": pid, "acq": false})
				}
				s.mu.Unlock()
				res := "ok"
				panicked, _ := callPanics(func() {
					switch kind {
					case "lock":
						l.Lock()
					case "try":
						if !l.TryLock(ctx) {
							res = "false"
						}
					default:
						res = classifyLockErr(l.LockWithCtx(ctx))
					}
				})
				if panicked {
					res = "panic"
				}
				s.mu.Lock()
				if res == "ctxerr" { // the deadline is the cancellation
					s.ev(map[string]any{"e": "cancel", "p": pid, "acq": true})
				}
				s.ev(map[string]any{"e": "ret", "p": pid, "res": res})
				s.mu.Unlock()
				if res == "ok" {
					if r.Intn(2) == 0 {
						runtime.Gosched()
					}
					s.mu.Lock()
					s.ev(map[string]any{"e": "unlock", "p": pid})
					s.mu.Unlock()
					up, _ := callPanics(func() { l.Unlock() })
					s.mu.Lock()
					s.ev(map[string]any{"e": "unlocked", "p": pid, "panic": up})
					s.mu.Unlock()
				}
				cancel()
			}
		}(pid)
	}
	// ungated callers cannot be drained by the harness: if the whole system makes no progress for
	// several seconds while callers are still inside their calls, that is a lost wake-up / residue
	done := make(chan struct{})
	go func() { wg.Wait(); close(done) }()
	lastSeq, lastMove := -1, time.Now()
	for {
		select {
		case <-done:
			s.quiesce()
			return
		case <-time.After(50 * time.Millisecond):
		}
		s.mu.Lock()
		cur := s.seq
		s.mu.Unlock()
		if cur != lastSeq {
			lastSeq, lastMove = cur, time.Now()
			continue
		}
		if time.Since(lastMove) > 5*time.Second {
			s.mu.Lock()
			s.ev(map[string]any{"e": "stuck", "ps": []int{}})
			s.mu.Unlock()
			return // the blocked goroutines are abandoned; the process ends after the run
		}
	}
}

// runRawStress: every caller spins on TryLock / Unlock of its own locker; only successful acquisitions are logged
// (call + ret after the call returned, unlock before Unlock is invoked: a logged overlap is a real one).
func (s *lockSys) runRawStress(rnd *rand.Rand, acqs int) {
	s.auto = true
	var wg sync.WaitGroup
	var total int64
	for pid := 1; pid < len(s.procs); pid++ {
		wg.Add(1)
		seed := rnd.Int63()
		go func(pid int) {
			defer wg.Done()
			r := rand.New(rand.NewSource(seed))
			l := s.lockers[s.procs[pid].locker-1]
			deadline := time.Now().Add(20 * time.Second)
			for atomic.LoadInt64(&total) < int64(acqs) && time.Now().Before(deadline) {
				ok := false
				if p, _ := callPanics(func() { ok = l.TryLock(context.Background()) }); p || !ok {
					continue
				}
				atomic.AddInt64(&total, 1)
				s.mu.Lock()
				s.ev(map[string]any{"e": "call", "p": pid, "kind": "try", "late": false})
				s.ev(map[string]any{"e": "ret", "p": pid, "res": "ok"})
				s.mu.Unlock()
				for k := r.Intn(3); k > 0; k-- {
					runtime.Gosched()
				}
				s.mu.Lock()
				s.ev(map[string]any{"e": "unlock", "p": pid})
				s.mu.Unlock()
				up, _ := callPanics(func() { l.Unlock() })
				s.mu.Lock()
				s.ev(map[string]any{"e": "unlocked", "p": pid, "panic": up})
				s.mu.Unlock()
			}
		}(pid)
	}
	wg.Wait()
	s.quiesce()
}

// runDeadTry: p1 holds; p2 calls TryLock with a context that is already done (and Lock variants with a context that
// ends at once); p3 then tries: nobody may acquire while p1 holds, whatever the failed attempts did on their way out.
func (s *lockSys) runDeadTry() {
	s.auto = true
	call := func(pid int, kind string, dead bool) string {
		l := s.lockers[s.procs[pid].locker-1]
		ctx, cancel := context.WithCancel(context.Background())
		defer cancel()
		if dead {
			cancel()
		}
		s.mu.Lock()
		s.ev(map[string]any{"e": "call", "p": pid, "kind": kind, "late": false})
		if dead {
			s.ev(map[string]any{"e": "cancel", "p": pid, "acq": false})
		}
		s.mu.Unlock()
		res := "ok"
		if p, _ := callPanics(func() {
			if kind == "try" {
				if !l.TryLock(ctx) {
					res = "false"
				}
			} else {
				res = classifyLockErr(l.LockWithCtx(ctx))
			}
		}); p {
			res = "panic"
		}
		s.mu.Lock()
		s.ev(map[string]any{"e": "ret", "p": pid, "res": res})
		s.mu.Unlock()
		return res
	}
	unlock := func(pid int) {
		l := s.lockers[s.procs[pid].locker-1]
		s.mu.Lock()
		s.ev(map[string]any{"e": "unlock", "p": pid})
		s.mu.Unlock()
		up, _ := callPanics(func() { l.Unlock() })
		s.mu.Lock()
		s.ev(map[string]any{"e": "unlocked", "p": pid, "panic": up})
		s.mu.Unlock()
	}
	if call(1, "try", false) != "ok" {
		return
	}
	for round := 0; round < 3; round++ {
		call(2, "try", true)
		if call(3, "try", false) == "ok" {
			unlock(3)
		}
		call(2, "ctx", true)
		if call(3, "try", false) == "ok" {
			unlock(3)
		}
	}
	unlock(1)
	if call(2, "try", false) == "ok" {
		unlock(2)
	}
	s.quiesce()
}

// runOrphan: p1 acquires and unlocks, the REQUEST of its Delete is lost: its record stays behind (nobody renews it).
// p1 locks again through the same Locker and finds its own old record.  Whatever it does about that: if it issues a
// write the protocol does not know (a take-over), the write is held back while the orphan's lease runs out and p2
// acquires; then the write lands; then p3 tries.  Nobody may acquire while p2 holds.
func (s *lockSys) runOrphan(quiet time.Duration) {
	s.gateWrites = true
	s.mu.Lock()
	s.ev(map[string]any{"e": "info", "what": "scenario", "name": "orphan"})
	s.mu.Unlock()
	s.exec(Step{"op": "start", "p": 1, "kind": "try"}, quiet)
	s.exec(Step{"op": "grant", "p": 1, "call": "Create", "fault": "none"}, quiet)
	s.exec(Step{"op": "unlock", "p": 1}, quiet)
	s.exec(Step{"op": "grant", "p": 1, "call": "Delete", "fault": "reqlost"}, quiet)
	s.exec(Step{"op": "start", "p": 1, "kind": "ctx"}, quiet)
	s.exec(Step{"op": "grant", "p": 1, "call": "Create", "fault": "none"}, quiet) // ErrExist: its own orphan
	parked := func() string {
		s.mu.Lock()
		defer s.mu.Unlock()
		if g := s.procs[1].gate; g != nil {
			return g.op
		}
		return ""
	}
	at := parked()
	s.exec(Step{"op": "expire"}, quiet) // the orphan's lease runs out
	s.exec(Step{"op": "start", "p": 2, "kind": "try"}, quiet)
	s.exec(Step{"op": "grant", "p": 2, "call": "Create", "fault": "none"}, quiet) // p2 holds
	if at == "Write" {
		s.mu.Lock()
		g := s.procs[1].gate
		s.procs[1].gate = nil
		s.mu.Unlock()
		if g != nil {
			g.release <- "none"
		}
		s.settle(true, quiet)
	}
	s.exec(Step{"op": "start", "p": 3, "kind": "try"}, quiet)
	s.exec(Step{"op": "grant", "p": 3, "call": "Create", "fault": "none"}, quiet)
	s.drain(quiet)
	s.quiesce()
}

// ---- the C01 known finding: a release that reaches the store after the lease ran out --------

// runLateDelete: p1 acquires and unlocks, its Delete is held at the gate while the lease of its
// record runs out; p2 creates the record and holds; p1's unconditional Delete removes p2's record;
// p3 then acquires while p2 holds.
func (s *lockSys) runLateDelete(quiet time.Duration) {
	s.mu.Lock()
	s.ev(map[string]any{"e": "info", "what": "scenario", "name": "late-delete"})
	s.mu.Unlock()
	s.exec(Step{"op": "start", "p": 1, "kind": "try"}, quiet)
	s.exec(Step{"op": "grant", "p": 1, "call": "Create", "fault": "none"}, quiet)
	s.exec(Step{"op": "unlock", "p": 1}, quiet) // parks at the Delete gate
	// the lease of p1's record runs out while the Delete is in flight
	s.mu.Lock()
	s.ev(map[string]any{"e": "lateexpire"})
	s.mu.Unlock()
	s.backing.Delete(context.Background(), s.key)
	s.exec(Step{"op": "start", "p": 2, "kind": "try"}, quiet)
	s.exec(Step{"op": "grant", "p": 2, "call": "Create", "fault": "none"}, quiet) // p2 holds
	s.exec(Step{"op": "grant", "p": 1, "call": "Delete", "fault": "none"}, quiet) // removes p2's record
	s.exec(Step{"op": "start", "p": 3, "kind": "try"}, quiet)
	s.exec(Step{"op": "grant", "p": 3, "call": "Create", "fault": "none"}, quiet) // p3 holds too?
	s.drain(quiet)
	s.quiesce()
}

// ---- driver -----------------------------------------------------------------------------------

func driveLock(opt *Options) error {
	logging.SetLevel(logging.Level(-1))
	mode := opt.Extra["mode"]
	quiet := time.Millisecond
	if q, ok := opt.Extra["quiet_us"]; ok {
		var us int
		fmt.Sscan(q, &us)
		quiet = time.Duration(us) * time.Microsecond
	}
	lease := time.Hour
	out, err := os.Create(opt.Out)
	if err != nil {
		return err
	}
	defer out.Close()
	w := bufio.NewWriterSize(out, 1<<20)
	defer w.Flush()
	var wmu sync.Mutex
	stats := map[string]int{}
	var stuckRuns int32
	// once a few schedules have ended with stuck callers the verdict is established; the remaining
	// schedules are skipped instead of each waiting for its own stuck timeout
	giveUp := func() bool { return atomic.LoadInt32(&stuckRuns) >= 3 }
	flush := func(s *lockSys, reproduced bool) {
		wmu.Lock()
		defer wmu.Unlock()
		for _, e := range s.events {
			if e["e"] == "stuck" {
				atomic.AddInt32(&stuckRuns, 1)
				break
			}
		}
		stats["schedules"]++
		if reproduced {
			stats["reproduced"]++
		}
		full := opt.Extra["full"] == "1"
		for _, e := range s.events {
			if e["e"] == "info" && !full {
				if e["what"] == "diverged" {
					stats["diverged"]++
				}
				continue
			}
			b, _ := json.Marshal(e)
			w.Write(b)
			w.WriteByte('\n')
			stats["events"]++
		}
	}
	workers := opt.Workers
	if workers < 1 {
		workers = 1
	}
	switch mode {
	case "schedules":
		bs, _, err := readBehaviours(opt.In)
		if err != nil {
			return err
		}
		ch := make(chan Behaviour, 64)
		var wg sync.WaitGroup
		for i := 0; i < workers; i++ {
			wg.Add(1)
			go func() {
				defer wg.Done()
				for b := range ch {
					if giveUp() {
						continue
					}
					lockerOf, provOf := b[0].Ints("lockerOf"), b[0].Ints("provOf")
					s, err := newLockSys(lockerOf, provOf, opt.Variant, lease)
					if err != nil {
						continue
					}
					rep := s.runSchedule(b[1:], quiet)
					flush(s, rep)
					s.close()
				}
			}()
		}
		for _, b := range bs {
			if len(b) > 0 && b[0].Has("lockerOf") {
				ch <- b
			}
		}
		close(ch)
		wg.Wait()
	case "random":
		var wg sync.WaitGroup
		sem := make(chan struct{}, workers)
		for i := 0; i < opt.N; i++ {
			wg.Add(1)
			sem <- struct{}{}
			go func(i int) {
				defer wg.Done()
				defer func() { <-sem }()
				if giveUp() {
					return
				}
				rnd := rand.New(rand.NewSource(opt.Seed*1000003 + int64(i)))
				lockerOf, provOf := randomTopology(rnd)
				s, err := newLockSys(lockerOf, provOf, opt.Variant, lease)
				if err != nil {
					return
				}
				s.runRandom(rnd, 20+rnd.Intn(40), quiet, 2, rnd.Intn(3) == 0)
				flush(s, true)
				s.close()
			}(i)
		}
		wg.Wait()
	case "stress":
		for i := 0; i < opt.N; i++ {
			rnd := rand.New(rand.NewSource(opt.Seed*7919 + int64(i)))
			lockerOf, provOf := randomTopology(rnd)
			for len(lockerOf) < 4 {
				lockerOf = append(lockerOf, 1+rnd.Intn(len(provOf)))
			}
			s, err := newLockSys(lockerOf, provOf, opt.Variant, lease)
			if err != nil {
				return err
			}
			rounds := 40
			if opt.Variant == "redis" {
				rounds = 12
			}
			if giveUp() {
				break
			}
			s.runStress(rnd, rounds)
			flush(s, true)
			if !giveUp() {
				s.close()
			}
		}
	case "rawstress":
		// callers on providers that sit DIRECTLY on the store (no facade, nothing serialises the storage calls): what
		// mutual exclusion owes to the atomicity of the storage operations themselves is exercised with real parallelism
		for i := 0; i < opt.N && !giveUp(); i++ {
			rnd := rand.New(rand.NewSource(opt.Seed*104729 + int64(i)))
			np := 2 + rnd.Intn(5)
			var lockerOf, provOf []int
			for k := 1; k <= np; k++ {
				lockerOf, provOf = append(lockerOf, k), append(provOf, k)
			}
			s, err := newLockSys(lockerOf, provOf, opt.Variant, lease)
			if err != nil {
				return err
			}
			for k := range s.provs {
				pr := dist.NewKvsLockProvider(s.backing, "/locks/")
				dist.VerifSetLeaseTTL(pr, lease)
				s.provs[k] = pr
				s.lockers[k] = pr.NewLocker("L")
			}
			s.runRawStress(rnd, 2500)
			flush(s, true)
			s.close()
		}
	case "orphan":
		s, err := newLockSys([]int{1, 2, 3}, []int{1, 2, 3}, opt.Variant, lease)
		if err != nil {
			return err
		}
		s.runOrphan(quiet)
		flush(s, true)
		s.close()
		for _, topo := range [][]int{{1, 2, 3}, {1, 1, 2}} { // three providers; p1 and p2 on lockers of ONE provider
			s, err := newLockSys([]int{1, 2, 3}, topo, opt.Variant, lease)
			if err != nil {
				return err
			}
			s.runDeadTry()
			flush(s, true)
			s.close()
		}
	case "latedelete":
		s, err := newLockSys([]int{1, 2, 3}, []int{1, 2, 3}, opt.Variant, lease)
		if err != nil {
			return err
		}
		s.runLateDelete(quiet)
		flush(s, true)
		s.close()
	default:
		return fmt.Errorf("unknown mode %q", mode)
	}
	sb, _ := json.Marshal(stats)
	return os.WriteFile(opt.Out+".stats", sb, 0o644)
}
