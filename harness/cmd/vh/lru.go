package main

import (
	"errors"
	"fmt"
	"math"
	"math/rand"
	"sort"
	"strconv"
	"strings"
	"sync/atomic"
	"time"

	"github.com/acquirecloud/golibs/container/lru"
)

// C08: container/lru (Cache, ECache, ExpirableCache) against spec/lru/LRU.tla.
//
// Abstract values of the specification and what they are on the real side:
//   primary key pk (integer)  ->  the string "k<pk>" for pk > 0 and "K<-pk>" for pk < 0
//   inner key |pk|            ->  ECache is built with strings.ToLower as key mapping, so "K3" and
//                                 "k3" share the inner key "k3"; Cache / ExpirableCache only get pk > 0
//   value id vid              ->  the int the harness' create callback returns: 1, 2, 3, ... one per
//                                 successful creation (ExpirableCache: lru.ExpirableItem[int]{vid, ExpiresAt})
//   outcome "ok"/"stale"/"fail" of a create invocation -> a fresh item (ExpiresAt one hour ahead),
//                                 an item whose ExpiresAt is one hour in the past, the error errLruCreate
// The create and delete callbacks record their arguments; a reply is (result, error, create
// invocations, delete invocations) of one call and is compared with the reply LRU.tla prescribes.

func init() {
	replayers["lru"] = replayLRU
	drivers["lru"] = driveLRU
}

var errLruCreate = errors.New("harness: creation fails as the behaviour says")

type pkVid struct{ pk, vid int }

// lruRec is the recording side of the callbacks.
type lruRec struct {
	outs     []string // what the create invocations of the current call do, in order
	ncreate  int      // create invocations in the current call
	created  []int
	deleted  []pkVid
	nextVid  int
	staleVid map[int]bool
	nilVid   map[int]int                    // "ptr" variant: the value id of the nil value created last for a key
	items    map[int]lru.ExpirableItem[int] // expirable: the item made for each vid
	now      time.Time
}

func lruKeyStr(pk int) string {
	if pk < 0 {
		return "K" + strconv.Itoa(-pk)
	}
	return "k" + strconv.Itoa(pk)
}

func lruKeyInt(s string) int {
	if len(s) < 2 {
		return 0
	}
	n, err := strconv.Atoi(s[1:])
	if err != nil {
		return 0
	}
	if s[0] == 'K' {
		return -n
	}
	if s[0] == 'k' {
		return n
	}
	return 0
}

// outcome of the next create invocation; more invocations than the behaviour provides
// outcomes for are recorded (created list gets longer than prescribed) and succeed.
func (r *lruRec) nextOut() string {
	o := "ok"
	if r.ncreate < len(r.outs) {
		o = r.outs[r.ncreate]
	}
	r.ncreate++
	return o
}

func (r *lruRec) begin(outs []string) {
	r.outs, r.ncreate, r.created, r.deleted = outs, 0, nil, nil
}

type lruObj interface {
	GetOrCreate(pk int) (int, error)
	Remove(pk int) bool
	Clear() int
}

// ---- lru.Cache[string, int] ------------------------------------------------
type lruCacheObj struct{ c *lru.Cache[string, int] }

func (o lruCacheObj) GetOrCreate(pk int) (int, error) { return o.c.GetOrCreate(lruKeyStr(pk)) }
func (o lruCacheObj) Remove(pk int) bool              { return o.c.Remove(lruKeyStr(pk)) }
func (o lruCacheObj) Clear() int                      { return o.c.Clear() }

// ---- lru.Cache[string, lruVal]: values are of an INTERFACE type; one creation in three succeeds with the nil
// interface, one with a nil pointer inside the interface, one with a real value (nil is a value like any other: it is
// resident, found again, evicted and reported to the delete callback)
type lruVal interface{ Vid() int }
type lruBox struct{ vid int }

func (b *lruBox) Vid() int { return b.vid }

type lruPtrObj struct {
	c *lru.Cache[string, lruVal]
	r *lruRec
}

func (o lruPtrObj) vid(pk int, b lruVal) int {
	if p, _ := b.(*lruBox); p != nil {
		return p.vid
	}
	return o.r.nilVid[pk]
}
func (o lruPtrObj) GetOrCreate(pk int) (int, error) {
	b, err := o.c.GetOrCreate(lruKeyStr(pk))
	if err != nil {
		return 0, err
	}
	return o.vid(pk, b), nil
}
func (o lruPtrObj) Remove(pk int) bool { return o.c.Remove(lruKeyStr(pk)) }
func (o lruPtrObj) Clear() int         { return o.c.Clear() }

// ---- lru.ECache[string, string, int] with strings.ToLower ------------------
type lruECacheObj struct {
	c *lru.ECache[string, string, int]
}

func (o lruECacheObj) GetOrCreate(pk int) (int, error) { return o.c.GetOrCreate(lruKeyStr(pk)) }
func (o lruECacheObj) Remove(pk int) bool              { return o.c.Remove(lruKeyStr(pk)) }
func (o lruECacheObj) Clear() int                      { return o.c.Clear() }

// ---- lru.ExpirableCache[string, lru.ExpirableItem[int]] --------------------
type lruExpObj struct {
	c *lru.ExpirableCache[string, lru.ExpirableItem[int]]
	r *lruRec
}

func (o lruExpObj) GetOrCreate(pk int) (int, error) {
	it, err := o.c.GetOrCreate(lruKeyStr(pk))
	if err != nil {
		return 0, err
	}
	return o.r.vidOfItem(it), nil
}
func (o lruExpObj) Remove(pk int) bool { return o.c.Remove(lruKeyStr(pk)) }
func (o lruExpObj) Clear() int         { return o.c.Clear() }

// vidOfItem maps an item handed back by the cache to its value id; an item that is not
// (any more) the one the create callback made for that id gets an impossible id.
func (r *lruRec) vidOfItem(it lru.ExpirableItem[int]) int {
	if made, ok := r.items[it.Value]; ok && made == it {
		return it.Value
	}
	return -1000000 - it.Value
}

// newLruObj builds a fresh real cache of the given variant.
func newLruObj(variant string, capacity int, nilCreate, nilDelete bool) (lruObj, *lruRec, error) {
	r := &lruRec{nextVid: 1, staleVid: map[int]bool{}, items: map[int]lru.ExpirableItem[int]{}, now: time.Now()}
	createInt := func(k string) (int, error) {
		r.created = append(r.created, lruKeyInt(k))
		if r.nextOut() == "fail" {
			return 0, errLruCreate
		}
		v := r.nextVid
		r.nextVid++
		return v, nil
	}
	deleteInt := func(k string, v int) { r.deleted = append(r.deleted, pkVid{lruKeyInt(k), v}) }
	switch variant {
	case "ptr":
		o := lruPtrObj{r: r}
		r.nilVid = map[int]int{}
		cf := lru.CreatePoolElemF[string, lruVal](func(k string) (lruVal, error) {
			v, err := createInt(k)
			if err != nil {
				return nil, err
			}
			switch v % 3 {
			case 0:
				r.nilVid[lruKeyInt(k)] = v
				return nil, nil
			case 1:
				r.nilVid[lruKeyInt(k)] = v
				return (*lruBox)(nil), nil
			}
			return &lruBox{v}, nil
		})
		df := lru.OnDeleteElemF[string, lruVal](func(k string, b lruVal) { deleteInt(k, o.vid(lruKeyInt(k), b)) })
		if nilCreate {
			cf = nil
		}
		if nilDelete {
			df = nil
		}
		c, err := lru.NewCache[string, lruVal](capacity, cf, df)
		if err != nil {
			return nil, r, err
		}
		o.c = c
		return o, r, nil
	case "cache":
		cf, df := lru.CreatePoolElemF[string, int](createInt), lru.OnDeleteElemF[string, int](deleteInt)
		if nilCreate {
			cf = nil
		}
		if nilDelete {
			df = nil
		}
		c, err := lru.NewCache[string, int](capacity, cf, df)
		if err != nil {
			return nil, r, err
		}
		return lruCacheObj{c}, r, nil
	case "ecache":
		cf, df := lru.CreatePoolElemF[string, int](createInt), lru.OnDeleteElemF[string, int](deleteInt)
		if nilCreate {
			cf = nil
		}
		if nilDelete {
			df = nil
		}
		c, err := lru.NewECache[string, string, int](capacity, strings.ToLower, cf, df)
		if err != nil {
			return nil, r, err
		}
		return lruECacheObj{c}, r, nil
	case "expirable":
		cf := lru.CreatePoolElemF[string, lru.ExpirableItem[int]](func(k string) (lru.ExpirableItem[int], error) {
			r.created = append(r.created, lruKeyInt(k))
			out := r.nextOut()
			if out == "fail" {
				return lru.ExpirableItem[int]{}, errLruCreate
			}
			v := r.nextVid
			r.nextVid++
			exp := r.now.Add(time.Hour)
			if v%2 == 0 {
				// "never expires" as users write it: a date far beyond what a 64-bit nanosecond count can hold
				exp = time.Date(9999, 12, 31, 23, 59, 59, 0, time.UTC)
			}
			if out == "stale" {
				exp = r.now.Add(-time.Hour)
				r.staleVid[v] = true
			}
			it := lru.NewCacheItem(v, exp)
			r.items[v] = it
			return it, nil
		})
		df := lru.OnDeleteElemF[string, lru.ExpirableItem[int]](func(k string, it lru.ExpirableItem[int]) {
			r.deleted = append(r.deleted, pkVid{lruKeyInt(k), r.vidOfItem(it)})
		})
		if nilCreate {
			cf = nil
		}
		if nilDelete {
			df = nil
		}
		c, err := lru.NewExpirableCache[string, lru.ExpirableItem[int]](capacity, cf, df)
		if err != nil {
			return nil, r, err
		}
		return lruExpObj{c, r}, r, nil
	}
	return nil, r, fmt.Errorf("harness: unknown lru variant %q", variant)
}

func lruStrs(s Step, k string) []string {
	arr, _ := s[k].([]any)
	res := make([]string, 0, len(arr))
	for _, a := range arr {
		if x, ok := a.(string); ok {
			res = append(res, x)
		}
	}
	return res
}

func lruPairs(v any) []pkVid {
	arr, _ := v.([]any)
	res := make([]pkVid, 0, len(arr))
	for _, a := range arr {
		m, _ := a.(map[string]any)
		p, _ := m["pk"].(float64)
		q, _ := m["vid"].(float64)
		res = append(res, pkVid{int(p), int(q)})
	}
	return res
}

func lruOuts(s Step) []string {
	if s.Has("outs") {
		return lruStrs(s, "outs")
	}
	if s.Bool("fails") {
		return []string{"fail"}
	}
	return []string{"ok"}
}

// lruReply is one real reply in the shape of the specification.
type lruReply struct {
	Op      string  `json:"op"`
	Pk      int     `json:"pk"`
	Err     string  `json:"err,omitempty"`
	Vid     int     `json:"vid"`
	Found   bool    `json:"found"`
	N       int     `json:"n"`
	Created []int   `json:"created"`
	Deleted []pkVid `json:"-"`
	Crash   string  `json:"crash,omitempty"`
}

func (g *lruReply) toMap(inputs Step) map[string]any {
	m := map[string]any{"op": g.Op}
	if g.Crash != "" {
		m["crash"] = g.Crash
		return m
	}
	del := make([]map[string]int, 0, len(g.Deleted))
	for _, d := range g.Deleted {
		del = append(del, map[string]int{"pk": d.pk, "vid": d.vid})
	}
	m["deleted"] = del
	switch g.Op {
	case "GetOrCreate":
		m["pk"], m["err"], m["vid"] = g.Pk, g.Err, g.Vid
		cr := g.Created
		if cr == nil {
			cr = []int{}
		}
		m["created"] = cr
		if inputs.Has("outs") {
			m["outs"] = inputs["outs"]
		} else {
			m["fails"] = inputs.Bool("fails")
		}
	case "Remove":
		m["pk"], m["found"] = g.Pk, g.Found
	case "Clear":
		m["n"] = g.N
	}
	return m
}

// lruWatchdog: a sequential call on an in-memory cache with callbacks that return at once
// takes microseconds; one that has not returned after this long never will.  When the timer
// fires the call gets a second, short chance (a machine that was suspended fires the timer
// at once on resume, before the calling goroutine could run).
const lruWatchdog = 10 * time.Second
const lruWatchdogGrace = 3 * time.Second

var lruHung atomic.Int32

// lruCall performs one call on the real object.
func lruCall(o lruObj, r *lruRec, s Step) *lruReply {
	g := &lruReply{Op: s.Str("op"), Pk: s.Int("pk")}
	done := make(chan struct{})
	go func() {
		defer close(done)
		p, pv := callPanics(func() {
			switch g.Op {
			case "GetOrCreate":
				r.begin(lruOuts(s))
				v, err := o.GetOrCreate(g.Pk)
				switch {
				case err == nil:
					g.Err, g.Vid = "nil", v
				case errors.Is(err, errLruCreate):
					g.Err = "fail"
				default:
					g.Err = "other:" + err.Error()
				}
			case "Remove":
				r.begin(nil)
				g.Found = o.Remove(g.Pk)
			case "Clear":
				r.begin(nil)
				g.N = o.Clear()
			default:
				panic("harness: unknown op " + g.Op)
			}
		})
		if p {
			g.Crash = "panic: " + firstLine(fmt.Sprint(pv))
		}
	}()
	select {
	case <-done:
	case <-time.After(lruWatchdog):
		select {
		case <-done:
		case <-time.After(lruWatchdogGrace):
			lruHung.Add(1)
			return &lruReply{Op: g.Op, Pk: g.Pk, Crash: "no return"}
		}
	}
	g.Created, g.Deleted = r.created, r.deleted
	return g
}

func samePairs(a, b []pkVid, ordered bool) bool {
	if len(a) != len(b) {
		return false
	}
	if !ordered {
		a, b = append([]pkVid(nil), a...), append([]pkVid(nil), b...)
		less := func(s []pkVid) func(i, j int) bool {
			return func(i, j int) bool {
				if s[i].vid != s[j].vid {
					return s[i].vid < s[j].vid
				}
				return s[i].pk < s[j].pk
			}
		}
		sort.Slice(a, less(a))
		sort.Slice(b, less(b))
	}
	for i := range a {
		if a[i] != b[i] {
			return false
		}
	}
	return true
}

func sameInts(a, b []int) bool {
	if len(a) != len(b) {
		return false
	}
	for i := range a {
		if a[i] != b[i] {
			return false
		}
	}
	return true
}

// lruDiff names the first field of the reply that differs from the contract's, "" if none.
// With a nil delete callback there is nothing to observe about deletions.
func lruDiff(g *lruReply, want Step, nilDelete bool) string {
	if g.Crash != "" {
		if g.Crash == "no return" {
			return "did not return"
		}
		return "panicked"
	}
	switch g.Op {
	case "GetOrCreate":
		if g.Err != want.Str("err") {
			return "returned error differs from contract"
		}
		if !sameInts(g.Created, want.Ints("created")) {
			return "create-callback invocations differ from contract"
		}
		if g.Err == "nil" && g.Vid != want.Int("vid") {
			return "returned value differs from contract"
		}
	case "Remove":
		if g.Found != want.Bool("found") {
			return "result differs from contract"
		}
	case "Clear":
		if g.N != want.Int("n") {
			return "returned count differs from contract"
		}
	}
	// the order in which Clear hands the entries to the callback is not part of the property
	if !nilDelete && !samePairs(g.Deleted, lruPairs(want["deleted"]), g.Op != "Clear") {
		return "delete-callback invocations differ from contract"
	}
	return ""
}

const lruProbeKey = 100000

// replayLRU runs one behaviour of LRUImpl.tla / LRU.tla on a fresh real cache.
//
//	-variant cache|ecache|expirable     -x ondelete=nil  (nil delete callback)
func replayLRU(b Behaviour, opt *Options) *Failure {
	variant := opt.Variant
	if variant == "" {
		variant = "cache"
	}
	nilDelete := opt.Extra["ondelete"] == "nil"
	tag := "lru/" + variant
	if nilDelete {
		tag += "/nil-ondelete"
	}
	if len(b) == 0 || b[0].Str("op") != "New" {
		return &Failure{Step: 0, Sig: "harness: lru behaviour does not start with New"}
	}
	if b[0].Bool("alias") != (variant == "ecache") || b[0].Bool("expirable") != (variant == "expirable") {
		// ("ptr" replays the behaviours of the plain cache)
		return &Failure{Step: 0, Sig: "harness: lru behaviour was generated for another variant"}
	}
	if lruHung.Load() >= 1 {
		return nil // calls that never return were already reported; do not pile up spinning goroutines
	}
	capacity := b[0].Int("cap")
	var o lruObj
	var r *lruRec
	var err error
	if p, pv := callPanics(func() { o, r, err = newLruObj(variant, capacity, b[0].Bool("nilcreate"), nilDelete) }); p {
		return &Failure{Step: 0, Sig: tag + ": constructor panicked", Got: fmt.Sprint(pv), Want: b[0]}
	}
	if (err == nil) != b[0].Bool("ok") {
		return &Failure{Step: 0, Sig: tag + ": constructor acceptance differs from contract (maxSize < 1 or nil create function must be rejected)",
			Got: fmt.Sprint(err), Want: b[0]}
	}
	if err != nil {
		return nil
	}
	for i := 1; i < len(b); i++ {
		g := lruCall(o, r, b[i])
		if d := lruDiff(g, b[i], nilDelete); d != "" {
			return &Failure{Step: i, Sig: tag + ": " + b[i].Str("op") + " " + d, Got: g.toMap(b[i]), Want: b[i]}
		}
	}
	// Final probe: the recency order is hidden state; LRU.tla (invariant ProbeSound) says how
	// it shows through the API.  The last step carries the abstract content st.
	var st []pkVid
	if len(b) > 1 {
		st = lruPairs(b[len(b)-1]["st"])
	}
	if nilDelete {
		return lruProbeContent(o, r, st, tag, len(b))
	}
	return lruProbeDrain(o, r, st, capacity, tag, len(b))
}

// lruProbeDrain inserts capacity new keys: the first capacity-len(st) insertions evict
// nothing, the following ones evict exactly st[0], st[1], ... (least recently used first).
func lruProbeDrain(o lruObj, r *lruRec, st []pkVid, capacity int, tag string, step int) *Failure {
	pad := capacity - len(st)
	var got, want [][]pkVid
	ok := true
	for i := 1; i <= capacity; i++ {
		g := lruCall(o, r, Step{"op": "GetOrCreate", "pk": float64(lruProbeKey + i), "outs": []any{"ok", "ok"}})
		if g.Crash != "" {
			return &Failure{Step: step, Sig: tag + ": GetOrCreate " + lruDiff(g, nil, false) + " (final probe)", Got: g.toMap(Step{})}
		}
		var w []pkVid
		if i > pad && i-pad-1 < len(st) {
			w = []pkVid{st[i-pad-1]}
		}
		got, want = append(got, g.Deleted), append(want, w)
		if !samePairs(g.Deleted, w, true) || g.Err != "nil" || !sameInts(g.Created, []int{lruProbeKey + i}) {
			ok = false
		}
	}
	if !ok {
		return &Failure{Step: step, Sig: tag + ": content or recency order after the last call differs from contract (evictions caused by inserting new keys)",
			Got: fmt.Sprint(got), Want: fmt.Sprint(want)}
	}
	return nil
}

// lruProbeContent (nil delete callback): every entry of st must be a hit returning its value
// (an expired one is replaced: one creation), every other key a miss.
func lruProbeContent(o lruObj, r *lruRec, st []pkVid, tag string, step int) *Failure {
	for _, e := range st {
		g := lruCall(o, r, Step{"op": "GetOrCreate", "pk": float64(e.pk), "outs": []any{"ok", "ok"}})
		if g.Crash != "" {
			return &Failure{Step: step, Sig: tag + ": GetOrCreate " + lruDiff(g, nil, true) + " (final probe)", Got: g.toMap(Step{})}
		}
		good := g.Err == "nil" && len(g.Created) == 0 && g.Vid == e.vid
		if r.staleVid[e.vid] {
			good = g.Err == "nil" && sameInts(g.Created, []int{e.pk}) && g.Vid != e.vid
		}
		if !good {
			return &Failure{Step: step, Sig: tag + ": content after the last call differs from contract (hits on the resident keys)",
				Got: g.toMap(Step{}), Want: fmt.Sprint(st)}
		}
	}
	return nil
}

// driveLRU runs long random call sequences on the three real types with capacities up to 64
// and records every call with its real reply and callback invocations; TLC then decides
// whether each trace is a behaviour of LRU.tla (LRUTrace.tla).
func driveLRU(opt *Options) error {
	tw, err := NewTraceWriter(opt.Out)
	if err != nil {
		return err
	}
	defer tw.Close()
	rnd := rand.New(rand.NewSource(opt.Seed))
	caps := []int{1, 2, 3, 8, 64}
	if s, ok := opt.Extra["caps"]; ok {
		caps = nil
		for _, f := range strings.Split(s, ",") {
			if n, err := strconv.Atoi(f); err == nil {
				caps = append(caps, n)
			}
		}
	}
	steps := 300
	if s, ok := opt.Extra["steps"]; ok {
		fmt.Sscan(s, &steps)
	}
	variants := []string{"cache", "ecache", "expirable", "ptr"}
	if opt.Extra["mode"] == "longlived" {
		// ONE expirable cache in use for longer than a quarter of a minute of real time, with expired items resident that
		// nobody asks for: what leaves the cache, and when, is the same as in the first second of its life
		o, r, err := newLruObj("expirable", 3, false, false)
		if err != nil {
			return err
		}
		tw.Emit(map[string]any{"op": "New", "cap": 3, "nilcreate": false, "alias": false, "expirable": true, "nodel": false, "variant": "expirable", "ok": true})
		emit := func(s Step) { tw.Emit(lruCall(o, r, s).toMap(s)) }
		goc := func(pk int, outs ...any) { emit(Step{"op": "GetOrCreate", "pk": float64(pk), "outs": outs}) }
		goc(2, "ok", "ok")
		goc(1, "stale", "stale") // the second creation's item stays: resident and expired
		goc(3, "ok", "ok")
		for _, pause := range []time.Duration{16500 * time.Millisecond, 0} {
			time.Sleep(pause)
			goc(3, "ok", "ok")
			goc(4, "ok", "ok")
			goc(2, "ok", "ok")
			goc(5, "stale", "stale")
			goc(3, "ok", "ok")
			emit(Step{"op": "Remove", "pk": float64(4)})
			goc(6, "ok", "ok")
			goc(1, "ok", "stale")
		}
		for i := 0; i < 60; i++ {
			goc(1+rnd.Intn(6), []any{"ok", "stale", "fail"}[rnd.Intn(3)], []any{"ok", "stale"}[rnd.Intn(2)])
		}
		emit(Step{"op": "Clear"})
		return nil
	}
	for t := 0; t < opt.N; t++ {
		if lruHung.Load() > 0 {
			break // a call never returned (recorded as a crash line): its goroutine still spins, stop here
		}
		variant := variants[t%4]
		nilDelete := t%11 == 10
		c := caps[rnd.Intn(len(caps))]
		steps := steps
		unbounded := t%20 == 9 && opt.Extra["caps"] == ""
		if unbounded {
			// "unbounded", as users write it: the largest int there is (logged as 2^31-1: nothing is ever evicted either way)
			c = math.MaxInt
		}
		if t%20 == 19 && opt.Extra["caps"] == "" {
			// capacities beyond anything the model enumerates (internal thresholds, counters): a few long traces
			c = []int{100, 257, 1000}[rnd.Intn(3)]
			steps = 3 * c
		}
		nilCreate := false
		if t%13 == 12 { // constructor contract
			switch rnd.Intn(3) {
			case 0:
				c = 0
			case 1:
				c = -1 - rnd.Intn(5)
			default:
				nilCreate = true
			}
		}
		var o lruObj
		var r *lruRec
		var cerr error
		logCap := c
		if logCap > 1<<31-1 {
			logCap = 1<<31 - 1
		}
		newEv := map[string]any{"op": "New", "cap": logCap, "nilcreate": nilCreate, "alias": variant == "ecache",
			"expirable": variant == "expirable", "nodel": nilDelete, "variant": variant}
		if p, pv := callPanics(func() { o, r, cerr = newLruObj(variant, c, nilCreate, nilDelete) }); p {
			newEv["crash"] = "panic: " + firstLine(fmt.Sprint(pv))
			tw.Emit(newEv)
			continue
		}
		newEv["ok"] = cerr == nil
		tw.Emit(newEv)
		if cerr != nil {
			continue
		}
		nk := 40
		if !unbounded {
			nk = c + 1 + rnd.Intn(c+1) // a little to a lot more keys than capacity
		}
		pFail := []int{0, 5, 20}[rnd.Intn(3)]
		pStale := []int{5, 30}[rnd.Intn(2)]
		randPk := func() int {
			pk := 1 + rnd.Intn(nk)
			if variant == "ecache" && rnd.Intn(2) == 0 {
				pk = -pk
			}
			return pk
		}
		out := func() string {
			x := rnd.Intn(100)
			if x < pFail {
				return "fail"
			}
			if variant == "expirable" && x < pFail+pStale {
				return "stale"
			}
			return "ok"
		}
		emit := func(s Step) bool {
			g := lruCall(o, r, s)
			ev := g.toMap(s)
			if nilDelete {
				ev["nodel"] = true
			}
			tw.Emit(ev)
			return g.Crash == ""
		}
		alive := true
		for i := 0; i < steps && alive; i++ {
			var s Step
			switch k := rnd.Intn(100); {
			case k < 78:
				s = Step{"op": "GetOrCreate", "pk": float64(randPk())}
				if variant == "expirable" {
					s["outs"] = []any{out(), out()}
				} else {
					s["fails"] = out() == "fail"
				}
			case k < 97:
				s = Step{"op": "Remove", "pk": float64(randPk())}
			default:
				s = Step{"op": "Clear"}
			}
			alive = emit(s)
		}
		// drain: new keys push out everything that is resident, least recently used first
		for i := 1; i <= c && alive && !unbounded; i++ {
			s := Step{"op": "GetOrCreate", "pk": float64(lruProbeKey + i)}
			if variant == "expirable" {
				s["outs"] = []any{"ok", "ok"}
			} else {
				s["fails"] = false
			}
			alive = emit(s)
		}
		if alive {
			emit(Step{"op": "Clear"})
		}
	}
	return nil
}
