package main

import (
	"bufio"
	"encoding/json"
	"errors"
	"fmt"
	"math"
	"math/rand"
	"os"
	"runtime"
	"strings"
	"sync"
	"sync/atomic"
	"time"

	"github.com/acquirecloud/golibs/container/lru"
)

// C09: lru.ECache under concurrency.
//
// The harness owns the two places where the cache calls out: the create
// callback (a gate: the schedule decides when it completes and whether it
// fails) and the delete callback (the cache invokes it under its own lock, so
// logging there is a linearization-point hook for free).  Schedules come from
// TLC (command histories of spec/lru/LRUConc.tla) or from a seeded generator;
// ungated stress adds free goroutine scheduling.  Every recorded history is
// validated by TLC against spec/lru/LRUConcTrace.tla (linearizability w.r.t.
// the sequential contract LRU!Apply, single flight, balance, capacity).

func init() { drivers["lruconc"] = driveLruConc }

type lcProc struct {
	id      int
	busy    bool
	key     int         // inner key of the creation this caller is parked in
	gate    chan string // create callback parked here: "ok" / "fail"
	parked  bool
	started int
}

type lcSys struct {
	slowDel time.Duration
	delSeen chan struct{} // closed when the first delete callback of the big Clear runs
	delOnce sync.Once
	mu      sync.Mutex
	cache   *lru.ECache[string, string, int]
	cap     int
	procs   []*lcProc
	byGo    sync.Map
	events  []map[string]any
	seq     int
	vid     int
	gated   bool
	nreal   int
	rnd     *rand.Rand
	tick    chan struct{}
}

func pkName(pk int) string {
	if pk < 0 {
		return fmt.Sprintf("K%d", -pk)
	}
	return fmt.Sprintf("k%d", pk)
}
func pkNum(s string) int {
	var n int
	fmt.Sscanf(s[1:], "%d", &n)
	if s[0] == 'K' {
		return -n
	}
	return n
}

func (s *lcSys) ev(e map[string]any) {
	s.events = append(s.events, e)
	s.seq++
	select {
	case s.tick <- struct{}{}:
	default:
	}
}

func (s *lcSys) cur() *lcProc {
	if v, ok := s.byGo.Load(goid()); ok {
		return s.procs[v.(int)]
	}
	return nil
}

func newLcSys(capacity, nprocs int, gated bool, seed int64) (*lcSys, error) {
	s := &lcSys{cap: capacity, gated: gated, rnd: rand.New(rand.NewSource(seed)), tick: make(chan struct{}, 1)}
	s.procs = append(s.procs, nil)
	// ids nprocs+1 .. 2*nprocs are "virtual callers": the nested call a create function makes on the same cache
	for i := 1; i <= 2*nprocs; i++ {
		s.procs = append(s.procs, &lcProc{id: i, gate: make(chan string, 1)})
	}
	s.nreal = nprocs
	create := func(pk string) (int, error) {
		p := s.cur()
		s.mu.Lock()
		s.ev(map[string]any{"e": "cstart", "p": p.id, "pk": pkNum(pk)})
		p.parked = true
		p.key = pkNum(pk)
		if p.key < 0 {
			p.key = -p.key
		}
		s.mu.Unlock()
		r := "ok"
		if s.gated {
			r = <-p.gate
		} else {
			// ungated: a short random pause so that creations overlap
			s.mu.Lock()
			k := s.rnd.Intn(8)
			fail := s.rnd.Intn(6) == 0
			nest := s.rnd.Intn(5) == 0 && p.id <= s.nreal
			nk := s.rnd.Intn(3)
			s.mu.Unlock()
			if inner := absInt(pkNum(pk)); nest && inner < 5 {
				// a create function that itself uses the cache (for a key of a higher number: no cycles)
				s.nested(p.id+s.nreal, inner+1+nk)
			}
			for i := 0; i < k; i++ {
				runtime.Gosched()
			}
			if fail {
				r = "fail"
			}
		}
		s.mu.Lock()
		defer s.mu.Unlock()
		p.parked = false
		if r == "ok" {
			s.vid++
			s.ev(map[string]any{"e": "cend", "p": p.id, "ok": true, "vid": s.vid})
			return s.vid, nil
		}
		s.ev(map[string]any{"e": "cend", "p": p.id, "ok": false, "vid": 0})
		return 0, errors.New("creation failed")
	}
	onDelete := func(pk string, v int) {
		p := s.cur()
		pid := 0
		if p != nil {
			pid = p.id
		}
		s.mu.Lock()
		s.ev(map[string]any{"e": "del", "p": pid, "pk": pkNum(pk), "vid": v})
		s.mu.Unlock()
		if s.slowDel > 0 {
			// a delete callback that takes its time: callers queue up behind the operation that runs it
			s.delOnce.Do(func() { close(s.delSeen) })
			time.Sleep(s.slowDel)
		}
	}
	c, err := lru.NewECache[string, string, int](capacity, strings.ToLower, create, onDelete)
	if err != nil {
		return nil, err
	}
	s.cache = c
	logCap := capacity
	if logCap > 1<<31-1 {
		logCap = 1<<31 - 1 // (TLC's integers; nothing is ever evicted either way)
	}
	s.events = append(s.events, map[string]any{"e": "reset", "cap": logCap})
	return s, nil
}

func absInt(x int) int {
	if x < 0 {
		return -x
	}
	return x
}

// nested performs GetOrCreate(pk) synchronously on the calling goroutine under the identity of virtual caller vid.
func (s *lcSys) nested(vid, pk int) {
	g := goid()
	prev, _ := s.byGo.Load(g)
	s.byGo.Store(g, vid)
	defer s.byGo.Store(g, prev)
	s.mu.Lock()
	s.ev(map[string]any{"e": "inv", "p": vid, "op": "get", "pk": pk})
	s.mu.Unlock()
	ret := map[string]any{"e": "ret", "p": vid}
	if panicked, pv := callPanics(func() {
		v, err := s.cache.GetOrCreate(pkName(pk))
		if err != nil {
			ret["err"], ret["vid"] = "fail", 0
		} else {
			ret["err"], ret["vid"] = "nil", v
		}
	}); panicked {
		ret["crash"] = firstLine(fmt.Sprint(pv))
	}
	_, _, _, length, _ := lru.VerifListStats(s.cache)
	ret["len"] = length
	s.mu.Lock()
	s.ev(ret)
	s.mu.Unlock()
}

func (s *lcSys) start(pid int, op string, pk int) bool {
	s.mu.Lock()
	p := s.procs[pid]
	if p.busy {
		s.mu.Unlock()
		return false
	}
	p.busy = true
	p.started++
	s.ev(map[string]any{"e": "inv", "p": pid, "op": op, "pk": pk})
	s.mu.Unlock()
	go func() {
		s.byGo.Store(goid(), pid)
		defer s.byGo.Delete(goid())
		ret := map[string]any{"e": "ret", "p": pid}
		panicked, pv := callPanics(func() {
			switch op {
			case "get":
				v, err := s.cache.GetOrCreate(pkName(pk))
				if err != nil {
					ret["err"], ret["vid"] = "fail", 0
				} else {
					ret["err"], ret["vid"] = "nil", v
				}
			case "remove":
				ret["found"] = s.cache.Remove(pkName(pk))
			case "clear":
				ret["n"] = s.cache.Clear()
			}
		})
		if panicked {
			ret["crash"] = firstLine(fmt.Sprint(pv))
		}
		_, _, _, length, _ := lru.VerifListStats(s.cache)
		ret["len"] = length
		s.mu.Lock()
		p.busy = false
		s.ev(ret)
		s.mu.Unlock()
	}()
	return true
}

func (s *lcSys) finish(pid int, r string) bool {
	s.mu.Lock()
	p := s.procs[pid]
	if !p.parked {
		s.mu.Unlock()
		return false
	}
	p.parked = false
	s.mu.Unlock()
	p.gate <- r
	return true
}

func (s *lcSys) settle(needEvent bool, quiet time.Duration) {
	s.mu.Lock()
	last := s.seq
	s.mu.Unlock()
	start := time.Now()
	if needEvent {
		for time.Since(start) < 2*time.Second {
			s.mu.Lock()
			cur := s.seq
			s.mu.Unlock()
			if cur != last {
				break
			}
			select {
			case <-s.tick:
			case <-time.After(200 * time.Microsecond):
			}
		}
	}
	qs := time.Now()
	for {
		select {
		case <-s.tick:
		case <-time.After(100 * time.Microsecond):
		}
		s.mu.Lock()
		cur := s.seq
		s.mu.Unlock()
		if cur != last {
			last, qs = cur, time.Now()
			continue
		}
		if time.Since(qs) >= quiet {
			return
		}
	}
}

// drain completes every open creation and waits for all calls; a caller that never returns
// although nothing is left to complete is a leaked waiter: `stuck` (never accepted).
func (s *lcSys) drain(quiet time.Duration) bool {
	lastMove := time.Now()
	for {
		s.mu.Lock()
		busy := false
		var parked []int
		for _, p := range s.procs[1:] {
			if p.busy {
				busy = true
			}
			if p.parked {
				parked = append(parked, p.id)
			}
		}
		seq := s.seq
		s.mu.Unlock()
		if !busy {
			return true
		}
		if len(parked) > 0 {
			for _, pid := range parked {
				s.finish(pid, "ok")
			}
			s.settle(true, quiet)
			lastMove = time.Now()
			continue
		}
		s.settle(false, 2*quiet)
		s.mu.Lock()
		moved := s.seq != seq
		s.mu.Unlock()
		if moved {
			lastMove = time.Now()
			continue
		}
		if time.Since(lastMove) > 3*time.Second {
			s.mu.Lock()
			s.ev(map[string]any{"e": "stuck"})
			s.mu.Unlock()
			return false
		}
		time.Sleep(time.Millisecond)
	}
}

func (s *lcSys) finalClear() {
	s.start(1, "clear", 0)
	s.settle(true, 200*time.Microsecond)
	for i := 0; i < 2000; i++ {
		s.mu.Lock()
		b := s.procs[1].busy
		s.mu.Unlock()
		if !b {
			break
		}
		time.Sleep(time.Millisecond)
	}
	s.mu.Lock()
	s.ev(map[string]any{"e": "final"})
	s.mu.Unlock()
}

func (s *lcSys) runSchedule(cmds Behaviour, quiet time.Duration) bool {
	rep := true
	for _, c := range cmds {
		ok := true
		switch c.Str("op") {
		case "start":
			// the call produces an event at once (cstart or ret) unless it has to wait for a creation in flight
			need := true
			if c.Str("call") == "get" {
				k := c.Int("pk")
				if k < 0 {
					k = -k
				}
				s.mu.Lock()
				for _, q := range s.procs[1:] {
					if q.parked && q.key == k {
						need = false
					}
				}
				s.mu.Unlock()
			}
			ok = s.start(c.Int("p"), c.Str("call"), c.Int("pk"))
			if ok {
				s.settle(need, quiet)
			}
		case "finish":
			ok = s.finish(c.Int("p"), c.Str("result"))
			if ok {
				s.settle(true, quiet)
			}
		}
		if !ok {
			rep = false
			break
		}
	}
	if s.drain(quiet) {
		s.finalClear()
	}
	return rep
}

func (s *lcSys) runRandom(steps int, quiet time.Duration, keys []int) {
	for i := 0; i < steps; i++ {
		s.mu.Lock()
		var idle, parked []int
		for _, p := range s.procs[1:] {
			if p.parked {
				parked = append(parked, p.id)
			} else if !p.busy {
				idle = append(idle, p.id)
			}
		}
		r := s.rnd.Intn(10)
		pick := s.rnd.Intn(1 << 30)
		s.mu.Unlock()
		switch {
		case len(parked) > 0 && (r < 4 || len(idle) == 0):
			res := "ok"
			if pick%5 == 0 {
				res = "fail"
			}
			s.finish(parked[pick%len(parked)], res)
			s.settle(true, quiet)
		case len(idle) > 0:
			op := "get"
			if r == 8 {
				op = "remove"
			} else if r == 9 {
				op = "clear"
			}
			s.start(idle[pick%len(idle)], op, keys[(pick/7)%len(keys)])
			s.settle(false, 2*quiet)
		default:
			s.settle(false, quiet)
		}
	}
	if s.drain(quiet) {
		s.finalClear()
	}
}

func (s *lcSys) runStress(rounds int, keys []int) {
	var wg sync.WaitGroup
	for pid := 1; pid <= s.nreal; pid++ {
		wg.Add(1)
		seed := s.rnd.Int63()
		go func(pid int) {
			defer wg.Done()
			r := rand.New(rand.NewSource(seed))
			p := s.procs[pid]
			for i := 0; i < rounds; i++ {
				op := "get"
				switch r.Intn(12) {
				case 0, 1:
					op = "remove"
				case 2:
					op = "clear"
				}
				s.start(pid, op, keys[r.Intn(len(keys))])
				for { // wait for this caller's own call to return
					s.mu.Lock()
					b := p.busy
					s.mu.Unlock()
					if !b {
						break
					}
					runtime.Gosched()
				}
			}
		}(pid)
	}
	done := make(chan struct{})
	go func() { wg.Wait(); close(done) }()
	select {
	case <-done:
		s.finalClear()
	case <-time.After(20 * time.Second):
		s.mu.Lock()
		s.ev(map[string]any{"e": "stuck"})
		s.mu.Unlock()
	}
}

func (s *lcSys) call(pid int, op string, pk int) {
	p := s.procs[pid]
	s.start(pid, op, pk)
	for {
		s.mu.Lock()
		b := p.busy
		s.mu.Unlock()
		if !b {
			return
		}
		runtime.Gosched()
	}
}

func (s *lcSys) runBigClear(n int, r *rand.Rand) {
	for k := 0; k < n; k++ {
		s.call(1, "get", 10+k)
	}
	s.slowDel, s.delSeen = 60*time.Microsecond, make(chan struct{})
	var wg sync.WaitGroup
	for pid := 2; pid <= 3; pid++ {
		wg.Add(1)
		seed := r.Int63()
		go func(pid int) {
			defer wg.Done()
			rr := rand.New(rand.NewSource(seed))
			<-s.delSeen // the Clear is under way: now ask for keys it has removed / is about to remove
			for i := 0; i < 6; i++ {
				s.call(pid, "get", 10+rr.Intn(n))
			}
		}(pid)
	}
	s.call(1, "clear", 0)
	wg.Wait()
	s.slowDel = 0
	s.finalClear()
}

func driveLruConc(opt *Options) error {
	mode := opt.Extra["mode"]
	quiet := 300 * time.Microsecond
	out, err := os.Create(opt.Out)
	if err != nil {
		return err
	}
	defer out.Close()
	w := bufio.NewWriterSize(out, 1<<20)
	defer w.Flush()
	var wmu sync.Mutex
	stats := map[string]int{}
	var stuckRuns int32
	giveUp := func() bool { return atomic.LoadInt32(&stuckRuns) >= 3 } // the verdict is established: skip the rest
	flush := func(s *lcSys, rep bool) {
		wmu.Lock()
		defer wmu.Unlock()
		for _, e := range s.events {
			if e["e"] == "stuck" {
				atomic.AddInt32(&stuckRuns, 1)
				break
			}
		}
		stats["histories"]++
		if rep {
			stats["reproduced"]++
		}
		for _, e := range s.events {
			b, _ := json.Marshal(e)
			w.Write(b)
			w.WriteByte('\n')
			stats["events"]++
		}
	}
	workers := opt.Workers
	switch mode {
	case "schedules":
		bs, _, err := readBehaviours(opt.In)
		if err != nil {
			return err
		}
		ch := make(chan Behaviour, 64)
		var wg sync.WaitGroup
		for i := 0; i < workers; i++ {
			wg.Add(1)
			go func() {
				defer wg.Done()
				for b := range ch {
					if giveUp() {
						continue
					}
					s, err := newLcSys(b[0].Int("cap"), 3, true, 1)
					if err != nil {
						continue
					}
					flush(s, s.runSchedule(b[1:], quiet))
				}
			}()
		}
		for _, b := range bs {
			if len(b) > 1 && b[0].Str("op") == "New" {
				ch <- b
			}
		}
		close(ch)
		wg.Wait()
	case "random":
		var wg sync.WaitGroup
		sem := make(chan struct{}, workers)
		for i := 0; i < opt.N; i++ {
			wg.Add(1)
			sem <- struct{}{}
			go func(i int) {
				defer wg.Done()
				defer func() { <-sem }()
				if giveUp() {
					return
				}
				r := rand.New(rand.NewSource(opt.Seed*100003 + int64(i)))
				s, err := newLcSys(1+r.Intn(3), 3+r.Intn(3), true, r.Int63())
				if err != nil {
					return
				}
				s.runRandom(15+r.Intn(25), quiet, []int{1, 2, 3, -1, 4, 5, -2}[:2+r.Intn(6)])
				flush(s, true)
			}(i)
		}
		wg.Wait()
	case "stress":
		for i := 0; i < opt.N; i++ {
			if giveUp() {
				break
			}
			r := rand.New(rand.NewSource(opt.Seed*7907 + int64(i)))
			capacity := 1 + r.Intn(3)
			if i%5 == 4 {
				capacity = math.MaxInt // "unbounded"
			}
			s, err := newLcSys(capacity, 4+r.Intn(5), false, r.Int63())
			if err != nil {
				return err
			}
			s.runStress(6, []int{1, 2, 3, -1, 4, 5}[:2+r.Intn(5)])
			flush(s, true)
		}
	case "bigclear":
		// Clear of several hundred resident values while other callers keep asking for the same keys: Clear is ONE
		// operation (everything it removes was resident at one instant, nothing created meanwhile is touched)
		for i := 0; i < opt.N; i++ {
			if giveUp() {
				break
			}
			r := rand.New(rand.NewSource(opt.Seed*6007 + int64(i)))
			s, err := newLcSys(2000, 4, false, r.Int63())
			if err != nil {
				return err
			}
			s.runBigClear(690+r.Intn(40), r) // (one creation in six fails: about 590 values are resident)
			flush(s, true)
		}
	case "failstorm":
		// many callers on ONE key whose creation fails dozens of times in a row before it succeeds (summary line `storm`)
		for i := 0; i < opt.N; i++ {
			r := rand.New(rand.NewSource(opt.Seed*4099 + int64(i)))
			capacity := 1 + r.Intn(3)
			callers := 70 + r.Intn(60)
			ev := lcFailStorm(callers, 40+r.Intn(callers-50), capacity) // (fewer failures than callers: somebody succeeds)
			wmu.Lock()
			for _, e := range []map[string]any{{"e": "reset", "cap": capacity}, ev} {
				b, _ := json.Marshal(e)
				w.Write(b)
				w.WriteByte('\n')
				stats["events"]++
			}
			stats["histories"]++
			stats["reproduced"]++
			wmu.Unlock()
		}
	default:
		return fmt.Errorf("unknown mode %q", mode)
	}
	sb, _ := json.Marshal(stats)
	return os.WriteFile(opt.Out+".stats", sb, 0o644)
}


// lcFailStorm: `callers` goroutines call GetOrCreate for one key at the same instant; the create function fails `fails`
// times in a row (taking about a millisecond each time, so that everybody else queues up behind it) and then succeeds.
func lcFailStorm(callers, fails, capacity int) map[string]any {
	var mu sync.Mutex
	inflight, maxInflight, creations, successes := 0, 0, 0, 0
	deleted := map[int]int{}
	create := func(pk string) (int, error) {
		mu.Lock()
		inflight++
		if inflight > maxInflight {
			maxInflight = inflight
		}
		creations++
		n := creations
		mu.Unlock()
		time.Sleep(time.Millisecond)
		mu.Lock()
		defer mu.Unlock()
		inflight--
		if n <= fails {
			return 0, errors.New("creation failed")
		}
		successes++
		return 1000 + n, nil
	}
	onDelete := func(pk string, v int) { mu.Lock(); deleted[v]++; mu.Unlock() }
	c, err := lru.NewECache[string, string, int](capacity, strings.ToLower, create, onDelete)
	if err != nil {
		return map[string]any{"e": "storm", "stuck": 1, "max_inflight": 0, "successes": 0, "distinct_values": 0, "deleted_once": 0, "deleted_other": 0}
	}
	var gate int32
	vals := make([]int, callers)
	errs := make([]bool, callers)
	var wg sync.WaitGroup
	for g := 0; g < callers; g++ {
		wg.Add(1)
		go func(g int) {
			defer wg.Done()
			for atomic.LoadInt32(&gate) == 0 {
				runtime.Gosched()
			}
			v, err := c.GetOrCreate("Key")
			vals[g], errs[g] = v, err != nil
		}(g)
	}
	time.Sleep(5 * time.Millisecond)
	atomic.StoreInt32(&gate, 1)
	done := make(chan struct{})
	go func() { wg.Wait(); close(done) }()
	stuck := 0
	select {
	case <-done:
	case <-time.After(20 * time.Second):
		stuck = 1
	}
	distinct := map[int]bool{}
	nerr := 0
	if stuck == 0 {
		for g := range vals {
			if errs[g] {
				nerr++
			} else {
				distinct[vals[g]] = true
			}
		}
		c.Clear()
	}
	mu.Lock()
	defer mu.Unlock()
	once, other := 0, 0
	for _, n := range deleted {
		if n == 1 {
			once++
		} else {
			other++
		}
	}
	return map[string]any{"e": "storm", "callers": callers, "fails": fails, "cap": capacity, "creations": creations, "max_inflight": maxInflight,
		"successes": successes, "errors_returned": nerr, "distinct_values": len(distinct), "deleted_once": once, "deleted_other": other, "stuck": stuck}
}
