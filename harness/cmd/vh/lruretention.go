package main

import (
	"errors"
	"math/rand"
	"strings"

	"github.com/acquirecloud/golibs/container/lru"
)

// C11, LRU part: histories of arbitrary length mixing GetOrCreate / Remove /
// Clear on caches of several capacities; the statistics of the cache's internal
// list are sampled through the verif-tagged accessor and written as a trace
// that TLC validates against spec/itermap/RetentionTrace.tla.

func init() { drivers["lru-retention"] = driveLruRetention }

func driveLruRetention(opt *Options) error {
	tw, err := NewTraceWriter(opt.Out)
	if err != nil {
		return err
	}
	defer tw.Close()
	rnd := rand.New(rand.NewSource(opt.Seed))
	caps := []int{1, 2, 3, 8, 64}
	for ci, cp := range caps {
		failNext := false
		create := func(k string) (int, error) {
			if failNext {
				return 0, errors.New("create failed")
			}
			return len(k), nil
		}
		deleted := 0
		onDel := func(k string, v int) { deleted++ }
		var stats func() (int, int, int, int, int)
		var get func(k string)
		var remove func(k string)
		var clear func()
		if ci%2 == 0 {
			c, err := lru.NewCache[string, int](cp, create, onDel)
			if err != nil {
				return err
			}
			stats = func() (int, int, int, int, int) { return lru.VerifListStats(c.ECache) }
			get = func(k string) { c.GetOrCreate(k) }
			remove = func(k string) { c.Remove(k) }
			clear = func() { c.Clear() }
		} else {
			c, err := lru.NewECache[string, string, int](cp, strings.ToLower, create, onDel)
			if err != nil {
				return err
			}
			stats = func() (int, int, int, int, int) { return lru.VerifListStats(c) }
			get = func(k string) { c.GetOrCreate(k) }
			remove = func(k string) { c.Remove(k) }
			clear = func() { c.Clear() }
		}
		keys := []string{"a", "b", "c", "d", "e", "f", "g", "h", "A", "B", "C"}
		for i := 0; i < 100; i++ {
			keys = append(keys, "k"+string(rune('a'+i%26))+string(rune('a'+i/26)))
		}
		sampleEvery := 1 + opt.N/400
		for i := 0; i < opt.N; i++ {
			k := keys[rnd.Intn(3+rnd.Intn(len(keys)-3))]
			failNext = rnd.Intn(10) == 0
			op := ""
			switch r := rnd.Intn(100); {
			case r < 70:
				get(k)
				op = "GetOrCreate"
			case r < 90:
				remove(k)
				op = "Remove"
			default:
				clear()
				op = "Clear"
			}
			if i%sampleEvery == 0 || op == "Clear" && rnd.Intn(4) == 0 || i == opt.N-1 {
				nodes, del, refSum, length, inflight := stats()
				tw.Emit(map[string]any{"op": op, "cap": cp, "call": i, "nodes": nodes, "deleted": del,
					"refsum": refSum, "len": length, "inflight": inflight})
			}
		}
	}
	return nil
}
