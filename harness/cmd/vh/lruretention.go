package main

import (
	"errors"
	"math/rand"
	"strings"
	"sync"
	"sync/atomic"
	"time"

	"github.com/acquirecloud/golibs/container/lru"
)

// C11, LRU part: histories of arbitrary length mixing GetOrCreate / Remove /
// Clear on caches of several capacities; the statistics of the cache's internal
// list are sampled through the verif-tagged accessor and written as a trace
// that TLC validates against spec/itermap/RetentionTrace.tla.

func init() { drivers["lru-retention"] = driveLruRetention }

func driveLruRetention(opt *Options) error {
	tw, err := NewTraceWriter(opt.Out)
	if err != nil {
		return err
	}
	defer tw.Close()
	rnd := rand.New(rand.NewSource(opt.Seed))
	caps := []int{1, 2, 3, 8, 64}
	for ci, cp := range caps {
		failNext := false
		var burst atomic.Value // chan struct{}: while set, creations overlap (they wait for the release)
		var arrived int32
		create := func(k string) (int, error) {
			if ch, ok := burst.Load().(chan struct{}); ok && ch != nil {
				atomic.AddInt32(&arrived, 1)
				<-ch
				return len(k), nil
			}
			if failNext {
				return 0, errors.New("create failed")
			}
			return len(k), nil
		}
		deleted := 0
		panicNext := false
		onDel := func(k string, v int) {
			deleted++
			if panicNext {
				panicNext = false
				panic("delete callback failed")
			}
		}
		var stats func() (int, int, int, int, int)
		var stale func() int
		var get func(k string)
		var remove func(k string)
		var clear func()
		if ci%2 == 0 {
			c, err := lru.NewCache[string, int](cp, create, onDel)
			if err != nil {
				return err
			}
			stats = func() (int, int, int, int, int) { return lru.VerifListStats(c.ECache) }
			stale = func() int { return lru.VerifStaleVals(c.ECache) }
			get = func(k string) { c.GetOrCreate(k) }
			remove = func(k string) { c.Remove(k) }
			clear = func() { c.Clear() }
		} else {
			c, err := lru.NewECache[string, string, int](cp, strings.ToLower, create, onDel)
			if err != nil {
				return err
			}
			stats = func() (int, int, int, int, int) { return lru.VerifListStats(c) }
			stale = func() int { return lru.VerifStaleVals(c) }
			get = func(k string) { c.GetOrCreate(k) }
			remove = func(k string) { c.Remove(k) }
			clear = func() { c.Clear() }
		}
		keys := []string{"a", "b", "c", "d", "e", "f", "g", "h", "A", "B", "C"}
		for i := 0; i < 100; i++ {
			keys = append(keys, "k"+string(rune('a'+i%26))+string(rune('a'+i/26)))
		}
		sampleEvery := 1 + opt.N/400
		for i := 0; i < opt.N; i++ {
			k := keys[rnd.Intn(3+rnd.Intn(len(keys)-3))]
			failNext = rnd.Intn(10) == 0
			op := ""
			switch r := rnd.Intn(100); {
			case r < 70:
				get(k)
				op = "GetOrCreate"
			case r < 90:
				remove(k)
				op = "Remove"
			default:
				// now and then the user's delete callback panics inside Clear and the caller recovers:
				// the cache must not keep anything pinned because of that
				panicNext = rnd.Intn(3) == 0
				callPanics(clear)
				panicNext = false
				op = "Clear"
			}
			if i%(opt.N/8+1) == opt.N/16 {
				// a burst of concurrent misses on distinct keys whose creations overlap: the cache must
				// still hold at most its capacity afterwards
				const K = 12
				ch := make(chan struct{})
				atomic.StoreInt32(&arrived, 0)
				burst.Store(ch)
				var wg sync.WaitGroup
				for g := 0; g < K; g++ {
					wg.Add(1)
					go func(g int) {
						defer wg.Done()
						get("burst-" + string(rune('a'+g)) + string(rune('a'+i%26)))
					}(g)
				}
				for w := 0; w < 200 && atomic.LoadInt32(&arrived) < K; w++ {
					time.Sleep(100 * time.Microsecond)
				}
				burst.Store((chan struct{})(nil))
				close(ch)
				wg.Wait()
				op = "Burst"
			}
			if i%sampleEvery == 0 || op == "Burst" || op == "Clear" && rnd.Intn(4) == 0 || i == opt.N-1 {
				nodes, del, refSum, length, inflight := stats()
				tw.Emit(map[string]any{"op": op, "cap": cp, "call": i, "nodes": nodes, "deleted": del,
					"refsum": refSum, "len": length, "inflight": inflight, "stale": stale()})
			}
		}
	}
	return nil
}
