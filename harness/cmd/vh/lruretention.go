package main

import (
	"errors"
	"github.com/acquirecloud/golibs/container/iterable"
	"math/rand"
	"runtime"
	"strings"
	"sync"
	"sync/atomic"
	"time"

	"github.com/acquirecloud/golibs/container/lru"
)

// C11, LRU part: histories of arbitrary length mixing GetOrCreate / Remove /
// Clear on caches of several capacities; the statistics of the cache's internal
// list are sampled through the verif-tagged accessor and written as a trace
// that TLC validates against spec/itermap/RetentionTrace.tla.

func init() { drivers["lru-retention"] = driveLruRetention }

// gcProbe: reachability as the garbage collector sees it.  Keys and values are pointers with finalizers; after the
// entries left the container (and nothing else refers to them) a few collections must finalize every one of them -
// whatever private structure (pool, free list, index) the implementation keeps.  Emits one summary line.
type gcKey struct { // (32 bytes: objects below 16 bytes share allocation blocks, and a block lives as long as any object in it)
	id  int
	pad [3]int
}
type gcVal struct{ id [4]int }

// gcWait collects until both counters reached want, or nothing was finalized for three seconds (finalizers run on a
// goroutine of their own and may lag behind on a loaded host; a real leak shows no progress at all), at most 30 s.
func gcWait(want int, a, b *int64) {
	start, lastProgress := time.Now(), time.Now()
	seen := int64(-1)
	for time.Since(start) < 30*time.Second {
		x, y := atomic.LoadInt64(a), atomic.LoadInt64(b)
		if x >= int64(want) && y >= int64(want) {
			return
		}
		if x >= int64(want)-2 && y >= int64(want)-2 && time.Since(lastProgress) > 300*time.Millisecond {
			return // within the constant the contract allows
		}
		if x+y != seen {
			seen, lastProgress = x+y, time.Now()
		} else if time.Since(lastProgress) > 3*time.Second {
			return
		}
		runtime.GC()
		time.Sleep(5 * time.Millisecond)
	}
}

// gcWait2: as gcWait with different targets for the two counters
func gcWait2(wantA, wantB int, a, b *int64) {
	start, lastProgress := time.Now(), time.Now()
	seen := int64(-1)
	for time.Since(start) < 30*time.Second {
		x, y := atomic.LoadInt64(a), atomic.LoadInt64(b)
		if x >= int64(wantA)-2 && y >= int64(wantB)-2 && (x >= int64(wantA) && y >= int64(wantB) || time.Since(lastProgress) > 300*time.Millisecond) {
			return
		}
		if x+y != seen {
			seen, lastProgress = x+y, time.Now()
		} else if time.Since(lastProgress) > 3*time.Second {
			return
		}
		runtime.GC()
		time.Sleep(5 * time.Millisecond)
	}
}

func gcProbeMap(tw *TraceWriter, rnd *rand.Rand) {
	var keysDone, valsDone int64
	m := iterable.NewMap[*gcKey, *gcVal]()
	n := 1500 + rnd.Intn(1000)
	keep := 10
	ks := make([]*gcKey, n)
	for i := range ks {
		k, v := &gcKey{id: i}, &gcVal{[4]int{i}}
		runtime.SetFinalizer(k, func(*gcKey) { atomic.AddInt64(&keysDone, 1) })
		runtime.SetFinalizer(v, func(*gcVal) { atomic.AddInt64(&valsDone, 1) })
		ks[i] = k
		m.Add(k, v)
	}
	// First() is asked once, an iterator visits part of the map and is closed again
	m.First()
	it := m.Iterator()
	for j := 0; j < n/3; j++ {
		it.Next()
	}
	for _, i := range rnd.Perm(n) {
		if i >= n-keep { // the NEWEST entries stay: what First() and the iterator looked at goes away
			continue
		}
		m.Remove(ks[i])
		ks[i] = nil
	}
	it.Close()
	gcWait(n-keep, &keysDone, &valsDone)
	tw.Emit(map[string]any{"op": "GcProbe", "what": "map", "removed": n - keep, "keys_collected": atomic.LoadInt64(&keysDone),
		"vals_collected": atomic.LoadInt64(&valsDone), "len": m.Len(), "live": keep})
	runtime.KeepAlive(ks)
	runtime.KeepAlive(m)
}

// gcProbeMapCycles: an iterator is parked on removed entries while another key is added and removed thousands of
// times; once the iterator is closed nothing of all that may stay reachable.
func gcProbeMapCycles(tw *TraceWriter, rnd *rand.Rand) {
	var keysDone, valsDone int64
	mk := func(i int) (*gcKey, *gcVal) {
		k, v := &gcKey{id: i}, &gcVal{[4]int{i}}
		runtime.SetFinalizer(k, func(*gcKey) { atomic.AddInt64(&keysDone, 1) })
		runtime.SetFinalizer(v, func(*gcVal) { atomic.AddInt64(&valsDone, 1) })
		return k, v
	}
	m := iterable.NewMap[*gcKey, *gcVal]()
	removed := 0
	func() {
		a, av := mk(-1)
		b, bv := mk(-2)
		m.Add(a, av)
		m.Add(b, bv)
		it := m.Iterator()
		if rnd.Intn(2) == 0 {
			it.Next()
		}
		m.Remove(a)
		m.Remove(b)
		removed += 2
		n := 4200 + rnd.Intn(1500)
		for i := 0; i < n; i++ {
			x, xv := mk(i)
			m.Add(x, xv)
			m.Remove(x)
			removed++
		}
		it.Close()
	}()
	y, yv := mk(-3)
	m.Add(y, yv)
	gcWait(removed, &keysDone, &valsDone)
	tw.Emit(map[string]any{"op": "GcProbe", "what": "map-cycles", "removed": removed, "keys_collected": atomic.LoadInt64(&keysDone),
		"vals_collected": atomic.LoadInt64(&valsDone), "len": m.Len(), "live": 1})
	runtime.KeepAlive(m)
	runtime.KeepAlive(y)
}

func gcProbeLru(tw *TraceWriter, rnd *rand.Rand) {
	var keysDone, valsDone int64
	capacity := 16
	type gate struct{ entered, release chan struct{} }
	var curGate atomic.Value // *gate: while set, the creation waits inside the callback and then FAILS
	curGate.Store((*gate)(nil))
	c, err := lru.NewCache[*gcKey, *gcVal](capacity, func(k *gcKey) (*gcVal, error) {
		if g := curGate.Load().(*gate); g != nil {
			close(g.entered)
			<-g.release
			return nil, errors.New("creation failed")
		}
		v := &gcVal{[4]int{k.id}}
		runtime.SetFinalizer(v, func(*gcVal) { atomic.AddInt64(&valsDone, 1) })
		return v, nil
	}, func(k *gcKey, v *gcVal) {})
	if err != nil {
		return
	}
	n := 1500 + rnd.Intn(1000)
	for i := 0; i < n; i++ {
		k := &gcKey{id: i}
		runtime.SetFinalizer(k, func(*gcKey) { atomic.AddInt64(&keysDone, 1) })
		c.GetOrCreate(k)
		if i%7 == 0 {
			c.Remove(k)
		}
		if i%500 == 499 {
			c.Clear()
		}
	}
	// keys that are removed WHILE their creation is in progress, and whose creation then fails: they were never
	// resident, whatever the cache noted about them must be forgotten
	m := 800 + rnd.Intn(400)
	for i := 0; i < m; i++ {
		k := &gcKey{id: n + i}
		runtime.SetFinalizer(k, func(*gcKey) { atomic.AddInt64(&keysDone, 1) })
		g := &gate{make(chan struct{}), make(chan struct{})}
		curGate.Store(g)
		done := make(chan struct{})
		go func() {
			defer close(done)
			c.GetOrCreate(k)
		}()
		<-g.entered
		c.Remove(k)
		close(g.release)
		<-done
		curGate.Store((*gate)(nil))
	}
	_, _, _, length, _ := lru.VerifListStats(c.ECache)
	want := n - length
	gcWait2(want+m, want, &keysDone, &valsDone)
	tw.Emit(map[string]any{"op": "GcProbe", "what": "lru", "removed": want, "never_resident": m, "keys_collected": atomic.LoadInt64(&keysDone),
		"vals_collected": atomic.LoadInt64(&valsDone), "len": length, "live": length})
	runtime.KeepAlive(c)
}

func driveLruRetention(opt *Options) error {
	tw, err := NewTraceWriter(opt.Out)
	if err != nil {
		return err
	}
	defer tw.Close()
	rnd := rand.New(rand.NewSource(opt.Seed))
	gcProbeMap(tw, rnd)
	gcProbeMapCycles(tw, rnd)
	gcProbeLru(tw, rnd)
	caps := []int{1, 2, 3, 8, 64}
	for ci, cp := range caps {
		failNext := false
		var burst atomic.Value // chan struct{}: while set, creations overlap (they wait for the release)
		var arrived int32
		create := func(k string) (int, error) {
			if ch, ok := burst.Load().(chan struct{}); ok && ch != nil {
				atomic.AddInt32(&arrived, 1)
				<-ch
				return len(k), nil
			}
			if failNext {
				return 0, errors.New("create failed")
			}
			return len(k), nil
		}
		deleted := 0
		panicNext := false
		exitKind := 0
		onDel := func(k string, v int) {
			deleted++
			if panicNext {
				panicNext = false
				switch exitKind % 3 {
				case 1:
					runtime.Goexit() // what t.Fatal / t.FailNow do inside a callback
				case 2:
					panic(nil)
				}
				panic("delete callback failed")
			}
		}
		var stats func() (int, int, int, int, int)
		var stale func() int
		var get func(k string)
		var remove func(k string)
		var clear func()
		if ci%2 == 0 {
			c, err := lru.NewCache[string, int](cp, create, onDel)
			if err != nil {
				return err
			}
			stats = func() (int, int, int, int, int) { return lru.VerifListStats(c.ECache) }
			stale = func() int { return lru.VerifStaleVals(c.ECache) }
			get = func(k string) { c.GetOrCreate(k) }
			remove = func(k string) { c.Remove(k) }
			clear = func() { c.Clear() }
		} else {
			c, err := lru.NewECache[string, string, int](cp, strings.ToLower, create, onDel)
			if err != nil {
				return err
			}
			stats = func() (int, int, int, int, int) { return lru.VerifListStats(c) }
			stale = func() int { return lru.VerifStaleVals(c) }
			get = func(k string) { c.GetOrCreate(k) }
			remove = func(k string) { c.Remove(k) }
			clear = func() { c.Clear() }
		}
		keys := []string{"a", "b", "c", "d", "e", "f", "g", "h", "A", "B", "C"}
		for i := 0; i < 100; i++ {
			keys = append(keys, "k"+string(rune('a'+i%26))+string(rune('a'+i/26)))
		}
		sampleEvery := 1 + opt.N/400
		for i := 0; i < opt.N; i++ {
			k := keys[rnd.Intn(3+rnd.Intn(len(keys)-3))]
			failNext = rnd.Intn(10) == 0
			op := ""
			switch r := rnd.Intn(100); {
			case r < 70:
				get(k)
				op = "GetOrCreate"
			case r < 90:
				remove(k)
				op = "Remove"
			default:
				// now and then the user's delete callback panics inside Clear and the caller recovers:
				// the cache must not keep anything pinned because of that
				// (the callback leaves by a panic with a value, by runtime.Goexit, or by panic(nil): Clear runs in a
				// goroutine of its own, which a Goexit ends)
				panicNext = rnd.Intn(3) == 0
				exitKind++
				cdone := make(chan struct{})
				go func() {
					defer close(cdone)
					defer func() { recover() }()
					clear()
				}()
				<-cdone
				panicNext = false
				op = "Clear"
			}
			if i%(opt.N/8+1) == opt.N/16 {
				// a burst of concurrent misses on distinct keys whose creations overlap: the cache must
				// still hold at most its capacity afterwards
				const K = 12
				ch := make(chan struct{})
				atomic.StoreInt32(&arrived, 0)
				burst.Store(ch)
				var wg sync.WaitGroup
				for g := 0; g < K; g++ {
					wg.Add(1)
					go func(g int) {
						defer wg.Done()
						get("burst-" + string(rune('a'+g)) + string(rune('a'+i%26)))
					}(g)
				}
				for w := 0; w < 200 && atomic.LoadInt32(&arrived) < K; w++ {
					time.Sleep(100 * time.Microsecond)
				}
				burst.Store((chan struct{})(nil))
				close(ch)
				wg.Wait()
				op = "Burst"
			}
			if i%sampleEvery == 0 || op == "Burst" || op == "Clear" && rnd.Intn(4) == 0 || i == opt.N-1 {
				nodes, del, refSum, length, inflight := stats()
				tw.Emit(map[string]any{"op": op, "cap": cp, "call": i, "nodes": nodes, "deleted": del,
					"refsum": refSum, "len": length, "inflight": inflight, "stale": stale()})
			}
		}
	}
	return nil
}
