// vh is the Go side of the conformance binding: it replays behaviours that TLC
// generated from the TLA+ specifications on the real golibs objects
// (`vh replay`), and drives the real code to record traces that TLC then
// validates against the specifications (`vh drive`).
package main

import (
	"flag"
	"fmt"
	"os"
	"sort"
)

// Replayer executes one TLC-generated behaviour on fresh real objects.
type Replayer func(b Behaviour, opt *Options) *Failure

// Driver runs the real code under a seeded generator and writes trace events.
type Driver func(opt *Options) error

type Options struct {
	Seed    int64
	N       int
	Out     string
	In      string
	Variant string
	Workers int
	Extra   map[string]string
}

var replayers = map[string]Replayer{}
var drivers = map[string]Driver{}

func usage() {
	fmt.Fprintln(os.Stderr, "usage: vh replay <component> -in emitted.ndjson -out result.json [-variant v]")
	fmt.Fprintln(os.Stderr, "       vh drive  <component> -seed S -n N -out trace.ndjson [-variant v]")
	var names []string
	for k := range replayers {
		names = append(names, "replay:"+k)
	}
	for k := range drivers {
		names = append(names, "drive:"+k)
	}
	sort.Strings(names)
	fmt.Fprintln(os.Stderr, "components:", names)
	os.Exit(2)
}

func main() {
	if len(os.Args) < 3 {
		usage()
	}
	mode, comp := os.Args[1], os.Args[2]
	fs := flag.NewFlagSet("vh", flag.ExitOnError)
	opt := &Options{Extra: map[string]string{}}
	fs.Int64Var(&opt.Seed, "seed", 1, "seed")
	fs.IntVar(&opt.N, "n", 100, "count")
	fs.StringVar(&opt.Out, "out", "", "output file")
	fs.StringVar(&opt.In, "in", "", "input file")
	fs.StringVar(&opt.Variant, "variant", "", "variant")
	fs.IntVar(&opt.Workers, "workers", 16, "parallel workers")
	var extra multiFlag
	fs.Var(&extra, "x", "extra key=value (repeatable)")
	fs.Parse(os.Args[3:])
	for _, kv := range extra {
		for i := 0; i < len(kv); i++ {
			if kv[i] == '=' {
				opt.Extra[kv[:i]] = kv[i+1:]
				break
			}
		}
	}
	switch mode {
	case "replay":
		r, ok := replayers[comp]
		if !ok {
			usage()
		}
		if err := runReplay(comp, r, opt); err != nil {
			fmt.Fprintln(os.Stderr, "vh replay:", err)
			os.Exit(2)
		}
	case "drive":
		d, ok := drivers[comp]
		if !ok {
			usage()
		}
		if err := d(opt); err != nil {
			fmt.Fprintln(os.Stderr, "vh drive:", err)
			os.Exit(2)
		}
	default:
		usage()
	}
}

type multiFlag []string

func (m *multiFlag) String() string     { return fmt.Sprint(*m) }
func (m *multiFlag) Set(s string) error { *m = append(*m, s); return nil }
