package main

import (
	"fmt"
	"math/rand"
	"sort"
	"strings"

	"github.com/acquirecloud/golibs/container/iterable"
)

// C18: iterable.Mixer against spec/mixer/Merge.tla.
//
// A behaviour starts with a New step that carries everything needed to build
// the real object: the two input slices, the selector name and whether each
// input can be reset.  Every following step is one call (HasNext, Next, Reset)
// with the reply the specification prescribes and a flag `free`:
//   free = false  the contract (Merge.tla) derives the reply from the merge
//                 position; a different real reply is a verdict;
//   free = true   a Reset has been called on inputs that cannot both be reset;
//                 the property promises nothing about the position from then
//                 on, the prescribed reply is only MixerImpl's prediction
//                 (difference = drift).  What the property still promises under
//                 ANY call pattern is checked on the real replies themselves:
//                 HasNext is idempotent and agrees with the following Next.

func init() {
	replayers["mixer"] = replayMixer
	drivers["mixer"] = driveMixer
}

// mixNoReset hides the Reset method of an iterator: the mixer must then report
// an error from its own Reset (srcDesc.reset: the source is not a golibs.Reseter).
type mixNoReset struct{ it iterable.Iterator[int] }

func (n *mixNoReset) HasNext() bool     { return n.it.HasNext() }
func (n *mixNoReset) Next() (int, bool) { return n.it.Next() }
func (n *mixNoReset) Close() error      { return n.it.Close() }

// mixFuncSrc / mixFuncSrcNR: sources given as VALUES of a struct of functions (an adapter type with value receivers) -
// a dynamic type Go cannot compare with ==; the second one has no Reset.  Variant "funcs".
type mixFuncSrc struct {
	has   func() bool
	next  func() (int, bool)
	cls   func() error
	reset func() error
}

func (f mixFuncSrc) HasNext() bool     { return f.has() }
func (f mixFuncSrc) Next() (int, bool) { return f.next() }
func (f mixFuncSrc) Close() error      { return f.cls() }
func (f mixFuncSrc) Reset() error      { return f.reset() }

type mixFuncSrcNR struct {
	has  func() bool
	next func() (int, bool)
	cls  func() error
}

func (f mixFuncSrcNR) HasNext() bool     { return f.has() }
func (f mixFuncSrcNR) Next() (int, bool) { return f.next() }
func (f mixFuncSrcNR) Close() error      { return f.cls() }

func mixFuncsOf(it iterable.Iterator[int]) iterable.Iterator[int] {
	if r, ok := it.(interface{ Reset() error }); ok {
		return mixFuncSrc{has: it.HasNext, next: it.Next, cls: it.Close, reset: r.Reset}
	}
	return mixFuncSrcNR{has: it.HasNext, next: it.Next, cls: it.Close}
}

var mixSelectors = map[string]iterable.SelectF[int]{
	"lt":    func(a, b int) bool { return a < b },
	"le":    func(a, b int) bool { return a <= b },
	"true":  func(a, b int) bool { return true },
	"false": func(a, b int) bool { return false },
}

func mixSource(vals []int, resettable bool) iterable.Iterator[int] {
	cp := append(make([]int, 0, len(vals)), vals...)
	it := iterable.WrapIntSlice(cp)
	if !resettable {
		return &mixNoReset{it: it}
	}
	return it
}

// mixTease shows the imparity the Iterator interface documents: at its end HasNext still says true
// once (the element it pointed to "was removed in between"), the following Next returns (zero, false).
// A mixer over such sources must emit exactly the elements the sources really deliver.
type mixTease struct {
	it     iterable.Iterator[int]
	teased bool
}

func (t *mixTease) HasNext() bool { return t.it.HasNext() || !t.teased }
func (t *mixTease) Next() (int, bool) {
	if t.it.HasNext() {
		return t.it.Next()
	}
	t.teased = true
	return 0, false
}
func (t *mixTease) Close() error { return t.it.Close() }

type mixTeaseReset struct{ mixTease }

func (t *mixTeaseReset) Reset() error {
	t.teased = false
	return t.it.(interface{ Reset() error }).Reset()
}

func mixTeaseOf(it iterable.Iterator[int]) iterable.Iterator[int] {
	if _, ok := it.(interface{ Reset() error }); ok {
		return &mixTeaseReset{mixTease{it: it}}
	}
	return &mixTease{it: it}
}

// pointer elements: the zero value of the element type is not an element (a selector that dereferences
// its arguments panics on it), so a mixer that consults the selector with anything but two real heads shows
type mixPtrSrc struct {
	vals []*int
	idx  int
}

func (p *mixPtrSrc) HasNext() bool { return p.idx < len(p.vals) }
func (p *mixPtrSrc) Next() (*int, bool) {
	if p.idx < len(p.vals) {
		p.idx++
		return p.vals[p.idx-1], true
	}
	return nil, false
}
func (p *mixPtrSrc) Reset() error { p.idx = 0; return nil }
func (p *mixPtrSrc) Close() error { return nil }

func mixPtrSource(vals []int) iterable.Iterator[*int] {
	ps := make([]*int, len(vals))
	for i := range vals {
		v := vals[i]
		ps[i] = &v
	}
	return &mixPtrSrc{vals: ps}
}

// mixPtrView presents a Mixer[*int] as an Iterator[int] (with Reset)
type mixPtrView struct{ m *iterable.Mixer[*int] }

func (v *mixPtrView) HasNext() bool { return v.m.HasNext() }
func (v *mixPtrView) Next() (int, bool) {
	p, ok := v.m.Next()
	if !ok || p == nil {
		return 0, ok
	}
	return *p, ok
}
func (v *mixPtrView) Reset() error { return v.m.Reset() }
func (v *mixPtrView) Close() error { return v.m.Close() }

// mixerBuild creates the real Mixer[int] for a New step.
// Variant "nested" (both inputs resettable only) feeds the mixer from two inner
// mixers, each merging one input with an empty one, as mixer_test.go nests them:
// by the contract itself an inner mixer emits exactly its non-empty input, and
// its Reset restarts it, so the outer mixer must behave as over the plain inputs.
func mixerBuild(s Step, variant string) (*iterable.Mixer[int], error) {
	sf, ok := mixSelectors[s.Str("sel")]
	if !ok {
		return nil, fmt.Errorf("unknown selector %q", s.Str("sel"))
	}
	r1, r2 := s.Bool("r1"), s.Bool("r2")
	it1 := mixSource(s.Ints("s1"), r1)
	it2 := mixSource(s.Ints("s2"), r2)
	if variant == "nested" {
		in1, in2 := &iterable.Mixer[int]{}, &iterable.Mixer[int]{}
		in1.Init(mixSelectors["true"], it1, mixSource(nil, true))
		in2.Init(mixSelectors["false"], mixSource(nil, true), it2)
		it1, it2 = in1, in2
	}
	if variant == "tease" {
		it1, it2 = mixTeaseOf(it1), mixTeaseOf(it2)
	}
	if variant == "funcs" {
		it1, it2 = mixFuncsOf(it1), mixFuncsOf(it2)
	}
	if variant == "ptr" {
		sel := s.Str("sel")
		psf := func(a, b *int) bool { return mixSelectors[sel](*a, *b) } // dereferences: nil is not an element
		inner := &iterable.Mixer[*int]{}
		inner.Init(psf, mixPtrSource(s.Ints("s1")), mixPtrSource(s.Ints("s2")))
		it1, it2 = &mixPtrView{m: inner}, mixSource(nil, true)
		sf = mixSelectors["true"]
	}
	m := &iterable.Mixer[int]{}
	if strings.HasPrefix(variant, "reinit") {
		// the Mixer value has been used before (pooled / embedded mixers are re-initialised): Init must
		// start a fresh merge whatever state the previous one was left in
		m.Init(mixSelectors["lt"], mixSource([]int{7, 9}, true), mixSource([]int{8}, true))
		switch variant {
		case "reinit-drained":
			for m.HasNext() {
				m.Next()
			}
		case "reinit-peeked":
			m.HasNext()
		case "reinit-mid":
			m.Next()
		case "reinit-closed":
			for m.HasNext() {
				m.Next()
			}
			m.Close()
		case "reinit-closedmid":
			m.Next()
			m.Close()
		}
	}
	m.Init(sf, it1, it2)
	return m, nil
}

// mixerCall performs one call on the real mixer and returns the real reply.
func mixerCall(m *iterable.Mixer[int], op string) Step {
	got := Step{"op": op}
	switch op {
	case "HasNext":
		got["has"] = m.HasNext()
	case "Next":
		v, ok := m.Next()
		got["v"] = v
		got["ok"] = ok
	case "Reset":
		err := m.Reset()
		got["ok"] = err == nil
		if err != nil {
			got["err"] = err.Error()
		}
	}
	return got
}

func replayMixer(b Behaviour, opt *Options) *Failure {
	if len(b) == 0 || b[0].Str("op") != "New" {
		return &Failure{Step: 0, Sig: "harness: behaviour does not start with New"}
	}
	if (opt.Variant == "nested" || opt.Variant == "ptr") && !(b[0].Bool("r1") && b[0].Bool("r2")) {
		return nil
	}
	m, err := mixerBuild(b[0], opt.Variant)
	if err != nil {
		return &Failure{Step: 0, Sig: "harness: " + err.Error()}
	}
	var drift *Failure
	noteDrift := func(i int, what string, got, want Step) {
		if drift == nil {
			drift = &Failure{Step: i, Kind: "drift", Sig: "mixer: " + what, Got: got, Want: want}
		}
	}
	verdict := func(i int, what string, got, want Step) *Failure {
		return &Failure{Step: i, Sig: "mixer: " + what, Got: got, Want: want}
	}
	// commitment of the last real HasNext reply since the last Next/Reset
	const none, yes, no = 0, 1, 2
	last := none
	commit := func(b bool) int {
		if b {
			return yes
		}
		return no
	}
	for i := 1; i < len(b); i++ {
		want := b[i]
		op := want.Str("op")
		free := want.Bool("free")
		if op == "Drain" {
			var f *Failure
			if p, pv := callPanics(func() { f = mixerDrain(m, i, want, b[i-1].Str("op")) }); p {
				return &Failure{Step: i, Sig: "mixer: panic while draining the merge", Got: fmt.Sprint(pv), Want: want}
			}
			if f != nil {
				return f
			}
			continue
		}
		var got Step
		if p, pv := callPanics(func() { got = mixerCall(m, op) }); p {
			return &Failure{Step: i, Sig: "mixer: " + op + " panicked", Got: fmt.Sprint(pv), Want: want}
		}
		switch op {
		case "HasNext":
			has := got["has"].(bool)
			if has != want.Bool("has") {
				if !free {
					return verdict(i, "HasNext reply differs from contract", got, want)
				}
				noteDrift(i, "HasNext after a failed Reset differs from MixerImpl", got, want)
			}
			if last != none && commit(has) != last {
				return verdict(i, "HasNext is not idempotent", got, want)
			}
			last = commit(has)
		case "Next":
			v, ok := got["v"].(int), got["ok"].(bool)
			if !free {
				if ok != want.Bool("ok") {
					return verdict(i, "Next ok flag differs from contract", got, want)
				}
				if ok && v != want.Int("v") {
					return verdict(i, "Next value differs from contract", got, want)
				}
				if !ok && v != want.Int("v") {
					noteDrift(i, "Next value with ok=false is not the zero value", got, want)
				}
			} else if ok != want.Bool("ok") || v != want.Int("v") {
				noteDrift(i, "Next after a failed Reset differs from MixerImpl", got, want)
			}
			if last != none && commit(ok) != last {
				return verdict(i, "Next disagrees with the preceding HasNext", got, want)
			}
			last = none
		case "Reset":
			ok := got["ok"].(bool)
			if !free {
				if !ok {
					return verdict(i, "Reset reports an error although both inputs can be reset", got, want)
				}
			} else if ok != want.Bool("ok") {
				noteDrift(i, "Reset on a non-resettable input: error reply differs from MixerImpl", got, want)
			}
			last = none
		default:
			return &Failure{Step: i, Sig: "harness: unknown op " + op}
		}
	}
	return drift
}

// mixerDrain executes the epilogue of a behaviour.  The last call of a behaviour
// is the edge under test; what it did to the merge position only shows in later
// replies, so the merge is drained and compared with the rest of the merge the
// contract prescribes (Merge!Rest): exactly these values, in this order, then
// exhaustion - with HasNext interposed before every second Next, which must
// answer TRUE while something is left and FALSE afterwards.
// After a failed Reset (free) the contract knows no position: only the clause
// that holds under any call pattern is probed (HasNext twice, then Next).
func mixerDrain(m *iterable.Mixer[int], i int, want Step, after string) *Failure {
	fail := func(what string, got any) *Failure {
		return &Failure{Step: i, Sig: "mixer: after " + after + ": " + what, Got: got, Want: want}
	}
	if want.Bool("free") {
		h1 := m.HasNext()
		h2 := m.HasNext()
		_, ok := m.Next()
		if h1 != h2 {
			return fail("HasNext is not idempotent", []bool{h1, h2})
		}
		if ok != h2 {
			return fail("Next disagrees with the preceding HasNext", map[string]bool{"has": h2, "ok": ok})
		}
		return nil
	}
	vs := want.Ints("vs")
	var seen []int
	for k, w := range vs {
		if k%2 == 0 && !m.HasNext() {
			return fail("HasNext is false although the merge has elements left", map[string]any{"emitted": seen})
		}
		v, ok := m.Next()
		if !ok {
			return fail("merge ends early (elements lost)", map[string]any{"emitted": seen})
		}
		seen = append(seen, v)
		if v != w {
			return fail("rest of the merge differs from contract", map[string]any{"emitted": seen})
		}
	}
	if m.HasNext() {
		return fail("HasNext is true although every element has been emitted", map[string]any{"emitted": seen})
	}
	if v, ok := m.Next(); ok {
		return fail("Next emits more elements than the inputs hold", map[string]any{"emitted": seen, "extra": v})
	}
	if m.HasNext() {
		return fail("HasNext is true after Next reported exhaustion", map[string]any{"emitted": seen})
	}
	return nil
}

// driveMixer runs the real mixer over long random inputs (sorted and unsorted,
// with many ties, with zero and negative values) under random call patterns
// and records every call with its real reply; TLC then decides whether each
// trace is a behaviour of Merge.tla (MergeTrace.tla).
func driveMixer(opt *Options) error {
	tw, err := NewTraceWriter(opt.Out)
	if err != nil {
		return err
	}
	defer tw.Close()
	rnd := rand.New(rand.NewSource(opt.Seed))
	steps := 300
	if s, ok := opt.Extra["steps"]; ok {
		fmt.Sscan(s, &steps)
	}
	maxLen := 60
	if s, ok := opt.Extra["maxlen"]; ok {
		fmt.Sscan(s, &maxLen)
	}
	sels := []string{"lt", "le", "true", "false"}
	gen := func() []int {
		n := 0
		switch rnd.Intn(6) {
		case 0:
			n = 0
		case 1:
			n = 1 + rnd.Intn(3)
		default:
			n = rnd.Intn(maxLen + 1)
		}
		span := []int{2, 3, 10, 1000, 1000000}[rnd.Intn(5)]
		off := 0
		if rnd.Intn(3) == 0 {
			off = -span / 2 // zero and negative values are ordinary elements
		}
		res := make([]int, n)
		for i := range res {
			res[i] = off + rnd.Intn(span)
		}
		switch rnd.Intn(5) {
		case 0, 1, 2:
			sort.Ints(res)
		case 3:
			sort.Sort(sort.Reverse(sort.IntSlice(res)))
		}
		return res
	}
	for t := 0; t < opt.N; t++ {
		s1, s2 := gen(), gen()
		r1, r2 := true, true
		if rnd.Intn(5) == 0 {
			r1, r2 = rnd.Intn(2) == 0, rnd.Intn(2) == 0
		}
		newStep := Step{"op": "New", "s1": s1, "s2": s2, "sel": sels[rnd.Intn(len(sels))], "r1": r1, "r2": r2}
		// Step.Ints expects []any (decoded JSON); build the object from the typed slices directly
		m, err := mixerBuild(Step{"op": "New", "sel": newStep["sel"], "r1": r1, "r2": r2,
			"s1": toAny(s1), "s2": toAny(s2)}, "")
		if err != nil {
			return err
		}
		tw.Emit(newStep)
		pHas := []int{0, 30, 50, 80}[rnd.Intn(4)] // percent of HasNext calls
		pReset := []int{0, 0, 1, 4}[rnd.Intn(4)]  // percent of Reset calls
		for i := 0; i < steps; i++ {
			op := "Next"
			switch k := rnd.Intn(100); {
			case k < pReset:
				op = "Reset"
			case k < pReset+pHas:
				op = "HasNext"
			}
			var got Step
			if p, pv := callPanics(func() { got = mixerCall(m, op) }); p {
				got = Step{"op": op, "crash": fmt.Sprint(pv)}
			}
			delete(got, "err")
			tw.Emit(got)
		}
	}
	return nil
}

func toAny(xs []int) []any {
	res := make([]any, len(xs))
	for i, x := range xs {
		res[i] = float64(x)
	}
	return res
}
