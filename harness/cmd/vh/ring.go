package main

import (
	"encoding/binary"
	"errors"
	"fmt"
	"io"
	"math"
	"math/rand"

	"github.com/acquirecloud/golibs/container"
	gerrors "github.com/acquirecloud/golibs/errors"
)

// C14: container.RingBuffer against spec/ring/RingBuffer.tla.

func init() {
	replayers["ring"] = replayRing
	drivers["ring"] = driveRing
}

// ringObj hides the element type: the same behaviours run on RingBuffer[int]
// and RingBuffer[*int] (the latter is where "consumed slots no longer reference
// the consumed values" matters for the garbage collector).
type ringObj interface {
	Write(v int) error
	Read() (int, error)
	ReadN(n int) []int
	Skip(n int) int
	At(i int) int
	Clear()
	Len() int
	Cap() int
	NonZeroSlots() int // number of slots of the backing array holding a non-zero value
	// Pos: length of the backing array and the physical read/write indices; used ONLY to choose arguments that land on
	// physical boundaries, never to judge a reply
	Pos() (int, int, int)
}

func (x *ringInt) Pos() (int, int, int) { return x.pos() }
func (x *ringPtr) Pos() (int, int, int) { return x.pos() }

type ringInt struct {
	r interface {
		container.RingBuffer[int]
	}
	raw func() []int
	pos func() (int, int, int)
	calls int
}

func newRingInt(c int) ringObj {
	rb := container.NewRingBuffer[int](uint(c))
	return &ringInt{r: rb, raw: func() []int { b, _, _ := container.VerifRingRaw(rb); return b },
		pos: func() (int, int, int) { b, r, w := container.VerifRingRaw(rb); return len(b), r, w }}
}
func (x *ringInt) Write(v int) error  { return x.r.Write(v) }
func (x *ringInt) Read() (int, error) { return x.r.Read() }
// ReadN hands over a destination with SPARE CAPACITY behind its length (a window of a larger array, as callers that
// read in batches have): the call may fill d[0:len(d)] and nothing else.  A count above len(d) comes back as that
// many elements, a write behind the window as one more element (-999) - neither is a reply the contract knows.
func (x *ringInt) ReadN(n int) []int {
	x.calls++
	spare := (x.calls % 3) * 4
	back := make([]int, n+spare)
	for i := n; i < len(back); i++ {
		back[i] = -777
	}
	k := x.r.ReadN(back[:n])
	if k < 0 || k > len(back) {
		return []int{-998, k}
	}
	res := append([]int{}, back[:k]...)
	from := n
	if k > n {
		from = k
	}
	for i := from; i < len(back); i++ {
		if back[i] != -777 {
			return append(res, -999)
		}
	}
	if k <= n {
		for i := n; i < len(back); i++ {
			if back[i] != -777 {
				return append(res, -999)
			}
		}
	}
	return res
}
func (x *ringInt) Skip(n int) int     { return x.r.Skip(n) }
func (x *ringInt) At(i int) int       { return x.r.At(i) }
func (x *ringInt) Clear()             { x.r.Clear() }
func (x *ringInt) Len() int           { return x.r.Len() }
func (x *ringInt) Cap() int           { return x.r.Cap() }
func (x *ringInt) NonZeroSlots() int {
	n := 0
	for _, v := range x.raw() {
		if v != 0 {
			n++
		}
	}
	return n
}

// RingBuffer[any]: elements of an interface type (the zero value is the nil interface)
type ringAny struct {
	r   container.RingBuffer[any]
	raw func() []any
	pos func() (int, int, int)
}

func newRingAny(c int) ringObj {
	rb := container.NewRingBuffer[any](uint(c))
	return &ringAny{r: rb, raw: func() []any { b, _, _ := container.VerifRingRaw(rb); return b },
		pos: func() (int, int, int) { b, r, w := container.VerifRingRaw(rb); return len(b), r, w }}
}
func anyInt(v any) int {
	i, _ := v.(int)
	return i
}
func (x *ringAny) Write(v int) error  { return x.r.Write(v) }
func (x *ringAny) Read() (int, error) { v, err := x.r.Read(); return anyInt(v), err }
func (x *ringAny) ReadN(n int) []int {
	d := make([]any, n)
	k := x.r.ReadN(d)
	res := make([]int, k)
	for i := 0; i < k; i++ {
		res[i] = anyInt(d[i])
	}
	return res
}
func (x *ringAny) Skip(n int) int { return x.r.Skip(n) }
func (x *ringAny) At(i int) int   { return anyInt(x.r.At(i)) }
func (x *ringAny) Clear()         { x.r.Clear() }
func (x *ringAny) Len() int       { return x.r.Len() }
func (x *ringAny) Cap() int       { return x.r.Cap() }
func (x *ringAny) NonZeroSlots() int {
	n := 0
	for _, v := range x.raw() {
		if v != nil {
			n++
		}
	}
	return n
}
func (x *ringAny) Pos() (int, int, int) { return x.pos() }

// RingBuffer[struct{}]: elements of size zero (a token counter); only counts, errors and panics can be observed
type ringUnit struct {
	r   container.RingBuffer[struct{}]
	pos func() (int, int, int)
}

func newRingUnit(c int) ringObj {
	rb := container.NewRingBuffer[struct{}](uint(c))
	return &ringUnit{r: rb, pos: func() (int, int, int) { b, r, w := container.VerifRingRaw(rb); return len(b), r, w }}
}
func (x *ringUnit) Write(v int) error { return x.r.Write(struct{}{}) }
func (x *ringUnit) Read() (int, error) {
	_, err := x.r.Read()
	return 0, err
}
func (x *ringUnit) ReadN(n int) []int {
	d := make([]struct{}, n)
	return make([]int, x.r.ReadN(d))
}
func (x *ringUnit) Skip(n int) int       { return x.r.Skip(n) }
func (x *ringUnit) At(i int) int         { x.r.At(i); return 0 }
func (x *ringUnit) Clear()               { x.r.Clear() }
func (x *ringUnit) Len() int             { return x.r.Len() }
func (x *ringUnit) Cap() int             { return x.r.Cap() }
func (x *ringUnit) NonZeroSlots() int    { return 0 }
func (x *ringUnit) Pos() (int, int, int) { return x.pos() }

type ringPtr struct {
	r   container.RingBuffer[*int]
	raw func() []*int
	pos func() (int, int, int)
}

func newRingPtr(c int) ringObj {
	rb := container.NewRingBuffer[*int](uint(c))
	return &ringPtr{r: rb, raw: func() []*int { b, _, _ := container.VerifRingRaw(rb); return b },
		pos: func() (int, int, int) { b, r, w := container.VerifRingRaw(rb); return len(b), r, w }}
}
func deref(p *int) int {
	if p == nil {
		return 0
	}
	return *p
}
func (x *ringPtr) Write(v int) error  { p := new(int); *p = v; return x.r.Write(p) }
func (x *ringPtr) Read() (int, error) { p, err := x.r.Read(); return deref(p), err }
func (x *ringPtr) ReadN(n int) []int {
	d := make([]*int, n)
	k := x.r.ReadN(d)
	res := make([]int, k)
	for i := 0; i < k; i++ {
		res[i] = deref(d[i])
	}
	return res
}
func (x *ringPtr) Skip(n int) int { return x.r.Skip(n) }
func (x *ringPtr) At(i int) int   { return deref(x.r.At(i)) }
func (x *ringPtr) Clear()         { x.r.Clear() }
func (x *ringPtr) Len() int       { return x.r.Len() }
func (x *ringPtr) Cap() int       { return x.r.Cap() }
func (x *ringPtr) NonZeroSlots() int {
	n := 0
	for _, v := range x.raw() {
		if v != nil {
			n++
		}
	}
	return n
}

// ---- element types Go cannot compare with == (slices, functions): RingBuffer[[]byte], RingBuffer[func() int] ---------
type ringBytes struct {
	r   container.RingBuffer[[]byte]
	raw func() [][]byte
	pos func() (int, int, int)
}

func newRingBytes(c int) ringObj {
	rb := container.NewRingBuffer[[]byte](uint(c))
	return &ringBytes{r: rb, raw: func() [][]byte { b, _, _ := container.VerifRingRaw(rb); return b },
		pos: func() (int, int, int) { b, r, w := container.VerifRingRaw(rb); return len(b), r, w }}
}
func bytesInt(b []byte) int {
	if len(b) != 8 {
		return 0
	}
	return int(binary.LittleEndian.Uint64(b))
}
func (x *ringBytes) Write(v int) error {
	b := make([]byte, 8)
	binary.LittleEndian.PutUint64(b, uint64(v))
	return x.r.Write(b)
}
func (x *ringBytes) Read() (int, error) { b, err := x.r.Read(); return bytesInt(b), err }
func (x *ringBytes) ReadN(n int) []int {
	d := make([][]byte, n)
	k := x.r.ReadN(d)
	res := make([]int, k)
	for i := 0; i < k; i++ {
		res[i] = bytesInt(d[i])
	}
	return res
}
func (x *ringBytes) Skip(n int) int { return x.r.Skip(n) }
func (x *ringBytes) At(i int) int   { return bytesInt(x.r.At(i)) }
func (x *ringBytes) Clear()         { x.r.Clear() }
func (x *ringBytes) Len() int       { return x.r.Len() }
func (x *ringBytes) Cap() int       { return x.r.Cap() }
func (x *ringBytes) NonZeroSlots() int {
	n := 0
	for _, v := range x.raw() {
		if v != nil {
			n++
		}
	}
	return n
}
func (x *ringBytes) Pos() (int, int, int) { return x.pos() }

type ringFunc struct {
	r   container.RingBuffer[func() int]
	raw func() []func() int
	pos func() (int, int, int)
}

func newRingFunc(c int) ringObj {
	rb := container.NewRingBuffer[func() int](uint(c))
	return &ringFunc{r: rb, raw: func() []func() int { b, _, _ := container.VerifRingRaw(rb); return b },
		pos: func() (int, int, int) { b, r, w := container.VerifRingRaw(rb); return len(b), r, w }}
}
func callInt(f func() int) int {
	if f == nil {
		return 0
	}
	return f()
}
func (x *ringFunc) Write(v int) error  { return x.r.Write(func() int { return v }) }
func (x *ringFunc) Read() (int, error) { f, err := x.r.Read(); return callInt(f), err }
func (x *ringFunc) ReadN(n int) []int {
	d := make([]func() int, n)
	k := x.r.ReadN(d)
	res := make([]int, k)
	for i := 0; i < k; i++ {
		res[i] = callInt(d[i])
	}
	return res
}
func (x *ringFunc) Skip(n int) int { return x.r.Skip(n) }
func (x *ringFunc) At(i int) int   { return callInt(x.r.At(i)) }
func (x *ringFunc) Clear()         { x.r.Clear() }
func (x *ringFunc) Len() int       { return x.r.Len() }
func (x *ringFunc) Cap() int       { return x.r.Cap() }
func (x *ringFunc) NonZeroSlots() int {
	n := 0
	for _, v := range x.raw() {
		if v != nil {
			n++
		}
	}
	return n
}
func (x *ringFunc) Pos() (int, int, int) { return x.pos() }

func ringErrName(err error) string {
	switch {
	case err == nil:
		return "nil"
	case errors.Is(err, gerrors.ErrExhausted):
		return "exhausted"
	case err == io.EOF:
		return "eof"
	}
	return "other:" + err.Error()
}

// ringApply performs one call on the real object and returns the reply in the
// same shape the specification uses.
// realArg: a step may carry "_n", the argument really passed, when it does not fit TLC's 32-bit
// integers (math.MaxInt and neighbours); the logged "n" is then a clamped stand-in that the contract
// treats identically (any n >= Len moves Len elements).
func realArg(s Step, k string) int {
	if v, ok := s["_"+k].(int); ok {
		return v
	}
	return s.Int(k)
}

func ringApply(o ringObj, s Step) Step {
	got := Step{"op": s.Str("op")}
	switch s.Str("op") {
	case "Write":
		got["v"] = s.Int("v")
		got["err"] = ringErrName(o.Write(s.Int("v")))
	case "Read":
		v, err := o.Read()
		got["v"] = v
		got["err"] = ringErrName(err)
	case "ReadN":
		vs := o.ReadN(s.Int("n"))
		got["n"] = s.Int("n")
		got["k"] = len(vs)
		got["vs"] = vs
	case "Skip":
		got["n"] = s.Int("n")
		got["k"] = o.Skip(realArg(s, "n"))
	case "At":
		got["i"] = s.Int("i")
		var v int
		p, _ := callPanics(func() { v = o.At(realArg(s, "i")) })
		got["panic"] = p
		got["v"] = v
	case "Clear":
		o.Clear()
	case "Len":
		got["k"] = o.Len()
	case "Cap":
		got["k"] = o.Cap()
	}
	return got
}

func ringSame(got, want Step) bool {
	for k, w := range want {
		g := got[k]
		switch wv := w.(type) {
		case float64:
			gi, ok := g.(int)
			if !ok || gi != int(wv) {
				return false
			}
		case string:
			if g != wv {
				return false
			}
		case bool:
			if g != wv {
				return false
			}
		case []any:
			gs, ok := g.([]int)
			if !ok || len(gs) != len(wv) {
				return false
			}
			for i := range wv {
				if float64(gs[i]) != wv[i] {
					return false
				}
			}
		}
	}
	return true
}

func replayRing(b Behaviour, opt *Options) *Failure {
	if len(b) == 0 || b[0].Str("op") != "New" {
		return &Failure{Step: 0, Sig: "harness: behaviour does not start with New"}
	}
	mk := newRingInt
	if opt.Variant == "ptr" {
		mk = newRingPtr
	}
	o := mk(b[0].Int("cap"))
	for i := 1; i < len(b); i++ {
		var got Step
		p, pv := callPanics(func() { got = ringApply(o, b[i]) })
		if p {
			return &Failure{Step: i, Sig: "ring: " + b[i].Str("op") + " panicked", Got: fmt.Sprint(pv), Want: b[i]}
		}
		if !ringSame(got, b[i]) {
			return &Failure{Step: i, Sig: "ring: " + b[i].Str("op") + " reply differs from contract", Got: got, Want: b[i]}
		}
		// zeroing clause: all written values are non-zero, so the number of
		// non-zero slots of the backing array must equal the number of live elements
		if nz, ln := o.NonZeroSlots(), o.Len(); nz != ln {
			return &Failure{Step: i, Sig: "ring: consumed slot still references a value after " + b[i].Str("op"),
				Got: map[string]int{"nonzero_slots": nz, "len": ln}, Want: "nonzero_slots == len"}
		}
	}
	return nil
}

// driveRing runs long random call sequences on large capacities with huge
// ReadN/Skip arguments and records every call with its real reply; TLC then
// decides whether each trace is a behaviour of RingBuffer.tla (RingTrace.tla).
func driveRing(opt *Options) error {
	if opt.Extra["mode"] == "big" {
		return driveRingBig(opt)
	}
	tw, err := NewTraceWriter(opt.Out)
	if err != nil {
		return err
	}
	defer tw.Close()
	rnd := rand.New(rand.NewSource(opt.Seed))
	caps := []int{0, 1, 2, 5, 7, 64, 1000}
	steps := 150
	if s, ok := opt.Extra["steps"]; ok {
		fmt.Sscan(s, &steps)
	}
	// structured bursts on larger capacities: fill to the brim from every region of the index space, consume in
	// runs whose lengths sit on and around powers of two (the zeroing helper copies in doubling steps)
	nb := 4
	if opt.N > 200 {
		nb = 16
	}
	for t := 0; t < nb; t++ {
		c := []int{64, 100, 257, 1000, 1300}[(t+int(opt.Seed))%5]
		mk := newRingInt
		if t%2 == 1 {
			mk = newRingPtr
		}
		if t%4 == 2 {
			mk = newRingAny
		}
		if t%8 == 5 {
			mk = newRingBytes
		}
		if t%8 == 7 {
			mk = newRingFunc
		}
		o := mk(c)
		tw.Emit(map[string]any{"op": "New", "cap": c})
		next := 1
		do := func(s Step) {
			var got Step
			if p, pv := callPanics(func() { got = ringApply(o, s) }); p {
				got = Step{"op": s.Str("op"), "crash": fmt.Sprint(pv)}
			}
			got["nz"] = o.NonZeroSlots()
			tw.Emit(got)
		}
		special := []int{31, 32, 33, 63, 64, 65, 127, 128, 129, 255, 256, 257, 511, 512, 513, 1023, 1024, 1025}
		for round := 0; round < 10; round++ {
			// write: mostly to the brim, sometimes one past it
			free := o.Cap() - o.Len()
			w := free
			if rnd.Intn(3) == 0 && free > 0 {
				w = rnd.Intn(free + 1)
			}
			for i := 0; i <= w && i < free+1; i++ {
				do(Step{"op": "Write", "v": next})
				next++
			}
			do(Step{"op": "Len"})
			// consume one run
			n := special[rnd.Intn(len(special))]
			if rnd.Intn(3) == 0 {
				n = rnd.Intn(c + 2)
			}
			if rnd.Intn(2) == 0 {
				do(Step{"op": "ReadN", "n": n})
			} else {
				do(Step{"op": "Skip", "n": n})
			}
			if o.Len() > 0 {
				do(Step{"op": "At", "i": o.Len() - 1})
				do(Step{"op": "At", "i": rnd.Intn(o.Len())})
			}
		}
		do(Step{"op": "Clear"})
		do(Step{"op": "Len"})
	}
	for t := 0; t < opt.N; t++ {
		c := caps[rnd.Intn(len(caps))]
		mk := newRingInt
		if t%2 == 1 {
			mk = newRingPtr
		}
		if t%6 == 3 {
			mk = newRingBytes // elements Go cannot compare with ==
		}
		if t%6 == 5 {
			mk = newRingFunc
		}
		o := mk(c)
		tw.Emit(map[string]any{"op": "New", "cap": c})
		next := 1
		for i := 0; i < steps; i++ {
			var s Step
			arg := func() int {
				switch rnd.Intn(6) {
				case 0:
					return -1 - rnd.Intn(3)
				case 1:
					return 0
				case 2:
					return c + rnd.Intn(3)
				case 3:
					return 1<<31 - 1 - rnd.Intn(5)
				}
				return rnd.Intn(c + 2)
			}
			switch k := rnd.Intn(20); {
			case k < 9:
				s = Step{"op": "Write", "v": next}
				next++
			case k < 11:
				s = Step{"op": "Read"}
			case k < 13:
				n := arg()
				if n < 0 {
					n = 0
				}
				if n > 3000 {
					n = 2000 + rnd.Intn(1000)
				}
				s = Step{"op": "ReadN", "n": n}
			case k < 15:
				s = Step{"op": "Skip", "n": arg()}
				if rnd.Intn(6) == 0 { // the "drain everything" idiom and its neighbours
					s = Step{"op": "Skip", "n": 1<<31 - 1, "_n": math.MaxInt - rnd.Intn(3)}
				} else if rnd.Intn(12) == 0 {
					s = Step{"op": "Skip", "n": -1, "_n": math.MinInt + rnd.Intn(3)}
				}
			case k < 17:
				s = Step{"op": "At", "i": arg()}
				if rnd.Intn(8) == 0 {
					s = Step{"op": "At", "i": 1<<31 - 1, "_i": math.MaxInt - rnd.Intn(3)}
				}
			case k < 18:
				s = Step{"op": "Len"}
			case k < 19:
				s = Step{"op": "Cap"}
			default:
				if rnd.Intn(4) == 0 {
					s = Step{"op": "Clear"}
				} else {
					s = Step{"op": "Len"}
				}
			}
			var got Step
			p, pv := callPanics(func() { got = ringApply(o, s) })
			if p {
				got = Step{"op": s.Str("op"), "crash": fmt.Sprint(pv)}
			}
			got["nz"] = o.NonZeroSlots()
			tw.Emit(got)
		}
	}
	return nil
}
