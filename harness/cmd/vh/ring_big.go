package main

import (
	"fmt"
	"math"
	"math/rand"
)

// driveRingBig: the consecutive-integers workload of spec/ring/RingBig.tla on capacities of up to tens of thousands
// of elements.  Replies are summarised (run of Writes -> accepted count; ReadN / Scan -> length, first, last,
// consecutive) so that a trace line stays small whatever the capacity; TLC validates the trace against
// RingBig!BigApply (RingBigTrace.tla).  Arguments are chosen to land on and around the physical end of the backing
// array, the fill level, the capacity and powers of two (using the verif hook's indices to CHOOSE, never to judge).
func driveRingBig(opt *Options) error {
	tw, err := NewTraceWriter(opt.Out)
	if err != nil {
		return err
	}
	defer tw.Close()
	rnd := rand.New(rand.NewSource(opt.Seed))
	caps := []int{48, 50, 64, 100, 128, 257, 1000, 4095, 4096, 4097, 5000, 8192, 10000, 12289, 20000, 65537}
	rounds := 14
	if s, ok := opt.Extra["rounds"]; ok {
		fmt.Sscan(s, &rounds)
	}
	for t := 0; t < opt.N; t++ {
		c := caps[(t+int(opt.Seed))%len(caps)]
		if rnd.Intn(4) == 0 {
			c = 40 + rnd.Intn(9000)
		}
		mk := newRingInt
		if t%3 == 2 && c <= 20000 {
			mk = newRingPtr
		}
		if t%5 == 4 && c <= 20000 {
			mk = newRingAny // elements of an interface type
		}
		unit := t%7 == 3 // elements of size zero: only counts, errors and panics are observable
		if unit {
			mk = newRingUnit
		}
		if t%11 == 5 {
			// beyond 2^20 elements (an implementation may treat very large buffers differently, e.g. replace the array
			// instead of wiping it)
			c = 1<<20 + 500 + rnd.Intn(1000)
			mk, unit = newRingInt, false
		}
		huge := c > 1<<20
		vast := unit && t%14 == 3 // zero-size elements cost nothing: a capacity at the top of the int range
		if vast {
			c = math.MaxInt - 1 - rnd.Intn(3)
		}
		o := mk(c)
		next := 1 + rnd.Intn(1000)
		logCap := c
		if logCap > 1<<31-1 {
			logCap = 1<<31 - 1 // (TLC's integers; the script below stays far away from the capacity)
		}
		tw.Emit(map[string]any{"op": "New", "cap": logCap, "first": next, "unit": unit})
		if vast {
			dead := false
			step := func(s Step) {
				if dead {
					return
				}
				var got Step
				if p, pv := callPanics(func() { got = ringBigApply(o, s, &next) }); p {
					got, dead = Step{"op": s.Str("op"), "crash": fmt.Sprint(pv)}, true
				}
				got["nz"] = 0
				tw.Emit(got)
			}
			for _, s := range []Step{{"op": "Len"}, {"op": "WriteRun", "n": 3}, {"op": "Len"}, {"op": "Read"}, {"op": "Skip", "n": 1},
				{"op": "At", "i": 0}, {"op": "At", "i": 1}, {"op": "Len"}, {"op": "WriteRun", "n": 70}, {"op": "ReadN", "n": 64},
				{"op": "Len"}, {"op": "Clear"}, {"op": "Len"}, {"op": "Read"}} {
				step(s)
			}
			continue
		}
		dead := false
		do := func(s Step) {
			if dead {
				return
			}
			var got Step
			if p, pv := callPanics(func() { got = ringBigApply(o, s, &next) }); p {
				got = Step{"op": s.Str("op"), "crash": fmt.Sprint(pv)}
				dead = true // the object may be left in any state: stop this trace at the crash
			}
			if !dead {
				if p, _ := callPanics(func() { got["nz"] = o.NonZeroSlots() }); p {
					got["nz"] = -1
				}
			}
			tw.Emit(got)
		}
		pow := []int{1, 2, 31, 32, 33, 49, 50, 51, 63, 64, 65, 127, 128, 129, 255, 256, 257, 1023, 1024, 1025,
			4095, 4096, 4097, 8191, 8192, 8193, 16384, 32768}
		amount := func() int {
			bl, r, _ := o.Pos()
			ln := o.Len()
			var n int
			switch rnd.Intn(9) {
			case 0:
				n = ln
			case 1:
				n = ln - 1 - rnd.Intn(2)
			case 2, 3: // land exactly on / next to the physical end of the backing array
				n = bl - r + rnd.Intn(3) - 1
			case 4:
				n = c + rnd.Intn(3) - 1
			case 5, 6:
				n = pow[rnd.Intn(len(pow))]
			case 7:
				n = ln/2 + rnd.Intn(3)
			default:
				n = rnd.Intn(c + 2)
			}
			return n
		}
		if huge {
			do(Step{"op": "WriteRun", "n": c + 1})
			do(Step{"op": "Clear"})
			do(Step{"op": "Cap"})
			do(Step{"op": "Len"})
			do(Step{"op": "WriteRun", "n": c + 1}) // to the brim again: exactly Cap elements fit
			do(Step{"op": "Skip", "n": c/2 + rnd.Intn(100)})
			do(Step{"op": "Read"})
			do(Step{"op": "Clear"})
			do(Step{"op": "WriteRun", "n": c + 2})
			do(Step{"op": "Len"})
			do(Step{"op": "At", "i": c - 1})
			do(Step{"op": "Cap"})
			continue
		}
		for round := 0; round < rounds && !dead; round++ {
			// write: to the brim, one past it, or part of the free space
			free := o.Cap() - o.Len()
			w := free + 1
			switch rnd.Intn(4) {
			case 0:
				w = rnd.Intn(free + 1)
			case 1:
				w = free
			}
			do(Step{"op": "WriteRun", "n": w})
			do(Step{"op": "Len"})
			if rnd.Intn(3) == 0 && !unit {
				do(Step{"op": "Scan"})
			}
			n := amount()
			switch k := rnd.Intn(10); {
			case k < 4:
				if n < 0 {
					n = 0
				}
				do(Step{"op": "ReadN", "n": n})
			case k < 9:
				do(Step{"op": "Skip", "n": n})
			default:
				do(Step{"op": "Skip", "n": 1<<31 - 1, "_n": math.MaxInt - rnd.Intn(2)})
			}
			// expose a damaged index or a damaged neighbour at once
			switch rnd.Intn(4) {
			case 0:
				do(Step{"op": "Read"})
			case 1:
				do(Step{"op": "Skip", "n": 1 + rnd.Intn(3)})
			case 2:
				do(Step{"op": "ReadN", "n": 1 + rnd.Intn(40)})
			default:
				do(Step{"op": "At", "i": 0})
			}
			if ln := o.Len(); ln > 0 && !dead {
				do(Step{"op": "At", "i": ln - 1})
				do(Step{"op": "At", "i": rnd.Intn(ln)})
			}
			do(Step{"op": "At", "i": o.Len()})
			if rnd.Intn(2) == 0 && !unit {
				do(Step{"op": "Scan"})
			}
			if rnd.Intn(7) == 0 {
				do(Step{"op": "Clear"})
				do(Step{"op": "Read"})
			}
		}
		if !unit {
			do(Step{"op": "Scan"})
		}
		do(Step{"op": "Cap"})
	}
	return nil
}

func summarize(vs []int) (first, last int, consec bool) {
	consec = true
	if len(vs) > 0 {
		first, last = vs[0], vs[len(vs)-1]
	}
	for i := 1; i < len(vs); i++ {
		if vs[i] != vs[i-1]+1 {
			consec = false
		}
	}
	return
}

func ringBigApply(o ringObj, s Step, next *int) Step {
	switch s.Str("op") {
	case "WriteRun":
		n, ok, inorder, refused := s.Int("n"), 0, true, false
		for i := 0; i < n; i++ {
			if err := o.Write(*next); err == nil {
				if refused {
					inorder = false
				}
				ok++
				*next++
			} else if ringErrName(err) == "exhausted" {
				refused = true
			} else {
				return Step{"op": "WriteRun", "n": n, "ok": -1, "inorder": false, "err": err.Error()}
			}
		}
		return Step{"op": "WriteRun", "n": n, "ok": ok, "inorder": inorder}
	case "ReadN":
		vs := o.ReadN(s.Int("n"))
		f, l, c := summarize(vs)
		return Step{"op": "ReadN", "n": s.Int("n"), "k": len(vs), "first": f, "last": l, "consec": c}
	case "Scan":
		ln := o.Len()
		vs := make([]int, 0, ln)
		for i := 0; i < ln; i++ {
			vs = append(vs, o.At(i))
		}
		f, l, c := summarize(vs)
		return Step{"op": "Scan", "k": len(vs), "first": f, "last": l, "consec": c}
	}
	return ringApply(o, s)
}
