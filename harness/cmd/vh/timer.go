package main

import (
	"encoding/json"
	"fmt"
	"math"
	"math/rand"
	"os"
	"runtime"
	"sort"
	"strings"
	"sync"
	"sync/atomic"
	"time"

	"github.com/acquirecloud/golibs/timeout"
)

// C12 / C13: package timeout against spec/timer/TimerAbs.tla.
//
// The package is a process-global singleton that reads the real clock, so the
// binding is code -> spec: arrival SCRIPTS (projected TLC behaviours of
// TimerImpl.tla / TimerHeap.tla, an enumerated pattern family, or seeded random
// scripts) are executed on the real package in real time, every observation
// is stamped with the monotonic clock, and the recorded timed trace is judged
// by TLC against TimerTrace.tla.  This file never judges anything itself.
//
// Soundness of the stamps (all from one monotonic clock, floor to microseconds):
//   Call:      tb is taken before timeout.Call is entered, ta after it returned;
//   Start:     t is the first statement of the scheduled function;
//   CancelRet: t is taken after Cancel returned.
// An execution during which the stall detector (5 ms sleep loop) saw an
// overshoot above 250 ms is discarded and repeated, never written to the trace.

func init() {
	drivers["timer"] = driveTimer
}

const (
	tmFar       = 10 * time.Second // "far" futures of stretched scripts; always cancelled by the harness
	tmStallOver = 250 * time.Millisecond
)

// tmDeadlineHits counts observations that ran into their generous deadline (a future not started 2 s
// after it was due, a pool not wound down).  After a few of them the remaining scripts of this
// process are skipped: what was recorded is judged by TLC, and a broken package need not be waited
// for hundreds of times.
var tmDeadlineHits atomic.Int32

type tmStep struct {
	Op   string // call | cancel | xcancel | tick | idle
	I    int    // future number inside the script (1-based, in call order)
	D    int    // delay in units (call)
	N    int    // units (tick)
	Slow int    // the callback sleeps Slow units (call)
	Nil  bool   // Call(nil, d): nothing is scheduled; Cancel of the result must be harmless
	Cold bool   // chase: every round starts from a pool that has wound down
}

type tmScript []tmStep

type tmParams struct {
	unit     time.Duration
	idle     time.Duration // idle timeout configured in the package
	maxw     int
	late     bool // judge lateness (only when every callback returns promptly)
	L, Q     time.Duration
	slack    time.Duration
	stretch  int  // delay classes >= stretch (in units) become tmFar and are cancelled after Quiesce; 0 = off
	idleChk  bool // perform Idle observations ("idle" steps and at the end); needs exclusive use of the package
	restart  bool // after the final Idle observation schedule one more future and require it to start
	sample   bool // log the largest pool size seen (pool-limit clause of C13)
	jitterNs int64
	gap      time.Duration // order clause of the contract (single worker, cancels before anything is due); 0 = off
}

type tmEv struct {
	kind  string
	i     int
	d     int64 // us
	t     int64 // ns (Call: tb)
	t2    int64 // ns (Call: ta)
	w     int
	quiet int64 // ns
	panic bool
	seq   int
}

type tmFut struct {
	id        int
	fut       timeout.Future
	refNs     int64 // ta + d
	far       bool
	started   atomic.Bool
	cancelInv atomic.Bool // the harness invoked Cancel on it (before or after it fired)
	cancelRet atomic.Bool
	ready     atomic.Bool // Call returned and was logged: other goroutines may cancel it
}

type tmExec struct {
	p       tmParams
	t0      time.Time
	mu      sync.Mutex
	evs     []tmEv
	futs    []*tmFut
	closed  bool
	lastAct atomic.Int64
	running atomic.Int32
	stalled atomic.Bool
	maxSeen atomic.Int32
}

func (e *tmExec) stamp() int64 { return int64(time.Since(e.t0)) }

func (e *tmExec) touch(t int64) {
	for {
		o := e.lastAct.Load()
		if t <= o || e.lastAct.CompareAndSwap(o, t) {
			return
		}
	}
}

func (e *tmExec) log(ev tmEv) {
	e.mu.Lock()
	if !e.closed {
		ev.seq = len(e.evs)
		e.evs = append(e.evs, ev)
	}
	e.mu.Unlock()
}

// call schedules one function on the real package.
func (e *tmExec) call(d time.Duration, slow time.Duration, far bool, nilFn bool) *tmFut {
	fu := &tmFut{far: far}
	e.mu.Lock()
	fu.id = len(e.futs) + 1
	e.futs = append(e.futs, fu)
	e.mu.Unlock()
	var fn func()
	if !nilFn {
		fn = func() {
			t := e.stamp() // first statement of the scheduled function
			e.running.Add(1)
			fu.started.Store(true)
			e.log(tmEv{kind: "Start", i: fu.id, t: t})
			if slow > 0 {
				time.Sleep(slow)
			}
			e.touch(e.stamp())
			e.running.Add(-1)
		}
	}
	tb := e.stamp()
	f := timeout.Call(fn, d)
	ta := e.stamp()
	fu.fut = f
	if d > 1000*time.Second {
		// "never": what is recorded (and reasoned with) is a stand-in of 1000 s - TLC's integers are 32-bit, and for
		// the contract any delay beyond the run's horizon is the same delay
		d = 1000 * time.Second
	}
	fu.refNs = ta + int64(d)
	if nilFn {
		// nothing was scheduled: the contract has nothing to say about this future except that
		// cancelling it is harmless; it is recorded as cancelled right away
		fu.cancelInv.Store(true)
		fu.cancelRet.Store(true)
		e.log(tmEv{kind: "Call", i: fu.id, d: int64(d / time.Microsecond), t: tb, t2: ta})
		e.log(tmEv{kind: "CancelRet", i: fu.id, t: ta})
	} else {
		e.log(tmEv{kind: "Call", i: fu.id, d: int64(d / time.Microsecond), t: tb, t2: ta})
	}
	e.touch(ta)
	fu.ready.Store(true)
	return fu
}

func (e *tmExec) cancel(fu *tmFut) {
	fu.cancelInv.Store(true)
	panicked, _ := callPanics(func() { fu.fut.Cancel() })
	t := e.stamp()
	if fu.id%5 == 0 {
		// a cancelled future is printed (fmt.Stringer): looking at a future must not disturb the package
		callPanics(func() { _ = fmt.Sprint(fu.fut) })
	}
	fu.cancelRet.Store(true)
	e.log(tmEv{kind: "CancelRet", i: fu.id, t: t, panic: panicked})
	e.touch(t)
}

// pending: futures of this execution the package still owes something (in the harness's view).
func (e *tmExec) pending() int {
	e.mu.Lock()
	defer e.mu.Unlock()
	n := 0
	for _, f := range e.futs {
		if !f.started.Load() && !f.cancelRet.Load() {
			n++
		}
	}
	return n
}

// tmGoroutines counts the goroutines that were CREATED BY package timeout (its background
// goroutines, whatever their functions are called); harness goroutines that are merely inside
// timeout.Call / Cancel / an accessor are not counted.
func tmGoroutines() int {
	buf := make([]byte, 1<<20)
	for {
		n := runtime.Stack(buf, true)
		if n < len(buf) {
			buf = buf[:n]
			break
		}
		buf = make([]byte, 2*len(buf))
	}
	cnt := 0
	for _, g := range strings.Split(string(buf), "\n\n") {
		for _, ln := range strings.Split(g, "\n") {
			if strings.HasPrefix(ln, "created by ") && strings.Contains(ln, "golibs/timeout.") {
				cnt++
				break
			}
		}
	}
	return cnt
}

func tmWatchers() int {
	w := timeout.VerifWatchers()
	if g := tmGoroutines(); g > w {
		w = g
	}
	return w
}

// idleObs waits for the pool to wind down (at most 2*idle+slack after the last activity) and logs what it saw.
func (e *tmExec) idleObs() {
	if e.pending() > 0 {
		time.Sleep(e.p.unit)
		return
	}
	for e.running.Load() > 0 {
		time.Sleep(time.Millisecond)
	}
	bound := 2*e.p.idle + e.p.slack
	for {
		// the stamp is taken BEFORE the pool is looked at: `quiet` is a lower bound of the quiet time at that look
		now := e.stamp()
		quiet := now - e.lastAct.Load()
		w := timeout.VerifWatchers()
		if w == 0 {
			w = tmWatchers()
		}
		if w == 0 || quiet >= int64(bound)+int64(20*time.Millisecond) {
			e.log(tmEv{kind: "Idle", t: now, w: w, quiet: quiet})
			if w != 0 {
				tmDeadlineHits.Add(1)
			}
			return
		}
		time.Sleep(2 * time.Millisecond)
	}
}

// quiesce waits until every future nobody cancelled has started, at most until Q after the latest reference time.
func (e *tmExec) quiesce() {
	e.mu.Lock()
	futs := append([]*tmFut(nil), e.futs...)
	e.mu.Unlock()
	var deadline int64
	for _, f := range futs {
		if !f.far && !f.cancelInv.Load() && f.refNs > deadline {
			deadline = f.refNs
		}
	}
	deadline += int64(e.p.Q) + int64(50*time.Millisecond)
	for {
		all := true
		for _, f := range futs {
			if !f.far && !f.cancelInv.Load() && !f.started.Load() {
				all = false
				break
			}
		}
		if all {
			break
		}
		if e.stamp() > deadline {
			tmDeadlineHits.Add(1)
			break
		}
		time.Sleep(time.Millisecond)
	}
	e.log(tmEv{kind: "Quiesce", t: e.stamp()})
}

// runScript executes one script; its clock starts when the goroutine starts.
func (e *tmExec) runScript(sc tmScript, rnd *rand.Rand, alone bool) {
	start := time.Now()
	clock := 0 // script time in units
	var mine []*tmFut
	for _, st := range sc {
		switch st.Op {
		case "call":
			d := time.Duration(st.D) * e.p.unit
			far := false
			if e.p.stretch > 0 && st.D >= e.p.stretch {
				d, far = tmFar, true
				if rnd.Intn(3) == 0 {
					// "never", as callers write it: the largest duration there is (its fire time lies beyond what a
					// 64-bit nanosecond count of wall time can hold); cancelled after Quiesce like every far future
					d = time.Duration(math.MaxInt64)
				}
			}
			mine = append(mine, e.call(d, time.Duration(st.Slow)*e.p.unit, far, st.Nil))
		case "cancel":
			if st.I >= 1 && st.I <= len(mine) {
				e.cancel(mine[st.I-1])
			}
		case "xcancel": // any future of the execution, whoever scheduled it (concurrent Cancels of one future included)
			e.mu.Lock()
			var fu *tmFut
			if len(e.futs) > 0 && rnd != nil {
				fu = e.futs[rnd.Intn(len(e.futs))]
			}
			e.mu.Unlock()
			if fu != nil && fu.ready.Load() && !fu.far {
				e.cancel(fu)
			}
		case "chase":
			// "a short delay scheduled while the dispatcher is on its way to sleep towards a distant one": a far
			// Call wakes the dispatcher, and a few microseconds later - while it examines the queue, arms its timer
			// and goes to sleep - a near Call arrives.  Thousands of rounds with a random gap; the far future is
			// cancelled at the end of each round.  A wake-up lost in that window shows as a near future that is not
			// started (Quiesce) or started seconds late.
			for k := 0; k < st.N; k++ {
				gap := time.Duration(rnd.Intn(30000))
				if st.Cold {
					// cold variant: the pool has wound down (idle time-out of a fraction of a millisecond), the far Call
					// starts a fresh worker, and the gap is swept in steps of half a microsecond up to 150 us
					for t0 := time.Now(); timeout.VerifWatchers() > 0 && time.Since(t0) < 50*time.Millisecond; {
						time.Sleep(50 * time.Microsecond)
					}
					gap = time.Duration(k%300) * 500 * time.Nanosecond
				}
				farFu := e.call(tmFar, 0, true, false)
				for t0 := time.Now(); time.Since(t0) < gap; {
				}
				near := e.call(200*time.Microsecond, 0, false, false)
				for t0 := time.Now(); !near.started.Load() && time.Since(t0) < 2500*time.Millisecond; {
					time.Sleep(50 * time.Microsecond)
				}
				e.cancel(farFu)
				if !near.started.Load() {
					break // the verdict is established at Quiesce; no need to wait 2.5 s a thousand times
				}
			}
		case "never":
			// delays at the very top of the range of time.Duration ("never"): now + d does not fit a 64-bit nanosecond
			// count; such futures must simply not start (they are cancelled after Quiesce like every far future)
			for _, d := range []time.Duration{math.MaxInt64, math.MaxInt64 - 1, math.MaxInt64 - time.Duration(rnd.Intn(1<<30)), 1 << 62, 292 * 365 * 24 * time.Hour} {
				mine = append(mine, e.call(d, 0, true, false))
			}
			time.Sleep(20 * e.p.unit)
		case "retire":
			// "a Call arriving exactly when the last worker retires": the idle time-out of this execution is one
			// nanosecond, so the worker leaves as soon as it has started the only future there is; the next Call
			// follows after a random gap of 0-3 microseconds.  A Call that meets the retiring worker half-way
			// (counted as alive, but gone) leaves a future that nobody will ever start: shown at Quiesce.
			for k := 0; k < st.N; k++ {
				near := e.call(0, 0, false, false)
				for t0 := time.Now(); !near.started.Load() && time.Since(t0) < 2500*time.Millisecond; {
					if time.Since(t0) > 200*time.Microsecond {
						time.Sleep(20 * time.Microsecond)
					}
				}
				if !near.started.Load() {
					break
				}
				for t0, g := time.Now(), time.Duration(rnd.Intn(3000)); time.Since(t0) < g; {
				}
			}
		case "tick":
			n := st.N
			if n <= 0 {
				n = 1
			}
			clock += n
			target := start.Add(time.Duration(clock) * e.p.unit)
			if e.p.jitterNs > 0 && rnd != nil {
				target = target.Add(time.Duration(rnd.Int63n(e.p.jitterNs)))
			}
			if dt := time.Until(target); dt > 0 {
				time.Sleep(dt)
			} else {
				// the script fell behind (idle observation, slow host): re-base its clock
				start = start.Add(-dt)
			}
		case "idle":
			if e.p.idleChk && alone {
				t := time.Now()
				e.idleObs()
				start = start.Add(time.Since(t)) // script time does not advance
			} else {
				time.Sleep(e.p.unit)
				start = start.Add(e.p.unit)
			}
		}
	}
}

// settle waits until the package holds nothing and runs nothing (so that one execution cannot disturb the next).
func tmSettle(e *tmExec, max time.Duration) bool {
	end := time.Now().Add(max)
	for time.Now().Before(end) {
		if timeout.VerifPending() == 0 && (e == nil || e.running.Load() == 0) {
			return true
		}
		time.Sleep(time.Millisecond)
	}
	return false
}

// execute runs the scripts concurrently (one goroutine each) under the stall detector and returns the events.
func tmExecute(p tmParams, scripts []tmScript, seed int64) (evs []tmEv, stalled bool, nfut int, pp tmParams) {
	// slow callbacks may all be serialised on one worker: the quiescence bound grows by their total duration
	for _, sc := range scripts {
		for _, st := range sc {
			p.Q += time.Duration(st.Slow) * p.unit
		}
	}
	if p.sample {
		// the pool-limit clause needs the previous execution's workers (possibly a larger pool) to be gone
		oldIdle, _ := timeout.VerifConfigure(0, 0)
		end := time.Now().Add(2*oldIdle + 1500*time.Millisecond)
		for timeout.VerifWatchers() > 0 && time.Now().Before(end) {
			time.Sleep(2 * time.Millisecond)
		}
		if timeout.VerifWatchers() > 0 {
			p.sample = false
		}
	}
	timeout.VerifConfigure(p.idle, p.maxw)
	pp = p
	e := &tmExec{p: p, t0: time.Now()}
	stop := make(chan struct{})
	var det sync.WaitGroup
	det.Add(1)
	go func() { // stall detector + pool-size sampler
		defer det.Done()
		for {
			select {
			case <-stop:
				return
			default:
			}
			t := time.Now()
			time.Sleep(5 * time.Millisecond)
			if time.Since(t) > 5*time.Millisecond+tmStallOver {
				e.stalled.Store(true)
			}
			if w := int32(timeout.VerifWatchers()); w > e.maxSeen.Load() {
				e.maxSeen.Store(w)
			}
		}
	}()
	var wg sync.WaitGroup
	for k, sc := range scripts {
		wg.Add(1)
		go func(k int, sc tmScript) {
			defer wg.Done()
			e.runScript(sc, rand.New(rand.NewSource(seed*1000+int64(k))), len(scripts) == 1)
		}(k, sc)
	}
	wg.Wait()
	e.quiesce()
	// far futures were only there to occupy the head / the dispatcher's sleep: remove them now
	e.mu.Lock()
	futs := append([]*tmFut(nil), e.futs...)
	e.mu.Unlock()
	for _, f := range futs {
		if f.far && !f.cancelInv.Load() {
			e.cancel(f)
		}
	}
	if p.idleChk {
		e.idleObs()
		if p.restart {
			// the pool is down to zero: it must start up again
			e.call(p.unit, 0, false, false)
			e.quiesce()
		}
	}
	tmSettle(e, 3*time.Second)
	close(stop)
	det.Wait()
	if p.sample {
		e.log(tmEv{kind: "Sample", w: int(e.maxSeen.Load()), t: e.stamp()})
	}
	e.mu.Lock()
	e.closed = true
	evs = e.evs
	nfut = len(e.futs)
	e.mu.Unlock()
	return evs, e.stalled.Load(), nfut, pp
}

func tmWrite(tw *TraceWriter, p tmParams, evs []tmEv) int {
	prio := func(k string) int {
		switch k {
		case "Call":
			return 0
		case "Sample":
			return 9
		}
		return 1
	}
	sort.SliceStable(evs, func(a, b int) bool {
		x, y := evs[a], evs[b]
		if x.t/1000 != y.t/1000 {
			return x.t < y.t
		}
		if prio(x.kind) != prio(y.kind) {
			return prio(x.kind) < prio(y.kind)
		}
		return x.seq < y.seq
	})
	b2i := func(b bool) int {
		if b {
			return 1
		}
		return 0
	}
	us := func(d time.Duration) int64 { return int64(d / time.Microsecond) }
	tw.Emit(map[string]any{"e": "Begin", "late": b2i(p.late), "L": us(p.L), "Q": us(p.Q), "idle": us(p.idle),
		"slack": us(p.slack), "maxw": p.maxw, "unit": us(p.unit), "gap": us(p.gap)})
	for _, ev := range evs {
		m := map[string]any{"e": ev.kind}
		switch ev.kind {
		case "Call":
			m["i"], m["d"], m["tb"], m["ta"] = ev.i, ev.d, ev.t/1000, ev.t2/1000
		case "Start":
			m["i"], m["t"] = ev.i, ev.t/1000
		case "CancelRet":
			m["i"], m["t"] = ev.i, ev.t/1000
			if ev.panic {
				m["panic"] = 1
			}
		case "Quiesce":
			m["t"] = ev.t / 1000
		case "Idle":
			m["t"], m["w"], m["quiet"] = ev.t/1000, ev.w, ev.quiet/1000
		case "Sample":
			m["w"] = ev.w
		}
		tw.Emit(m)
	}
	return len(evs) + 1
}

func tmMin(a, b int) int {
	if a < b {
		return a
	}
	return b
}
func tmMax(a, b int) int {
	if a > b {
		return a
	}
	return b
}

func tmParseScript(b Behaviour) tmScript {
	var sc tmScript
	for _, s := range b {
		st := tmStep{Op: s.Str("op"), I: s.Int("i"), D: s.Int("d"), N: s.Int("n"), Slow: s.Int("slow"), Nil: s.Int("nil") == 1}
		sc = append(sc, st)
	}
	return sc
}

// tmRandomScript: one goroutine's share of a random execution.  Cancels address futures of the
// same goroutine in every phase of their life: long before due, around due, after firing, repeatedly.
func tmRandomScript(rnd *rand.Rand, nfut int, slow bool) tmScript {
	classes := []int{-3, -1, 0, 0, 1, 1, 1, 2, 2, 3, 4, 6, 9, 12}
	var sc tmScript
	made := 0
	for made < nfut {
		switch k := rnd.Intn(100); {
		case k < 50:
			st := tmStep{Op: "call", D: classes[rnd.Intn(len(classes))]}
			if slow && rnd.Intn(4) == 0 {
				st.Slow = 1 + rnd.Intn(2)
			}
			if rnd.Intn(60) == 0 {
				st.Nil = true
			}
			sc = append(sc, st)
			made++
		case k < 58: // burst: equal delays, back to back
			d := classes[rnd.Intn(len(classes))]
			for j := 0; j < 2+rnd.Intn(12) && made < nfut; j++ {
				sc = append(sc, tmStep{Op: "call", D: d})
				made++
			}
		case k < 62:
			sc = append(sc, tmStep{Op: "xcancel"})
		case k < 85:
			if made > 0 {
				var i int
				if rnd.Intn(2) == 0 {
					i = 1 + rnd.Intn(made) // any age: probably fired long ago, or cancelled before
				} else {
					i = made - rnd.Intn(tmMin(made, 6)) // recent: probably still pending
				}
				sc = append(sc, tmStep{Op: "cancel", I: i})
			}
		default:
			sc = append(sc, tmStep{Op: "tick", N: 1})
		}
	}
	sc = append(sc, tmStep{Op: "tick", N: 1})
	return sc
}

func driveTimer(opt *Options) error {
	geti := func(k string, def int) int {
		if s, ok := opt.Extra[k]; ok {
			fmt.Sscan(s, &def)
		}
		return def
	}
	ms := func(k string, def int) time.Duration { return time.Duration(geti(k, def)) * time.Millisecond }
	p := tmParams{
		unit:    ms("unit_ms", 20),
		maxw:    geti("maxw", 2),
		late:    geti("late", 0) == 1,
		L:       ms("L_ms", 2000),
		Q:       ms("Q_ms", 2000),
		slack:   ms("slack_ms", 1000),
		stretch: geti("stretch", 0),
		idleChk: geti("idlecheck", 0) == 1,
		restart: geti("restart", 0) == 1,
		sample:  geti("sample", 0) == 1,
	}
	p.idle = ms("idle_ms", int(2*p.unit/time.Millisecond))
	p.jitterNs = int64(ms("jitter_ms", 0))
	conc := geti("conc", 1)
	mode := opt.Extra["mode"]
	tw, err := NewTraceWriter(opt.Out)
	if err != nil {
		return err
	}
	defer tw.Close()
	rnd := rand.New(rand.NewSource(opt.Seed))

	type job struct {
		p       tmParams
		scripts []tmScript
	}
	var jobs []job
	switch mode {
	case "scripts":
		bs, _, err := readBehaviours(opt.In)
		if err != nil {
			return err
		}
		for i := 0; i < len(bs); i += conc {
			j := job{p: p}
			for k := i; k < i+conc && k < len(bs); k++ {
				j.scripts = append(j.scripts, tmParseScript(bs[k]))
			}
			jobs = append(jobs, j)
		}
	case "random":
		maxFut := geti("futures", 500)
		slow := geti("slow", 0) == 1
		for x := 0; x < opt.N; x++ {
			j := job{p: p}
			if geti("varycfg", 0) == 1 {
				j.p.maxw = []int{1, 2, 3, 10}[rnd.Intn(4)]
				j.p.idle = []time.Duration{p.unit, 2 * p.unit, 10 * p.unit}[rnd.Intn(3)]
			}
			g := 1 + rnd.Intn(8)
			total := maxFut/4 + rnd.Intn(maxFut-maxFut/4+1)
			if x%5 == 0 {
				total = maxFut
			}
			for k := 0; k < g; k++ {
				j.scripts = append(j.scripts, tmRandomScript(rnd, tmMax(1, total/g), slow))
			}
			if slow {
				j.p.late = false
			}
			jobs = append(jobs, j)
		}
		if geti("chase", 0) > 0 {
			jobs = append(jobs, job{p: p, scripts: []tmScript{{{Op: "chase", N: geti("chase", 0)}}}})
			pc := p
			pc.idle, pc.idleChk, pc.sample = 200*time.Microsecond, false, false
			for n := geti("chase", 0) / 2; n > 0; n -= 300 { // (short executions, see the retire job)
				jobs = append(jobs, job{p: pc, scripts: []tmScript{{{Op: "chase", N: tmMin(n, 300), Cold: true}}}})
			}
		}
		if geti("never", 1) > 0 {
			pn := p
			pn.idleChk, pn.sample, pn.restart = false, false, false
			jobs = append(jobs, job{p: pn, scripts: []tmScript{{{Op: "never"}, {Op: "call", D: 2}, {Op: "tick", N: 4}}}})
		}
		if geti("order", 0) > 0 {
			// the queue's ORDER: dozens of futures 100 ms apart, scheduled in a shuffled order, a quarter of them cancelled
			// in between; a future that is hidden behind a later one starts late by their distance - judged with a
			// lateness bound of 400 ms here (the stall detector discards executions with a 250 ms overshoot)
			po := p
			po.L, po.idleChk, po.sample, po.restart = 400*time.Millisecond, false, false, false
			po.maxw, po.gap = 1, 50*time.Millisecond // one worker: futures are taken in queue order (InOrder of TimerAbs.tla)
			for rep := 0; rep < geti("order", 0); rep++ {
				nf := 48 + rnd.Intn(16)
				per := int(100 * time.Millisecond / p.unit)
				if per < 1 {
					per = 1
				}
				var sc tmScript
				for k, slot := range rnd.Perm(nf) {
					sc = append(sc, tmStep{Op: "call", D: (slot + 3) * per})
					if k > 4 && rnd.Intn(2) == 0 {
						sc = append(sc, tmStep{Op: "cancel", I: 1 + rnd.Intn(k)})
					}
				}
				sc = append(sc, tmStep{Op: "tick", N: (nf + 6) * per})
				jobs = append(jobs, job{p: po, scripts: []tmScript{sc}})
			}
		}
		if n := geti("retire", 0); n > 0 {
			pr := p
			pr.idle, pr.idleChk, pr.sample = time.Nanosecond, false, false
			for ; n > 0; n -= 400 { // (short executions: the trace spec carries every future of an execution in its state)
				jobs = append(jobs, job{p: pr, scripts: []tmScript{{{Op: "retire", N: tmMin(n, 400)}}}})
			}
		}
	default:
		return fmt.Errorf("timer: unknown mode %q", mode)
	}

	sum := map[string]any{}
	nexec, ndisc, nunjudged, nscripts, nfutures, nevents := 0, 0, 0, 0, 0, 0
	if !tmSettle(nil, time.Second) {
		return fmt.Errorf("timer: package not quiescent at start")
	}
	for ji, j := range jobs {
		if tmDeadlineHits.Load() >= 3 {
			sum["skipped_after_deadline_hits"] = len(jobs) - ji
			break
		}
		judged := false
		for attempt := 0; attempt < 3 && !judged; attempt++ {
			// watchdog: no execution comes anywhere near this; if one does, a library call never returned
			limit := 30*time.Second + 3*j.p.idle
			for _, sc := range j.scripts {
				for _, st := range sc {
					limit += time.Duration(st.N+st.Slow+1) * j.p.unit
				}
			}
			wd := time.AfterFunc(limit, func() {
				buf := make([]byte, 1<<20)
				n := runtime.Stack(buf, true)
				fmt.Fprintf(os.Stderr, "TIMER-HANG: execution %d did not finish within %v\n%s\n", ji, limit, buf[:n])
				os.Exit(3)
			})
			hits := tmDeadlineHits.Load()
			evs, stalled, nf, pp := tmExecute(j.p, j.scripts, opt.Seed+int64(ji))
			wd.Stop()
			if stalled {
				tmDeadlineHits.Store(hits)
				// the host stalled: whatever was observed is not evidence of anything
				ndisc++
				tmSettle(nil, 3*time.Second)
				continue
			}
			nevents += tmWrite(tw, pp, evs)
			nfutures += nf
			judged = true
		}
		if judged {
			nexec++
			nscripts += len(j.scripts)
		} else {
			nunjudged++
		}
	}
	sum["executions"], sum["discarded_stalled"], sum["not_judged"] = nexec, ndisc, nunjudged
	sum["scripts"], sum["futures"], sum["events"] = nscripts, nfutures, nevents
	b, _ := json.Marshal(sum)
	fmt.Fprintln(os.Stdout, string(b))
	return nil
}
