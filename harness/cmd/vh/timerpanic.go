package main

import (
	"bufio"
	"bytes"
	"encoding/json"
	"fmt"
	"math/rand"
	"os"
	"os/exec"
	"sort"
	"strings"
	"sync"
	"sync/atomic"
	"time"

	"github.com/acquirecloud/golibs/timeout"
)

// timerpanic (C12 / C13): scheduled functions that PANIC.  The package says nothing about them - on the code as it
// stands the panic ends the process - so each scenario runs in a process of its own and a death by the planted panic is
// simply the end of the observation.  But a package that survives such a callback is still bound by its contract: the
// function was started, so it is not started again (C12), and every other live future is started (C13).  The child
// appends every observation to a raw file the moment it is made; the parent sorts them into a TimerTrace.tla execution
// (with a Quiesce line only if the child lived to the end of its observation period).

const plantedPanic = "vh-planted-callback-panic"

type tpScenario struct {
	maxw    int
	nOthers int   // futures besides the panicking one
	panicAt int   // position of the panicking one in the order of delays
	gapMs   int   // distance between consecutive delays
	burst   bool  // all others due together, right after the panicking one
	seed    int64 // for jitter
}

func init() { drivers["timerpanic"] = driveTimerPanic }

func driveTimerPanic(opt *Options) error {
	if opt.Extra["child"] == "1" {
		return timerPanicChild(opt)
	}
	if opt.Extra["child"] == "defaults" {
		return timerDefaultsChild(opt)
	}
	if opt.Extra["child"] == "firstuse" {
		return timerFirstUseChild(opt)
	}
	if opt.Extra["mode"] == "long" {
		return timerLongDelays(opt)
	}
	rnd := rand.New(rand.NewSource(opt.Seed))
	tw, err := NewTraceWriter(opt.Out)
	if err != nil {
		return err
	}
	defer tw.Close()
	n := opt.N
	if n <= 0 {
		n = 6
	}
	onlyDefaults := opt.Extra["only"] == "defaults" // just the package-as-it-comes-up child (run first, on a quiet host)
	if onlyDefaults {
		n = 0
	}
	type res struct {
		evs  []map[string]any
		died bool
		err  error
	}
	results := make([]res, n)
	var wg sync.WaitGroup
	sem := make(chan struct{}, 4)
	for k := 0; k < n; k++ {
		sc := tpScenario{maxw: []int{1, 1, 2, 10}[k%4], nOthers: 2 + rnd.Intn(6), gapMs: 30 + rnd.Intn(40), burst: k%3 == 2, seed: rnd.Int63()}
		sc.panicAt = rnd.Intn(sc.nOthers + 1)
		if k%2 == 0 {
			sc.panicAt = 0
		}
		wg.Add(1)
		sem <- struct{}{}
		go func(k int, sc tpScenario) {
			defer wg.Done()
			defer func() { <-sem }()
			raw := fmt.Sprintf("%s.raw%d", opt.Out, k)
			defer os.Remove(raw)
			cmd := exec.Command(os.Args[0], "drive", "timerpanic", "-out", raw, "-x", "child=1", "-x", fmt.Sprintf("sc=%d,%d,%d,%d,%v,%d", sc.maxw, sc.nOthers, sc.panicAt, sc.gapMs, sc.burst, sc.seed))
			var stderr bytes.Buffer
			cmd.Stderr = &stderr
			runErr := cmd.Run()
			evs, done, err := readRawTimerEvents(raw)
			if err != nil {
				results[k].err = err
				return
			}
			if runErr != nil && !strings.Contains(stderr.String(), plantedPanic) {
				results[k].err = fmt.Errorf("timerpanic child failed for another reason than the planted panic: %v\n%s", runErr, tailStr(stderr.String(), 1500))
				return
			}
			if runErr == nil && !done {
				results[k].err = fmt.Errorf("timerpanic child ended without its last line")
				return
			}
			results[k] = res{evs: evs, died: runErr != nil}
		}(k, sc)
	}
	wg.Wait()
	// fresh processes whose very FIRST Calls come from many goroutines at once (whatever the package sets up on first use)
	if !onlyDefaults {
		const kids = 10
		fu := make([]res, kids)
		var fwg sync.WaitGroup
		for k := 0; k < kids; k++ {
			fwg.Add(1)
			sem <- struct{}{}
			go func(k int) {
				defer fwg.Done()
				defer func() { <-sem }()
				raw := fmt.Sprintf("%s.rawf%d", opt.Out, k)
				defer os.Remove(raw)
				cmd := exec.Command(os.Args[0], "drive", "timerpanic", "-out", raw, "-x", "child=firstuse", "-seed", fmt.Sprint(opt.Seed+int64(k)))
				var stderr bytes.Buffer
				cmd.Stderr = &stderr
				runErr := cmd.Run()
				evs, done, err := readRawTimerEvents(raw)
				if err != nil {
					fu[k].err = err
					return
				}
				if runErr != nil || !done {
					// the child died or did not finish: a library call panicked in a goroutine of the child
					evs = append(evs, map[string]any{"e": "Start", "i": 0, "t": 0, "panic": tailStr(stderr.String(), 300)})
				}
				fu[k] = res{evs: evs}
			}(k)
		}
		fwg.Wait()
		results = append(results, fu...)
	}
	// one more child: the package exactly as it comes up (no harness configuration of pool or wake channel at all)
	{
		raw := opt.Out + ".rawd"
		defer os.Remove(raw)
		cmd := exec.Command(os.Args[0], "drive", "timerpanic", "-out", raw, "-x", "child=defaults")
		var stderr bytes.Buffer
		cmd.Stderr = &stderr
		if err := cmd.Run(); err != nil {
			return fmt.Errorf("timerpanic: the child with the package defaults failed: %v\n%s", err, tailStr(stderr.String(), 1500))
		}
		evs, _, err := readRawTimerExecutions(raw)
		if err != nil {
			return err
		}
		results = append(results, res{evs: evs})
	}
	died, lived := 0, 0
	for _, r := range results {
		if r.err != nil {
			return r.err
		}
		if r.died {
			died++
		} else {
			lived++
		}
		for _, e := range r.evs {
			if e["e"] == "Quiesce" && r.died {
				continue
			}
			tw.Emit(e)
		}
	}
	fmt.Printf("{\"died_by_planted_panic\":%d,\"survived\":%d}\n", died, lived)
	return nil
}

func tailStr(s string, n int) string {
	if len(s) > n {
		return s[len(s)-n:]
	}
	return s
}

// readRawTimerEvents: the raw observations of one child, sorted by stamp the way TimerTrace.tla expects them
func readRawTimerEvents(path string) ([]map[string]any, bool, error) {
	f, err := os.Open(path)
	if err != nil {
		return nil, false, err
	}
	defer f.Close()
	var begin map[string]any
	var evs []map[string]any
	done := false
	sc := bufio.NewScanner(f)
	for sc.Scan() {
		var m map[string]any
		if json.Unmarshal(sc.Bytes(), &m) != nil {
			continue // a line cut short by the death of the process
		}
		switch m["e"] {
		case "Begin":
			begin = m
		case "Done":
			done = true
		default:
			evs = append(evs, m)
		}
	}
	if begin == nil {
		return nil, false, fmt.Errorf("timerpanic: raw file without a Begin line")
	}
	stamp := func(m map[string]any) float64 {
		if m["e"] == "Call" {
			return m["tb"].(float64)
		}
		return m["t"].(float64)
	}
	rank := func(m map[string]any) int {
		switch m["e"] {
		case "Call":
			return 0
		case "Quiesce":
			return 2
		}
		return 1
	}
	sort.SliceStable(evs, func(a, b int) bool {
		if stamp(evs[a]) != stamp(evs[b]) {
			return stamp(evs[a]) < stamp(evs[b])
		}
		return rank(evs[a]) < rank(evs[b])
	})
	return append([]map[string]any{begin}, evs...), done, nil
}

func timerPanicChild(opt *Options) error {
	var sc tpScenario
	if _, err := fmt.Sscanf(opt.Extra["sc"], "%d,%d,%d,%d,%t,%d", &sc.maxw, &sc.nOthers, &sc.panicAt, &sc.gapMs, &sc.burst, &sc.seed); err != nil {
		return err
	}
	f, err := os.OpenFile(opt.Out, os.O_CREATE|os.O_WRONLY|os.O_TRUNC|os.O_APPEND, 0o644)
	if err != nil {
		return err
	}
	var mu sync.Mutex
	emit := func(m map[string]any) {
		b, _ := json.Marshal(m)
		mu.Lock()
		f.Write(append(b, '\n')) // one write per observation: nothing is lost when the process dies
		mu.Unlock()
	}
	start := time.Now()
	now := func() int64 { return time.Since(start).Microseconds() }
	timeout.VerifConfigure(50*time.Millisecond, sc.maxw)
	quiesce := int64(1500000)
	emit(map[string]any{"e": "Begin", "late": 0, "L": 0, "Q": quiesce, "idle": 50000, "slack": 1000000, "maxw": sc.maxw, "unit": 0, "gap": 0})
	var pstarts int32
	var pmu sync.Mutex
	total := sc.nOthers + 1
	for i := 0; i < total; i++ {
		i := i
		d := time.Duration((i+1)*sc.gapMs) * time.Millisecond
		if sc.burst && i > sc.panicAt {
			d = time.Duration((sc.panicAt+1)*sc.gapMs+5) * time.Millisecond
		}
		fn := func() { emit(map[string]any{"e": "Start", "i": i, "t": now()}) }
		if i == sc.panicAt {
			fn = func() {
				emit(map[string]any{"e": "Start", "i": i, "t": now()})
				pmu.Lock()
				pstarts++
				again := pstarts <= 5 // a package that starts it over and over is not kept busy for ever
				pmu.Unlock()
				if again {
					panic(plantedPanic)
				}
			}
		}
		tb := now()
		timeout.Call(fn, d)
		emit(map[string]any{"e": "Call", "i": i, "d": d.Microseconds(), "tb": tb, "ta": now()})
	}
	last := time.Duration(total*sc.gapMs) * time.Millisecond
	time.Sleep(last + time.Duration(quiesce)*time.Microsecond + 200*time.Millisecond)
	emit(map[string]any{"e": "Quiesce", "t": now()})
	emit(map[string]any{"e": "Done"})
	return nil
}


// readRawTimerExecutions: like readRawTimerEvents for a raw file that holds several executions (Begin lines)
func readRawTimerExecutions(path string) ([]map[string]any, bool, error) {
	b, err := os.ReadFile(path)
	if err != nil {
		return nil, false, err
	}
	var all []map[string]any
	done := false
	var cur []string
	flush := func(i int) error {
		if len(cur) == 0 {
			return nil
		}
		tmp := fmt.Sprintf("%s.part%d", path, i)
		if err := os.WriteFile(tmp, []byte(strings.Join(cur, "\n")+"\n"), 0o644); err != nil {
			return err
		}
		evs, d, err := readRawTimerEvents(tmp)
		os.Remove(tmp)
		if err != nil {
			return err
		}
		done = done || d
		all = append(all, evs...)
		cur = nil
		return nil
	}
	for i, ln := range strings.Split(string(b), "\n") {
		if strings.Contains(ln, `"e":"Begin"`) {
			if err := flush(i); err != nil {
				return nil, false, err
			}
		}
		if ln != "" {
			cur = append(cur, ln)
		}
	}
	if err := flush(-1); err != nil {
		return nil, false, err
	}
	return all, done, nil
}

// timerDefaultsChild: a process that uses the package as it comes up.  One future far ahead keeps the dispatcher asleep
// towards it; then short futures (200 us) are scheduled one after the other, each the moment the previous one has
// started - so that many of them arrive just when the dispatcher is between looking at the queue and going to sleep.
// Every one must be started, with bounded lateness (executions of 250 futures; L = 400 ms, Q = 300 ms).
func timerDefaultsChild(opt *Options) error {
	f, err := os.OpenFile(opt.Out, os.O_CREATE|os.O_WRONLY|os.O_TRUNC|os.O_APPEND, 0o644)
	if err != nil {
		return err
	}
	var mu sync.Mutex
	var pending [][]byte // the lines of the execution under way: written only if the host did not stall during it
	emit := func(m map[string]any) {
		b, _ := json.Marshal(m)
		mu.Lock()
		pending = append(pending, append(b, '\n'))
		mu.Unlock()
	}
	start := time.Now()
	now := func() int64 { return time.Since(start).Microseconds() }
	var stall int64 // the largest overshoot of a 2 ms sleep since it was last reset, in microseconds
	go func() {
		last := time.Now()
		for {
			time.Sleep(2 * time.Millisecond)
			n := time.Now()
			if over := n.Sub(last).Microseconds() - 2000; over > atomic.LoadInt64(&stall) {
				atomic.StoreInt64(&stall, over)
			}
			last = n
		}
	}()
	far := timeout.Call(func() {}, time.Hour)
	defer far.Cancel()
	id := 0
	stuck := false
	judged := 0
	for ex := 0; ex < 60 && judged < 36 && !stuck; ex++ {
		atomic.StoreInt64(&stall, 0)
		emit(map[string]any{"e": "Begin", "late": 1, "L": 400000, "Q": 300000, "idle": 30000000, "slack": 1000000, "maxw": 10, "unit": 0, "gap": 0})
		for i := 0; i < 250; i++ {
			id++
			i := id
			var started int32
			tb := now()
			timeout.Call(func() { emit(map[string]any{"e": "Start", "i": i, "t": now()}); atomic.StoreInt32(&started, 1) }, 200*time.Microsecond)
			ta := now()
			// SPIN until the function has run (no channel, no sleep: the next Call follows the return of the callback
			// within a few hundred nanoseconds - while the dispatcher is on its way back to sleep)
			for t0 := time.Now(); atomic.LoadInt32(&started) == 0; {
				if time.Since(t0) > 700*time.Millisecond {
					stuck = true
					break
				}
			}
			emit(map[string]any{"e": "Call", "i": i, "d": 200, "tb": tb, "ta": ta})
			if stuck {
				break
			}
		}
		emit(map[string]any{"e": "Quiesce", "t": now()})
		mu.Lock()
		if atomic.LoadInt64(&stall) > 100000 {
			stuck = false // the host stalled during this execution: not judged, not written
		} else {
			for _, b := range pending {
				f.Write(b)
			}
			judged++
		}
		pending = nil
		mu.Unlock()
	}
	mu.Lock()
	f.Write([]byte("{\"e\":\"Done\"}\n"))
	mu.Unlock()
	return nil
}


// timerLongDelays: delays of ten seconds and more, waited out (everything else in the timed passes lasts milliseconds):
// never early - by a single microsecond -, at most once, and started at all.  No lateness bound; quiescence 5 s after the
// last due time, so a loaded host changes nothing.
func timerLongDelays(opt *Options) error {
	tw, err := NewTraceWriter(opt.Out)
	if err != nil {
		return err
	}
	defer tw.Close()
	raw := opt.Out + ".raw"
	defer os.Remove(raw)
	f, err := os.OpenFile(raw, os.O_CREATE|os.O_WRONLY|os.O_TRUNC|os.O_APPEND, 0o644)
	if err != nil {
		return err
	}
	var mu sync.Mutex
	emit := func(m map[string]any) {
		b, _ := json.Marshal(m)
		mu.Lock()
		f.Write(append(b, '\n'))
		mu.Unlock()
	}
	start := time.Now()
	now := func() int64 { return time.Since(start).Microseconds() }
	var delays []time.Duration
	for i := 0; i < 8; i++ {
		delays = append(delays, 10*time.Second+time.Duration(i)*7*time.Millisecond)
	}
	delays = append(delays, 10*time.Second-time.Millisecond, 10500*time.Millisecond+3*time.Millisecond, 11*time.Second+333*time.Microsecond, 12*time.Second+17*time.Millisecond)
	if opt.Extra["tier"] == "thorough" {
		delays = append(delays, 20*time.Second+11*time.Millisecond, 30*time.Second+29*time.Millisecond, 31*time.Second+1*time.Millisecond, 61*time.Second+13*time.Millisecond)
	}
	emit(map[string]any{"e": "Begin", "late": 0, "L": 0, "Q": 5000000, "idle": 30000000, "slack": 1000000, "maxw": 10, "unit": 0, "gap": 0})
	var wg sync.WaitGroup
	last := time.Duration(0)
	for i, d := range delays {
		i := i
		wg.Add(1)
		var once sync.Once
		tb := now()
		timeout.Call(func() { emit(map[string]any{"e": "Start", "i": i, "t": now()}); once.Do(wg.Done) }, d)
		emit(map[string]any{"e": "Call", "i": i, "d": d.Microseconds(), "tb": tb, "ta": now()})
		if d > last {
			last = d
		}
	}
	done := make(chan struct{})
	go func() { wg.Wait(); close(done) }()
	select {
	case <-done:
		time.Sleep(100 * time.Millisecond) // a second start of one of them would come now
	case <-time.After(last + 6*time.Second):
	}
	emit(map[string]any{"e": "Quiesce", "t": now()})
	mu.Lock()
	f.Close()
	mu.Unlock()
	evs, _, err := readRawTimerEvents(raw)
	if err != nil {
		return err
	}
	for _, e := range evs {
		tw.Emit(e)
	}
	return nil
}


// timerFirstUseChild: the first use of the package in this process is made by 16 goroutines at the same instant (spin
// barrier), 4 Calls each; then every other future is cancelled (before it is due).  Cancel is precise: every future that
// was not cancelled is started; nothing panics.
func timerFirstUseChild(opt *Options) error {
	f, err := os.OpenFile(opt.Out, os.O_CREATE|os.O_WRONLY|os.O_TRUNC|os.O_APPEND, 0o644)
	if err != nil {
		return err
	}
	var mu sync.Mutex
	emit := func(m map[string]any) {
		b, _ := json.Marshal(m)
		mu.Lock()
		f.Write(append(b, '\n'))
		mu.Unlock()
	}
	start := time.Now()
	now := func() int64 { return time.Since(start).Microseconds() }
	emit(map[string]any{"e": "Begin", "late": 0, "L": 0, "Q": 1500000, "idle": 30000000, "slack": 1000000, "maxw": 10, "unit": 0, "gap": 0})
	const G, per = 16, 4
	futs := make([]timeout.Future, G*per)
	var gate int32
	var wg sync.WaitGroup
	for g := 0; g < G; g++ {
		wg.Add(1)
		go func(g int) {
			defer wg.Done()
			for atomic.LoadInt32(&gate) == 0 {
			}
			for j := 0; j < per; j++ {
				i := g*per + j
				d := time.Duration(150+10*i) * time.Millisecond
				tb := now()
				futs[i] = timeout.Call(func() { emit(map[string]any{"e": "Start", "i": i, "t": now()}) }, d)
				emit(map[string]any{"e": "Call", "i": i, "d": d.Microseconds(), "tb": tb, "ta": now()})
			}
		}(g)
	}
	time.Sleep(20 * time.Millisecond)
	atomic.StoreInt32(&gate, 1)
	wg.Wait()
	for i := 0; i < G*per; i += 2 {
		func() {
			defer func() {
				if p := recover(); p != nil {
					emit(map[string]any{"e": "CancelRet", "i": i, "t": now(), "panic": fmt.Sprint(p)})
				}
			}()
			futs[i].Cancel()
			emit(map[string]any{"e": "CancelRet", "i": i, "t": now()})
		}()
	}
	time.Sleep(time.Duration(150+10*G*per)*time.Millisecond + 1700*time.Millisecond)
	emit(map[string]any{"e": "Quiesce", "t": now()})
	emit(map[string]any{"e": "Done"})
	return nil
}
