package main

import (
	"bytes"
	"fmt"
	"hash/adler32"
	"hash/crc32"
	"hash/fnv"
	"io"
	"math/rand"
	"runtime"
	"sync"
	"sync/atomic"
	"unsafe"

	"github.com/acquirecloud/golibs/xbinary"
)

// C15 / C16: package xbinary against spec/xbinary/WireFormat.tla.
//
// spec -> code.  Three kinds of emitted records are replayed:
//   Put  (WireEnc.tla)    one item with its prescribed encoding, size, offset in the stream and, per
//                         destination length, whether Marshal must fail; a behaviour of several Puts is
//                         also run as ONE stream (marshalled back to back / written through one
//                         ObjectsWriter, decoded in order).
//   Row  (WireSmall.tla)  256 consecutive 8- or 16-bit values with their prescribed encodings.
//   Dec  (WireDec.tla)    one decoder input with, per kind, the automaton's reply and the class of
//                         obligation ("exact": C15 dictates the reply; "open": only C16's bounds).
//
// -x prop=C15 (default) judges Put/Row records and the "exact" part of Dec records;
// -x prop=C16 judges every Dec record by C16 only (no panic, n within the input on success, returned
// bytes a sub-range of the input, n = 0 on failure); any further difference from the automaton's
// reply is drift there, never a verdict.
//
// code -> spec.  drive xbinary -x mode=c15 records long random streams (W/R events), stateless
// marshals into random destination lengths (M events); -x mode=c16 records decodes of mutated
// encodings and random bytes (D events).  WireTrace.tla validates them.

func init() {
	replayers["xbinary"] = replayXbinary
	drivers["xbinary"] = driveXbinary
}

// ---------------------------------------------------------------------------------------------
// values

type xval struct {
	kind string
	u    uint64 // numeric kinds
	b    []byte // bytes / string content
}

func isBytesKind(k string) bool { return k == "bytes" || k == "string" }
func isFixedKind(k string) bool { return k == "byte" || k == "u16" || k == "u32" || k == "u64" }
func widthOf(k string) int {
	switch k {
	case "byte":
		return 1
	case "u16":
		return 2
	case "u32":
		return 4
	case "u64":
		return 8
	}
	return 0
}

// base-128 digits, least significant first -> uint64 (digits beyond 2^64 are cut like a shift would)
func digitsToU64(ds []int) uint64 {
	var v uint64
	for i, d := range ds {
		if i >= 10 {
			break
		}
		v |= uint64(d) << (7 * uint(i))
	}
	return v
}

func u64ToDigits(v uint64) []int {
	ds := []int{int(v & 127)}
	v >>= 7
	for v != 0 {
		ds = append(ds, int(v&127))
		v >>= 7
	}
	return ds
}

func leToU64(bs []int) uint64 {
	var v uint64
	for i, b := range bs {
		v |= uint64(b) << (8 * uint(i))
	}
	return v
}

func u64ToLE(v uint64, w int) []int {
	res := make([]int, w)
	for i := 0; i < w; i++ {
		res[i] = int(v >> (8 * uint(i)) & 255)
	}
	return res
}

func intsToBytes(is []int) []byte {
	res := make([]byte, len(is))
	for i, v := range is {
		res[i] = byte(v)
	}
	return res
}

func bytesToInts(bs []byte) []int {
	res := make([]int, len(bs))
	for i, v := range bs {
		res[i] = int(v)
	}
	return res
}

// expand mirrors WireEnc!Expand: byte i (from 0) of the content is (a + i*step) mod 256.
func expand(d []int) []byte {
	if len(d) != 3 {
		return nil
	}
	res := make([]byte, d[0])
	for i := range res {
		res[i] = byte((d[1] + i*d[2]) % 256)
	}
	return res
}

// valueOf turns the spec's representation of a value of the kind into Go data.
func valueOf(kind string, v []int, descriptor bool) xval {
	x := xval{kind: kind}
	switch {
	case kind == "uint":
		x.u = digitsToU64(v)
	case isFixedKind(kind):
		x.u = leToU64(v)
	case descriptor:
		x.b = expand(v)
	default:
		x.b = intsToBytes(v)
	}
	return x
}

// specForm is the inverse: the representation used in trace events.
func (x xval) specForm() []int {
	switch {
	case x.kind == "uint":
		return u64ToDigits(x.u)
	case isFixedKind(x.kind):
		return u64ToLE(x.u, widthOf(x.kind))
	}
	return bytesToInts(x.b)
}

func (x xval) same(y xval) bool {
	if isBytesKind(x.kind) {
		return bytes.Equal(x.b, y.b)
	}
	return x.u == y.u
}

// ---------------------------------------------------------------------------------------------
// the real calls, by kind; every one recovers a panic of the library

type callRes struct {
	n     int
	err   error
	panic any
	val   xval    // Unmarshal only
	str   string  // UnmarshalString only: the string as returned (may alias the source)
	ptr   uintptr // Unmarshal{Bytes,String}: address of the first returned byte (0 if none)
	plen  int     // and the number of returned bytes
}

func xMarshal(x xval, buf []byte) (r callRes) {
	defer func() {
		if p := recover(); p != nil {
			r.panic = p
		}
	}()
	switch x.kind {
	case "byte":
		r.n, r.err = xbinary.MarshalByte(byte(x.u), buf)
	case "u16":
		r.n, r.err = xbinary.MarshalUint16(uint16(x.u), buf)
	case "u32":
		r.n, r.err = xbinary.MarshalUint32(uint32(x.u), buf)
	case "u64":
		r.n, r.err = xbinary.MarshalUint64(x.u, buf)
	case "uint":
		r.n, r.err = xbinary.MarshalUint(uint(x.u), buf)
	case "bytes":
		r.n, r.err = xbinary.MarshalBytes(x.b, buf)
	case "string":
		r.n, r.err = xbinary.MarshalString(string(x.b), buf)
	}
	return
}

func xWrite(ow *xbinary.ObjectsWriter, x xval) (r callRes) {
	defer func() {
		if p := recover(); p != nil {
			r.panic = p
		}
	}()
	switch x.kind {
	case "byte":
		r.n, r.err = ow.WriteByte(byte(x.u))
	case "u16":
		r.n, r.err = ow.WriteUint16(uint16(x.u))
	case "u32":
		r.n, r.err = ow.WriteUint32(uint32(x.u))
	case "u64":
		r.n, r.err = ow.WriteUint64(x.u)
	case "uint":
		r.n, r.err = ow.WriteUint(uint(x.u))
	case "bytes":
		r.n, r.err = ow.WriteBytes(x.b)
	case "string":
		r.n, r.err = ow.WriteString(string(x.b))
	}
	return
}

// xPredictedSize: Writable*Size, or -1 where the library has no size function (fixed kinds).
func xPredictedSize(x xval) (sz int, p any) {
	defer func() {
		if pp := recover(); pp != nil {
			p = pp
		}
	}()
	switch x.kind {
	case "uint":
		return xbinary.WritableUintSize(x.u), nil
	case "bytes":
		return xbinary.WritebleBytesSize(x.b), nil
	case "string":
		return xbinary.WritableStringSize(string(x.b)), nil
	}
	return -1, nil
}

// guardedDecode decodes in twice inside a guarded arena (the input ending right at a page that may not be touched,
// then starting right behind one): a decoder that reads a single byte outside the input faults.
func guardedDecode(kind string, in []byte, newBuf bool) (sig string, at any) {
	g := getGuardArena()
	if g == nil {
		return "", nil
	}
	defer putGuardArena(g)
	for _, atEnd := range []bool{true, false} {
		src := g.place(in, atEnd)
		if src == nil {
			return "", nil
		}
		var r callRes
		withFaultsAsPanics(func() { r = xUnmarshal(kind, src, newBuf) })
		if r.panic == nil {
			continue
		}
		if addr, ok := g.guardFault(r.panic); ok {
			side := map[bool]string{true: "behind its end", false: "before its start"}[atEnd]
			return "read memory outside the input (" + side + ")", map[string]any{"len": len(in), "fault_offset_from_input": int64(addr) - int64(uintptr(unsafePtr(src)))}
		}
	}
	return "", nil
}

func unsafePtr(b []byte) unsafe.Pointer { return unsafe.Pointer(unsafe.SliceData(b)) }

func xUnmarshal(kind string, buf []byte, newBuf bool) (r callRes) {
	defer func() {
		if p := recover(); p != nil {
			r.panic = p
		}
	}()
	r.val.kind = kind
	switch kind {
	case "byte":
		var v byte
		r.n, v, r.err = xbinary.UnmarshalByte(buf)
		r.val.u = uint64(v)
	case "u16":
		var v uint16
		r.n, v, r.err = xbinary.UnmarshalUint16(buf)
		r.val.u = uint64(v)
	case "u32":
		var v uint32
		r.n, v, r.err = xbinary.UnmarshalUint32(buf)
		r.val.u = uint64(v)
	case "u64":
		r.n, r.val.u, r.err = xbinary.UnmarshalUint64(buf)
	case "uint":
		var v uint
		r.n, v, r.err = xbinary.UnmarshalUint(buf)
		r.val.u = uint64(v)
	case "bytes":
		r.n, r.val.b, r.err = xbinary.UnmarshalBytes(buf, newBuf)
		if len(r.val.b) > 0 {
			r.ptr, r.plen = uintptr(unsafe.Pointer(&r.val.b[0])), len(r.val.b)
		}
	case "string":
		r.n, r.str, r.err = xbinary.UnmarshalString(buf, newBuf)
		r.val.b = []byte(r.str) // a copy taken right now
		if len(r.str) > 0 {
			r.ptr, r.plen = uintptr(unsafe.Pointer(unsafe.StringData(r.str))), len(r.str)
		}
	}
	return
}

// current content of what Unmarshal returned (after the source may have been overwritten)
func (r *callRes) current() xval {
	if r.val.kind == "string" {
		return xval{kind: "string", b: []byte(r.str)}
	}
	return r.val
}

func fnName(prefix, kind string) string {
	switch kind {
	case "byte":
		return prefix + "Byte"
	case "u16":
		return prefix + "Uint16"
	case "u32":
		return prefix + "Uint32"
	case "u64":
		return prefix + "Uint64"
	case "uint":
		return prefix + "Uint"
	case "bytes":
		return prefix + "Bytes"
	case "string":
		return prefix + "String"
	}
	return prefix + "?" + kind
}

func scramble(b []byte) {
	for i := range b {
		b[i] = ^b[i] + 1 + byte(i)
	}
}

// bufWithLen returns a slice of length l.  slack=false: capacity l as well, so that any access
// beyond the length panics; slack=true: the backing array continues with sentinel bytes, so that an
// over-read or over-write goes through silently and is caught by the n / range comparisons.
func bufWithLen(l int, slack bool, fill byte) (buf []byte, backing []byte) {
	if !slack {
		b := make([]byte, l)
		for i := range b {
			b[i] = fill
		}
		return b[:l:l], b
	}
	b := make([]byte, l+24)
	for i := range b {
		b[i] = fill
	}
	for i := l; i < len(b); i++ {
		b[i] = 0xEE
	}
	return b[:l], b
}

// ---------------------------------------------------------------------------------------------
// failure collection: the first verdict wins, otherwise the first drift is reported

type xfails struct {
	verdict *Failure
	drift   *Failure
}

func (f *xfails) add(step int, kind, sig string, got, want any) {
	fl := &Failure{Step: step, Kind: kind, Sig: sig, Got: got, Want: want}
	if kind == "drift" {
		if f.drift == nil {
			f.drift = fl
		}
		return
	}
	if f.verdict == nil {
		f.verdict = fl
	}
}
func (f *xfails) result() *Failure {
	if f.verdict != nil {
		return f.verdict
	}
	return f.drift
}
func (f *xfails) done() bool { return f.verdict != nil }

// ---------------------------------------------------------------------------------------------
// spec -> code

type xbuf struct {
	l   int
	err bool
}

type xcase struct {
	x    xval
	enc  []byte
	size int
	off  int
	bufs []xbuf
}

func stepInts(s Step, k string) []int { return s.Ints(k) }

func parseBufs(s Step) []xbuf {
	arr, _ := s["bufs"].([]any)
	res := make([]xbuf, 0, len(arr))
	for _, a := range arr {
		m, _ := a.(map[string]any)
		st := Step(m)
		res = append(res, xbuf{l: st.Int("l"), err: st.Bool("err")})
	}
	return res
}

func parsePut(s Step) xcase {
	kind := s.Str("kind")
	c := xcase{x: valueOf(kind, s.Ints("v"), true), size: s.Int("size"), off: s.Int("off"), bufs: parseBufs(s)}
	c.enc = intsToBytes(s.Ints("head"))
	if isBytesKind(kind) {
		c.enc = append(c.enc, c.x.b...)
	}
	return c
}

func replayXbinary(b Behaviour, opt *Options) *Failure {
	prop := opt.Extra["prop"]
	if prop == "" {
		prop = "C15"
	}
	f := &xfails{}
	var stream []xcase
	for i, s := range b {
		switch s.Str("op") {
		case "Put":
			if prop != "C15" {
				continue
			}
			c := parsePut(s)
			checkItem(f, i, c)
			stream = append(stream, c)
		case "Row":
			if prop != "C15" {
				continue
			}
			checkRow(f, i, s)
		case "Dec":
			checkDec(f, i, s, prop)
		default:
			return &Failure{Step: i, Sig: "harness: unknown xbinary record " + s.Str("op")}
		}
		if f.done() {
			return f.result()
		}
	}
	if len(stream) > 0 {
		checkStream(f, len(b)-1, stream)
	}
	return f.result()
}

// checkItem: one item on its own - size prediction, Marshal into every prescribed destination
// length, ObjectsWriter, Unmarshal (both newBuf values, with and without following bytes).
func checkItem(f *xfails, step int, c xcase) {
	kind := c.x.kind
	if len(c.enc) != c.size {
		f.add(step, "verdict", "harness: prescribed encoding and size disagree", len(c.enc), c.size)
		return
	}
	if sz, p := xPredictedSize(c.x); p != nil {
		f.add(step, "verdict", "xbinary: "+fnName("Writable", kind)+"Size panicked", fmt.Sprint(p), c.size)
	} else if sz != -1 && sz != c.size {
		f.add(step, "verdict", "xbinary: "+fnName("Writable", kind)+"Size differs from the number of bytes the format prescribes", sz, c.size)
	}
	for _, bl := range c.bufs {
		for _, slack := range []bool{false, true} {
			buf, _ := bufWithLen(bl.l, slack, 0xAA)
			r := xMarshal(c.x, buf)
			name := fnName("Marshal", kind)
			switch {
			case r.panic != nil:
				f.add(step, "verdict", "xbinary: "+name+" panicked", fmt.Sprint(r.panic), bl)
			case bl.err && r.err == nil:
				f.add(step, "verdict", "xbinary: "+name+" into a buffer shorter than the size did not fail",
					map[string]any{"n": r.n, "buflen": bl.l}, map[string]any{"size": c.size, "err": true})
			case !bl.err && r.err != nil:
				f.add(step, "verdict", "xbinary: "+name+" into a sufficient buffer failed",
					map[string]any{"err": r.err.Error(), "buflen": bl.l}, map[string]any{"size": c.size, "err": false})
			case !bl.err && r.n != c.size:
				f.add(step, "verdict", "xbinary: "+name+" reported a length different from the predicted size",
					map[string]any{"n": r.n, "buflen": bl.l}, c.size)
			case !bl.err && !bytes.Equal(buf[:c.size], c.enc):
				f.add(step, "verdict", "xbinary: "+name+" wrote bytes different from the format",
					clip(buf[:c.size]), clip(c.enc))
			case bl.err && r.n != 0:
				f.add(step, "drift", "xbinary: "+name+" failed with n != 0", r.n, 0)
			}
		}
	}
	// ObjectsWriter must emit the same bytes
	var w bytes.Buffer
	ow := &xbinary.ObjectsWriter{Writer: &w}
	r := xWrite(ow, c.x)
	name := "ObjectsWriter." + fnName("Write", kind)
	switch {
	case r.panic != nil:
		f.add(step, "verdict", "xbinary: "+name+" panicked", fmt.Sprint(r.panic), nil)
	case r.err != nil:
		f.add(step, "verdict", "xbinary: "+name+" failed on a bytes.Buffer", r.err.Error(), nil)
	case r.n != c.size:
		f.add(step, "verdict", "xbinary: "+name+" reported a length different from the predicted size", r.n, c.size)
	case !bytes.Equal(w.Bytes(), c.enc):
		f.add(step, "verdict", "xbinary: "+name+" wrote bytes different from Marshal / the format", clip(w.Bytes()), clip(c.enc))
	}
	// decode what was encoded, alone and followed by other bytes
	for _, tail := range [][]byte{nil, {0xff, 0x80, 0x01}} {
		for _, newBuf := range []bool{false, true} {
			if !isBytesKind(kind) && newBuf {
				continue
			}
			for _, slack := range []bool{false, true} {
				src, _ := bufWithLen(len(c.enc)+len(tail), slack, 0)
				copy(src, c.enc)
				copy(src[len(c.enc):], tail)
				checkDecodeExact(f, step, kind, src, newBuf, c.size, c.x, "xbinary: "+fnName("Unmarshal", kind)+" of an encoded value")
			}
		}
	}
}

// capAliases: the memory reachable through res (up to its capacity) overlaps the memory of src (up to its capacity):
// a result that is "independent of the source buffer" must not be able to write into it by appending.
func capAliases(res, src []byte) bool {
	if cap(res) == 0 || cap(src) == 0 {
		return false
	}
	r0 := uintptr(unsafe.Pointer(unsafe.SliceData(res)))
	s0 := uintptr(unsafe.Pointer(unsafe.SliceData(src)))
	return r0 < s0+uintptr(cap(src)) && s0 < r0+uintptr(cap(res))
}

// checkDecodeExact: src begins with the encoding of want (size bytes); C15 dictates the reply.
func checkDecodeExact(f *xfails, step int, kind string, src []byte, newBuf bool, size int, want xval, what string) {
	r := xUnmarshal(kind, src, newBuf)
	switch {
	case r.panic != nil:
		f.add(step, "verdict", what+": panicked", fmt.Sprint(r.panic), nil)
	case r.err != nil:
		f.add(step, "verdict", what+": failed", r.err.Error(), nil)
	case r.n != size:
		f.add(step, "verdict", what+": consumed length differs from the produced length", r.n, size)
	case !r.val.same(want):
		f.add(step, "verdict", what+": decoded value differs from the encoded one", showVal(r.val), showVal(want))
	default:
		if newBuf && isBytesKind(kind) {
			scramble(src)
			if !r.current().same(want) {
				f.add(step, "verdict", what+": newBuf=true result changed when the source buffer was overwritten", nil, nil)
			} else if kind == "bytes" && capAliases(r.val.b, src) {
				f.add(step, "verdict", what+": newBuf=true result shares memory with the source buffer (an append to it writes into the source)", nil, nil)
			}
		}
	}
}

func checkRow(f *xfails, step int, s Step) {
	kind := s.Str("kind")
	hi := s.Int("hi")
	encs, _ := s["enc"].([]any)
	bufs := parseBufs(s)
	for lo, e := range encs {
		var enc []byte
		for _, v := range e.([]any) {
			enc = append(enc, byte(v.(float64)))
		}
		c := xcase{x: xval{kind: kind, u: uint64(hi*256 + lo)}, enc: enc, size: s.Int("size"), bufs: bufs}
		checkItem(f, step, c)
		if f.done() {
			return
		}
	}
}

// checkStream: the items of the behaviour as one stream.
// plainWriter is an io.Writer and nothing else (no WriteString, no ReadFrom ...)
type plainWriter struct{ b []byte }

func (p *plainWriter) Write(b []byte) (int, error) { p.b = append(p.b, b...); return len(b), nil }

func checkStream(f *xfails, step int, cs []xcase) {
	total := 0
	var want []byte
	for _, c := range cs {
		if c.off != total {
			f.add(step, "verdict", "harness: prescribed offsets disagree with the sizes", c.off, total)
			return
		}
		total += c.size
		want = append(want, c.enc...)
	}
	// Marshal back to back into one buffer of exactly the total size
	buf := make([]byte, total)
	off := 0
	for _, c := range cs {
		r := xMarshal(c.x, buf[off:])
		if r.panic != nil || r.err != nil || r.n != c.size {
			f.add(step, "verdict", "xbinary: stream: "+fnName("Marshal", c.x.kind)+" at an offset of a shared buffer failed or reported a wrong length",
				map[string]any{"n": r.n, "err": fmt.Sprint(r.err), "panic": fmt.Sprint(r.panic)}, c.size)
			return
		}
		off += r.n
	}
	if !bytes.Equal(buf, want) {
		f.add(step, "verdict", "xbinary: stream: marshalled concatenation differs from the format", clip(buf), clip(want))
		return
	}
	// the same through ONE ObjectsWriter (its scratch buffer is reused between calls)
	var w bytes.Buffer
	ow := &xbinary.ObjectsWriter{Writer: &w}
	for _, c := range cs {
		r := xWrite(ow, c.x)
		if r.panic != nil || r.err != nil || r.n != c.size {
			f.add(step, "verdict", "xbinary: stream: ObjectsWriter."+fnName("Write", c.x.kind)+" failed or reported a wrong length",
				map[string]any{"n": r.n, "err": fmt.Sprint(r.err), "panic": fmt.Sprint(r.panic)}, c.size)
			return
		}
	}
	if !bytes.Equal(w.Bytes(), buf) {
		f.add(step, "verdict", "xbinary: stream: ObjectsWriter and Marshal emitted different bytes", clip(w.Bytes()), clip(buf))
		return
	}
	// ONE ObjectsWriter whose (public) Writer field is pointed at another destination before every item - a bytes.Buffer,
	// a writer that is nothing but an io.Writer, another bytes.Buffer, round robin: every destination receives exactly the
	// encodings of the items written while it was the Writer, in order
	{
		var d0, d2 bytes.Buffer
		var d1 plainWriter
		dests := []io.Writer{&d0, &d1, &d2}
		wants := make([][]byte, 3)
		ow := &xbinary.ObjectsWriter{}
		for i, c := range cs {
			ow.Writer = dests[i%3]
			r := xWrite(ow, c.x)
			if r.panic != nil || r.err != nil || r.n != c.size {
				f.add(step, "verdict", "xbinary: stream: ObjectsWriter."+fnName("Write", c.x.kind)+" failed or reported a wrong length after its Writer was replaced",
					map[string]any{"n": r.n, "err": fmt.Sprint(r.err), "panic": fmt.Sprint(r.panic)}, c.size)
				return
			}
			wants[i%3] = append(wants[i%3], c.enc...)
		}
		for i, got := range [][]byte{d0.Bytes(), d1.b, d2.Bytes()} {
			if !bytes.Equal(got, wants[i]) {
				f.add(step, "verdict", "xbinary: stream: an ObjectsWriter whose Writer was replaced between items did not write each item to the Writer of the moment",
					clip(got), clip(wants[i]))
				return
			}
		}
	}
	// decode in order; consumed must add up to the whole stream
	for _, newBuf := range []bool{false, true} {
		src := append([]byte(nil), buf...)
		pos := 0
		var results []callRes
		for _, c := range cs {
			r := xUnmarshal(c.x.kind, src[pos:], newBuf)
			what := "xbinary: stream: " + fnName("Unmarshal", c.x.kind) + " of item in a concatenation"
			switch {
			case r.panic != nil:
				f.add(step, "verdict", what+": panicked", fmt.Sprint(r.panic), nil)
			case r.err != nil:
				f.add(step, "verdict", what+": failed", r.err.Error(), nil)
			case r.n != c.size:
				f.add(step, "verdict", what+": consumed length differs from the produced length", r.n, c.size)
			case !r.val.same(c.x):
				f.add(step, "verdict", what+": decoded value differs from the encoded one", showVal(r.val), showVal(c.x))
			}
			if f.done() {
				return
			}
			pos += r.n
			results = append(results, r)
		}
		if pos != len(src) {
			f.add(step, "verdict", "xbinary: stream: consumed lengths do not add up to the stream length", pos, len(src))
			return
		}
		if newBuf {
			scramble(src)
			for i, c := range cs {
				if isBytesKind(c.x.kind) && !results[i].current().same(c.x) {
					f.add(step, "verdict", "xbinary: stream: newBuf=true result changed when the source buffer was overwritten", nil, nil)
					return
				}
			}
		}
	}
}

// subRangeOf: is b the content of some sub-range of in?
func subRangeOf(b, in []byte) bool {
	if len(b) == 0 {
		return true
	}
	return bytes.Contains(in, b)
}

// aliasOutside: the returned bytes point into backing but not entirely into its first n bytes.
func aliasOutside(r *callRes, backing []byte, n int) bool {
	if r.plen == 0 || len(backing) == 0 {
		return false
	}
	base := uintptr(unsafe.Pointer(&backing[0]))
	if r.ptr < base || r.ptr >= base+uintptr(len(backing)) {
		return false
	}
	return int(r.ptr-base)+r.plen > n
}

func parseReply(kind string, m any) (ok bool, n int, v []int) {
	mm, _ := m.(map[string]any)
	st := Step(mm)
	return st.Bool("ok"), st.Int("n"), st.Ints("v")
}

// checkDec: one decoder input, every kind, both newBuf values, with and without slack capacity.
func checkDec(f *xfails, step int, s Step, prop string) {
	in := intsToBytes(s.Ints("in"))
	replies, _ := s["r"].(map[string]any)
	musts, _ := s["must"].(map[string]any)
	for _, kind := range []string{"byte", "u16", "u32", "u64", "uint", "bytes", "string"} {
		wok, wn, wv := parseReply(kind, replies[kind])
		must, _ := musts[kind].(string)
		name := fnName("Unmarshal", kind)
		for _, newBuf := range []bool{false, true} {
			if !isBytesKind(kind) && newBuf {
				continue
			}
			for _, slack := range []bool{false, true} {
				src, backing := bufWithLen(len(in), slack, 0)
				copy(src, in)
				r := xUnmarshal(kind, src, newBuf)
				// what the automaton predicts, as Go data
				var want xval
				if wok {
					if isBytesKind(kind) {
						want = xval{kind: kind, b: in[wv[0]:wv[1]]}
					} else {
						want = valueOf(kind, wv, false)
					}
				}
				same := r.panic == nil && (r.err == nil) == wok && r.n == wn && (!wok || r.val.same(want))
				if prop == "C15" {
					// only inputs that begin with one of the library's own encodings are judged
					if must != "exact" {
						continue
					}
					if !same {
						f.add(step, "verdict", "xbinary: "+name+" of a valid encoding followed by arbitrary bytes: reply differs from the encoded value / produced length",
							showReply(r), map[string]any{"ok": wok, "n": wn, "v": wv})
					} else if newBuf && isBytesKind(kind) {
						scramble(src)
						if !r.current().same(want) {
							f.add(step, "verdict", "xbinary: "+name+" newBuf=true result changed when the source buffer was overwritten", nil, nil)
						}
					}
					continue
				}
				// C16: totality
				if !slack {
					if sig, at := guardedDecode(kind, in, newBuf); sig != "" {
						f.add(step, "verdict", "xbinary: "+name+" "+sig, at, clip(in))
					}
				}
				switch {
				case r.panic != nil:
					f.add(step, "verdict", "xbinary: "+name+" panicked on arbitrary input", fmt.Sprint(r.panic), clip(in))
				case r.err == nil && (r.n < 1 || r.n > len(in)):
					f.add(step, "verdict", "xbinary: "+name+" succeeded with a consumed length outside 1..len(input)",
						map[string]any{"n": r.n, "len": len(in)}, clip(in))
				case r.err == nil && isBytesKind(kind) && (!subRangeOf(r.val.b, in) || aliasOutside(&r, backing, len(in))):
					f.add(step, "verdict", "xbinary: "+name+" returned bytes that are not a sub-range of the input",
						clip(r.val.b), clip(in))
				case r.err != nil && r.n != 0:
					f.add(step, "verdict", "xbinary: "+name+" failed but reported a non-zero consumed length", r.n, clip(in))
				case !same:
					f.add(step, "drift", "xbinary: "+name+" reply differs from the decoder automaton ("+must+" case)",
						showReply(r), map[string]any{"ok": wok, "n": wn, "v": wv})
				}
			}
		}
	}
}

func clip(b []byte) string {
	if len(b) > 48 {
		return fmt.Sprintf("% x ... (%d bytes)", b[:48], len(b))
	}
	return fmt.Sprintf("% x", b)
}

func showVal(x xval) any {
	if isBytesKind(x.kind) {
		return clip(x.b)
	}
	return fmt.Sprintf("%d", x.u)
}

func showReply(r callRes) any {
	m := map[string]any{"n": r.n, "ok": r.err == nil}
	if r.panic != nil {
		m["panic"] = fmt.Sprint(r.panic)
	}
	if r.err == nil && r.panic == nil {
		m["v"] = showVal(r.val)
	}
	return m
}

// ---------------------------------------------------------------------------------------------
// code -> spec

func randU64(rnd *rand.Rand) uint64 {
	switch rnd.Intn(5) {
	case 0: // around a 7-bit group boundary
		k := uint(7 * (1 + rnd.Intn(9)))
		return (uint64(1) << k) + uint64(rnd.Intn(5)) - 2
	case 1: // top of the range
		return ^uint64(0) - uint64(rnd.Intn(4))
	}
	bits := uint(rnd.Intn(65))
	if bits == 0 {
		return 0
	}
	v := rnd.Uint64()
	if bits < 64 {
		v &= (uint64(1) << bits) - 1
		v |= uint64(1) << (bits - 1)
	}
	return v
}

func randContent(rnd *rand.Rand) []byte {
	var n int
	switch rnd.Intn(8) {
	case 0:
		n = 0
	case 1:
		n = 125 + rnd.Intn(6) // around the 1/2-byte prefix boundary
	case 2:
		n = 200 + rnd.Intn(200)
	default:
		n = rnd.Intn(40)
	}
	b := make([]byte, n)
	rnd.Read(b)
	return b
}

var xkinds = []string{"byte", "u16", "u32", "u64", "uint", "uint", "uint", "bytes", "bytes", "string"}

func randItem(rnd *rand.Rand) xval {
	k := xkinds[rnd.Intn(len(xkinds))]
	x := xval{kind: k}
	switch {
	case k == "uint":
		x.u = randU64(rnd)
	case isFixedKind(k):
		x.u = rnd.Uint64()
		if w := widthOf(k); w < 8 {
			x.u &= (uint64(1) << (8 * uint(w))) - 1
		}
	default:
		x.b = randContent(rnd)
	}
	return x
}

func driveXbinary(opt *Options) error {
	tw, err := NewTraceWriter(opt.Out)
	if err != nil {
		return err
	}
	defer tw.Close()
	rnd := rand.New(rand.NewSource(opt.Seed))
	steps := 40
	if s, ok := opt.Extra["steps"]; ok {
		fmt.Sscan(s, &steps)
	}
	if opt.Extra["mode"] == "longrun" {
		driveLongRuns(tw)
		driveManyDecodes(tw)
		return nil
	}
	if opt.Extra["mode"] != "c16" {
		driveBigBodies(tw, rnd)
		if opt.Extra["huge"] != "0" {
			driveHugeBodies(tw, rnd)
		}
		nb := 40000000
		if s, ok := opt.Extra["bulk"]; ok {
			fmt.Sscan(s, &nb)
		}
		driveBulkStrings(tw, rnd, nb)
	} else {
		driveBulkStrings(tw, rnd, 40000000)
		driveStackInputs(tw)
	}
	for t := 0; t < opt.N; t++ {
		tw.Emit(map[string]any{"op": "Reset"})
		if opt.Extra["mode"] == "c16" {
			driveDecoders(tw, rnd, steps)
		} else {
			driveStream(tw, rnd, steps)
		}
	}
	return nil
}

func panicStr(p any) bool { return p != nil }

func minInt(a, b int) int {
	if a < b {
		return a
	}
	return b
}

// driveStream: a long random stream.  W = one item appended (through Marshal into the shared buffer
// or through the one ObjectsWriter), R = the next item decoded from the stream, M = a stateless
// Marshal into a random destination length.
func driveStream(tw *TraceWriter, rnd *rand.Rand, steps int) {
	var wire bytes.Buffer
	ow := &xbinary.ObjectsWriter{Writer: &wire}
	var pend []xval
	rpos := 0
	for i := 0; i < steps; i++ {
		switch k := rnd.Intn(10); {
		case k < 4:
			x := randItem(rnd)
			psz, _ := xPredictedSize(x)
			ev := map[string]any{"op": "W", "kind": x.kind, "v": x.specForm(), "psize": psz}
			before := wire.Len()
			if rnd.Intn(2) == 0 {
				ev["via"] = "writer"
				r := xWrite(ow, x)
				ev["n"], ev["err"], ev["panic"] = r.n, r.err != nil, panicStr(r.panic)
			} else {
				ev["via"] = "marshal"
				// reserve exactly the predicted size (fixed kinds: the width) + random slack
				sz := psz
				if sz < 0 {
					sz = widthOf(x.kind)
				}
				buf := make([]byte, sz+rnd.Intn(3))
				r := xMarshal(x, buf)
				ev["n"], ev["err"], ev["panic"] = r.n, r.err != nil, panicStr(r.panic)
				if r.panic == nil && r.err == nil && r.n >= 0 && r.n <= len(buf) {
					wire.Write(buf[:r.n])
				}
			}
			ev["bytes"] = bytesToInts(wire.Bytes()[before:])
			tw.Emit(ev)
			pend = append(pend, x)
		case k < 8:
			if len(pend) == 0 {
				continue
			}
			x := pend[0]
			newBuf := rnd.Intn(2) == 0
			// the reader sees a private copy of the unread part of the wire
			src := append([]byte(nil), wire.Bytes()[rpos:]...)
			r := xUnmarshal(x.kind, src, newBuf)
			ev := map[string]any{"op": "R", "kind": x.kind, "newbuf": newBuf, "ok": r.err == nil && r.panic == nil,
				"n": r.n, "panic": panicStr(r.panic), "indep": true}
			if r.panic == nil && r.err == nil {
				ev["v"] = r.val.specForm()
				if newBuf && isBytesKind(x.kind) {
					before := r.current()
					scramble(src)
					ev["indep"] = r.current().same(before) && !(x.kind == "bytes" && capAliases(r.val.b, src))
				}
			} else {
				ev["v"] = []int{}
			}
			tw.Emit(ev)
			if r.panic != nil || r.err != nil || r.n < 1 || r.n > len(wire.Bytes())-rpos {
				return // cannot go on reading this stream; the event above is already not a behaviour of the spec
			}
			rpos += r.n
			pend = pend[1:]
		default:
			x := randItem(rnd)
			psz, _ := xPredictedSize(x)
			if psz < 0 {
				psz = widthOf(x.kind)
			}
			l := psz - 3 + rnd.Intn(6)
			if rnd.Intn(4) == 0 {
				l = rnd.Intn(psz + 2)
			}
			if l < 0 {
				l = 0
			}
			buf, _ := bufWithLen(l, rnd.Intn(2) == 0, 0xAA)
			r := xMarshal(x, buf)
			ev := map[string]any{"op": "M", "kind": x.kind, "v": x.specForm(), "buflen": l, "n": r.n,
				"err": r.err != nil, "panic": panicStr(r.panic), "bytes": []int{}}
			if r.panic == nil && r.err == nil && r.n >= 0 && r.n <= len(buf) {
				ev["bytes"] = bytesToInts(buf[:r.n])
			}
			tw.Emit(ev)
		}
	}
}

var hugePrefixes = [][]byte{
	{0xff, 0xff, 0xff, 0xff, 0x07},
	{0x80, 0x80, 0x80, 0x80, 0x08},
	{0xff, 0xff, 0xff, 0xff, 0x0f},
	{0xff, 0xff, 0xff, 0xff, 0xff, 0xff, 0xff, 0xff, 0x7f},
	{0x80, 0x80, 0x80, 0x80, 0x80, 0x80, 0x80, 0x80, 0x80, 0x01},
	{0xff, 0xff, 0xff, 0xff, 0xff, 0xff, 0xff, 0xff, 0xff, 0x01},
	{0xf6, 0xff, 0xff, 0xff, 0xff, 0xff, 0xff, 0xff, 0xff, 0x01},
}

// mutate: a valid concatenation of encodings, damaged the way a hostile or truncated input is.
func mutate(rnd *rand.Rand, b []byte) []byte {
	b = append([]byte(nil), b...)
	for k := 1 + rnd.Intn(3); k > 0; k-- {
		switch rnd.Intn(8) {
		case 0: // truncate
			if len(b) > 0 {
				b = b[:rnd.Intn(len(b))]
			}
		case 1: // flip a bit
			if len(b) > 0 {
				b[rnd.Intn(len(b))] ^= 1 << uint(rnd.Intn(8))
			}
		case 2: // set the continuation bit somewhere near the front
			if len(b) > 0 {
				b[rnd.Intn(minInt(len(b), 12))] |= 0x80
			}
		case 3: // prepend continuation bytes (over-long varint)
			pre := make([]byte, 1+rnd.Intn(12))
			for i := range pre {
				pre[i] = []byte{0x80, 0x81, 0xff}[rnd.Intn(3)]
			}
			b = append(pre, b...)
		case 4: // replace the front with a huge length prefix
			p := hugePrefixes[rnd.Intn(len(hugePrefixes))]
			b = append(append([]byte(nil), p...), b[minInt(len(b), rnd.Intn(3)):]...)
		case 5: // append garbage
			g := make([]byte, rnd.Intn(6))
			rnd.Read(g)
			b = append(b, g...)
		case 6: // overwrite a byte with a class value
			if len(b) > 0 {
				b[rnd.Intn(len(b))] = []byte{0, 1, 0x7f, 0x80, 0x81, 0xff}[rnd.Intn(6)]
			}
		case 7: // leave as is
		}
	}
	if len(b) > 420 {
		b = b[:420]
	}
	return b
}

// driveDecoders: D events - every Unmarshal* on mutated valid encodings and on random bytes.
func driveDecoders(tw *TraceWriter, rnd *rand.Rand, steps int) {
	for i := 0; i < steps; i++ {
		var in []byte
		first := ""
		if rnd.Intn(5) == 0 {
			in = make([]byte, rnd.Intn(16))
			rnd.Read(in)
			for j := range in {
				if rnd.Intn(3) == 0 {
					in[j] |= 0x80
				}
			}
		} else {
			var w bytes.Buffer
			ow := &xbinary.ObjectsWriter{Writer: &w}
			for k := 1 + rnd.Intn(3); k > 0; k-- {
				x := randItem(rnd)
				if first == "" {
					first = x.kind
				}
				xWrite(ow, x)
			}
			in = mutate(rnd, w.Bytes())
		}
		kind := []string{"byte", "u16", "u32", "u64", "uint", "uint", "bytes", "bytes", "string", "string"}[rnd.Intn(10)]
		if first != "" && rnd.Intn(5) < 3 {
			kind = first // mostly decode as the kind the stream really starts with
		}
		newBuf := rnd.Intn(2) == 0
		slack := rnd.Intn(2) == 0
		src, backing := bufWithLen(len(in), slack, 0)
		copy(src, in)
		r := xUnmarshal(kind, src, newBuf)
		ev := map[string]any{"op": "D", "kind": kind, "in": bytesToInts(in), "newbuf": newBuf,
			"ok": r.err == nil && r.panic == nil, "n": r.n, "panic": panicStr(r.panic), "v": []int{}, "inside": true, "indep": true}
		if r.panic == nil && r.err == nil {
			ev["v"] = r.val.specForm()
			if isBytesKind(kind) {
				// the returned slice itself, when it aliases the source, must lie within the input
				ev["inside"] = !aliasOutside(&r, backing, len(in))
				if newBuf {
					before := r.current()
					scramble(src)
					ev["indep"] = r.current().same(before) && !(kind == "bytes" && capAliases(r.val.b, backing))
				}
			}
		}
		sig, _ := guardedDecode(kind, in, newBuf)
		ev["over"] = sig != ""
		tw.Emit(ev)
	}
}

// driveBigBodies: byte strings and strings around the 3 -> 4 byte length prefix boundary (2^21) and beyond,
// plus the in-place compaction idiom on short and long values: decode without copying, re-encode the aliasing
// value closer to the front of the same buffer, decode again.
func driveBigBodies(tw *TraceWriter, rnd *rand.Rand) {
	// every length up to 600 (an internal scratch buffer or fast path may sit at any small size), around powers of two
	// up to 64 KiB, and the megabyte range
	var lens []int
	for ln := 0; ln <= 600; ln++ {
		lens = append(lens, ln)
	}
	for k := 10; k <= 16; k++ {
		lens = append(lens, 1<<uint(k)-1, 1<<uint(k), 1<<uint(k)+1)
	}
	lens = append(lens, 16383, 16384, 1<<21-1, 1<<21, 1<<21+1, 3<<20, 1<<22-1, 1<<22)
	for _, ln := range lens {
		for _, asString := range []bool{false, true} {
			body := make([]byte, ln)
			rnd.Read(body)
			ev := map[string]any{"op": "Big", "len": ln, "string": asString, "panic": false}
			func() {
				defer func() {
					if p := recover(); p != nil {
						ev["panic"] = true
					}
				}()
				var psize int
				if asString {
					psize = xbinary.WritableStringSize(string(body))
				} else {
					psize = xbinary.WritebleBytesSize(body)
				}
				ev["psize"] = psize
				buf := make([]byte, psize+8)
				var n int
				var err error
				if asString {
					n, err = xbinary.MarshalString(string(body), buf[:psize])
				} else {
					n, err = xbinary.MarshalBytes(body, buf[:psize])
				}
				if err != nil {
					n = -1
				}
				ev["n"] = n
				// one byte short must be refused
				short := make([]byte, psize-1)
				var serr error
				if asString {
					_, serr = xbinary.MarshalString(string(body), short)
				} else {
					_, serr = xbinary.MarshalBytes(body, short)
				}
				ev["shortfails"] = serr != nil
				var w bytes.Buffer
				ow := &xbinary.ObjectsWriter{Writer: &w}
				var nw int
				if asString {
					nw, _ = ow.WriteString(string(body))
				} else {
					nw, _ = ow.WriteBytes(body)
				}
				ev["nw"] = nw
				consumed, got, derr := xbinary.UnmarshalBytes(buf[:psize], false)
				ev["consumed"] = consumed
				ev["rt"] = derr == nil && bytes.Equal(got, body) && bytes.Equal(w.Bytes(), buf[:minInt(psize, len(buf))])
				// in-place compaction: the value sits at offset 8 of a page, is decoded without copying and
				// re-encoded at offset 8-d of the same page (d = 1..7); it must still be the same value
				ev["shift"] = true
				for d := 1; d <= 7 && ev["shift"].(bool); d += 2 {
					page := make([]byte, psize+16)
					if asString {
						xbinary.MarshalString(string(body), page[8:])
					} else {
						xbinary.MarshalBytes(body, page[8:])
					}
					_, alias, e1 := xbinary.UnmarshalBytes(page[8:], false)
					if e1 != nil {
						ev["shift"] = false
						break
					}
					var e2 error
					if asString {
						_, s2, _ := xbinary.UnmarshalString(page[8:], false)
						_, e2 = xbinary.MarshalString(s2, page[8-d:])
					} else {
						_, e2 = xbinary.MarshalBytes(alias, page[8-d:])
					}
					_, back, e3 := xbinary.UnmarshalBytes(page[8-d:], true)
					ev["shift"] = e2 == nil && e3 == nil && bytes.Equal(back, body)
				}
			}()
			for _, k := range []string{"psize", "n", "nw", "consumed"} {
				if _, ok := ev[k]; !ok {
					ev[k] = -1
				}
			}
			for _, k := range []string{"rt", "shortfails", "shift"} {
				if _, ok := ev[k]; !ok {
					ev[k] = false
				}
			}
			tw.Emit(ev)
		}
	}
}

// cmpWriter compares what is written with the expected bytes without storing anything.
type cmpWriter struct {
	want []byte
	pos  int
	ok   bool
}

func (w *cmpWriter) Write(p []byte) (int, error) {
	if w.pos+len(p) > len(w.want) || !bytes.Equal(p, w.want[w.pos:w.pos+len(p)]) {
		w.ok = false
	}
	w.pos += len(p)
	return len(p), nil
}

// driveHugeBodies: bodies around 2^28 bytes - the last boundary of the length prefix (4 / 5 bytes) a process can
// reasonably hold.  Two buffers of 256 MiB, nothing else is copied.  Same "Big" summary line as driveBigBodies.
func driveHugeBodies(tw *TraceWriter, rnd *rand.Rand) {
	body := make([]byte, 1<<28+1)
	rnd.Read(body[:4096])
	rnd.Read(body[len(body)-4096:])
	buf := make([]byte, len(body)+16)
	for _, ln := range []int{1<<28 - 1, 1 << 28, 1<<28 + 1} {
		for _, asString := range []bool{false, true} {
			b := body[:ln]
			ev := map[string]any{"op": "Big", "len": ln, "string": asString, "panic": false, "shift": true}
			func() {
				defer func() {
					if p := recover(); p != nil {
						ev["panic"] = true
					}
				}()
				var str string
				if asString {
					str = unsafe.String(unsafe.SliceData(b), len(b)) // (no copy; b is not modified while str lives)
				}
				var psize, n int
				var err, serr error
				if asString {
					psize = xbinary.WritableStringSize(str)
				} else {
					psize = xbinary.WritebleBytesSize(b)
				}
				ev["psize"] = psize
				if psize < 1 || psize > len(buf) {
					return
				}
				if asString {
					_, serr = xbinary.MarshalString(str, buf[:psize-1])
					n, err = xbinary.MarshalString(str, buf[:psize])
				} else {
					_, serr = xbinary.MarshalBytes(b, buf[:psize-1])
					n, err = xbinary.MarshalBytes(b, buf[:psize])
				}
				if err != nil {
					n = -1
				}
				ev["n"], ev["shortfails"] = n, serr != nil
				cw := &cmpWriter{want: buf[:psize], ok: true}
				ow := &xbinary.ObjectsWriter{Writer: cw}
				var nw int
				if asString {
					nw, _ = ow.WriteString(str)
				} else {
					nw, _ = ow.WriteBytes(b)
				}
				ev["nw"] = nw
				consumed, got, derr := xbinary.UnmarshalBytes(buf[:psize], false)
				ev["consumed"] = consumed
				ev["rt"] = derr == nil && bytes.Equal(got, b) && cw.ok && cw.pos == psize
			}()
			for _, k := range []string{"psize", "n", "nw", "consumed"} {
				if _, ok := ev[k]; !ok {
					ev[k] = -1
				}
			}
			for _, k := range []string{"rt", "shortfails"} {
				if _, ok := ev[k]; !ok {
					ev[k] = false
				}
			}
			tw.Emit(ev)
		}
	}
}

// driveBulkStrings: tens of millions of DISTINCT short strings and byte strings decoded one after the other (newBuf =
// true and false): whatever a decoder remembers between calls (a cache, an interning table, a pooled buffer) must not
// make one value come back as another.  One summary line.
func driveBulkStrings(tw *TraceWriter, rnd *rand.Rand, n int) {
	ev := map[string]any{"op": "Bulk", "n": n, "bad": 0, "panic": false}
	func() {
		defer func() {
			if p := recover(); p != nil {
				ev["panic"] = true
			}
		}()
		const alpha = "abcdefghijklmnopqrstuvwxyz"
		buf := make([]byte, 32)
		bad := 0
		x := rnd.Uint64() | 1
		for i := 0; i < n; i++ {
			x ^= x << 13
			x ^= x >> 7
			x ^= x << 17
			ln := 6 // strings: all of one length (a table that compares lengths only gets every chance to mix them up)
			if i&1 == 1 {
				ln = 3 + int(x>>60)%6 // byte strings: 3..8 letters
			}
			buf[0] = byte(ln)
			y := x
			for j := 1; j <= ln; j++ {
				buf[j] = alpha[y%26]
				y /= 26
			}
			if i&1 == 0 {
				c, str, err := xbinary.UnmarshalString(buf[:1+ln], true)
				if err != nil || c != 1+ln || str != string(buf[1:1+ln]) {
					bad++
				}
			} else {
				c, b, err := xbinary.UnmarshalBytes(buf[:1+ln], true)
				if err != nil || c != 1+ln || !bytes.Equal(b, buf[1:1+ln]) {
					bad++
				}
			}
		}
		ev["bad"] = bad
	}()
	tw.Emit(ev)
	driveCollidingStrings(tw)
}

// driveCollidingStrings: pairs of different strings of equal length with the SAME 32-bit hash under the usual cheap hash
// functions (FNV-1 and FNV-1a, CRC-32 IEEE and Castagnoli, Adler-32, djb2, sdbm, Java's 31-multiplier), found by a birthday
// search over 600000 names, decoded back to back (a, b, a; newBuf true and false; as string and as bytes): whatever table
// a decoder keeps, a value never comes back as another one.  One Bulk line.
func driveCollidingStrings(tw *TraceWriter) {
	ev := map[string]any{"op": "Bulk", "what": "hash-colliding pairs", "n": 0, "bad": 0, "panic": false}
	func() {
		defer func() {
			if p := recover(); p != nil {
				ev["panic"] = true
			}
		}()
		hashes := map[string]func([]byte) uint32{
			"fnv1a": func(b []byte) uint32 { h := fnv.New32a(); h.Write(b); return h.Sum32() },
			"fnv1":  func(b []byte) uint32 { h := fnv.New32(); h.Write(b); return h.Sum32() },
			"crc32": crc32.ChecksumIEEE,
			"crc32c": func(b []byte) uint32 { return crc32.Checksum(b, crc32.MakeTable(crc32.Castagnoli)) },
			"adler": adler32.Checksum,
			"djb2": func(b []byte) uint32 {
				h := uint32(5381)
				for _, c := range b {
					h = h*33 + uint32(c)
				}
				return h
			},
			"sdbm": func(b []byte) uint32 {
				h := uint32(0)
				for _, c := range b {
					h = uint32(c) + (h << 6) + (h << 16) - h
				}
				return h
			},
			"java31": func(b []byte) uint32 {
				h := uint32(0)
				for _, c := range b {
					h = 31*h + uint32(c)
				}
				return h
			},
		}
		castagnoli := crc32.MakeTable(crc32.Castagnoli)
		hashes["crc32c"] = func(b []byte) uint32 { return crc32.Checksum(b, castagnoli) }
		n, bad := 0, 0
		decode := func(a string) bool {
			in := append([]byte{byte(len(a))}, a...)
			for _, nb := range []bool{true, false} {
				c, str, err := xbinary.UnmarshalString(in, nb)
				if err != nil || c != len(in) || str != a {
					return false
				}
				c, bs, err := xbinary.UnmarshalBytes(in, nb)
				if err != nil || c != len(in) || string(bs) != a {
					return false
				}
			}
			return true
		}
		for _, name := range []string{"fnv1a", "fnv1", "crc32", "crc32c", "adler", "djb2", "sdbm", "java31"} {
			h := hashes[name]
			seen := make(map[uint32]string, 600000)
			pairs := 0
			for i := 0; i < 600000 && pairs < 40; i++ {
				a := fmt.Sprintf("host-%06d", i)
				k := h([]byte(a))
				if b, ok := seen[k]; ok && b != a {
					pairs++
					for _, s := range []string{b, a, b, a} {
						n++
						if !decode(s) {
							bad++
						}
					}
					continue
				}
				seen[k] = a
			}
		}
		ev["n"], ev["bad"] = n, bad
	}()
	tw.Emit(ev)
}

// driveLongRuns: inputs of 16 MiB made of continuation bytes (an endless varint, also as the length prefix of a
// byte string), with and without a terminator.  Run in its own process: a decoder that recurses per byte dies
// with a stack overflow, which no recover() can catch.
func driveLongRuns(tw *TraceWriter) {
	const N = 16 << 20
	mk := func(fill byte, term []byte) []byte {
		b := make([]byte, N, N+len(term))
		for i := range b {
			b[i] = fill
		}
		return append(b, term...)
	}
	inputs := [][]byte{mk(0xff, nil), mk(0x80, nil), mk(0x80, []byte{0x01}), mk(0xff, []byte{0x00, 0x41})}
	for _, in := range inputs {
		for _, kind := range []string{"uint", "bytes", "string"} {
			r := xUnmarshal(kind, in, false)
			tw.Emit(map[string]any{"op": "Long", "kind": kind, "len": len(in), "ok": r.err == nil && r.panic == nil, "n": r.n, "panic": panicStr(r.panic)})
		}
	}
}


// driveManyDecodes: more than 2^31 decodes of short byte strings with newBuf = true in ONE process, spread over all
// cores (a 32-bit counter somewhere in a decoder comes round): every call returns, without panicking, the bytes it was
// given.  One summary line (n is logged clamped to TLC's integers).
func driveManyDecodes(tw *TraceWriter) {
	const total = 1<<31 + 1<<22
	G := runtime.NumCPU()
	if G > 16 {
		G = 16
	}
	var bad, panics int64
	var wg sync.WaitGroup
	for g := 0; g < G; g++ {
		wg.Add(1)
		go func(g int) {
			defer wg.Done()
			in := []byte{3, 'a', byte('a' + g), 'c', 0xEE}
			n := total/G + 1
			for i := 0; i < n; {
				func() {
					defer func() {
						if recover() != nil {
							atomic.AddInt64(&panics, 1)
							i++
						}
					}()
					for ; i < n; i++ {
						in[1] = byte('a' + i&15)
						c, b, err := xbinary.UnmarshalBytes(in[:4], true)
						if err != nil || c != 4 || len(b) != 3 || b[0] != in[1] || b[1] != in[2] || b[2] != 'c' {
							atomic.AddInt64(&bad, 1)
						}
						if atomic.LoadInt64(&panics) > 1000 {
							i = n
						}
					}
				}()
			}
		}(g)
	}
	wg.Wait()
	tw.Emit(map[string]any{"op": "Bulk", "n": 1<<31 - 1, "calls_millions": total >> 20, "what": "more than 2^31 short newBuf decodes in one process",
		"bad": bad + atomic.LoadInt64(&panics), "panic": atomic.LoadInt64(&panics) > 0})
}

// ---- inputs that live on a goroutine stack ----------------------------------------------------------------------
// A small fixed-size buffer is often a local array.  The Go runtime MOVES goroutine stacks when they grow - pointers into
// them are adjusted, integers that merely hold an address are not.  The leaf below decodes from a local array at 3000
// different stack depths on fresh goroutines (so that some calls fall right onto a stack growth): with newBuf=false the
// result must BE the body inside the input (same address, writes to the input seen through it), not bytes somewhere else.

type stackRes struct{ calls, bad int }

//go:noinline
func stackLeaf(r *stackRes, asString bool) {
	var bb [96]byte
	body := "the quick brown fox jumps over the lazy dog"
	bb[0] = byte(len(body))
	n := 1 + copy(bb[1:], body)
	r.calls++
	if asString {
		cnt, res, err := xbinary.UnmarshalString(bb[:n], false)
		if err != nil || cnt != n || res != body || uintptr(unsafe.Pointer(unsafe.StringData(res))) != uintptr(unsafe.Pointer(&bb[1])) {
			r.bad++
		}
		return
	}
	cnt, res, err := xbinary.UnmarshalBytes(bb[:n], false)
	if err != nil || cnt != n || len(res) != len(body) || string(res) != body {
		r.bad++
		return
	}
	if uintptr(unsafe.Pointer(&res[0])) != uintptr(unsafe.Pointer(&bb[1])) {
		r.bad++
		return
	}
	bb[1] = 'T'
	if res[0] != 'T' {
		r.bad++
	}
}

//go:noinline
func stackRec(r *stackRes, n int, asString bool) int {
	if n == 0 {
		stackLeaf(r, asString)
		return 0
	}
	return stackRec(r, n-1, asString) + 1
}

//go:noinline
func stackPad(r *stackRes, n int, asString bool) int {
	var pad [24]byte // shifts the frames below by a few words
	pad[n%24] = byte(n)
	return stackRec(r, n, asString) + int(pad[(n+1)%24])
}

func driveStackInputs(tw *TraceWriter) {
	r := &stackRes{}
	panicked, _ := callPanics(func() {
		for depth := 0; depth < 3000; depth++ {
			for _, asString := range []bool{false, true} {
				done := make(chan struct{})
				go func() {
					defer close(done)
					if depth%2 == 0 {
						stackRec(r, depth/2, asString)
					} else {
						stackPad(r, depth/2, asString)
					}
				}()
				<-done
			}
		}
	})
	tw.Emit(map[string]any{"op": "Bulk", "what": "inputs in local arrays at 3000 stack depths (newBuf=false: the result is the body inside the input)",
		"n": r.calls, "bad": r.bad, "panic": panicked})
}
