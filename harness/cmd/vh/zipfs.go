package main

import (
	"archive/zip"
	"bytes"
	"crypto/sha256"
	"encoding/hex"
	"errors"
	"fmt"
	"io/fs"
	"math/rand"
	"os"
	"path/filepath"
	"sort"
	"strings"
	"sync"
	"syscall"
	"time"

	"github.com/acquirecloud/golibs/files"
)

// C20: files.ZipFolder / files.UnzipToFolder against spec/zipfs/ZipFs.tla.
//
// Two kinds of TLC-generated behaviours are replayed (spec -> code):
//
//   - [Tree, RoundTrip]: the tree is materialised under a fresh temp dir, zipped
//     with the real ZipFolder (filter + recursive flag of the behaviour), unzipped
//     with the real UnzipToFolder, and the regular files found below the destination
//     are compared with `want` = Select(tree, filter, recursive) of the contract.
//   - [Sandbox, Entry...]: the entries are written into an archive with archive/zip
//     directly (names with "..", ".", leading "/", directory/file clashes),
//     extracted with the real UnzipToFolder into <root>/s/x/<dest>, and the whole
//     sandbox outside the destination (decoy files included) is compared before/after.
//
// The driver (code -> spec) does the same with seeded random trees and random
// hostile archives and records events that spec/zipfs/ZipTrace.tla validates.
//
// Verdicts come only from the contract: a selected file missing / different / an
// unselected one present after the round trip; anything created, modified or removed
// outside the destination.  Differences with the impl_* predictions of ZipImpl.tla
// (entry names written by ZipFolder, error/no error, what ends up inside dest for a
// hostile archive) are reported as drift.

func init() {
	replayers["zipfs"] = replayZip
	drivers["zipfs"] = driveZip
	// Go's archive/zip reader can be told to refuse "insecure" names (GODEBUG
	// zipinsecurepath=0); then files.NewZipIterator fails and nothing reaches the code
	// under test.  The default keeps such names; pin the default so that the
	// environment cannot make the confinement test vacuous.  (zipSelfCheck verifies it.)
	gd := os.Getenv("GODEBUG")
	if !strings.Contains(gd, "zipinsecurepath") {
		if gd != "" {
			gd += ","
		}
		os.Setenv("GODEBUG", gd+"zipinsecurepath=1")
	}
	if jail := os.Getenv("VERIF_ZIPFS_JAIL"); jail != "" && len(os.Args) > 2 && os.Args[2] == "zipfs" {
		zipEnterJail(jail)
	}
}

// zipEnterJail confines this process to the private directory `jail` (chroot) before any
// library call is made.  The library under test may be a broken one - that is what the
// check is for -: a version that takes absolute entry names literally, or climbs higher
// than the sandbox is deep, would otherwise write into the host's file system.  Inside the
// jail "/" is the private directory, all sandboxes live in /tmp, and the -in/-out
// arguments are given relative to the jail.  Without the privilege to chroot the run
// continues unjailed (the absolute-path probe below still reports and removes literal
// absolute writes).  One line on stderr says which mode is in effect.
func zipEnterJail(jail string) {
	if err := os.Chdir(jail); err != nil {
		harnessFatal("jail %s: %v", jail, err)
	}
	if err := syscall.Chroot("."); err != nil {
		must(os.MkdirAll(filepath.Join(jail, "tmp"), 0o755))
		os.Setenv("TMPDIR", filepath.Join(jail, "tmp"))
		fmt.Fprintf(os.Stderr, "vh zipfs: jail=none (%v)\n", err)
		return
	}
	must(os.Chdir("/"))
	must(os.MkdirAll("/tmp", 0o755))
	os.Setenv("TMPDIR", "/tmp")
	fmt.Fprintln(os.Stderr, "vh zipfs: jail=chroot")
}

// harnessFatal: the machinery is broken (cannot create temp dirs, archive/zip hides
// the entries, ...).  Exit 2 makes vcheck report BROKEN, never a violation.
func harnessFatal(format string, a ...any) {
	fmt.Fprintf(os.Stderr, "vh zipfs: harness error: "+format+"\n", a...)
	os.Exit(2)
}

// ---------------------------------------------------------------- name / content tables

type zipNaming struct {
	names     map[string]string // abstract segment -> real name
	srcSlash  bool              // pass srcDir with a trailing "/"
	dstSlash  bool              // pass destDir with a trailing "/"
	dstFresh  bool              // round trip: destination does not exist yet (nested, to be created)
	dstStale  bool              // round trip: the destination already holds older, LONGER versions of the selected files
	backslash bool              // hostile archives: entry names use '\\' instead of '/' (only confinement is judged)
	ordered   bool              // real names sort like the abstract ones (entry order comparable)
}

func zipNamingOf(variant string) *zipNaming {
	switch variant {
	case "", "plain":
		return &zipNaming{names: map[string]string{"a": "vz-a", "b": "vz-b", "c": "vz-c", "dest": "vz-dest", "dest2": "vz-dest2"}, ordered: true}
	case "bslash":
		return &zipNaming{names: map[string]string{"a": "vz-a", "b": "vz-b", "c": "vz-c", "dest": "vz-dest", "dest2": "vz-dest2"}, ordered: true, backslash: true}
	case "stale":
		// extracting again into a destination that holds an earlier extraction: the files must be reproduced, not patched
		return &zipNaming{names: map[string]string{"a": "vz-a", "b": "vz-b", "c": "vz-c", "dest": "vz-dest", "dest2": "vz-dest2"}, ordered: true, dstStale: true}
	case "odd":
		// a hidden file with a space and a ".." INSIDE the name, a name that STARTS with ".." (both ordinary names), unicode, a trailing dot
		return &zipNaming{names: map[string]string{"a": ".vz a..b.txt", "b": "..vz.üé 日本", "c": "vz-c.", "dest": "vz de st.d", "dest2": "vz de st.d2"},
			srcSlash: true, dstSlash: true, dstFresh: true}
	}
	harnessFatal("unknown variant %q", variant)
	return nil
}

func (n *zipNaming) real(seg string) string {
	if seg == "." || seg == ".." {
		return seg
	}
	if r, ok := n.names[seg]; ok {
		return r
	}
	harnessFatal("no real name for segment %q", seg)
	return ""
}

func (n *zipNaming) realPath(segs []string) string {
	rs := make([]string, len(segs))
	for i, s := range segs {
		rs[i] = n.real(s)
	}
	return strings.Join(rs, "/")
}

const zipDecoyContent = "decoy: this file must never change\n"

func zipContent(id int) []byte {
	switch id {
	case 0:
		return []byte{}
	case 1:
		return []byte("PK\x03\x04 one\n\x00\xff\r\n")
	case 2:
		b := make([]byte, 33000) // larger than io.Copy's 32 KB buffer
		r := rand.New(rand.NewSource(2))
		r.Read(b[:16500]) // incompressible half, compressible half
		return b
	case -1:
		return []byte(zipDecoyContent)
	}
	if id%3 == 0 {
		// content that starts like a file of a well-known format (packed, picture, document, executable, script ...)
		return append([]byte(zipMagics[(id/3)%len(zipMagics)]), []byte(fmt.Sprintf(" content #%d\n", id))...)
	}
	return []byte(fmt.Sprintf("content #%d\n", id))
}

// the first bytes of files in well-known formats: what a file IS must not matter to a lossless round trip
var zipMagics = []string{"\x1f\x8b\x08\x00", "BZh91AY&SY", "\xfd7zXZ\x00", "\x28\xb5\x2f\xfd", "\x89PNG\r\n\x1a\n", "\xff\xd8\xff\xe0",
	"7z\xbc\xaf\x27\x1c", "PK\x03\x04", "PK\x05\x06", "%PDF-1.7", "\x7fELF", "MZ\x90\x00", "#!/bin/sh\n", "\xef\xbb\xbf", "GIF89a", "RIFF\x00\x00\x00\x00WEBP",
	"Rar!\x1a\x07\x00", "\x04\x22\x4d\x18", "\x00\x00\x00\x18ftypmp42", "OggS", "fLaC", "ID3\x03", "\x1f\x9d", "\x1f\xa0", "LZIP", "\xca\xfe\xba\xbe", "\x00\x00\x00\x00"}

// ---------------------------------------------------------------- decoding helpers

func anyStrings(v any) []string {
	arr, _ := v.([]any)
	res := make([]string, 0, len(arr))
	for _, a := range arr {
		s, _ := a.(string)
		res = append(res, s)
	}
	return res
}

type zipFileRec struct {
	path    []string
	content int
}

func anyFileRecs(v any) []zipFileRec {
	arr, _ := v.([]any)
	res := make([]zipFileRec, 0, len(arr))
	for _, a := range arr {
		m, _ := a.(map[string]any)
		c, _ := m["content"].(float64)
		res = append(res, zipFileRec{path: anyStrings(m["path"]), content: int(c)})
	}
	return res
}

// ---------------------------------------------------------------- file-system observation

// zipSnapshot describes every object below root except the subtree of `skip`
// (skip itself is included).  Regular files are described by their content hash.
func zipSnapshot(root, skip string) map[string]string {
	res := map[string]string{}
	err := filepath.Walk(root, func(p string, info fs.FileInfo, err error) error {
		if err != nil {
			return err
		}
		rel, _ := filepath.Rel(root, p)
		switch {
		case info.IsDir():
			res[rel] = "dir"
			if skip != "" && p == skip {
				return filepath.SkipDir
			}
		case info.Mode().IsRegular():
			b, err := os.ReadFile(p)
			if err != nil {
				return err
			}
			h := sha256.Sum256(b)
			res[rel] = fmt.Sprintf("file:%d:%s", len(b), hex.EncodeToString(h[:]))
		case info.Mode()&fs.ModeSymlink != 0:
			t, _ := os.Readlink(p)
			res[rel] = "link:" + t
		default:
			res[rel] = "other:" + info.Mode().String()
		}
		return nil
	})
	if err != nil {
		harnessFatal("snapshot of %s: %v", root, err)
	}
	return res
}

type zipChange struct {
	Path string `json:"path"`
	How  string `json:"how"` // mkdir | create | modify | remove
	Was  string `json:"was,omitempty"`
	Now  string `json:"now,omitempty"`
}

func zipDiff(before, after map[string]string) []zipChange {
	var res []zipChange
	for p, a := range after {
		b, ok := before[p]
		switch {
		case !ok && a == "dir":
			res = append(res, zipChange{Path: p, How: "mkdir", Now: a})
		case !ok:
			res = append(res, zipChange{Path: p, How: "create", Now: a})
		case a != b:
			res = append(res, zipChange{Path: p, How: "modify", Was: b, Now: a})
		}
	}
	for p, b := range before {
		if _, ok := after[p]; !ok {
			res = append(res, zipChange{Path: p, How: "remove", Was: b})
		}
	}
	sort.Slice(res, func(i, j int) bool { return res[i].Path < res[j].Path })
	return res
}

// zipAbsProbe watches the absolute locations that entry names starting with "/"
// denote when taken literally (an implementation that forgets to join them with the
// destination would write there, outside every sandbox).  Only objects that did not
// exist before are reported and removed afterwards.
type zipAbsProbe struct {
	missing []string // absolute paths (every prefix of every literal target) absent before
}

// Whether a watched absolute path existed is decided once per process, the first time any
// worker is about to run an archive that could create it (workers run concurrently; a path
// created by another worker's run must still count as "was absent").
var zipAbsSeen = struct {
	sync.Mutex
	existed map[string]bool
}{existed: map[string]bool{}}

func newZipAbsProbe(names []string) *zipAbsProbe {
	p := &zipAbsProbe{}
	seen := map[string]bool{}
	zipAbsSeen.Lock()
	defer zipAbsSeen.Unlock()
	for _, n := range names {
		if !strings.HasPrefix(n, "/") {
			continue
		}
		c := filepath.Clean(n)
		for c != "/" && c != "." {
			if !seen[c] {
				seen[c] = true
				ex, known := zipAbsSeen.existed[c]
				if !known {
					_, err := os.Lstat(c)
					ex = !(err != nil && errors.Is(err, fs.ErrNotExist))
					zipAbsSeen.existed[c] = ex
				}
				if !ex {
					p.missing = append(p.missing, c)
				}
			}
			c = filepath.Dir(c)
		}
	}
	sort.Slice(p.missing, func(i, j int) bool { return len(p.missing[i]) < len(p.missing[j]) })
	return p
}

// created returns the watched absolute paths that exist now, and removes them.
func (p *zipAbsProbe) created() []string {
	var res []string
	for _, c := range p.missing {
		if _, err := os.Lstat(c); err == nil {
			res = append(res, c)
		}
	}
	for _, c := range res {
		os.RemoveAll(c)
	}
	return res
}

// ---------------------------------------------------------------- building archives

type zipEntry struct {
	name    string // as stored in the archive
	dir     bool
	content []byte
	deflate bool   // compress (the replay stores: a flate writer costs ~1 MB of set-up per entry)
	link    string // non-empty: a symbolic-link entry (mode bits of the header) whose content is this target
}

func zipWriteArchive(path string, entries []zipEntry) {
	f, err := os.Create(path)
	if err != nil {
		harnessFatal("create archive: %v", err)
	}
	w := zip.NewWriter(f)
	for _, e := range entries {
		hdr := &zip.FileHeader{Name: e.name, Method: zipMethod(e.deflate)}
		if e.link != "" {
			hdr.SetMode(os.ModeSymlink | 0o777)
			e.content = []byte(e.link)
		}
		out, err := w.CreateHeader(hdr)
		if err != nil {
			harnessFatal("archive/zip refuses entry %q: %v", e.name, err)
		}
		if !e.dir {
			if _, err := out.Write(e.content); err != nil {
				harnessFatal("archive/zip write %q: %v", e.name, err)
			}
		}
	}
	if err := w.Close(); err != nil {
		harnessFatal("close archive: %v", err)
	}
	if err := f.Close(); err != nil {
		harnessFatal("close archive: %v", err)
	}
	// the reader the library uses must hand these very names to the code under test
	r, err := zip.OpenReader(path)
	if err != nil {
		harnessFatal("archive/zip does not open the archive it wrote (GODEBUG=%q): %v", os.Getenv("GODEBUG"), err)
	}
	defer r.Close()
	if len(r.File) != len(entries) {
		harnessFatal("archive/zip lists %d entries, wrote %d", len(r.File), len(entries))
	}
	for i, zf := range r.File {
		if zf.Name != entries[i].name {
			harnessFatal("archive/zip lists entry %q, wrote %q", zf.Name, entries[i].name)
		}
	}
}

func zipMethod(deflate bool) uint16 {
	if deflate {
		return zip.Deflate
	}
	return zip.Store
}

func zipEntryNames(path string) ([]string, error) {
	r, err := zip.OpenReader(path)
	if err != nil {
		return nil, err
	}
	defer r.Close()
	var res []string
	for _, zf := range r.File {
		res = append(res, zf.Name)
	}
	return res, nil
}

// regular files (and anything that is not a directory) below dir, keyed by the
// slash-separated relative path
func zipScan(dir string) (regular map[string][]byte, other map[string]string) {
	regular, other = map[string][]byte{}, map[string]string{}
	if _, err := os.Lstat(dir); err != nil {
		return
	}
	err := filepath.Walk(dir, func(p string, info fs.FileInfo, err error) error {
		if err != nil {
			return err
		}
		if info.IsDir() {
			return nil
		}
		rel, _ := filepath.Rel(dir, p)
		if info.Mode().IsRegular() {
			b, err := os.ReadFile(p)
			if err != nil {
				return err
			}
			regular[rel] = b
		} else {
			other[rel] = info.Mode().String()
		}
		return nil
	})
	if err != nil {
		harnessFatal("scan %s: %v", dir, err)
	}
	return
}

func errText(err error) string {
	if err == nil {
		return "nil"
	}
	return err.Error()
}

// ---------------------------------------------------------------- replay

func replayZip(b Behaviour, opt *Options) *Failure {
	if len(b) == 0 {
		return nil
	}
	switch b[0].Str("op") {
	case "Tree":
		return replayZipRoundTrip(b, opt)
	case "Sandbox":
		return replayZipExtract(b, opt)
	}
	harnessFatal("behaviour starts with %q", b[0].Str("op"))
	return nil
}

func replayZipRoundTrip(b Behaviour, opt *Options) *Failure {
	if len(b) < 2 {
		return nil // the tree alone: nothing to run
	}
	nm := zipNamingOf(opt.Variant)
	step := b[1]
	if step.Str("op") != "RoundTrip" {
		harnessFatal("expected RoundTrip, got %q", step.Str("op"))
	}
	root, err := os.MkdirTemp("", "vh-zipfs-rt-")
	if err != nil {
		harnessFatal("%v", err)
	}
	defer os.RemoveAll(root)
	src := filepath.Join(root, "src")
	must(os.MkdirAll(src, 0o755))
	for _, fr := range anyFileRecs(b[0]["files"]) {
		p := filepath.Join(src, nm.realPath(fr.path))
		must(os.MkdirAll(filepath.Dir(p), 0o755))
		must(os.WriteFile(p, zipContent(fr.content), 0o644))
	}
	if ds, ok := b[0]["dirs"].([]any); ok {
		for _, d := range ds {
			must(os.MkdirAll(filepath.Join(src, nm.realPath(anyStrings(d))), 0o755))
		}
	}
	dst := filepath.Join(root, "out", nm.real("dest"))
	if nm.dstFresh {
		dst = filepath.Join(root, "out", "new", nm.real("dest"))
	} else {
		must(os.MkdirAll(dst, 0o755))
	}
	zipFile := filepath.Join(root, "arch.zip")

	var filter func(string) bool
	acc := map[string]bool{}
	if !step.Bool("nil") {
		if arr, ok := step["acc"].([]any); ok {
			for _, p := range arr {
				acc[nm.realPath(anyStrings(p))] = true
			}
		}
		filter = func(p string) bool {
			if st, err := os.Stat(p); err == nil && st.IsDir() {
				return true // the filter is about files; never veto a directory
			}
			rel, err := filepath.Rel(src, p)
			return err == nil && acc[filepath.ToSlash(rel)]
		}
	}
	srcArg, dstArg := src, dst
	if nm.srcSlash {
		srcArg += "/"
	}
	if nm.dstSlash {
		dstArg += "/"
	}
	var zerr, uerr error
	stalePrepared := false
	if p, pv := callPanics(func() { zerr = files.ZipFolder(srcArg, zipFile, filter, step.Bool("rec")) }); p {
		return &Failure{Step: 1, Sig: "zipfs: ZipFolder panicked on an ordinary tree", Got: fmt.Sprint(pv)}
	}
	names, _ := zipEntryNames(zipFile)
	probe := newZipAbsProbe(names)
	before := zipSnapshot(root, dst)
	if p, pv := callPanics(func() { uerr = files.UnzipToFolder(zipFile, dstArg) }); p {
		probe.created()
		return &Failure{Step: 1, Sig: "zipfs: UnzipToFolder panicked on an archive written by ZipFolder", Got: fmt.Sprint(pv)}
	}
	after := zipSnapshot(root, dst)
	if abs := probe.created(); len(abs) > 0 {
		return &Failure{Step: 1, Sig: "zipfs: UnzipToFolder touched the file system outside the destination (absolute entry name taken literally)",
			Got: map[string]any{"created_absolute": abs, "archive_entries": names}}
	}

	want := map[string][]byte{}
	for _, fr := range anyFileRecs(step["want"]) {
		want[nm.realPath(fr.path)] = zipContent(fr.content)
	}
	if nm.dstStale && !stalePrepared {
		// second pass: put older, longer versions of the selected files into the destination and extract again
		for p, w := range want {
			fp := filepath.Join(dst, filepath.FromSlash(p))
			must(os.MkdirAll(filepath.Dir(fp), 0o755))
			must(os.WriteFile(fp, append(append([]byte{}, w...), []byte("--stale tail of an earlier, longer version--")...), 0o644))
		}
		stalePrepared = true
		if p, pv := callPanics(func() { uerr = files.UnzipToFolder(zipFile, dstArg) }); p {
			return &Failure{Step: 1, Sig: "zipfs: UnzipToFolder panicked on an archive written by ZipFolder", Got: fmt.Sprint(pv)}
		}
		after = zipSnapshot(root, dst)
	}
	got, other := zipScan(dst)
	ctx := map[string]any{"ZipFolder_err": errText(zerr), "UnzipToFolder_err": errText(uerr), "archive_entries": names}
	var missing, differ, extra []string
	for p, w := range want {
		g, ok := got[p]
		if !ok {
			missing = append(missing, p)
		} else if !bytes.Equal(g, w) {
			differ = append(differ, fmt.Sprintf("%s (%d bytes, want %d)", p, len(g), len(w)))
		}
	}
	for p := range got {
		if _, ok := want[p]; !ok {
			extra = append(extra, p)
		}
	}
	for p, m := range other {
		extra = append(extra, p+" ("+m+")")
	}
	sort.Strings(missing)
	sort.Strings(differ)
	sort.Strings(extra)
	wantNames := keysOf(want)
	switch {
	case len(missing) > 0:
		ctx["missing"] = missing
		return &Failure{Step: 1, Sig: "zipfs: round trip lost a selected file", Got: ctx, Want: wantNames}
	case len(differ) > 0:
		ctx["differ"] = differ
		return &Failure{Step: 1, Sig: "zipfs: round trip changed the content of a selected file", Got: ctx, Want: wantNames}
	case len(extra) > 0:
		ctx["extra"] = extra
		return &Failure{Step: 1, Sig: "zipfs: round trip produced a file that was not selected", Got: ctx, Want: wantNames}
	}
	if ch := zipOutsideChanges(zipDiff(before, after), root, dst); len(ch) > 0 {
		return &Failure{Step: 1, Sig: "zipfs: UnzipToFolder touched the file system outside the destination (" + ch[0].How + ")", Got: ch}
	}
	// ---- drift only: the entry names ZipImpl.tla predicts
	if arr, ok := step["impl_entries"].([]any); ok {
		var pred []string
		for _, a := range arr {
			m, _ := a.(map[string]any)
			n := nm.realPath(anyStrings(m["segs"]))
			if s, _ := m["slash"].(bool); s {
				n = "/" + n
			}
			pred = append(pred, n)
		}
		gotN := append([]string(nil), names...)
		if !nm.ordered {
			sort.Strings(pred)
			sort.Strings(gotN)
		}
		if strings.Join(pred, "\x00") != strings.Join(gotN, "\x00") || zerr != nil || uerr != nil {
			return &Failure{Step: 1, Kind: "drift", Sig: "zipfs: archive entry names / errors differ from ZipImpl", Got: ctx, Want: pred}
		}
	}
	return nil
}

func keysOf(m map[string][]byte) []string {
	res := make([]string, 0, len(m))
	for k := range m {
		res = append(res, k)
	}
	sort.Strings(res)
	return res
}

func must(err error) {
	if err != nil {
		harnessFatal("%v", err)
	}
}

// zipOutsideChanges keeps the changes that are neither below dst nor the creation
// of dst itself / of one of its missing ancestors (EnsureDirExists(destDir)).
func zipOutsideChanges(ch []zipChange, root, dst string) []zipChange {
	relDst, _ := filepath.Rel(root, dst)
	var res []zipChange
	for _, c := range ch {
		if c.Path == relDst || strings.HasPrefix(c.Path, relDst+string(filepath.Separator)) {
			continue
		}
		if c.How == "mkdir" && strings.HasPrefix(relDst, c.Path+string(filepath.Separator)) {
			continue
		}
		res = append(res, c)
	}
	return res
}

func replayZipExtract(b Behaviour, opt *Options) *Failure {
	if len(b) < 2 {
		return nil
	}
	nm := zipNamingOf(opt.Variant)
	root, err := os.MkdirTemp("", "vh-zipfs-ex-")
	if err != nil {
		harnessFatal("%v", err)
	}
	defer os.RemoveAll(root)
	// the sandbox of ZipFs.tla: decoys /a /s/a /s/x/a, destination /s/x/dest
	x := filepath.Join(root, "s", "x")
	must(os.MkdirAll(x, 0o755))
	for _, d := range []string{root, filepath.Join(root, "s"), x} {
		must(os.WriteFile(filepath.Join(d, nm.real("a")), []byte(zipDecoyContent), 0o644))
	}
	dst := filepath.Join(x, nm.real("dest"))
	// (ZipImpl's states do not depend on destExists - UnzipToFolder creates dest first -, so
	// the emitted archives mostly carry destExists=true; the "odd" variant runs them all
	// against an absent destination.)
	if b[0].Bool("destExists") && !nm.dstFresh {
		must(os.Mkdir(dst, 0o755))
	}
	var entries []zipEntry
	var names []string
	for _, s := range b[1:] {
		if s.Str("op") != "Entry" {
			harnessFatal("expected Entry, got %q", s.Str("op"))
		}
		n := nm.realPath(anyStrings(s["segs"]))
		if s.Bool("slash") {
			n = "/" + n
		}
		if s.Bool("dir") {
			n += "/"
		}
		if nm.backslash {
			// the same archive as written by a tool that uses '\\' as separator: here a backslash is an ordinary
			// character of a file name, so every such entry names a file directly inside the destination
			n = strings.ReplaceAll(strings.TrimSuffix(n, "/"), "/", "\\")
		}
		entries = append(entries, zipEntry{name: n, dir: s.Bool("dir") && !nm.backslash, content: zipContent(10 + s.Int("content"))})
		names = append(names, n)
	}
	zipFile := filepath.Join(root, "arch.zip")
	zipWriteArchive(zipFile, entries)
	probe := newZipAbsProbe(names)
	dstArg := dst
	if nm.dstSlash {
		dstArg += "/"
	}
	before := zipSnapshot(root, dst)
	var uerr error
	panicked, pv := callPanics(func() { uerr = files.UnzipToFolder(zipFile, dstArg) })
	if opt.Extra["inject"] == "escape" {
		// self-test of the observation: pretend the library wrote next to dest
		must(os.WriteFile(filepath.Join(x, nm.real("b")), []byte("escaped\n"), 0o644))
	}
	after := zipSnapshot(root, dst)
	last := len(b) - 1
	ctx := map[string]any{"entries": names, "UnzipToFolder_err": errText(uerr)}
	if abs := probe.created(); len(abs) > 0 {
		ctx["created_absolute"] = abs
		return &Failure{Step: last, Sig: "zipfs: UnzipToFolder touched the file system outside the destination (absolute entry name taken literally)", Got: ctx}
	}
	if ch := zipOutsideChanges(zipDiff(before, after), root, dst); len(ch) > 0 {
		ctx["changes_outside_destination"] = ch
		return &Failure{Step: last, Sig: "zipfs: UnzipToFolder touched the file system outside the destination (" + ch[0].How + ")", Got: ctx}
	}
	// ---- drift only: ZipImpl.tla's prediction of the error and of the inside
	if panicked {
		return &Failure{Step: last, Kind: "drift", Sig: "zipfs: UnzipToFolder panicked on a hostile archive", Got: fmt.Sprint(pv)}
	}
	if b[last].Has("impl_err") && !nm.backslash {
		got, _ := zipScan(dst)
		pred := map[string][]byte{}
		for _, fr := range anyFileRecs(b[last]["impl_in"]) {
			pred[nm.realPath(fr.path)] = zipContent(10 + fr.content)
		}
		same := len(got) == len(pred) && (uerr != nil) == b[last].Bool("impl_err")
		for p, w := range pred {
			if g, ok := got[p]; !ok || !bytes.Equal(g, w) {
				same = false
			}
		}
		if !same {
			ctx["inside"] = keysOf(got)
			return &Failure{Step: last, Kind: "drift", Sig: "zipfs: extraction result inside dest differs from ZipImpl", Got: ctx,
				Want: map[string]any{"err": b[last].Bool("impl_err"), "inside": keysOf(pred)}}
		}
	}
	return nil
}

// ---------------------------------------------------------------- driver (code -> spec)

// zipNameGen produces file / directory names: plain, with spaces, dots (leading,
// trailing, doubled), unicode, long.
func zipRandName(r *rand.Rand) string {
	alpha := "abcdefghijklmnopqrstuvwxyzABCDEFGHIJKLMNOPQRSTUVWXYZ0123456789"
	word := func(n int) string {
		b := make([]byte, n)
		for i := range b {
			b[i] = alpha[r.Intn(len(alpha))]
		}
		return string(b)
	}
	uni := []string{"ü", "été", "日本語", "файл", "\U0001F600", "não", "ß"}
	switch r.Intn(14) {
	case 0:
		return word(1+r.Intn(3)) + " " + word(1+r.Intn(3))
	case 1:
		return "." + word(1+r.Intn(4))
	case 2:
		return word(1+r.Intn(3)) + ".." + word(1+r.Intn(3))
	case 3:
		return "..." + word(r.Intn(2))
	case 4:
		return word(1+r.Intn(3)) + "."
	case 5:
		return uni[r.Intn(len(uni))] + word(r.Intn(3))
	case 6:
		return word(1) + " " + uni[r.Intn(len(uni))] + "." + uni[r.Intn(len(uni))]
	case 7:
		return word(100 + r.Intn(100))
	case 8:
		return "-" + word(2)
	case 9:
		return word(1+r.Intn(2)) + "\\" + word(1) // a backslash is an ordinary character here
	case 10:
		return " " + word(2) + " "
	case 11:
		return ".. " + word(1) // starts with two dots but is not ".."
	}
	return word(1+r.Intn(8)) + []string{"", ".txt", ".tar.gz", ".go"}[r.Intn(4)]
}

var zipBigDone bool

func zipRandContent(r *rand.Rand) []byte {
	var n int
	switch k := r.Intn(100); {
	case k < 20:
		n = 0
	case k < 75:
		n = 1 + r.Intn(300)
	case k < 90:
		n = 32*1024 - 3 + r.Intn(7) // around the io.Copy buffer size
	case k < 98:
		n = 60000 + r.Intn(200000)
	default:
		n = 1<<20 + r.Intn(1<<19)
	}
	b := make([]byte, n)
	switch r.Intn(3) {
	case 0:
		r.Read(b)
	case 1: // compressible, with zip signatures inside
		pat := []byte("PK\x03\x04PK\x01\x02PK\x05\x06 lorem ipsum\n\x00")
		for i := range b {
			b[i] = pat[i%len(pat)]
		}
	default:
		r.Read(b[:n/2])
	}
	if r.Intn(3) == 0 {
		copy(b, zipMagics[r.Intn(len(zipMagics))])
	}
	return b
}

type zipIds struct {
	ids map[string]int
}

func (z *zipIds) of(s string) int {
	if z.ids == nil {
		z.ids = map[string]int{}
	}
	id, ok := z.ids[s]
	if !ok {
		id = len(z.ids) + 1
		z.ids[s] = id
	}
	return id
}

// path of real names -> path of name ids ("n<id>"; "." and ".." stay)
func (z *zipIds) path(real []string) []string {
	res := make([]string, len(real))
	for i, s := range real {
		if s == "." || s == ".." {
			res[i] = s
		} else {
			res[i] = fmt.Sprintf("n%d", z.of(s))
		}
	}
	return res
}

func splitRel(rel string) []string {
	if rel == "." || rel == "" {
		return []string{}
	}
	return strings.Split(filepath.ToSlash(rel), "/")
}

func driveZip(opt *Options) error {
	tw, err := NewTraceWriter(opt.Out)
	if err != nil {
		return err
	}
	defer tw.Close()
	rnd := rand.New(rand.NewSource(opt.Seed))
	maxFiles := 300
	if s, ok := opt.Extra["files"]; ok {
		fmt.Sscan(s, &maxFiles)
	}
	for t := 0; t < opt.N; t++ {
		if t%2 == 0 {
			driveZipRoundTrip(tw, rnd, maxFiles)
		} else {
			driveZipExtract(tw, rnd)
		}
	}
	return nil
}

// one random tree, one filter/recursive choice, ZipFolder + UnzipToFolder, and the
// events  Tree, File*, Dir*, Zip, Out*, End
type zipSrcFile struct {
	rel      string
	n        int
	selected bool // the filter and the recursive flag select it: the round trip will write it
}

func driveZipRoundTrip(tw *TraceWriter, rnd *rand.Rand, maxFiles int) {
	var srcFiles []zipSrcFile
	root, err := os.MkdirTemp("", "vh-zipfs-drt-")
	if err != nil {
		harnessFatal("%v", err)
	}
	defer os.RemoveAll(root)
	srcBase := []string{"src", "src dir", "src.d", "sröc", "d"}[rnd.Intn(5)]
	src := filepath.Join(root, srcBase)
	must(os.MkdirAll(src, 0o755))
	names, hashes := &zipIds{}, &zipIds{}
	// the source directory is sometimes given RELATIVE to the working directory, and names below it sometimes
	// repeat the source directory's own name (whole, as a prefix, in the middle)
	relSrc := rnd.Intn(3) == 0
	randName := func() string {
		if relSrc && rnd.Intn(4) == 0 || rnd.Intn(25) == 0 {
			return []string{srcBase, "meta" + srcBase + ".json", srcBase + "-old", "new " + srcBase, srcBase + "/x"}[rnd.Intn(4)]
		}
		return zipRandName(rnd)
	}

	// directories: depth 0..4 below src
	type dirT struct {
		path []string
		used map[string]bool
	}
	dirs := []*dirT{{path: nil, used: map[string]bool{}}}
	nd := rnd.Intn(25)
	for i := 0; i < nd; i++ {
		parent := dirs[rnd.Intn(len(dirs))]
		if len(parent.path) >= 4 {
			continue
		}
		n := randName()
		if parent.used[n] {
			continue
		}
		parent.used[n] = true
		d := &dirT{path: append(append([]string{}, parent.path...), n), used: map[string]bool{}}
		must(os.MkdirAll(filepath.Join(src, filepath.Join(d.path...)), 0o755))
		dirs = append(dirs, d)
	}
	nf := 0
	switch k := rnd.Intn(10); {
	case k == 0:
		nf = rnd.Intn(3)
	case k < 4:
		nf = rnd.Intn(40)
	default:
		nf = maxFiles/3 + rnd.Intn(maxFiles*2/3+1)
	}
	// the filter, as a pure function of the relative path
	fkind := rnd.Intn(6)
	bigRound := !zipBigDone // the round trip that carries the > 64 MiB file: no filter, recursive, at least one file
	if bigRound {
		fkind = 0
		if nf == 0 {
			nf = 1
		}
	}
	salt := rnd.Uint32()
	accept := func(rel []string) bool {
		switch fkind {
		case 1:
			return true
		case 2:
			return false
		case 3: // pseudo-random half
			h := sha256.Sum256([]byte(fmt.Sprint(salt, strings.Join(rel, "/"))))
			return h[0]&1 == 0
		case 4: // by suffix of the file name
			return strings.HasSuffix(rel[len(rel)-1], ".txt") || strings.HasSuffix(rel[len(rel)-1], ".")
		case 5: // by directory depth
			return len(rel)%2 == 1
		}
		return true // fkind 0: nil filter
	}
	recursive := rnd.Intn(3) != 0 || bigRound
	tw.Emit(map[string]any{"op": "Tree"})
	type fileT struct {
		rel  string
		hash int
	}
	nonEmpty := map[*dirT]bool{}
	for i := 0; i < nf; i++ {
		d := dirs[rnd.Intn(len(dirs))]
		if rnd.Intn(3) == 0 {
			d = dirs[0]
		}
		n := randName()
		if rnd.Intn(7) == 0 {
			// names that also occur AROUND the tree: the archive's own file name, the names of the directories involved
			n = []string{"arch.zip", "arch.zip", "src", "dest", "out", "Arch.zip", "arch.zip.bak"}[rnd.Intn(7)]
		}
		if d.used[n] {
			continue
		}
		d.used[n] = true
		nonEmpty[d] = true
		rel := append(append([]string{}, d.path...), n)
		content := zipRandContent(rnd)
		if !zipBigDone && i == 0 {
			// once per run: a file beyond 64 MiB (size limits and copy loops tend to sit at such round numbers);
			// zeros with a random tail compress instantly, and the tail is what a truncated copy loses
			zipBigDone = true
			content = make([]byte, 64<<20+1+rnd.Intn(4096))
			rnd.Read(content[len(content)-64:])
		}
		must(os.WriteFile(filepath.Join(src, filepath.Join(rel...)), content, 0o644))
		srcFiles = append(srcFiles, zipSrcFile{filepath.Join(rel...), len(content), accept(rel) && (recursive || len(rel) == 1)})
		h := sha256.Sum256(content)
		tw.Emit(map[string]any{"op": "File", "path": names.path(rel), "h": hashes.of(string(h[:])),
			"acc": accept(rel), "size": len(content)})
	}
	for _, d := range dirs[1:] {
		tw.Emit(map[string]any{"op": "Dir", "path": names.path(d.path)})
	}
	var filter func(string) bool
	if fkind != 0 {
		filter = func(p string) bool {
			if st, err := os.Stat(p); err == nil && st.IsDir() {
				return true
			}
			if ap, err := filepath.Abs(p); err == nil {
				p = ap
			}
			rel, err := filepath.Rel(src, p)
			if err != nil {
				return false
			}
			return accept(splitRel(rel))
		}
	}
	zipFile := filepath.Join(root, "arch.zip")
	dst := filepath.Join(root, "out", []string{"dest", "dest dir", "dest.d", "dést"}[rnd.Intn(4)])
	srcArg, dstArg := src, dst
	if rnd.Intn(2) == 0 {
		srcArg += "/"
	}
	if rnd.Intn(2) == 0 {
		dstArg += "/"
	}
	if rnd.Intn(2) == 0 {
		must(os.MkdirAll(dst, 0o755))
		if rnd.Intn(2) == 0 {
			// an earlier extraction is still there: files at the same paths, of the SAME LENGTH, with other content and a
			// newer modification time - the round trip must replace them
			later := time.Now().Add(time.Hour)
			for _, f := range srcFiles {
				if !f.selected || f.n > 1<<20 || rnd.Intn(3) == 0 {
					continue // (a left-over at a path the round trip does not write would be the harness's own "extra file")
				}
				p := filepath.Join(dst, f.rel)
				if os.MkdirAll(filepath.Dir(p), 0o755) != nil {
					continue
				}
				if os.WriteFile(p, bytes.Repeat([]byte{'#'}, f.n), 0o644) == nil {
					os.Chtimes(p, later, later)
				}
			}
		}
	}
	var zerr, uerr error
	if relSrc {
		// (the driver is sequential: nothing else in this process depends on the working directory)
		wd, err := os.Getwd()
		if err != nil {
			harnessFatal("getwd: %v", err)
		}
		must(os.Chdir(root))
		defer os.Chdir(wd)
		srcArg = strings.Replace(srcArg, root+string(filepath.Separator), []string{"", "./"}[rnd.Intn(2)], 1)
	}
	zp, zpv := callPanics(func() { zerr = files.ZipFolder(srcArg, zipFile, filter, recursive) })
	znames, _ := zipEntryNames(zipFile)
	probe := newZipAbsProbe(znames)
	up, upv := callPanics(func() { uerr = files.UnzipToFolder(zipFile, dstArg) })
	absCreated := probe.created()
	ev := map[string]any{"op": "Zip", "nil": fkind == 0, "rec": recursive, "fkind": fkind,
		"zip_err": errText(zerr), "unzip_err": errText(uerr)}
	if zp {
		ev["zip_panic"] = fmt.Sprint(zpv)
	}
	if up {
		ev["unzip_panic"] = fmt.Sprint(upv)
	}
	tw.Emit(ev)
	got, other := zipScan(dst)
	rels := keysOf(got)
	for _, rel := range rels {
		h := sha256.Sum256(got[rel])
		tw.Emit(map[string]any{"op": "Out", "kind": "file", "path": names.path(splitRel(rel)), "h": hashes.of(string(h[:])),
			"size": len(got[rel])})
	}
	for rel, m := range other {
		tw.Emit(map[string]any{"op": "Out", "kind": m, "path": names.path(splitRel(rel)), "h": 0})
	}
	for _, abs := range absCreated {
		// an entry name taken literally as an absolute path: certainly not a selected file below dest
		tw.Emit(map[string]any{"op": "Out", "kind": "absolute path outside dest", "path": []string{}, "h": 0, "real": abs})
	}
	tw.Emit(map[string]any{"op": "End", "n": len(got) + len(other)})
}

// one random hostile archive extracted into a sandbox with decoys on every level, and
// the events  Sandbox, Entry*, Changed*, Done
func driveZipExtract(tw *TraceWriter, rnd *rand.Rand) {
	root, err := os.MkdirTemp("", "vh-zipfs-dex-")
	if err != nil {
		harnessFatal("%v", err)
	}
	defer os.RemoveAll(root)
	names := &zipIds{}
	pool := []string{"vz-a", "vz b", "vz.c", "vz-ü", "..vz", "vz.."}
	depth := 1 + rnd.Intn(4)
	destName := "vz-dest"
	var destRel []string
	cur := root
	for i := 0; i < depth-1; i++ {
		n := "vz-l" + fmt.Sprint(i)
		destRel = append(destRel, n)
		cur = filepath.Join(cur, n)
	}
	must(os.MkdirAll(cur, 0o755))
	destRel = append(destRel, destName)
	dst := filepath.Join(cur, destName)
	// decoys on every level from the root down to dest's parent
	d := root
	for i := 0; i < depth; i++ {
		for _, n := range pool[:2+rnd.Intn(3)] {
			must(os.WriteFile(filepath.Join(d, n), []byte(zipDecoyContent), 0o644))
		}
		must(os.MkdirAll(filepath.Join(d, "vz-sub"), 0o755))
		must(os.WriteFile(filepath.Join(d, "vz-sub", pool[0]), []byte(zipDecoyContent), 0o644))
		if i < depth-1 {
			d = filepath.Join(d, destRel[i])
		}
	}
	if rnd.Intn(2) == 0 {
		must(os.MkdirAll(dst, 0o755))
		if rnd.Intn(2) == 0 {
			must(os.WriteFile(filepath.Join(dst, pool[0]), []byte("pre-existing\n"), 0o644))
		}
	}
	tw.Emit(map[string]any{"op": "Sandbox", "dest": names.path(destRel)})
	segPool := append([]string{"..", "..", "..", ".", destName, destName + "2", "vz-sub", "vz-l0", "vz-l1"}, pool...)
	ne := 1 + rnd.Intn(10)
	var entries []zipEntry
	var enames []string
	// symbolic-link entries: chains of links each of which looks harmless on its own (".", a sibling, ".." from one
	// level down), followed by a regular file reached through them; and the blunt ones (".." / absolute targets)
	addLink := func(name, target string) {
		entries = append(entries, zipEntry{name: name, link: target})
		enames = append(enames, name)
		tw.Emit(map[string]any{"op": "Entry", "slash": false, "dir": false, "segs": names.path(strings.Split(name, "/")), "name": name, "link": target})
	}
	addFile := func(name string) {
		entries = append(entries, zipEntry{name: name, content: []byte("via link\n")})
		enames = append(enames, name)
		tw.Emit(map[string]any{"op": "Entry", "slash": false, "dir": false, "segs": names.path(strings.Split(name, "/")), "name": name})
	}
	n1, n2, n3 := pool[rnd.Intn(3)], pool[3+rnd.Intn(3)], "vz-evil"
	switch rnd.Intn(8) {
	case 0: // x -> "." ; x/y -> ".." (lexically still inside) ; y/evil
		addLink(n1, ".")
		addLink(n1+"/"+n2, "..")
		addFile(n2 + "/" + n3)
	case 1: // the blunt ones
		addLink(n1, "..")
		addFile(n1 + "/" + n3)
		addLink(n2, root)
		addFile(n2 + "/" + n3)
	case 2: // through a directory entry and two links
		entries = append(entries, zipEntry{name: n2 + "/", dir: true})
		enames = append(enames, n2+"/")
		tw.Emit(map[string]any{"op": "Entry", "slash": false, "dir": true, "segs": names.path([]string{n2}), "name": n2 + "/"})
		addLink(n1, n2)
		addLink(n2+"/up", "../..")
		addFile(n1 + "/up/" + n3)
	case 3: // a link that replaces an existing decoy-named file inside dest, then a file written through it
		addLink(n1, "../"+pool[0])
		addFile(n1)
	}
	for i := 0; i < ne; i++ {
		var segs []string
		ups := 0
		for k, n := 0, 1+rnd.Intn(6); k < n; k++ {
			s := segPool[rnd.Intn(len(segPool))]
			if s == ".." {
				if ups == depth { // never aim above the sandbox root
					s = "."
				} else {
					ups++
				}
			}
			segs = append(segs, s)
		}
		slash := rnd.Intn(4) == 0
		dir := rnd.Intn(10) == 0
		n := strings.Join(segs, "/")
		if slash {
			n = "/" + n
		}
		if dir {
			n += "/"
		}
		entries = append(entries, zipEntry{name: n, dir: dir, content: []byte(fmt.Sprintf("entry %d\n", i)), deflate: !dir && rnd.Intn(2) == 0})
		enames = append(enames, n)
		tw.Emit(map[string]any{"op": "Entry", "slash": slash, "dir": dir, "segs": names.path(segs), "name": n})
	}
	zipFile := filepath.Join(root, "arch.zip")
	zipWriteArchive(zipFile, entries)
	probe := newZipAbsProbe(enames)
	dstArg := dst
	if rnd.Intn(2) == 0 {
		dstArg += "/"
	}
	before := zipSnapshot(root, "")
	var uerr error
	panicked, pv := callPanics(func() { uerr = files.UnzipToFolder(zipFile, dstArg) })
	after := zipSnapshot(root, "")
	for _, c := range zipDiff(before, after) {
		tw.Emit(map[string]any{"op": "Changed", "how": c.How, "path": names.path(splitRel(c.Path)), "real": c.Path})
	}
	for _, abs := range probe.created() {
		// an absolute entry name taken literally: a path that is certainly not under dest
		tw.Emit(map[string]any{"op": "Changed", "how": "create", "path": []string{"..", "absolute"}, "real": abs})
	}
	ev := map[string]any{"op": "Done", "err": uerr != nil, "err_text": errText(uerr)}
	if panicked {
		ev["panic"] = fmt.Sprint(pv)
	}
	tw.Emit(ev)
}
