module verif/harness

go 1.20

require (
	github.com/acquirecloud/golibs v0.0.0
	github.com/alicebob/miniredis/v2 v2.30.2
	github.com/go-redis/redis/v8 v8.11.5
	google.golang.org/grpc v1.55.0
)

require (
	github.com/alicebob/gopher-json v0.0.0-20200520072559-a9ecdc9d1d3a // indirect
	github.com/cespare/xxhash/v2 v2.2.0 // indirect
	github.com/dgryski/go-rendezvous v0.0.0-20200823014737-9f7001d12a5f // indirect
	github.com/edsrzf/mmap-go v1.1.0 // indirect
	github.com/ghodss/yaml v1.0.0 // indirect
	github.com/gobwas/glob v0.2.3 // indirect
	github.com/golang/protobuf v1.5.3 // indirect
	github.com/google/uuid v1.3.0 // indirect
	github.com/logrange/linker v0.0.0-20200625191800-a2d82c14f745 // indirect
	github.com/oklog/ulid/v2 v2.1.0 // indirect
	github.com/yuin/gopher-lua v1.1.0 // indirect
	golang.org/x/sys v0.6.0 // indirect
	google.golang.org/genproto v0.0.0-20230306155012-7f2fa6fef1f4 // indirect
	google.golang.org/protobuf v1.30.0 // indirect
	gopkg.in/yaml.v2 v2.4.0 // indirect
)

replace github.com/acquirecloud/golibs => /repo
