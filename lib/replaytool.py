"""bin/check <id> --replay <path>: re-run a recorded violation.

A replay file (written by Check.finish) lists violations.  A violation found by the spec -> code
direction carries the behaviour (call sequence with the replies the specification prescribes): it is
executed again on the real code built from /repo's current working tree.  A violation found by the
code -> spec direction carries the recorded history: it is validated again by TLC against the trace
specification named in the record (this shows the rejected event; it does not re-run the code).
Exit 1 if any recorded violation still shows, 0 if none does, 2 on machinery failure."""
import json
import os
import vcheck


def replay(pid, path):
    d = json.load(open(path))
    c = vcheck.Check(pid, "quick")
    c.build()
    still = 0
    for i, v in enumerate(d.get("violations", [])):
        det = v.get("detail") or {}
        if det.get("behaviour") and det.get("component"):
            p = c.path("replay", "b%d.ndjson" % i)
            open(p, "w").write(json.dumps(det["behaviour"]) + "\n")
            before = len(c.violations) + len(c.known)
            c.replay(det["component"], p, variant=det.get("variant") or "", extra=det.get("extra") or None)
            hit = len(c.violations) + len(c.known) > before
            vcheck.log("replay %d: %s -> %s" % (i, v["sig"], "STILL FAILS" if hit else "passes now"))
            still += 1 if hit else 0
        elif det.get("trace") and (det.get("history") or det.get("context")):
            t = det["trace"]
            lines = det.get("history") or det.get("context")
            p = c.path("replay", "t%d.ndjson" % i)
            open(p, "w").write("\n".join(lines) + "\n")
            cfg = c.write_cfg(t["comp"], "replay%d" % i, constants=t.get("constants") or None, postcondition="Accepted",
                              constraints=t.get("constraints") or ())
            ok, at, _ = c.validate_trace(t["comp"], t["module"], cfg, p, deque=t.get("deque", False))
            vcheck.log("replay %d: %s -> %s" % (i, v["sig"], "accepted now" if ok else "REJECTED at line %s: %s" % (at, lines[at - 1] if at and at <= len(lines) else "")))
            still += 0 if ok else 1
        else:
            vcheck.log("replay %d: %s (no re-executable payload recorded; see the file)" % (i, v["sig"]))
            still += 1
    vcheck.log("replayed %d recorded violation(s), %d still show" % (len(d.get("violations", [])), still))
    return 1 if still else 0
