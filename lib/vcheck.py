"""Shared machinery of the /verif checks (see DESIGN.md section 3).

A check is: build the Go harness against /repo's working tree (-tags verif),
run TLC on the TLA+ specification (model check + behaviour emission), replay
the emitted behaviours on the real code, drive the real code and let TLC
validate the recorded traces, then write evidence/<id>.json.

Exit codes: 0 held (possibly KNOWN-FINDING lines), 1 VIOLATION, 2 broken
machinery (build failure, SPEC-ERROR, tool crash, timeout).
"""
import atexit
import json
import os
import re
import shutil
import subprocess
import sys
import tempfile
import time
import threading
import traceback
import concurrent.futures as cf

VERIF = os.path.dirname(os.path.dirname(os.path.abspath(__file__)))
REPO = os.environ.get("VERIF_REPO", "/repo")
GOENV = {
    "GOFLAGS": "-mod=mod",
    "GOPROXY": "off",
    "GOSUMDB": "off",
    "GOTOOLCHAIN": "local",
}
NCPU = os.cpu_count() or 4


class Broken(Exception):
    """Machinery failure: exit 2, never a violation."""


def log(*a):
    print(*a, flush=True)


import itertools
_REPLAY_SEQ = itertools.count()



def _group_cpu_ticks(sid):
    """utime + stime (clock ticks) of all processes of session sid."""
    total = 0
    for pid in os.listdir("/proc"):
        if not pid.isdigit():
            continue
        try:
            st = open("/proc/%s/stat" % pid).read()
            f = st[st.rindex(")") + 2:].split()
            if int(f[3]) == sid:          # session id
                total += int(f[11]) + int(f[12])
        except (OSError, ValueError, IndexError):
            pass
    return total


def _run_watched(cmd, cwd, env, idle_limit=120):
    """Run cmd in a session of its own; kill it if the whole session uses (almost) no CPU for idle_limit seconds.
    Returns (returncode, output, hung)."""
    import signal
    import tempfile
    with tempfile.TemporaryFile(mode="w+", errors="replace") as fo:
        p = subprocess.Popen(cmd, cwd=cwd, env=env, stdout=fo, stderr=subprocess.STDOUT, text=True, start_new_session=True)
        last_ticks, last_move, hung = -1, time.time(), False
        while True:
            try:
                p.wait(timeout=5)
                break
            except subprocess.TimeoutExpired:
                pass
            ticks = _group_cpu_ticks(p.pid)
            if ticks > last_ticks + 20:          # more than 0.2 s of CPU since the last movement
                last_ticks, last_move = ticks, time.time()
            elif time.time() - last_move > idle_limit:
                hung = True
                try:
                    os.killpg(p.pid, signal.SIGKILL)
                except OSError:
                    pass
                p.wait()
                break
        fo.seek(0)
        return p.returncode, fo.read(), hung

class Check:
    def __init__(self, pid, tier, seed=None, level="model_checking"):
        self.pid = pid
        self.tier = tier
        self.seed = int(seed if seed is not None else os.environ.get("VERIF_SEED", "1") or 1)
        self.level = level
        self.t0 = time.time()
        self.scratch = tempfile.mkdtemp(prefix="verif-%s-" % pid)
        atexit.register(self.cleanup)
        self.vh = None
        self.states = 0          # distinct states over all TLC model-checking runs
        self.transitions = 0     # generated states (= transitions examined)
        self.tlc_runs = []
        self.traces_validated = 0
        self.behaviours_replayed = 0
        self.steps_replayed = 0
        self.samples = []
        self.violations = []     # dicts: sig, detail, replay
        self.known = []
        self.drift = 0
        self.assumptions = []
        self.extra = {}
        self.selftest = None
        self.exhaustive = False
        self.findings = load_known_findings()
        self._lock = threading.RLock()
        self.rule = "(check aborted before completion)"
        global CURRENT
        CURRENT = self

    # ------------------------------------------------------------------ util
    def cleanup(self):
        shutil.rmtree(self.scratch, ignore_errors=True)

    def path(self, *p):
        d = os.path.join(self.scratch, *p)
        os.makedirs(os.path.dirname(d), exist_ok=True)
        return d

    def quick(self):
        return self.tier == "quick"

    # ----------------------------------------------------------------- build
    def build(self):
        """Build vh from a scratch copy of the harness against /repo's working tree."""
        src = os.path.join(VERIF, "harness")
        dst = os.path.join(self.scratch, "harness")
        shutil.copytree(src, dst)
        gosum = os.path.join(REPO, "go.sum")
        if os.path.exists(gosum):
            shutil.copy(gosum, os.path.join(dst, "go.sum"))
        if REPO != "/repo":
            gm = os.path.join(dst, "go.mod")
            s = open(gm).read().replace("=> /repo", "=> " + REPO)
            open(gm, "w").write(s)
        env = dict(os.environ)
        env.update(GOENV)
        out = os.path.join(self.scratch, "vh")
        p = subprocess.run(["go", "build", "-tags", "verif", "-o", out, "./cmd/vh"],
                           cwd=dst, env=env, capture_output=True, text=True, timeout=900)
        if p.returncode != 0:
            raise Broken("harness build failed:\n" + p.stdout + p.stderr)
        self.vh = out
        return out

    def run_vh(self, args, timeout=1800, env_extra=None, ok_codes=(0,)):
        env = dict(os.environ)
        env.update(GOENV)
        if env_extra:
            env.update(env_extra)
        p = subprocess.run([self.vh] + [str(a) for a in args], capture_output=True, text=True,
                           timeout=timeout, env=env, cwd=self.scratch)
        if p.returncode not in ok_codes:
            raise Broken("vh %s failed (exit %d):\n%s\n%s" % (" ".join(map(str, args)), p.returncode,
                                                              p.stdout[-3000:], p.stderr[-3000:]))
        return p

    def run_vh_crashcheck(self, args, sig, timeout=600):
        """Run a driver whose scenario can take the whole PROCESS down when the library is broken (Go runtime
        'fatal error': concurrent map writes, stack overflow, ... cannot be recovered like a panic).  Such a death
        is the library's observable behaviour: it is reported as a violation with signature `sig`.  Any other
        failure of the driver is machinery trouble (Broken)."""
        env = dict(os.environ)
        env.update(GOENV)
        try:
            p = subprocess.run([self.vh] + [str(a) for a in args], capture_output=True, text=True, timeout=timeout,
                               env=env, cwd=self.scratch)
        except subprocess.TimeoutExpired:
            self.report_failure(sig + " (the scenario did not finish within %d s)" % timeout, {"args": [str(a) for a in args]})
            return None
        if p.returncode == 0:
            return p
        err = p.stderr or ""
        fatal = [l for l in err.splitlines() if l.startswith("fatal error:") or "stack overflow" in l or l.startswith("panic:")
                 or "SIGSEGV" in l or "SIGBUS" in l]
        if fatal or p.returncode < 0:
            self.report_failure(sig, {"args": [str(a) for a in args], "exit": p.returncode, "stderr_head": fatal[:3] or err.splitlines()[:3]})
            return None
        raise Broken("vh %s failed (exit %d):\n%s\n%s" % (" ".join(map(str, args)), p.returncode, p.stdout[-2000:], err[-2000:]))

    # ------------------------------------------------------------------ spec
    def specdir(self, comp):
        """Scratch copy of spec/common + spec/<comp> (TLC litters its directory)."""
        d = os.path.join(self.scratch, "spec-" + comp)
        with self._lock:
            if not os.path.isdir(d):
                os.makedirs(d)
                for sub in ("common", comp):
                    sd = os.path.join(VERIF, "spec", sub)
                    for f in os.listdir(sd):
                        if f.endswith(".tla") or f.endswith(".cfg"):
                            shutil.copy(os.path.join(sd, f), d)
        return d

    def write_cfg(self, comp, name, spec="Spec", constants=None, invariants=(), properties=(),
                  view=None, action_constraints=(), constraints=(), symmetry=None,
                  postcondition=None, deadlock=False, init=None, next_=None, raw=""):
        lines = []
        if init:
            lines += ["INIT " + init, "NEXT " + next_]
        else:
            lines.append("SPECIFICATION " + spec)
        if constants:
            lines.append("CONSTANTS")
            for k, v in constants.items():
                lines.append("  %s = %s" % (k, tla_val(v)) if not isinstance(v, Subst) else "  %s <- %s" % (k, v.name))
        if invariants:
            lines.append("INVARIANTS " + " ".join(invariants))
        for p in properties:
            lines.append("PROPERTY " + p)
        if view:
            lines.append("VIEW " + view)
        for c in action_constraints:
            lines.append("ACTION_CONSTRAINT " + c)
        for c in constraints:
            lines.append("CONSTRAINT " + c)
        if symmetry:
            lines.append("SYMMETRY " + symmetry)
        if postcondition:
            lines.append("POSTCONDITION " + postcondition)
        lines.append("CHECK_DEADLOCK " + ("TRUE" if deadlock else "FALSE"))
        if raw:
            lines.append(raw)
        p = os.path.join(self.specdir(comp), name + ".cfg")
        open(p, "w").write("\n".join(lines) + "\n")
        return p

    def tlc(self, comp, module, cfg, emit=None, trace=None, workers=None, timeout=600,
            simulate=None, depth=None, env_extra=None, count=True, deque=False, label=None,
            expect_ok=True, coverage=False):
        """Run TLC.  Returns dict(ok, generated, distinct, depth, out, rejected_at, error)."""
        d = self.specdir(comp)
        tag = label or (module + "-" + os.path.basename(cfg).replace(".cfg", ""))
        meta = os.path.join(self.scratch, "meta-" + tag + "-%d" % len(self.tlc_runs))
        env = dict(os.environ)
        jopts = "-Xss256m -Djava.io.tmpdir=" + self.scratch     # (TLC leaves an empty tlc-* directory per run in java.io.tmpdir)
        if deque:
            jopts += " -Dtlc2.tool.queue.IStateQueue=StateDeque"
        env["JAVA_TOOL_OPTIONS"] = (env.get("JAVA_TOOL_OPTIONS", "") + " " + jopts).strip()
        if emit:
            env["VERIF_EMIT"] = emit
            if os.path.exists(emit):
                os.remove(emit)
        if trace:
            env["VERIF_TRACE"] = trace
        if env_extra:
            env.update(env_extra)
        w = workers or min(NCPU, 8)
        cmd = ["timeout", str(timeout), "tlc", "-workers", str(w), "-metadir", meta,
               "-config", os.path.basename(cfg)]
        if simulate:
            cmd += ["-simulate", simulate]
            if depth:
                cmd += ["-depth", str(depth)]
            cmd += ["-seed", str(self.seed)]
        audit = bool(os.environ.get("VERIF_COVERAGE")) and not trace and not simulate
        if coverage or audit:
            cmd += ["-coverage", "1"]
        cmd.append(module + ".tla")
        t0 = time.time()
        # TLC 1.8.0 has been seen to hang for good (disk state queue: the TLCStatePoolWriter thread gone, every worker
        # waiting for it; once in some thousand runs, on an oversubscribed host).  A run whose whole process group uses
        # no CPU for two minutes is killed and started again; that is machinery, never a verdict.
        for attempt in range(3):
            rc, out, hung = _run_watched(cmd, d, env, idle_limit=120)
            shutil.rmtree(meta, ignore_errors=True)
            if not hung:
                break
            if emit and os.path.exists(emit):
                os.remove(emit)
        p = subprocess.CompletedProcess(cmd, rc)
        if hung:
            raise Broken("TLC run %s used no CPU for two minutes, three times in a row" % tag)
        shutil.rmtree(meta, ignore_errors=True)
        res = {"ok": False, "generated": 0, "distinct": 0, "depth": 0, "out": out,
               "rejected_at": None, "error": None, "wall_s": round(time.time() - t0, 2),
               "label": tag, "rc": p.returncode}
        m = re.search(r"(\d+) states generated, (\d+) distinct states found", out)
        if m:
            res["generated"], res["distinct"] = int(m.group(1)), int(m.group(2))
        m = re.search(r"depth of the complete state graph search is (\d+)", out)
        if m:
            res["depth"] = int(m.group(1))
        m = re.search(r'"TRACE-REJECTED-AT-LINE", (\d+)', out)
        if m:
            res["rejected_at"] = int(m.group(1))
        if audit:
            # vacuity audit (bin/coverage): actions never taken and spec expressions never evaluated in this run
            last = {}
            for ln in out.splitlines():
                m = re.match(r"<(\w+) line (\d+), col \d+ to line \d+, col \d+ of module (\w+)>: (\d+):(\d+)", ln)
                if m:
                    last[(m.group(3), m.group(1), int(m.group(2)))] = (int(m.group(4)), int(m.group(5)))
            zero = sorted("%s!%s@%d" % k for k, v in last.items() if v[1] == 0)
            nodistinct = sorted("%s!%s@%d" % k for k, v in last.items() if v[1] > 0 and v[0] == 0)
            with open(os.environ["VERIF_COVERAGE"], "a") as fh:
                fh.write(json.dumps({"check": self.pid, "tier": self.tier, "run": tag, "module": module, "actions": len(last),
                                     "never_taken": zero, "no_new_state": nodistinct}) + "\n")
        if p.returncode == 124:
            res["error"] = "timeout after %ds" % timeout
        elif "Model checking completed. No error has been found." in out or (
                simulate and p.returncode == 0):
            res["ok"] = True
        else:
            errs = [l for l in out.splitlines() if l.startswith("Error:") or "is violated" in l or "Exception" in l]
            res["error"] = "; ".join(errs[:4]) or ("tlc exit %d" % p.returncode)
        if count and res["ok"] and not simulate:
            self.states += res["distinct"]
            self.transitions += res["generated"]
        self.tlc_runs.append({k: res[k] for k in ("label", "generated", "distinct", "depth", "wall_s", "ok", "error")})
        if expect_ok and not res["ok"]:
            raise Broken("SPEC-ERROR: TLC run %s failed: %s\n%s" % (tag, res["error"], tail(out, 40)))
        return res

    def validate_trace(self, comp, module, cfg, trace, workers=1, deque=False, timeout=600, label=None):
        """TLC decides whether the recorded trace is a behaviour of the trace spec.
        Returns (accepted, rejected_at_line, res)."""
        res = self.tlc(comp, module, cfg, trace=trace, workers=workers, timeout=timeout,
                       count=False, deque=deque, expect_ok=False, label=label)
        if res["ok"]:
            return True, None, res
        if res["rejected_at"] is not None:
            return False, res["rejected_at"], res
        raise Broken("SPEC-ERROR: trace validation %s failed without a rejection line: %s\n%s"
                     % (module, res["error"], tail(res["out"], 40)))

    # ---------------------------------------------------------------- replay
    def replay(self, comp, emitted, variant="", extra=None, timeout=1800, label=None, workers=None):
        out = os.path.join(self.scratch, "replay-%s-%s-%d.json" % (comp, variant or "default", next(_REPLAY_SEQ)))   # unique under parallel()
        args = ["replay", comp, "-in", emitted, "-out", out, "-workers", workers or NCPU]
        if variant:
            args += ["-variant", variant]
        for k, v in (extra or {}).items():
            args += ["-x", "%s=%s" % (k, v)]
        self.run_vh(args, timeout=timeout)
        r = json.load(open(out))
        self.behaviours_replayed += r["distinct"]
        self.steps_replayed += r["steps"]
        self.drift += r.get("n_drift", 0)
        self.inconclusive = getattr(self, "inconclusive", 0) + r.get("n_inconclusive", 0)
        if r.get("samples") and len(self.samples) < 6:
            self.samples.append({"kind": "behaviour replayed on the real code (%s%s)" % (comp, "/" + variant if variant else ""),
                                 "steps": r["samples"][len(r["samples"]) // 2]})
        for f in r.get("failures") or []:
            if f.get("kind") in ("drift", "inconclusive"):
                continue
            self.report_failure(f["sig"], {"component": comp, "variant": variant, "step": f.get("step"),
                                           "got": f.get("got"), "want": f.get("want"),
                                           "behaviour": f.get("behaviour")})
        os.remove(out)
        return r

    # -------------------------------------------------------------- verdicts
    def report_failure(self, sig, detail):
        """A real-code observation the contract does not allow."""
        for kf in self.findings:
            if kf.get("status") == "known" and kf.get("property") == self.pid and re.search(kf["match"], sig):
                if not any(k["id"] == kf["id"] for k in self.known):
                    self.known.append({"id": kf["id"], "what": kf["what"], "count": 1})
                else:
                    [k for k in self.known if k["id"] == kf["id"]][0]["count"] += 1
                return
        if len(self.violations) < 200:
            self.violations.append({"sig": sig, "detail": detail})
        else:
            self.extra["violations_dropped"] = self.extra.get("violations_dropped", 0) + 1

    def finish(self, rule, coverage_extra=None):
        wall = round(time.time() - self.t0, 2)
        replay_path = None
        if self.violations:
            os.makedirs(os.path.join(VERIF, "replays"), exist_ok=True)
            replay_path = os.path.join(VERIF, "replays", "%s-%s-seed%d.json" % (self.pid, self.tier, self.seed))
            keep, per = [], {}
            for v in self.violations:
                per[v["sig"]] = per.get(v["sig"], 0) + 1
                if per[v["sig"]] <= 3 and len(keep) < 12:
                    keep.append(v)
            json.dump({"property": self.pid, "tier": self.tier, "seed": self.seed, "n_violations": len(self.violations),
                       "violations": keep}, open(replay_path, "w"), indent=1, default=str)
        cov = {
            "states": self.states,
            "transitions": self.transitions,
            "traces_validated_against_impl": self.behaviours_replayed + self.traces_validated,
            "behaviours_replayed": self.behaviours_replayed,
            "steps_replayed": self.steps_replayed,
            "recorded_traces_validated": self.traces_validated,
            "samples": self.samples[:6] or [{"note": "no behaviour reached the sampling stage"}],
            "rule": rule,
            "exhaustive": bool(self.exhaustive),
            "tlc_runs": self.tlc_runs[:60],
            "model_drift_warnings": self.drift,
            "inconclusive_not_judged": getattr(self, "inconclusive", 0),
        }
        if self.selftest is not None:
            cov["selftest"] = self.selftest
        if self.known:
            cov["known_findings_hit"] = self.known
        cov.update(self.extra)
        if coverage_extra:
            cov.update(coverage_extra)
        ev = {
            "property_id": self.pid,
            "tier": self.tier,
            "seed": self.seed,
            "level": self.level,
            "coverage": cov,
            "assumptions": self.assumptions,
            "wall_s": wall,
            "violations": len(self.violations),
        }
        os.makedirs(os.path.join(VERIF, "evidence"), exist_ok=True)
        json.dump(ev, open(os.path.join(VERIF, "evidence", self.pid + ".json"), "w"), indent=1, default=str)
        for k in self.known:
            log("KNOWN-FINDING: property=%s %s (x%d)" % (self.pid, k["what"], k["count"]))
        if self.violations:
            seen = set()
            for v in self.violations:
                if v["sig"] in seen:
                    continue
                seen.add(v["sig"])
                log("violation: %s" % v["sig"])
            log("VIOLATION property=%s replay=%s" % (self.pid, replay_path))
            return 1
        log("OK property=%s tier=%s seed=%d states=%d transitions=%d replayed=%d traces=%d wall=%.1fs"
            % (self.pid, self.tier, self.seed, self.states, self.transitions, self.behaviours_replayed,
               self.traces_validated, wall))
        return 0


CURRENT = None


class Subst:
    """cfg substitution CONST <- Name"""
    def __init__(self, name):
        self.name = name


def tla_val(v):
    if isinstance(v, bool):
        return "TRUE" if v else "FALSE"
    if isinstance(v, int):
        return str(v)
    if isinstance(v, str):
        return v            # model value / raw text; use q("..") for strings
    if isinstance(v, (set, frozenset)):
        return "{" + ", ".join(sorted((tla_val(x) for x in v), key=lambda s: (len(s), s))) + "}"
    if isinstance(v, (list, tuple)):
        return "{" + ", ".join(tla_val(x) for x in v) + "}"
    raise ValueError(v)


def q(s):
    return '"%s"' % s


def tail(s, n):
    return "\n".join(s.splitlines()[-n:])


def load_known_findings():
    p = os.path.join(VERIF, "known_findings.json")
    if not os.path.exists(p):
        return []
    return json.load(open(p)).get("findings", [])


def parallel(fns, max_workers=None):
    """Run thunks in threads (they spawn subprocesses); re-raise the first exception."""
    with cf.ThreadPoolExecutor(max_workers=max_workers or len(fns) or 1) as ex:
        futs = [ex.submit(f) for f in fns]
        return [f.result() for f in futs]


def count_lines(p):
    n = 0
    with open(p, "rb") as f:
        for _ in f:
            n += 1
    return n


def main(run):
    """Entry point used by bin/check: run(check) -> exit code; maps exceptions to exit 2."""
    try:
        rc = run()
    except BaseException as e:  # noqa: B902
        if isinstance(e, SystemExit):
            raise
        if isinstance(e, Broken):
            log("BROKEN: %s" % e)
        elif isinstance(e, subprocess.TimeoutExpired):
            log("BROKEN: timeout: %s" % e)
        else:
            log("BROKEN: unexpected exception in the check machinery:\n" + traceback.format_exc())
        # a violation of the real code that was already established stays a violation
        if CURRENT is not None and CURRENT.violations:
            CURRENT.extra["aborted"] = str(e)[:500]
            sys.exit(CURRENT.finish(rule=CURRENT.rule))
        sys.exit(2)
    sys.exit(rc)
